(* BuilderSafe.v -- the translator model never panics (region invariant of the block list) *)
From QV Require Import model.Base model.Lang model.Types model.Tir model.Ceval model.Builder proofs.BuilderInv.
From Coq Require Import Arith Lia.
Open Scope nat_scope.
Open Scope list_scope.

Definition nb (s : bstate) : nat := List.length (bs_blocks s).
Definition opened (s : bstate) (i : nat) : Prop := exists b, nth_error (bs_blocks s) i = Some b /\ b_term b = None.
(* every jump written so far targets an existing block *)
(* [i]: the index of the block that carries the terminator -- an unconditional jump never targets its own block *)
Definition tgt_ok (t : term) (k i : nat) : Prop := match t with TmBr l => l < k /\ l <> i | TmBrCond _ a c => a < k /\ c < k | _ => True end.
Definition TOk (s : bstate) : Prop := forall i b t, nth_error (bs_blocks s) i = Some b -> b_term b = Some t -> tgt_ok t (nb s) i.
Definition Good (s : bstate) : Prop := 1 <= nb s /\ opened s (nb s - 1) /\ TOk s.
Lemma tgt_ok_mono t k k' i : k <= k' -> tgt_ok t k i -> tgt_ok t k' i.
Proof. destruct t; cbn; intros; try tauto; lia. Qed.

(* relative to a base n: the blocks below n - 1 are untouched (same content), blocks are only appended, the current block is open, locals grow *)
Record RegB (n : nat) (s s' : bstate) : Prop := {
  g_good : Good s';
  g_len : nb s <= nb s';
  g_keep : forall i, i + 1 < n -> nth_error (bs_blocks s') i = nth_error (bs_blocks s) i;
  g_locals : exists suf, bs_locals s' = bs_locals s ++ suf }.

Lemma RegB_refl n s : Good s -> RegB n s s.
Proof. intros H. split; [exact H|lia|auto|exists []; rewrite app_nil_r; reflexivity]. Qed.
Lemma RegB_trans n s s1 s2 : RegB n s s1 -> RegB n s1 s2 -> RegB n s s2.
Proof.
  intros [G1 N1 K1 [l1 L1]] [G2 N2 K2 [l2 L2]]. split; [exact G2|lia| |exists (l1 ++ l2); rewrite L2, L1, app_assoc; reflexivity].
  intros i Hi. rewrite K2, K1; auto.
Qed.
Lemma RegB_weaken n m s s' : m <= n -> RegB n s s' -> RegB m s s'.
Proof. intros H [G N K L]. split; auto. intros i Hi. apply K. lia. Qed.
Lemma RegB_locals n s s' : RegB n s s' -> List.length (bs_locals s) <= List.length (bs_locals s').
Proof. intros [_ _ _ [l L]]. rewrite L, app_length. lia. Qed.
Lemma RegB_opened n s s' i : RegB n s s' -> i + 1 < n -> opened s i -> opened s' i.
Proof. intros [_ _ K _] Hi [b [Hb Ht]]. exists b. rewrite K by exact Hi. auto. Qed.

(* a computation that, from a good state with at least L locals, never panics and stays inside every region that contains the current block *)
Definition Safe (L : nat) {A} (m : M A) : Prop :=
  forall s n, Good s -> L <= List.length (bs_locals s) -> n <= nb s ->
    match m s with (P _, _) => False | (_, s') => RegB n s s' end.

Lemma Safe_ret L {A} (a : A) : Safe L (ret a).
Proof. intros s n G _ _. cbn. apply RegB_refl, G. Qed.
Lemma Good_diags s d : Good s -> Good {| bs_blocks := bs_blocks s; bs_locals := bs_locals s; bs_nparams := bs_nparams s; bs_diags := d; bs_exempt := bs_exempt s |}.
Proof. intros G. exact G. Qed.
Lemma Safe_fail L {A} d : Safe L (@fail A d).
Proof. intros s n G _ _. cbn. split; cbn; [exact G|unfold nb; cbn; lia|auto|exists []; rewrite app_nil_r; reflexivity]. Qed.
Lemma Safe_warn L d : Safe L (warn d).
Proof. intros s n G _ _. cbn. split; cbn; [exact G|unfold nb; cbn; lia|auto|exists []; rewrite app_nil_r; reflexivity]. Qed.
Lemma Safe_bind L {A B} (m : M A) (f : A -> M B) : Safe L m -> (forall a, Safe L (f a)) -> Safe L (mbind m f).
Proof.
  intros Hm Hf s n G HL Hn. unfold mbind. specialize (Hm s n G HL Hn). destruct (m s) as [[a| |x] s1]; try exact Hm.
  specialize (Hf a s1 n (g_good _ _ _ Hm)). pose proof (RegB_locals _ _ _ Hm). pose proof (g_len _ _ _ Hm).
  specialize (Hf ltac:(lia) ltac:(lia)). destruct (f a s1) as [[b| |x] s2]; try exact Hf; eapply RegB_trans; eassumption.
Qed.
Lemma Safe_attempt L {A} (m : M A) : Safe L m -> Safe L (attempt m).
Proof. intros Hm s n G HL Hn. unfold attempt. specialize (Hm s n G HL Hn). destruct (m s) as [[a| |x] s1]; exact Hm. Qed.
Lemma Safe_mono L L' {A} (m : M A) : L <= L' -> Safe L m -> Safe L' m.
Proof. intros H Hm s n G HL Hn. apply Hm; auto; lia. Qed.

Lemma Safe_current_ref L : Safe L current_ref.
Proof.
  intros s n G _ _. unfold current_ref. destruct G as [G1 G2]. unfold nb in *. destruct (bs_blocks s) eqn:E; [cbn in G1; lia|].
  apply RegB_refl. split; unfold nb; rewrite E; assumption.
Qed.
Lemma Safe_alloca L ty : Safe L (alloca ty).
Proof.
  intros s n G _ _. unfold alloca. destruct (tkind_eqb ty T_VOID); [apply RegB_refl, G|].
  split; cbn; [exact G|unfold nb; cbn; lia|auto|exists [ty]; reflexivity].
Qed.
Lemma Safe_mark_exempt L l : Safe L (mark_exempt l).
Proof. intros s n G _ _. cbn. split; cbn; [exact G|unfold nb; cbn; lia|auto|exists []; rewrite app_nil_r; reflexivity]. Qed.
Lemma Safe_visit_local_ref L l : l < L -> Safe L (visit_local_ref l).
Proof.
  intros Hl s n G HL _. unfold visit_local_ref. destruct (nth_error (bs_locals s) l) eqn:E; [apply RegB_refl, G|].
  apply nth_error_None in E. exfalso. lia.
Qed.

(* modifying one open block in place, keeping it open (push_statement, set_completion_value) *)
Lemma update_nth_same {A} (l : list A) i f x : nth_error l i = Some x -> nth_error (update_nth l i f) i = Some (f x).
Proof. revert i. induction l as [|y r IH]; intros [|i] H; cbn in *; try discriminate; [inversion H; reflexivity|auto]. Qed.

Lemma TOk_update s r b' loc np dg ex :
  TOk s -> (forall t, b_term b' = Some t -> tgt_ok t (nb s) r) ->
  TOk {| bs_blocks := update_nth (bs_blocks s) r (fun _ => b'); bs_locals := loc; bs_nparams := np; bs_diags := dg; bs_exempt := ex |}.
Proof.
  intros HT Hb i b t Hi Ht. unfold nb in *. cbn in *. rewrite update_nth_length.
  destruct (Nat.eq_dec r i) as [->|Hne].
  - destruct (nth_error (bs_blocks s) i) as [b0|] eqn:E0.
    + erewrite update_nth_same in Hi by exact E0. inversion Hi; subst. apply Hb, Ht.
    + exfalso. assert (Hn : nth_error (update_nth (bs_blocks s) i (fun _ => b')) i = None).
      { apply nth_error_None. rewrite update_nth_length. apply nth_error_None. exact E0. }
      rewrite Hn in Hi. discriminate.
  - rewrite update_nth_other in Hi by exact Hne. eapply HT; eassumption.
Qed.
Lemma TOk_same_blocks s s' : bs_blocks s' = bs_blocks s -> TOk s -> TOk s'.
Proof. intros B HT i b t Hi Ht. unfold nb. rewrite B in *. eapply HT; eassumption. Qed.

Lemma Good_same_blocks s s' : bs_blocks s' = bs_blocks s -> Good s -> Good s'.
Proof.
  intros B [G1 [G2 GT]]. split; [unfold nb in *; rewrite B; exact G1|]. split; [unfold nb, opened in *; rewrite B; exact G2|eapply TOk_same_blocks; eassumption].
Qed.

Lemma with_block_keep_open r site f s n b b' :
  Good s -> nth_error (bs_blocks s) r = Some b -> f b = inl b' -> b_term b' = None -> n <= r + 1 ->
  match with_block r site f s with (P _, _) => False | (_, s') => RegB n s s' end.
Proof.
  intros G Hb Hf Ht Hn. unfold with_block. rewrite Hb, Hf. cbn.
  assert (Hlen : nb {| bs_blocks := update_nth (bs_blocks s) r (fun _ => b'); bs_locals := bs_locals s; bs_nparams := bs_nparams s; bs_diags := bs_diags s; bs_exempt := bs_exempt s |} = nb s)
    by (unfold nb; cbn; apply update_nth_length).
  split; cbn.
  - destruct G as [G1 [[c [Hc Hct]] GT]]. split; [rewrite Hlen; exact G1|]. split.
    + rewrite Hlen. unfold opened. cbn.
      destruct (Nat.eq_dec r (nb s - 1)) as [->|Hne].
      * exists b'. split; [|exact Ht]. erewrite update_nth_same by exact Hb. reflexivity.
      * exists c. split; [|exact Hct]. rewrite update_nth_other by exact Hne. exact Hc.
    + apply TOk_update; [exact GT|]. intros t Hbt. rewrite Ht in Hbt. discriminate.
  - unfold nb; cbn. rewrite update_nth_length. lia.
  - intros i Hi. apply update_nth_other. lia.
  - exists []. rewrite app_nil_r. reflexivity.
Qed.

Lemma Safe_push_statement L st : Safe L (push_statement st).
Proof.
  intros s n G HL Hn. unfold push_statement, mbind. pose proof (Safe_current_ref L s n G HL Hn) as Hc.
  unfold current_ref in *. pose proof G as G0. destruct G as [G1 [[c [Hc1 Hc2]] GT]]. unfold nb in *. destruct (bs_blocks s) as [|b0 bl] eqn:E; [cbn in G1; lia|]. rewrite <- E in *.
  eapply with_block_keep_open with (b := c) (b' := {| b_stmts := b_stmts c ++ [st]; b_compl := b_compl c; b_term := None |}).
  - exact G0.
  - exact Hc1.
  - unfold b_push. rewrite Hc2. reflexivity.
  - reflexivity.
  - unfold nb in Hn. lia.
Qed.

Lemma Safe_set_completion L a : Safe L (visit_expression_statement a).
Proof.
  intros s n G HL Hn. unfold visit_expression_statement, mbind.
  unfold current_ref. pose proof G as G0. destruct G as [G1 [[c [Hc1 Hc2]] GT]]. unfold nb in *. destruct (bs_blocks s) as [|b0 bl] eqn:E; [cbn in G1; lia|]. rewrite <- E in *.
  eapply with_block_keep_open with (b := c) (b' := {| b_stmts := b_stmts c; b_compl := Some (ensure_concrete_string a); b_term := None |}).
  - exact G0.
  - exact Hc1.
  - unfold b_set_compl. rewrite Hc2. reflexivity.
  - reflexivity.
  - unfold nb in Hn. lia.
Qed.

Create HintDb safe.
#[export] Hint Resolve Safe_ret Safe_fail Safe_warn Safe_current_ref Safe_alloca Safe_mark_exempt Safe_push_statement Safe_set_completion : safe.

Ltac safe_step :=
  match goal with
  | |- Safe _ (mbind _ _) => apply Safe_bind; [|intros]
  | |- Safe _ (attempt _) => apply Safe_attempt
  | |- Safe _ (match ?x with _ => _ end) => destruct x eqn:?
  | |- Safe _ (if ?x then _ else _) => destruct x eqn:?
  | |- Safe _ (let _ := _ in _) => cbv zeta
  | |- Safe _ _ => solve [auto with safe]
  end.
Ltac safe_auto := repeat safe_step.

Section Simple.
  Variable L : nat.
  Lemma Safe_emit_result ty rv : Safe L (emit_result ty rv). Proof. unfold emit_result. safe_auto. Qed.
  Hint Resolve Safe_emit_result : safe.
  Lemma Safe_of_terr_op {A} e : Safe L (@of_terr_op A e). Proof. unfold of_terr_op. safe_auto. Qed.
  Hint Resolve Safe_of_terr_op : safe.
  Lemma Safe_m_deduce_concrete E l r : Safe L (m_deduce_concrete E l r). Proof. unfold m_deduce_concrete. safe_auto. Qed.
  Lemma Safe_m_to_concrete t : Safe L (m_to_concrete t). Proof. unfold m_to_concrete. safe_auto. Qed.
  Lemma Safe_of_cerr {A} e : Safe L (@of_cerr A e). Proof. unfold of_cerr. safe_auto. Qed.
  Hint Resolve Safe_m_deduce_concrete Safe_m_to_concrete Safe_of_cerr : safe.
  Lemma Safe_of_ceval r : Safe L (of_ceval r). Proof. unfold of_ceval. safe_auto. Qed.
  Lemma Safe_visit_integer n : Safe L (visit_integer n). Proof. unfold visit_integer. safe_auto. Qed.
  Hint Resolve Safe_of_ceval Safe_visit_integer : safe.
  Lemma Safe_deduce_elems E : forall rest t, Safe L (deduce_elems E t rest).
  Proof. induction rest as [|a r IH]; intros t; cbn [deduce_elems]; safe_auto; try apply IH. Qed.
  Hint Resolve Safe_deduce_elems : safe.
  Lemma Safe_visit_array E els : Safe L (visit_array E els). Proof. unfold visit_array. safe_auto. Qed.
  Lemma Safe_visit_local_declaration ty : Safe L (visit_local_declaration ty). Proof. unfold visit_local_declaration. safe_auto. Qed.
  Lemma Safe_visit_local_assignment E l rhs : l < L -> Safe L (visit_local_assignment E l rhs).
  Proof. intros Hl. unfold visit_local_assignment. safe_auto. apply Safe_visit_local_ref, Hl. Qed.
  Lemma Safe_visit_object_property o p : Safe L (visit_object_property o p). Proof. unfold visit_object_property. safe_auto. Qed.
  Lemma Safe_visit_object_property_assignment E o p r : Safe L (visit_object_property_assignment E o p r). Proof. unfold visit_object_property_assignment. safe_auto. Qed.
  Lemma Safe_check_object_subscript_type o i : Safe L (check_object_subscript_type o i). Proof. unfold check_object_subscript_type. safe_auto. Qed.
  Hint Resolve Safe_visit_array Safe_visit_local_declaration Safe_visit_object_property Safe_visit_object_property_assignment Safe_check_object_subscript_type : safe.
  Lemma Safe_visit_object_subscript o i : Safe L (visit_object_subscript o i). Proof. unfold visit_object_subscript. safe_auto. Qed.
  Lemma Safe_visit_object_subscript_assignment E o i r : Safe L (visit_object_subscript_assignment E o i r). Proof. unfold visit_object_subscript_assignment. safe_auto. Qed.
  Lemma Safe_visit_object_method_call E o c ms args : Safe L (visit_object_method_call E o c ms args). Proof. unfold visit_object_method_call. safe_auto. Qed.
  Lemma Safe_visit_builtin_call E f args : Safe L (visit_builtin_call E f args). Proof. unfold visit_builtin_call. safe_auto. Qed.
  Lemma Safe_emit_unary op a : Safe L (emit_unary op a). Proof. unfold emit_unary. safe_auto. Qed.
  Hint Resolve Safe_visit_object_subscript Safe_visit_object_subscript_assignment Safe_visit_object_method_call Safe_visit_builtin_call Safe_emit_unary : safe.
  Lemma Safe_visit_unary op a : Safe L (visit_unary op a). Proof. unfold visit_unary. safe_auto. Qed.
  Lemma Safe_emit_binary E op l r : binop_class op <> KLogical -> Safe L (emit_binary E op l r).
  Proof. intros H. unfold emit_binary. safe_auto. all: contradiction. Qed.
  Hint Resolve Safe_visit_unary : safe.
  Lemma Safe_visit_binary E op l r : binop_class op <> KLogical -> Safe L (visit_binary E op l r).
  Proof. intros H. unfold visit_binary. safe_auto. all: try contradiction. all: apply Safe_emit_binary; exact H. Qed.
  Lemma Safe_visit_as E v t : Safe L (visit_as E v t). Proof. unfold visit_as. safe_auto. Qed.
  Lemma Safe_check_condition_type a : Safe L (check_condition_type a). Proof. unfold check_condition_type. safe_auto. Qed.
  Lemma Safe_of_ref r n : Safe L (of_ref r n). Proof. unfold of_ref. safe_auto. Qed.
  Hint Resolve Safe_visit_as Safe_check_condition_type Safe_of_ref : safe.
  Lemma Safe_process_identifier E env ct n : Safe L (process_identifier E env ct n). Proof. unfold process_identifier. safe_auto. Qed.
  Lemma Safe_process_namespace_name k n : Safe L (process_namespace_name k n). Proof. unfold process_namespace_name. safe_auto. Qed.
  Lemma Safe_process_item_property E it n k : Safe L (process_item_property E it n k). Proof. unfold process_item_property. safe_auto. Qed.
  Lemma Safe_process_type_annotation E p : Safe L (process_type_annotation E p). Proof. unfold process_type_annotation. safe_auto. Qed.
End Simple.
#[export] Hint Resolve Safe_emit_result Safe_of_terr_op Safe_m_deduce_concrete Safe_m_to_concrete Safe_of_cerr Safe_of_ceval Safe_visit_integer Safe_deduce_elems
  Safe_visit_array Safe_visit_local_declaration Safe_visit_object_property Safe_visit_object_property_assignment Safe_check_object_subscript_type
  Safe_visit_object_subscript Safe_visit_object_subscript_assignment Safe_visit_object_method_call Safe_visit_builtin_call Safe_emit_unary Safe_visit_unary
  Safe_visit_as Safe_check_condition_type Safe_of_ref Safe_process_identifier Safe_process_namespace_name Safe_process_item_property Safe_process_type_annotation : safe.

(* ---- with a postcondition on the result ---- *)
Definition SafeQ (L : nat) {A} (m : M A) (Q : A -> Prop) : Prop :=
  forall s n, Good s -> L <= List.length (bs_locals s) -> n <= nb s ->
    match m s with (P _, _) => False | (V a, s') => RegB n s s' /\ Q a | (F, s') => RegB n s s' end.
Lemma SafeQ_of_Safe L {A} (m : M A) : Safe L m -> SafeQ L m (fun _ => True).
Proof. intros H s n G HL Hn. specialize (H s n G HL Hn). destruct (m s) as [[a| |x] s1]; auto. Qed.
Lemma Safe_of_SafeQ L {A} (m : M A) Q : SafeQ L m Q -> Safe L m.
Proof. intros H s n G HL Hn. specialize (H s n G HL Hn). destruct (m s) as [[a| |x] s1]; tauto. Qed.
Lemma SafeQ_bind L {A B} (m : M A) (f : A -> M B) Q R : SafeQ L m Q -> (forall a, Q a -> SafeQ L (f a) R) -> SafeQ L (mbind m f) R.
Proof.
  intros Hm Hf s n G HL Hn. unfold mbind. specialize (Hm s n G HL Hn). destruct (m s) as [[a| |x] s1]; try exact Hm.
  destruct Hm as [Hr Hq]. specialize (Hf a Hq s1 n (g_good _ _ _ Hr)). pose proof (RegB_locals _ _ _ Hr). pose proof (g_len _ _ _ Hr).
  specialize (Hf ltac:(lia) ltac:(lia)). destruct (f a s1) as [[b| |x] s2]; try exact Hf.
  - destruct Hf as [Hr2 Hq2]. split; [eapply RegB_trans; eassumption|exact Hq2].
  - eapply RegB_trans; eassumption.
Qed.
Lemma SafeQ_ret L {A} (a : A) (Q : A -> Prop) : Q a -> SafeQ L (ret a) Q.
Proof. intros Hq s n G _ _. cbn. split; [apply RegB_refl, G|exact Hq]. Qed.
Lemma SafeQ_weaken L {A} (m : M A) (Q R : A -> Prop) : (forall a, Q a -> R a) -> SafeQ L m Q -> SafeQ L m R.
Proof. intros H Hm s n G HL Hn. specialize (Hm s n G HL Hn). destruct (m s) as [[a| |x] s1]; auto. destruct Hm; auto. Qed.
Lemma SafeQ_safe_then L {A B} (m : M A) (f : A -> M B) R : Safe L m -> (forall a, SafeQ L (f a) R) -> SafeQ L (mbind m f) R.
Proof. intros Hm Hf. eapply SafeQ_bind; [apply SafeQ_of_Safe, Hm|intros a _; apply Hf]. Qed.

Definition envwf (L : nat) (env : lenv) : Prop := forall x l k, lenv_get env x = Some (l, k) -> l < L.
Definition interwf (L : nat) (i : inter) : Prop := match i with ILocal l _ => l < L | _ => True end.

Lemma SafeQ_fail L {A} d (Q : A -> Prop) : SafeQ L (@fail A d) Q.
Proof. intros s n G HL Hn. exact (@Safe_fail L A d s n G HL Hn). Qed.
Lemma SafeQ_trivial L {A} (m : M A) : Safe L m -> SafeQ L m (fun _ => True).
Proof. apply SafeQ_of_Safe. Qed.

Ltac safeq_step :=
  match goal with
  | |- SafeQ _ (ret _) _ => apply SafeQ_ret; cbn; try exact I
  | |- SafeQ _ (fail _) _ => apply SafeQ_fail
  | |- SafeQ _ (mbind _ _) _ => eapply SafeQ_safe_then; [solve [auto with safe]|intros]
  | |- SafeQ _ (match ?x with _ => _ end) _ => destruct x eqn:?
  | |- SafeQ _ (if ?x then _ else _) _ => destruct x eqn:?
  | |- SafeQ _ (let _ := _ in _) _ => cbv zeta
  end.
Ltac safeq_auto := repeat safeq_step.

Lemma SafeQ_of_ref L r n : SafeQ L (of_ref r n) (interwf L).
Proof. unfold of_ref. safeq_auto. Qed.
Lemma lookup_global_nonlocal L n i : lookup_global_name n = Some i -> interwf L i.
Proof. unfold lookup_global_name. repeat (destruct (String.eqb _ _)); intros H; inversion H; exact I. Qed.
Lemma SafeQ_process_identifier L E env ct n : match env with Some e => envwf L e | None => True end -> SafeQ L (process_identifier E env ct n) (interwf L).
Proof.
  intros Hw. unfold process_identifier.
  destruct (match env with Some e => lenv_get e n | None => None end) as [[l k]|] eqn:El.
  - apply SafeQ_ret. cbn. destruct env as [e|]; [eapply Hw; exact El|discriminate].
  - safeq_auto; try apply SafeQ_of_ref.
    all: repeat match goal with H : match ?c with _ => _ end = Some _ |- _ => destruct c; try discriminate H end.
    all: match goal with H : lookup_global_name _ = Some _ |- _ => eapply lookup_global_nonlocal; exact H end.
Qed.
Lemma SafeQ_process_namespace_name L k n : SafeQ L (process_namespace_name k n) (interwf L).
Proof. unfold process_namespace_name. safeq_auto. Qed.
Lemma SafeQ_process_item_property L E it n k : SafeQ L (process_item_property E it n k) (interwf L).
Proof. unfold process_item_property. safeq_auto. Qed.
Lemma Safe_to_rvalue L i : interwf L i -> Safe L (to_rvalue i).
Proof. intros H. unfold to_rvalue. destruct i; auto with safe. apply Safe_visit_local_ref. exact H. Qed.

(* ---- the label primitives, on states ---- *)
Lemma mark_spec s : Good s ->
  exists s', mark_branch_point s = (V (nb s - 1), s') /\ nb s' = nb s + 1 /\ Good s' /\ bs_locals s' = bs_locals s /\
             (forall i, i < nb s -> nth_error (bs_blocks s') i = nth_error (bs_blocks s) i).
Proof.
  intros [G1 [[c [Hc Ht]] GT]]. unfold mark_branch_point, mbind, current_ref, push_block, ret. unfold nb in *.
  destruct (bs_blocks s) as [|b0 bl] eqn:E; [cbn in G1; lia|]. rewrite <- E in *.
  eexists. split; [reflexivity|]. cbn. rewrite app_length. cbn. split; [reflexivity|]. split; [|split; [reflexivity|]].
  - unfold Good, nb, opened. cbn. rewrite app_length. cbn. split; [lia|]. split.
    + exists block0. split; [|reflexivity]. rewrite nth_error_app2 by lia. replace (_ - _) with 0 by lia. reflexivity.
    + intros i b t Hi Hbt. unfold nb. cbn in Hi |- *. rewrite app_length. cbn.
      destruct (Nat.lt_ge_cases i (List.length (bs_blocks s))) as [Hlt|Hge].
      * rewrite nth_error_app1 in Hi by exact Hlt. eapply tgt_ok_mono; [|eapply GT; eassumption]. unfold nb. lia.
      * rewrite nth_error_app2 in Hi by exact Hge. destruct (i - List.length (bs_blocks s)) as [|k]; cbn in Hi; [inversion Hi; subst; discriminate|destruct k; discriminate].
  - intros i Hi. apply nth_error_app1. exact Hi.
Qed.

Lemma opened_lt s i : opened s i -> i < nb s.
Proof. intros [b [Hb _]]. apply nth_error_Some. unfold nb. rewrite Hb. discriminate. Qed.

Lemma finalize_spec s r t : Good s -> opened s r -> r + 1 < nb s -> tgt_ok t (nb s) r ->
  exists s', finalize_at r t s = (V tt, s') /\ nb s' = nb s /\ Good s' /\ bs_locals s' = bs_locals s /\
             (forall i, i <> r -> nth_error (bs_blocks s') i = nth_error (bs_blocks s) i).
Proof.
  intros [G1 [[c [Hc Ht]] GT]] [b [Hb Hbt]] Hr Htg. unfold finalize_at, with_block. rewrite Hb. unfold b_finalize. rewrite Hbt. cbn.
  eexists. split; [reflexivity|]. split; [unfold nb; cbn; apply update_nth_length|]. split; [|split; [reflexivity|]].
  - unfold Good. split; [unfold nb in *; cbn; rewrite update_nth_length; lia|]. split.
    + unfold nb, opened in *. cbn. rewrite update_nth_length. exists c. split; [|exact Ht]. rewrite update_nth_other by lia. exact Hc.
    + apply TOk_update; [exact GT|]. cbn. intros t0 Ht0. inversion Ht0; subst. exact Htg.
  - intros i Hi. cbn. apply update_nth_other. lia.
Qed.

Lemma push_at_spec s r st : Good s -> opened s r ->
  exists s', push_statement_at r st s = (V tt, s') /\ nb s' = nb s /\ Good s' /\ bs_locals s' = bs_locals s /\ opened s' r /\
             (forall i, i <> r -> nth_error (bs_blocks s') i = nth_error (bs_blocks s) i).
Proof.
  intros [G1 [[c [Hc Ht]] GT]] [b [Hb Hbt]]. unfold push_statement_at, with_block. rewrite Hb. unfold b_push. rewrite Hbt. cbn.
  eexists. split; [reflexivity|]. split; [unfold nb; cbn; apply update_nth_length|]. split; [|split; [reflexivity|split]].
  - unfold Good. split; [unfold nb in *; cbn; rewrite update_nth_length; lia|]. split.
    + unfold nb, opened in *. cbn. rewrite update_nth_length. destruct (Nat.eq_dec r (List.length (bs_blocks s) - 1)) as [->|Hne].
      * eexists. split; [erewrite update_nth_same by exact Hb; reflexivity|reflexivity].
      * exists c. split; [|exact Ht]. rewrite update_nth_other by lia. exact Hc.
    + apply TOk_update; [exact GT|]. cbn. intros t0 Ht0. discriminate.
  - unfold opened. cbn. eexists. split; [erewrite update_nth_same by exact Hb; reflexivity|reflexivity].
  - intros i Hi. apply update_nth_other. lia.
Qed.

Lemma alloca_spec s ty : exists a s', alloca ty s = (V a, s') /\ bs_blocks s' = bs_blocks s /\ (exists suf, bs_locals s' = bs_locals s ++ suf).
Proof.
  unfold alloca. destruct (tkind_eqb ty T_VOID).
  - exists None, s. repeat split. exists []. rewrite app_nil_r. reflexivity.
  - eexists _, _. split; [reflexivity|]. cbn. split; [reflexivity|exists [ty]; reflexivity].
Qed.

Lemma opened_eq s s' i : nth_error (bs_blocks s') i = nth_error (bs_blocks s) i -> opened s i -> opened s' i.
Proof. intros H [b [Hb Ht]]. exists b. rewrite H. auto. Qed.

Lemma Good_fail_state s (d : dclass) : Good s ->
  Good {| bs_blocks := bs_blocks s; bs_locals := bs_locals s; bs_nparams := bs_nparams s; bs_diags := bs_diags s ++ [d]; bs_exempt := bs_exempt s |}.
Proof. intros G. exact G. Qed.

Lemma RegB_same_blocks n s s' : Good s -> bs_blocks s' = bs_blocks s -> (exists suf, bs_locals s' = bs_locals s ++ suf) -> RegB n s s'.
Proof.
  intros G B L. split.
  - destruct G as [G1 [G2 GT]]. split; [unfold nb in *; rewrite B; exact G1|]. split; [unfold nb, opened in *; rewrite B; exact G2|eapply TOk_same_blocks; eassumption].
  - unfold nb. rewrite B. apply le_n.
  - intros i _. rewrite B. reflexivity.
  - exact L.
Qed.

Lemma m_deduce_cases E l r s : (exists t, m_deduce_concrete E l r s = (V t, s)) \/
  (exists d, m_deduce_concrete E l r s = (F, {| bs_blocks := bs_blocks s; bs_locals := bs_locals s; bs_nparams := bs_nparams s; bs_diags := bs_diags s ++ [d]; bs_exempt := bs_exempt s |})).
Proof.
  unfold m_deduce_concrete. destruct (deduce_concrete_type E l r) as [t|e]; [left; exists t; reflexivity|right].
  destruct e; cbn; eexists; reflexivity.
Qed.

Lemma visit_ternary_safe E cond cr conseq qr alt ar s n :
  Good s -> opened s cr -> opened s qr -> opened s ar -> cr < qr -> qr < ar -> ar + 1 < nb s -> n <= cr + 1 ->
  match visit_ternary E cond cr conseq qr alt ar s with (P _, _) => False | (_, s') => RegB n s s' end.
Proof.
  intros G Oc Oq Oa Hcq Hqa Ha Hn. unfold visit_ternary. cbv zeta. unfold mbind at 1.
  destruct (m_deduce_cases E (operand_tdesc (ensure_concrete_string conseq)) (operand_tdesc (ensure_concrete_string alt)) s) as [[ty Ed]|[d Ed]]; rewrite Ed;
    [|apply RegB_same_blocks; [exact G|reflexivity|exists []; rewrite app_nil_r; reflexivity]].
  unfold mbind at 1. destruct (alloca_spec s ty) as (sink & s1 & E1 & B1 & [suf L1]). rewrite E1.
  assert (G1 : Good s1) by (eapply Good_same_blocks; [exact B1|exact G]).
  assert (N1 : nb s1 = nb s) by (unfold nb; rewrite B1; reflexivity).
  assert (O1 : forall i, opened s i -> opened s1 i) by (intros i; apply opened_eq; rewrite B1; reflexivity).
  unfold mbind at 1.
  destruct (finalize_spec s1 cr (TmBrCond cond (S cr) (S qr)) G1 (O1 _ Oc) ltac:(lia) ltac:(cbn; lia)) as (s2 & E2 & N2 & G2 & L2 & K2). rewrite E2.
  assert (Oq2 : opened s2 qr) by (apply (opened_eq s1); [apply K2; lia|apply O1, Oq]).
  assert (Oa2 : opened s2 ar) by (apply (opened_eq s1); [apply K2; lia|apply O1, Oa]).
  unfold mbind at 1.
  (* the conseq arm *)
  assert (exists s3, (match sink with Some sk => push_statement_at qr (TAssign (local_index sk) (RCopy (ensure_concrete_string conseq))) | None => ret tt end) s2 = (V tt, s3)
                     /\ nb s3 = nb s2 /\ Good s3 /\ bs_locals s3 = bs_locals s2 /\ opened s3 qr /\ (forall i, i <> qr -> nth_error (bs_blocks s3) i = nth_error (bs_blocks s2) i)) as (s3 & E3 & N3 & G3 & L3 & Oq3 & K3).
  { destruct sink as [sk|]; [apply push_at_spec; assumption|exists s2; exact (conj eq_refl (conj eq_refl (conj G2 (conj eq_refl (conj Oq2 (fun _ _ => eq_refl))))))]. }
  rewrite E3. unfold mbind at 1.
  destruct (finalize_spec s3 qr (TmBr (S ar)) G3 Oq3 ltac:(lia) ltac:(cbn; lia)) as (s4 & E4 & N4 & G4 & L4 & K4). rewrite E4.
  assert (Oa4 : opened s4 ar) by (apply (opened_eq s3); [apply K4; lia|apply (opened_eq s2); [apply K3; lia|exact Oa2]]).
  unfold mbind at 1.
  assert (exists s5, (match sink with Some sk => push_statement_at ar (TAssign (local_index sk) (RCopy (ensure_concrete_string alt))) | None => ret tt end) s4 = (V tt, s5)
                     /\ nb s5 = nb s4 /\ Good s5 /\ bs_locals s5 = bs_locals s4 /\ opened s5 ar /\ (forall i, i <> ar -> nth_error (bs_blocks s5) i = nth_error (bs_blocks s4) i)) as (s5 & E5 & N5 & G5 & L5 & Oa5 & K5).
  { destruct sink as [sk|]; [apply push_at_spec; assumption|exists s4; exact (conj eq_refl (conj eq_refl (conj G4 (conj eq_refl (conj Oa4 (fun _ _ => eq_refl))))))]. }
  rewrite E5. unfold mbind at 1.
  destruct (finalize_spec s5 ar (TmBr (S ar)) G5 Oa5 ltac:(lia) ltac:(cbn; lia)) as (s6 & E6 & N6 & G6 & L6 & K6). rewrite E6.
  cbn. split; [exact G6|lia| |exists suf; congruence].
  intros i Hi. rewrite K6, K5, K4, K3, K2 by lia. rewrite B1. reflexivity.
Qed.

Lemma visit_binary_logical_safe is_and lhs lr rhs rr s n :
  Good s -> opened s lr -> opened s rr -> lr < rr -> rr + 1 < nb s -> n <= lr + 1 ->
  tdesc_eqb (operand_tdesc lhs) (DConcrete T_BOOL) = true -> tdesc_eqb (operand_tdesc rhs) (DConcrete T_BOOL) = true ->
  match visit_binary_logical is_and lhs lr rhs rr s with (P _, _) => False | (_, s') => RegB n s s' end.
Proof.
  intros G Ol Or Hlr Hr Hn Tl Tr. unfold visit_binary_logical. rewrite Tl, Tr. cbn [andb negb]. cbv zeta. unfold mbind at 1.
  destruct (alloca_spec s T_BOOL) as (sink & s1 & E1 & B1 & [suf L1]). rewrite E1.
  assert (Hsk : exists sk, sink = Some sk).
  { unfold alloca in E1. change (tkind_eqb T_BOOL T_VOID) with false in E1. inversion E1. eexists. reflexivity. }
  destruct Hsk as [sk ->].
  assert (G1 : Good s1) by (eapply Good_same_blocks; [exact B1|exact G]).
  assert (N1 : nb s1 = nb s) by (unfold nb; rewrite B1; reflexivity).
  assert (O1 : forall i, opened s i -> opened s1 i) by (intros i; apply opened_eq; rewrite B1; reflexivity).
  unfold mbind at 1.
  destruct (push_at_spec s1 lr (TAssign (local_index sk) (RCopy (OConst (CBool (negb is_and))))) G1 (O1 _ Ol)) as (s2 & E2 & N2 & G2 & L2 & Ol2 & K2). rewrite E2.
  unfold mbind at 1.
  destruct (finalize_spec s2 lr (TmBrCond lhs (if is_and then S lr else S rr) (if is_and then S rr else S lr)) G2 Ol2 ltac:(lia) ltac:(cbn; destruct is_and; lia)) as (s3 & E3 & N3 & G3 & L3 & K3). rewrite E3.
  assert (Or3 : opened s3 rr) by (apply (opened_eq s2); [apply K3; lia|apply (opened_eq s1); [apply K2; lia|apply O1, Or]]).
  unfold mbind at 1.
  destruct (push_at_spec s3 rr (TAssign (local_index sk) (RCopy rhs)) G3 Or3) as (s4 & E4 & N4 & G4 & L4 & Or4 & K4). rewrite E4.
  unfold mbind at 1.
  destruct (finalize_spec s4 rr (TmBr (S rr)) G4 Or4 ltac:(lia) ltac:(cbn; lia)) as (s5 & E5 & N5 & G5 & L5 & K5). rewrite E5.
  cbn. split; [exact G5|lia| |exists suf; congruence].
  intros i Hi. rewrite K5, K4, K3, K2 by lia. rewrite B1. reflexivity.
Qed.

(* running a safe sub-computation from a good state *)
Lemma Safe_run L {A} (m : M A) s : Safe L m -> Good s -> L <= List.length (bs_locals s) ->
  match m s with (P _, _) => False | (_, s') => RegB (nb s) s s' end.
Proof. intros H G HL. apply H; auto. Qed.

Lemma RegB_nb_opened s s' i : RegB (nb s) s s' -> i + 1 < nb s -> opened s i -> opened s' i.
Proof. apply RegB_opened. Qed.

Lemma ternary_safe L E (mc ma mb : M operand) : Safe L mc -> Safe L ma -> Safe L mb ->
  SafeQ L (let! cond := mc in let! cond_label := mark_branch_point in let! conseq := ma in let! conseq_label := mark_branch_point in
          let! alt := mb in let! alt_label := mark_branch_point in let! _ := check_condition_type cond in
          let! it := visit_ternary E cond cond_label conseq conseq_label alt alt_label in ret (IItem it)) (interwf L).
Proof.
  intros Hc Ha Hb s n G HL Hn.
  unfold mbind at 1. pose proof (Safe_run L mc s Hc G HL) as R1. destruct (mc s) as [[cond| |x] s1]; [|eapply RegB_weaken; eassumption|exact R1].
  pose proof (g_good _ _ _ R1) as G1. pose proof (proj1 G1) as P1. pose proof (RegB_locals _ _ _ R1) as LL1. pose proof (g_len _ _ _ R1) as N1.
  unfold mbind at 1. destruct (mark_spec s1 G1) as (s2 & E2 & N2 & G2 & L2 & K2). rewrite E2.
  assert (M2 : List.length (bs_locals s2) = List.length (bs_locals s1)) by (rewrite L2; reflexivity).
  assert (R2 : RegB (nb s) s s2).
  { split; [exact G2|lia| |destruct (g_locals _ _ _ R1) as [suf Hs]; exists suf; congruence]. intros i Hi. rewrite K2 by lia. apply (g_keep _ _ _ R1). exact Hi. }
  set (cl := nb s1 - 1) in *.
  assert (Ocl2 : opened s2 cl). { pose proof G1 as [Ga [O _]]. apply (opened_eq s1); [apply K2; unfold cl; lia|exact O]. }
  unfold mbind at 1. pose proof (Safe_run L ma s2 Ha G2 ltac:(lia)) as R3. destruct (ma s2) as [[conseq| |x] s3]; [|eapply RegB_weaken; [exact Hn|eapply RegB_trans; [exact R2|eapply RegB_weaken; [|exact R3]; lia]]|exact R3].
  pose proof (g_good _ _ _ R3) as G3. pose proof (proj1 G3) as P3. pose proof (RegB_locals _ _ _ R3) as LL3. pose proof (g_len _ _ _ R3) as N3.
  assert (Ocl3 : opened s3 cl) by (eapply RegB_opened; [exact R3|unfold cl; lia|exact Ocl2]).
  unfold mbind at 1. destruct (mark_spec s3 G3) as (s4 & E4 & N4 & G4 & L4 & K4). rewrite E4.
  assert (M4 : List.length (bs_locals s4) = List.length (bs_locals s3)) by (rewrite L4; reflexivity).
  set (ql := nb s3 - 1) in *.
  assert (Ocl4 : opened s4 cl) by (apply (opened_eq s3); [apply K4; unfold cl; lia|exact Ocl3]).
  assert (Oql4 : opened s4 ql). { pose proof G3 as [Ga [O _]]. apply (opened_eq s3); [apply K4; unfold ql; lia|exact O]. }
  assert (R4 : RegB (nb s) s s4).
  { eapply RegB_trans; [exact R2|]. eapply RegB_trans; [eapply RegB_weaken; [|exact R3]; lia|].
    split; [exact G4|lia| |exists []; rewrite app_nil_r; exact L4]. intros i Hi. apply K4. lia. }
  unfold mbind at 1. pose proof (Safe_run L mb s4 Hb G4 ltac:(lia)) as R5. destruct (mb s4) as [[alt| |x] s5]; [|eapply RegB_weaken; [exact Hn|eapply RegB_trans; [exact R4|eapply RegB_weaken; [|exact R5]; lia]]|exact R5].
  pose proof (g_good _ _ _ R5) as G5. pose proof (proj1 G5) as P5. pose proof (RegB_locals _ _ _ R5) as LL5. pose proof (g_len _ _ _ R5) as N5.
  assert (Ocl5 : opened s5 cl) by (eapply RegB_opened; [exact R5|unfold cl; lia|exact Ocl4]).
  assert (Oql5 : opened s5 ql) by (eapply RegB_opened; [exact R5|unfold ql; lia|exact Oql4]).
  unfold mbind at 1. destruct (mark_spec s5 G5) as (s6 & E6 & N6 & G6 & L6 & K6). rewrite E6.
  assert (M6 : List.length (bs_locals s6) = List.length (bs_locals s5)) by (rewrite L6; reflexivity).
  set (al := nb s5 - 1) in *.
  assert (Ocl6 : opened s6 cl) by (apply (opened_eq s5); [apply K6; unfold cl; lia|exact Ocl5]).
  assert (Oql6 : opened s6 ql) by (apply (opened_eq s5); [apply K6; unfold ql; lia|exact Oql5]).
  assert (Oal6 : opened s6 al). { pose proof G5 as [Ga [O _]]. apply (opened_eq s5); [apply K6; unfold al; lia|exact O]. }
  assert (R6 : RegB (nb s) s s6).
  { eapply RegB_trans; [exact R4|]. eapply RegB_trans; [eapply RegB_weaken; [|exact R5]; lia|].
    split; [exact G6|lia| |exists []; rewrite app_nil_r; exact L6]. intros i Hi. apply K6. lia. }
  unfold mbind at 1.
  pose proof (Safe_check_condition_type L cond s6 (nb s) G6 ltac:(lia) ltac:(lia)) as R7.
  destruct (check_condition_type cond s6) as [[u| |x] s7] eqn:E7; [|eapply RegB_weaken; [exact Hn|eapply RegB_trans; eassumption]|exact R7].
  assert (B7 : bs_blocks s7 = bs_blocks s6).
  { unfold check_condition_type in E7. destruct (tdesc_eqb _ _); cbn in E7; inversion E7; reflexivity. }
  assert (G7 : Good s7) by (eapply Good_same_blocks; [exact B7|exact G6]).
  assert (N7 : nb s7 = nb s6) by (unfold nb; rewrite B7; reflexivity).
  assert (O7 : forall i, opened s6 i -> opened s7 i) by (intros i; apply opened_eq; rewrite B7; reflexivity).
  unfold mbind at 1.
  pose proof (visit_ternary_safe E cond cl conseq ql alt al s7 (nb s) G7 (O7 _ Ocl6) (O7 _ Oql6) (O7 _ Oal6) ltac:(unfold cl, ql; lia) ltac:(unfold ql, al; lia) ltac:(unfold al; lia) ltac:(unfold cl; lia)) as R8.
  destruct (visit_ternary E cond cl conseq ql alt al s7) as [[it| |x] s8]; [|eapply RegB_weaken; [exact Hn|eapply RegB_trans; [exact R6|eapply RegB_trans; eassumption]]|exact R8].
  cbn. split; [|exact I]. eapply RegB_weaken; [exact Hn|]. eapply RegB_trans; [exact R6|]. eapply RegB_trans; eassumption.
Qed.

Lemma check_condition_cases a s :
  (check_condition_type a s = (V tt, s) /\ tdesc_eqb (operand_tdesc a) (DConcrete T_BOOL) = true) \/
  (exists s', check_condition_type a s = (F, s') /\ bs_blocks s' = bs_blocks s /\ bs_locals s' = bs_locals s).
Proof.
  unfold check_condition_type. destruct (tdesc_eqb (operand_tdesc a) (DConcrete T_BOOL)); [left; auto|right].
  eexists. split; [reflexivity|]. cbn. auto.
Qed.

Lemma logical_safe L is_and (ml mr : M operand) : Safe L ml -> Safe L mr ->
  SafeQ L (let! lhs := ml in let! left_label := mark_branch_point in let! rhs := mr in let! right_label := mark_branch_point in
          let! _ := check_condition_type lhs in let! _ := check_condition_type rhs in
          let! it := visit_binary_logical is_and lhs left_label rhs right_label in ret (IItem it)) (interwf L).
Proof.
  intros Hl Hr s n G HL Hn.
  unfold mbind at 1. pose proof (Safe_run L ml s Hl G HL) as R1. destruct (ml s) as [[lhs| |x] s1]; [|eapply RegB_weaken; eassumption|exact R1].
  pose proof (g_good _ _ _ R1) as G1. pose proof (proj1 G1) as P1. pose proof (RegB_locals _ _ _ R1) as LL1. pose proof (g_len _ _ _ R1) as N1.
  unfold mbind at 1. destruct (mark_spec s1 G1) as (s2 & E2 & N2 & G2 & L2 & K2). rewrite E2.
  assert (M2 : List.length (bs_locals s2) = List.length (bs_locals s1)) by (rewrite L2; reflexivity).
  assert (R2 : RegB (nb s) s s2).
  { split; [exact G2|lia| |destruct (g_locals _ _ _ R1) as [suf Hs]; exists suf; congruence]. intros i Hi. rewrite K2 by lia. apply (g_keep _ _ _ R1). exact Hi. }
  set (ll := nb s1 - 1) in *.
  assert (Oll2 : opened s2 ll). { pose proof G1 as [Ga [O _]]. apply (opened_eq s1); [apply K2; unfold ll; lia|exact O]. }
  unfold mbind at 1. pose proof (Safe_run L mr s2 Hr G2 ltac:(lia)) as R3. destruct (mr s2) as [[rhs| |x] s3]; [|eapply RegB_weaken; [exact Hn|eapply RegB_trans; [exact R2|eapply RegB_weaken; [|exact R3]; lia]]|exact R3].
  pose proof (g_good _ _ _ R3) as G3. pose proof (proj1 G3) as P3. pose proof (RegB_locals _ _ _ R3) as LL3. pose proof (g_len _ _ _ R3) as N3.
  assert (Oll3 : opened s3 ll) by (eapply RegB_opened; [exact R3|unfold ll; lia|exact Oll2]).
  unfold mbind at 1. destruct (mark_spec s3 G3) as (s4 & E4 & N4 & G4 & L4 & K4). rewrite E4.
  assert (M4 : List.length (bs_locals s4) = List.length (bs_locals s3)) by (rewrite L4; reflexivity).
  set (rl := nb s3 - 1) in *.
  assert (Oll4 : opened s4 ll) by (apply (opened_eq s3); [apply K4; unfold ll; lia|exact Oll3]).
  assert (Orl4 : opened s4 rl). { pose proof G3 as [Ga [O _]]. apply (opened_eq s3); [apply K4; unfold rl; lia|exact O]. }
  assert (R4 : RegB (nb s) s s4).
  { eapply RegB_trans; [exact R2|]. eapply RegB_trans; [eapply RegB_weaken; [|exact R3]; lia|].
    split; [exact G4|lia| |exists []; rewrite app_nil_r; exact L4]. intros i Hi. apply K4. lia. }
  unfold mbind at 1.
  destruct (check_condition_cases lhs s4) as [[E5 T5]|(s5 & E5 & B5 & L5)]; rewrite E5.
  2:{ eapply RegB_weaken; [exact Hn|]. eapply RegB_trans; [exact R4|]. apply RegB_same_blocks; [exact G4|exact B5|exists []; rewrite app_nil_r; exact L5]. }
  unfold mbind at 1.
  destruct (check_condition_cases rhs s4) as [[E6 T6]|(s6 & E6 & B6 & L6)]; rewrite E6.
  2:{ eapply RegB_weaken; [exact Hn|]. eapply RegB_trans; [exact R4|]. apply RegB_same_blocks; [exact G4|exact B6|exists []; rewrite app_nil_r; exact L6]. }
  unfold mbind at 1.
  pose proof (visit_binary_logical_safe is_and lhs ll rhs rl s4 (nb s) G4 Oll4 Orl4 ltac:(unfold ll, rl; lia) ltac:(unfold rl; lia) ltac:(unfold ll; lia) T5 T6) as R7.
  destruct (visit_binary_logical is_and lhs ll rhs rl s4) as [[it| |x] s7]; [|eapply RegB_weaken; [exact Hn|eapply RegB_trans; eassumption]|exact R7].
  cbn. split; [|exact I]. eapply RegB_weaken; [exact Hn|]. eapply RegB_trans; eassumption.
Qed.

From QV Require Import model.Sem proofs.SemProofs proofs.ScopeProofs proofs.FrameProofs.

Lemma Safe_rv L (m : M inter) : SafeQ L m (interwf L) -> Safe L (let! i := m in to_rvalue i).
Proof. intros H. eapply Safe_of_SafeQ. eapply SafeQ_bind; [exact H|]. intros i Hi. apply SafeQ_of_Safe, Safe_to_rvalue, Hi. Qed.

Lemma Safe_go L (w : expr -> M inter) l : Forall (fun x => SafeQ L (w x) (interwf L)) l ->
  Safe L ((fix go (l : list expr) : M (list operand) :=
             match l with [] => ret [] | x :: r => let! a := (let! i := w x in to_rvalue i) in let! rest := go r in ret (a :: rest) end) l).
Proof.
  induction 1 as [|x r Hx Hr IH]; [apply Safe_ret|].
  apply Safe_bind; [apply Safe_rv, Hx|intros a]. apply Safe_bind; [exact IH|intros; apply Safe_ret].
Qed.

Theorem walk_expr_safe E env L : envwf L env -> forall e, SafeQ L (walk_expr E env e) (interwf L).
Proof.
  intros Hw. apply expr_ind'; intros; cbn [walk_expr].
  - apply SafeQ_process_identifier. exact Hw.
  - safeq_auto.
  - safeq_auto.
  - safeq_auto.
  - safeq_auto.
  - safeq_auto.
  - safeq_auto.
  - eapply SafeQ_safe_then; [apply (Safe_go L (walk_expr E env)); assumption|intros]. safeq_auto.
  - safeq_auto.
  - eapply SafeQ_bind; [eassumption|intros io Hio]. destruct io; cbn [interwf] in Hio.
    + apply SafeQ_process_item_property.
    + eapply SafeQ_safe_then; [apply Safe_visit_local_ref, Hio|intros; apply SafeQ_process_item_property].
    + eapply SafeQ_safe_then; [auto with safe|intros; apply SafeQ_process_item_property].
    + eapply SafeQ_safe_then; [auto with safe|intros; apply SafeQ_process_item_property].
    + safeq_auto.
    + safeq_auto.
    + apply SafeQ_process_namespace_name.
    + apply SafeQ_process_identifier. exact I.
  - eapply SafeQ_bind; [eassumption|intros io Hio].
    eapply SafeQ_safe_then.
    + destruct io; cbn [interwf] in Hio; safe_auto. apply Safe_visit_local_ref, Hio.
    + intros ok. eapply SafeQ_safe_then; [apply Safe_rv; assumption|intros]. safeq_auto.
  - eapply SafeQ_safe_then; [apply (Safe_go L (walk_expr E env)); assumption|intros args'].
    eapply SafeQ_bind; [eassumption|intros fi Hfi]. destruct fi; safeq_auto.
  - eapply SafeQ_safe_then; [apply Safe_rv; assumption|intros rhs].
    eapply SafeQ_bind; [eassumption|intros li Hli]. destruct li as [a0|lo k0|a0 p0 r0|a0 i0 k0|a0 c0 ms0|f0|k0|t0]; cbn [interwf] in Hli; safeq_auto.
    all: eapply SafeQ_safe_then; [first [apply Safe_visit_local_assignment; exact Hli|auto with safe]|intros; safeq_auto].
  - eapply SafeQ_safe_then; [apply Safe_rv; assumption|intros arg]. safeq_auto.
  - destruct (bop_of op) as [b|]; [|safeq_auto]. destruct (binop_class b) eqn:Eb.
    4:{ apply logical_safe; apply Safe_rv; assumption. }
    all: (eapply SafeQ_safe_then; [apply Safe_rv; assumption|intros lhs]; eapply SafeQ_safe_then; [apply Safe_rv; assumption|intros rhs];
          eapply SafeQ_safe_then; [apply Safe_visit_binary; rewrite Eb; discriminate|intros; safeq_auto]).
  - eapply SafeQ_safe_then; [apply Safe_rv; assumption|intros v']. safeq_auto.
  - apply ternary_safe; apply Safe_rv; assumption.
Qed.

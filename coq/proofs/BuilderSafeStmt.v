From QV Require Import model.Sem proofs.SemProofs proofs.ScopeProofs proofs.FrameProofs.
From QV Require Import model.Base model.Lang model.Types model.Tir model.Ceval model.Builder proofs.BuilderInv.
From QV Require Import proofs.BuilderSafe.
From Coq Require Import Arith Lia.
Open Scope nat_scope.
Open Scope list_scope.

Definition nloc (s : bstate) : nat := List.length (bs_locals s).
Definition StmtPost (n : nat) (st : bstate) (r : out sres * bstate) : Prop :=
  match r with
  | (P _, _) => False
  | (V (ok, env'), st') => RegB n st st' /\ envwf (nloc st') env'
  | (F, st') => RegB n st st'
  end.
(* [bk]: the labels a break may jump to are below bk (0 when there is none) *)
Definition bound_of (brk : option nat) : nat := match brk with Some x => S (S x) | None => 0 end.
Definition SafeS (env : lenv) (bk : nat) (m : M sres) : Prop :=
  forall st n, Good st -> envwf (nloc st) env -> bk <= nb st -> n <= nb st -> StmtPost n st (m st).

Lemma envwf_mono L L' env : envwf L env -> L <= L' -> envwf L' env.
Proof. intros H Hl x l k Hx. specialize (H x l k Hx). lia. Qed.
Lemma RegB_nloc n s s' : RegB n s s' -> nloc s <= nloc s'.
Proof. apply RegB_locals. Qed.

(* a Safe computation whose result is (b, env) for the env we started with *)
Lemma SafeS_of_Safe env bk (m : M sres) : (forall L, envwf L env -> Safe L m) -> (forall st a st', m st = (V a, st') -> snd a = env) -> SafeS env bk m.
Proof.
  intros Hs Hr st n G Hw _ Hn. specialize (Hs (nloc st) Hw st n G (le_n _) Hn). unfold StmtPost.
  destruct (m st) as [[[ok env']| |x] st'] eqn:E; auto. split; [exact Hs|].
  specialize (Hr _ _ _ E). cbn in Hr. subst env'. eapply envwf_mono; [exact Hw|]. eapply RegB_nloc. exact Hs.
Qed.

Lemma Safe_sfail L env : Safe L (sfail env). Proof. apply Safe_ret. Qed.
#[export] Hint Resolve Safe_sfail : safe.

Lemma finalize_current_push_spec t s n : Good s -> n <= nb s -> tgt_ok t (nb s) (nb s - 1) ->
  match (let! r := current_ref in let! _ := finalize_at r t in push_block) s with (P _, _) => False | (_, s') => RegB n s s' end.
Proof.
  intros G Hn Htg. pose proof G as [G1 [[c [Hc Hct]] GT]].
  unfold mbind at 1. unfold current_ref. unfold nb in *. destruct (bs_blocks s) as [|b0 bl] eqn:Eb; [cbn in G1; lia|]. rewrite <- Eb in *.
  unfold mbind at 1. unfold finalize_at, with_block. rewrite Hc. unfold b_finalize. rewrite Hct. cbn.
  split; cbn.
  - unfold Good. split; [unfold nb; cbn; rewrite app_length, update_nth_length; cbn; lia|]. split.
    + unfold nb, opened. cbn. rewrite app_length, update_nth_length. cbn. exists block0. split; [|reflexivity].
      rewrite nth_error_app2 by (rewrite update_nth_length; lia). rewrite update_nth_length. replace (_ - _) with 0 by lia. reflexivity.
    + intros i b t0 Hi Hbt. unfold nb. cbn in Hi |- *. rewrite app_length, update_nth_length. cbn.
      destruct (Nat.lt_ge_cases i (List.length (bs_blocks s))) as [Hlt|Hge].
      * rewrite nth_error_app1 in Hi by (rewrite update_nth_length; exact Hlt).
        destruct (Nat.eq_dec (List.length (bs_blocks s) - 1) i) as [Heq|Hne].
        -- subst i. erewrite update_nth_same in Hi by exact Hc. inversion Hi; subst. cbn in Hbt. inversion Hbt; subst.
           eapply tgt_ok_mono; [|exact Htg]. lia.
        -- rewrite update_nth_other in Hi by exact Hne. eapply tgt_ok_mono; [|eapply GT; eassumption]. unfold nb. lia.
      * rewrite nth_error_app2 in Hi by (rewrite update_nth_length; exact Hge). rewrite update_nth_length in Hi.
        destruct (i - List.length (bs_blocks s)) as [|k]; cbn in Hi; [inversion Hi; subst; discriminate|destruct k; discriminate].
  - unfold nb. cbn. rewrite app_length, update_nth_length. lia.
  - intros i Hi. rewrite nth_error_app1 by (rewrite update_nth_length; lia). apply update_nth_other. lia.
  - exists []. rewrite app_nil_r. reflexivity.
Qed.
Lemma Safe_visit_return L v : Safe L (visit_return v). Proof. intros s n G _ Hn. apply finalize_current_push_spec; [exact G|exact Hn|exact I]. Qed.
#[export] Hint Resolve Safe_visit_return : safe.

(* ---- postconditions that see the final state ---- *)
Definition SafeQS (L : nat) {A} (m : M A) (Q : A -> bstate -> Prop) : Prop :=
  forall s n, Good s -> L <= nloc s -> n <= nb s ->
    match m s with (P _, _) => False | (V a, s') => RegB n s s' /\ Q a s' | (F, s') => RegB n s s' end.
Lemma SafeQS_bind L {A B} (m : M A) (f : A -> M B) (R : B -> bstate -> Prop) : Safe L m -> (forall a, SafeQS L (f a) R) -> SafeQS L (mbind m f) R.
Proof.
  intros Hm Hf s n G HL Hn. unfold mbind. specialize (Hm s n G HL Hn). destruct (m s) as [[a| |x] s1]; try exact Hm.
  specialize (Hf a s1 n (g_good _ _ _ Hm)). pose proof (RegB_locals _ _ _ Hm). pose proof (g_len _ _ _ Hm). unfold nloc in *.
  specialize (Hf ltac:(lia) ltac:(lia)). destruct (f a s1) as [[b| |x] s2]; try exact Hf.
  - destruct Hf as [Hr2 Hq2]. split; [eapply RegB_trans; eassumption|exact Hq2].
  - eapply RegB_trans; eassumption.
Qed.
Lemma SafeQS_fail L {A} d (Q : A -> bstate -> Prop) : SafeQS L (@fail A d) Q.
Proof. intros s n G HL Hn. exact (@Safe_fail L A d s n G HL Hn). Qed.

Lemma visit_local_declaration_safe L ty : SafeQS L (visit_local_declaration ty) (fun l s' => l < nloc s').
Proof.
  intros s n G HL Hn. unfold visit_local_declaration, mbind, alloca. destruct (tkind_eqb ty T_VOID).
  - exact (@Safe_fail L nat XUnsupportedType s n G HL Hn).
  - cbn. split.
    + split; cbn; [exact G|unfold nb; cbn; lia|auto|exists [ty]; reflexivity].
    + unfold nloc. cbn. rewrite app_length. cbn. lia.
Qed.

Lemma visit_if_safe cond cr qr ar s n :
  Good s -> opened s cr -> opened s qr -> cr < qr -> n <= cr + 1 ->
  match ar with Some a => opened s a /\ qr < a /\ a + 1 < nb s | None => qr + 1 < nb s end ->
  match visit_if cond cr qr ar s with (P _, _) => False | (_, s') => RegB n s s' end.
Proof.
  intros G Oc Oq Hcq Hn Ha. unfold visit_if. unfold mbind at 1.
  assert (Hq : qr + 1 < nb s) by (destruct ar as [a|]; [destruct Ha as (_ & ? & ?); lia|exact Ha]).
  destruct (finalize_spec s cr (TmBrCond cond (S cr) (S qr)) G Oc ltac:(lia) ltac:(cbn; lia)) as (s1 & E1 & N1 & G1 & L1 & K1). rewrite E1.
  assert (Oq1 : opened s1 qr) by (apply (opened_eq s); [apply K1; lia|exact Oq]).
  cbv zeta. unfold mbind at 1.
  destruct (finalize_spec s1 qr (TmBr (S match ar with Some a => a | None => qr end)) G1 Oq1 ltac:(lia) ltac:(cbn; destruct ar as [a0|]; [destruct Ha as (_ & ? & ?)|]; lia)) as (s2 & E2 & N2 & G2 & L2 & K2). rewrite E2.
  destruct ar as [a|].
  - destruct Ha as (Oa & Hqa & Han).
    assert (Oa2 : opened s2 a) by (apply (opened_eq s1); [apply K2; lia|apply (opened_eq s); [apply K1; lia|exact Oa]]).
    destruct (finalize_spec s2 a (TmBr (S a)) G2 Oa2 ltac:(lia) ltac:(cbn; lia)) as (s3 & E3 & N3 & G3 & L3 & K3). rewrite E3.
    split; [exact G3|lia| |exists []; rewrite app_nil_r; congruence].
    intros i Hi. rewrite K3, K2, K1 by lia. reflexivity.
  - cbn. split; [exact G2|lia| |exists []; rewrite app_nil_r; congruence].
    intros i Hi. rewrite K2, K1 by lia. reflexivity.
Qed.

Section Stmts.
  Variable E : cenv.

  Lemma SafeS_expr env brk e : SafeS env (bound_of brk) (walk_stmt E env brk (SExpr e)).
  Proof.
    apply SafeS_of_Safe.
    - intros L Hw. cbn [walk_stmt]. apply Safe_bind; [apply Safe_attempt, Safe_rv, walk_expr_safe, Hw|intros v]. destruct v; safe_auto.
    - intros st a st' H. exact (walk_stmt_no_leak (SExpr e) E env brk eq_refl st a st' H).
  Qed.

  Lemma SafeS_break env brk l : SafeS env (bound_of brk) (walk_stmt E env brk (SBreak l)).
  Proof.
    intros st n G Hw Hb Hn. cbn [walk_stmt].
    assert (Hfail : forall d, StmtPost n st ((let! _ := attempt (fail (A:=unit) d) in sfail env) st)).
    { intros d. cbn. split; [|exact Hw]. apply RegB_same_blocks; [exact G|reflexivity|exists []; rewrite app_nil_r; reflexivity]. }
    destruct l; [apply Hfail|]. destruct brk as [x|]; [|apply Hfail].
    unfold mbind at 1. cbn [bound_of] in Hb.
    pose proof (finalize_current_push_spec (TmBr x) st n G Hn ltac:(cbn; lia)) as R. fold (visit_break x) in R.
    destruct (visit_break x st) as [[u| |y] s1]; [| |exact R].
    - cbn. split; [exact R|]. eapply envwf_mono; [exact Hw|eapply RegB_locals, R].
    - exact R.
  Qed.
  Lemma SafeS_return env brk e : SafeS env (bound_of brk) (walk_stmt E env brk (SReturn e)).
  Proof.
    apply SafeS_of_Safe.
    - intros L Hw. cbn [walk_stmt]. apply Safe_bind; [destruct e; [apply Safe_attempt, Safe_rv, walk_expr_safe, Hw|apply Safe_ret]|intros v]. destruct v; safe_auto.
    - intros st a st' H. exact (walk_stmt_no_leak (SReturn e) E env brk eq_refl st a st' H).
  Qed.
  Lemma decl_head_safe L k env (value : option expr) (ty : option (list string)) : envwf L env ->
    SafeQS L (let! rvalue := (match value with
                              | Some n => let! v := walk_rvalue E env n in ret (Some v)
                              | None => match k with DConst => fail XConstNoInit | DLet => ret None end
                              end) in
              let! t := (match ty with
                         | Some path => process_type_annotation E path
                         | None => match rvalue with
                                   | Some v => match to_concrete_type (operand_tdesc v) with inl t => ret t | inr _ => fail XUndeterminedType end
                                   | None => fail XDeclNoTypeNoInit
                                   end
                         end) in
              let! local := visit_local_declaration t in
              ret (local, rvalue)) (fun r s' => fst r < nloc s').
  Proof.
    intros Hw. apply SafeQS_bind.
    - destruct value as [n|]; [|destruct k; auto with safe].
      apply Safe_bind; [unfold walk_rvalue; apply Safe_rv, walk_expr_safe, Hw|intros; apply Safe_ret].
    - intros rvalue. apply SafeQS_bind.
      + destruct ty; [auto with safe|]. destruct rvalue; [|auto with safe]. destruct (to_concrete_type _); auto with safe.
      + intros t. intros s n G HL Hn. unfold mbind.
        pose proof (visit_local_declaration_safe L t s n G HL Hn) as H. destruct (visit_local_declaration t s) as [[l| |x] s1]; try exact H.
  Qed.

  Lemma SafeS_decls k : forall vars env bk, SafeS env bk (walk_decls E k env vars).
  Proof.
    induction vars as [|[[name ty] value] rest IH]; intros env bk st n G Hw Hb Hn; cbn [walk_decls].
    - cbn. split; [apply RegB_refl, G|exact Hw].
    - unfold mbind at 1. unfold attempt.
      pose proof (decl_head_safe (nloc st) k env value ty Hw st n G (le_n _) Hn) as H.
      match type of H with match ?m st with _ => _ end => destruct (m st) as [[[local rvalue]| |x] s1] end; [| |exact H].
      2:{ cbn. split; [exact H|]. eapply envwf_mono; [exact Hw|]. eapply RegB_nloc, H. }
      destruct H as [R1 Hl]. cbn [fst] in Hl.
      assert (Hw1 : envwf (nloc s1) ((name, (local, k)) :: env)).
      { intros x l kk Hx. cbn [lenv_get] in Hx. destruct (String.eqb name x); [inversion Hx; subst; exact Hl|].
        specialize (Hw x l kk Hx). pose proof (RegB_nloc _ _ _ R1). lia. }
      pose proof (g_good _ _ _ R1) as G1. pose proof (g_len _ _ _ R1) as N1.
      destruct rvalue as [v|].
      + unfold mbind at 1. unfold attempt.
        pose proof (Safe_visit_local_assignment (nloc s1) E local v Hl s1 n G1 (le_n _) ltac:(lia)) as H2.
        destruct (visit_local_assignment E local v s1) as [[a| |x] s2]; [| |exact H2].
        * specialize (IH ((name, (local, k)) :: env) bk s2 n (g_good _ _ _ H2)).
          assert (Hw2 : envwf (nloc s2) ((name, (local, k)) :: env)) by (eapply envwf_mono; [exact Hw1|eapply RegB_nloc, H2]).
          specialize (IH Hw2 ltac:(pose proof (g_len _ _ _ H2); lia) ltac:(pose proof (g_len _ _ _ H2); lia)). unfold StmtPost in *.
          destruct (walk_decls E k ((name, (local, k)) :: env) rest s2) as [[[ok env']| |x] s3]; [| |exact IH].
          -- destruct IH as [R3 W3]. split; [eapply RegB_trans; [exact R1|eapply RegB_trans; eassumption]|exact W3].
          -- eapply RegB_trans; [exact R1|eapply RegB_trans; eassumption].
        * cbn. split; [eapply RegB_trans; eassumption|]. eapply envwf_mono; [exact Hw1|eapply RegB_nloc, H2].
      + unfold mbind at 1. cbn [mark_exempt].
        set (s2 := {| bs_blocks := bs_blocks s1; bs_locals := bs_locals s1; bs_nparams := bs_nparams s1; bs_diags := bs_diags s1; bs_exempt := local :: bs_exempt s1 |}).
        assert (R2 : RegB n s1 s2) by (apply RegB_same_blocks; [exact G1|reflexivity|exists []; rewrite app_nil_r; reflexivity]).
        specialize (IH ((name, (local, k)) :: env) bk s2 n (g_good _ _ _ R2) Hw1 ltac:(unfold nb in *; cbn; lia) ltac:(unfold nb in *; cbn; lia)). unfold StmtPost in *.
        destruct (walk_decls E k ((name, (local, k)) :: env) rest s2) as [[[ok env']| |x] s3]; [| |exact IH].
        * destruct IH as [R3 W3]. split; [eapply RegB_trans; [exact R1|eapply RegB_trans; eassumption]|exact W3].
        * eapply RegB_trans; [exact R1|eapply RegB_trans; eassumption].
  Qed.
  Lemma SafeS_run env bk m st : SafeS env bk m -> Good st -> envwf (nloc st) env -> bk <= nb st -> StmtPost (nb st) st (m st).
  Proof. intros H G Hw Hb. apply H; auto. Qed.

  Lemma mark_RegB s : Good s -> exists s', mark_branch_point s = (V (nb s - 1), s') /\ RegB (nb s) s s' /\ nb s' = nb s + 1 /\ nloc s' = nloc s /\
                                     opened s' (nb s - 1) /\ (forall i, i < nb s -> nth_error (bs_blocks s') i = nth_error (bs_blocks s) i).
  Proof.
    intros G. destruct (mark_spec s G) as (s' & E1 & N1 & G1 & L1 & K1). exists s'. split; [exact E1|]. split; [|split; [exact N1|split; [unfold nloc; rewrite L1; reflexivity|split; [|exact K1]]]].
    - split; [exact G1|lia| |exists []; rewrite app_nil_r; exact L1]. intros i Hi. apply K1. lia.
    - pose proof G as [Ga [O _]]. apply (opened_eq s); [apply K1; lia|exact O].
  Qed.

  Lemma SafeS_if c t e :
    (forall env brk, SafeS env (bound_of brk) (walk_stmt E env brk t)) -> (forall n, e = Some n -> forall env brk, SafeS env (bound_of brk) (walk_stmt E env brk n)) ->
    forall env brk, SafeS env (bound_of brk) (walk_stmt E env brk (SIf c t e)).
  Proof.
    intros IHt IHe env brk st n G Hw Hbk Hn. cbn [walk_stmt].
    (* the condition *)
    unfold mbind at 1. unfold attempt.
    pose proof (Safe_run (nloc st) (walk_rvalue E env c) st ltac:(unfold walk_rvalue; apply Safe_rv, walk_expr_safe, Hw) G (le_n _)) as R1.
    destruct (walk_rvalue E env c st) as [[cond| |x] s1]; [| |exact R1].
    2:{ cbn. split; [eapply RegB_weaken; eassumption|]. eapply envwf_mono; [exact Hw|eapply RegB_nloc, R1]. }
    pose proof (g_good _ _ _ R1) as G1. pose proof (proj1 G1) as P1. pose proof (RegB_nloc _ _ _ R1) as LL1. pose proof (g_len _ _ _ R1) as N1.
    unfold mbind at 1. destruct (mark_RegB s1 G1) as (s2 & E2 & R2 & N2 & M2 & Oc2 & K2). rewrite E2. set (cl := nb s1 - 1) in *.
    pose proof (g_good _ _ _ R2) as G2.
    assert (R02 : RegB (nb st) st s2) by (eapply RegB_trans; [exact R1|eapply RegB_weaken; [|exact R2]; lia]).
    (* the then arm *)
    unfold mbind at 1.
    pose proof (SafeS_run env _ _ s2 (IHt env brk) G2 ltac:(eapply envwf_mono; [exact Hw|lia]) ltac:(lia)) as R3. unfold StmtPost in R3.
    destruct (walk_stmt E env brk t s2) as [[[okt envt]| |x] s3]; [| |exact R3].
    2:{ eapply RegB_weaken; [exact Hn|]. eapply RegB_trans; [exact R02|eapply RegB_weaken; [|exact R3]; lia]. }
    destruct R3 as [R3 W3]. cbn [fst snd].
    assert (R03 : RegB (nb st) st s3) by (eapply RegB_trans; [exact R02|eapply RegB_weaken; [|exact R3]; lia]).
    destruct okt; cbn [negb].
    2:{ cbn. split; [eapply RegB_weaken; eassumption|exact W3]. }
    pose proof (g_good _ _ _ R3) as G3. pose proof (proj1 G3) as P3. pose proof (g_len _ _ _ R3) as N3.
    assert (Oc3 : opened s3 cl) by (eapply RegB_opened; [exact R3|unfold cl; lia|exact Oc2]).
    cbv zeta. unfold mbind at 1. destruct (mark_RegB s3 G3) as (s4 & E4 & R4 & N4 & M4 & Oq4 & K4). rewrite E4. set (ql := nb s3 - 1) in *.
    pose proof (g_good _ _ _ R4) as G4.
    assert (Oc4 : opened s4 cl) by (apply (opened_eq s3); [apply K4; unfold cl; lia|exact Oc3]).
    assert (R04 : RegB (nb st) st s4) by (eapply RegB_trans; [exact R03|eapply RegB_weaken; [|exact R4]; lia]).
    assert (W4 : envwf (nloc s4) envt) by (rewrite M4; exact W3).
    (* the else arm: state, result, and what is known about the labels *)
    unfold mbind at 1.
    assert (Helse : match (match e with
                           | Some n0 => let! r := walk_stmt E envt brk n0 in if fst r then let! l := mark_branch_point in ret (true, snd r, Some l) else ret (false, snd r, None)
                           | None => ret (true, envt, None)
                           end) s4 with
                    | (P _, _) => False
                    | (F, s6) => RegB (nb st) st s6
                    | (V (ok, enve, al), s6) => RegB (nb st) st s6 /\ envwf (nloc s6) enve /\ opened s6 cl /\ opened s6 ql /\
                        (ok = true -> match al with Some a => opened s6 a /\ ql < a /\ a + 1 < nb s6 | None => ql + 1 < nb s6 end)
                    end).
    { destruct e as [n0|].
      - unfold mbind at 1.
        pose proof (SafeS_run envt _ _ s4 (IHe n0 eq_refl envt brk) G4 W4 ltac:(lia)) as R5. unfold StmtPost in R5.
        destruct (walk_stmt E envt brk n0 s4) as [[[oke enve]| |x] s5]; [| |exact R5].
        2:{ eapply RegB_trans; [exact R04|eapply RegB_weaken; [|exact R5]; lia]. }
        destruct R5 as [R5 W5]. cbn [fst snd].
        pose proof (g_good _ _ _ R5) as G5. pose proof (proj1 G5) as P5. pose proof (g_len _ _ _ R5) as N5.
        assert (R05 : RegB (nb st) st s5) by (eapply RegB_trans; [exact R04|eapply RegB_weaken; [|exact R5]; lia]).
        assert (Oc5 : opened s5 cl) by (eapply RegB_opened; [exact R5|unfold cl; lia|exact Oc4]).
        assert (Oq5 : opened s5 ql) by (eapply RegB_opened; [exact R5|unfold ql; lia|exact Oq4]).
        destruct oke.
        + unfold mbind at 1. destruct (mark_RegB s5 G5) as (s6 & E6 & R6 & N6 & M6 & Oa6 & K6). rewrite E6. cbn.
          split; [eapply RegB_trans; [exact R05|eapply RegB_weaken; [|exact R6]; lia]|]. split; [rewrite M6; exact W5|].
          split; [apply (opened_eq s5); [apply K6; unfold cl; lia|exact Oc5]|]. split; [apply (opened_eq s5); [apply K6; unfold ql; lia|exact Oq5]|].
          intros _. split; [exact Oa6|]. unfold ql. lia.
        + cbn. split; [exact R05|]. split; [exact W5|]. split; [exact Oc5|]. split; [exact Oq5|]. discriminate.
      - cbn. split; [exact R04|]. split; [exact W4|]. split; [exact Oc4|]. split; [exact Oq4|]. intros _. unfold ql. lia. }
    match type of Helse with match ?m s4 with _ => _ end => destruct (m s4) as [[[[ok enve] al]| |x] s6] end; [| |exact Helse].
    2:{ eapply RegB_weaken; eassumption. }
    destruct Helse as (R06 & W6 & Oc6 & Oq6 & Hal).
    destruct ok; cbn [negb].
    2:{ cbn. split; [eapply RegB_weaken; eassumption|exact W6]. }
    specialize (Hal eq_refl). pose proof (g_good _ _ _ R06) as G6.
    unfold mbind at 1. unfold attempt.
    destruct (check_condition_cases cond s6) as [[E7 T7]|(s7 & E7 & B7 & L7)]; rewrite E7.
    2:{ cbn. assert (R7 : RegB (nb st) s6 s7) by (apply RegB_same_blocks; [exact G6|exact B7|exists []; rewrite app_nil_r; exact L7]).
        split; [eapply RegB_weaken; [exact Hn|eapply RegB_trans; eassumption]|]. unfold nloc. rewrite L7. exact W6. }
    unfold mbind at 1.
    pose proof (visit_if_safe cond cl ql al s6 (nb st) G6 Oc6 Oq6 ltac:(unfold cl, ql; lia) ltac:(unfold cl; lia) Hal) as R8.
    destruct (visit_if cond cl ql al s6) as [[u| |x] s8]; [| |exact R8].
    - cbn. split; [eapply RegB_weaken; [exact Hn|eapply RegB_trans; eassumption]|]. eapply envwf_mono; [exact W6|eapply RegB_nloc, R8].
    - eapply RegB_weaken; [exact Hn|eapply RegB_trans; eassumption].
  Qed.
  Lemma SafeS_nodes bk (w : lenv -> stmt -> M sres) l : Forall (fun x => forall env, SafeS env bk (w env x)) l ->
    forall env, SafeS env bk ((fix go (env : lenv) (l : list stmt) : M sres :=
                              match l with [] => ret (true, env) | x :: r => let! a := w env x in let! b := go (snd a) r in ret (fst a && fst b, snd b) end) env l).
  Proof.
    induction 1 as [|x r Hx Hr IH]; intros env st n G Hw Hb Hn.
    - cbn. split; [apply RegB_refl, G|exact Hw].
    - unfold mbind at 1. pose proof (Hx env st n G Hw Hb Hn) as R1. unfold StmtPost in R1.
      destruct (w env x st) as [[[ok1 env1]| |x0] s1]; [| |exact R1]; [|exact R1].
      destruct R1 as [R1 W1]. cbn [snd fst]. unfold mbind at 1.
      pose proof (IH env1 s1 n (g_good _ _ _ R1) W1 ltac:(pose proof (g_len _ _ _ R1); lia) ltac:(pose proof (g_len _ _ _ R1); lia)) as R2. unfold StmtPost in R2.
      match type of R2 with match ?m s1 with _ => _ end => destruct (m s1) as [[[ok2 env2]| |x0] s2] end; [| |exact R2].
      + destruct R2 as [R2 W2]. cbn. split; [eapply RegB_trans; eassumption|exact W2].
      + eapply RegB_trans; eassumption.
  Qed.

  Fixpoint noswitch (s : stmt) : bool :=
    match s with
    | SSwitch _ _ _ => false
    | SBlock ss => forallb noswitch ss
    | SIf _ t e => noswitch t && match e with Some n => noswitch n | None => true end
    | _ => true
    end.

  Theorem walk_stmt_safe_noswitch : forall s, noswitch s = true -> forall env brk, SafeS env (bound_of brk) (walk_stmt E env brk s).
  Proof.
    apply (stmt_ind' (fun s => noswitch s = true -> forall env brk, SafeS env (bound_of brk) (walk_stmt E env brk s))).
    - intros e _ env brk. apply SafeS_expr.
    - intros ss Hss Hn env brk. cbn [noswitch] in Hn. rewrite forallb_forall in Hn.
      intros st n G Hw Hb Hnn. cbn [walk_stmt]. unfold mbind at 1.
      assert (HF : Forall (fun x => forall env0, SafeS env0 (bound_of brk) (walk_stmt E env0 brk x)) ss).
      { apply Forall_forall. intros x Hx env0. rewrite Forall_forall in Hss. apply Hss; [exact Hx|apply Hn, Hx]. }
      pose proof (SafeS_nodes (bound_of brk) (fun env0 x => walk_stmt E env0 brk x) ss HF env st n G Hw Hb Hnn) as R. unfold StmtPost in R.
      match type of R with match ?m st with _ => _ end => destruct (m st) as [[[ok env']| |x0] s1] end; [| |exact R].
      + destruct R as [R W]. cbn. split; [exact R|]. eapply envwf_mono; [exact Hw|eapply RegB_nloc, R].
      + exact R.
    - intros k vars _ env brk. cbn [walk_stmt]. apply SafeS_decls.
    - intros c t e Ht He Hn env brk. cbn [noswitch] in Hn. apply andb_prop in Hn. destruct Hn as [Hnt Hne].
      apply SafeS_if; [exact (Ht Hnt)|]. intros n0 -> . cbn [opt_all] in He. exact (He Hne).
    - intros v cases default _ _ Hn. discriminate.
    - intros l _ env brk. apply SafeS_break.
    - intros e _ env brk. apply SafeS_return.
  Qed.
End Stmts.

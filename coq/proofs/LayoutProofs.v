(* LayoutProofs.v -- C12: the index counter implements the documented flow rule; per-index arrays; no negative index. *)
From Coq Require Import Lia ZifyBool.
From QV Require Import model.Base gen.GenTables model.Layout spec.LayoutSpec.
Ltac Zify.zify_post_hook ::= Z.div_mod_to_equations.
Open Scope Z_scope.

Definition to_sflow (f : flow) : sflow := match f with LeftToRight n => SLeftToRight n | TopToBottom n => STopToBottom n end.
Definition count_of (f : flow) : Z := match f with LeftToRight n => n | TopToBottom n => n end.
Definition cur (c : counter) : Z * Z := (next_row c, next_column c).
Definition cell_ok (f : flow) (rc : Z * Z) : Prop :=
  match f with
  | LeftToRight n => 0 <= fst rc /\ 0 <= snd rc < n
  | TopToBottom n => 0 <= fst rc < n /\ 0 <= snd rc
  end.

(* ---------- A. positions ---------- *)
Lemma parse_index_fst fld v mx : fst (parse_index fld v mx) = in_range mx v.
Proof.
  unfold parse_index, in_range. destruct v as [x|]; [|reflexivity].
  destruct (x <? 0) eqn:E1; [cbn; destruct (0 <=? x) eqn:E2; [lia|reflexivity]|].
  destruct (mx <? x) eqn:E2; cbn; destruct (0 <=? x) eqn:E3; destruct (x <=? mx) eqn:E4; try reflexivity; lia.
Qed.

Lemma in_range_bounds mx v x : in_range mx v = Some x -> 0 <= x <= mx.
Proof.
  unfold in_range. destruct v as [y|]; [|discriminate].
  destruct ((0 <=? y) && (y <=? mx)) eqn:E; [|discriminate]. intros H. inversion H; subst. lia.
Qed.

Lemma step_mod n x : 0 < n -> 0 <= x < n -> Z.rem (x + 1) n = if x + 1 <? n then x + 1 else 0.
Proof.
  intros Hn Hx. rewrite Z.rem_mod_nonneg by lia. destruct (Z.ltb_spec (x + 1) n).
  - apply Z.mod_small. lia.
  - replace (x + 1) with n by lia. apply Z.mod_same. lia.
Qed.

Lemma counter_next_spec f c r k : 0 < count_of f -> cell_ok f (cur c) ->
  (forall x, r = Some x -> 0 <= x <= max_row MAX_INDEX (to_sflow f)) ->
  (forall x, k = Some x -> 0 <= x <= max_col MAX_INDEX (to_sflow f)) ->
  let p := place (to_sflow f) (cur c) r k in
  fst (counter_next f c r k) = p /\ cur (snd (counter_next f c r k)) = succ_cell (to_sflow f) p /\
  cell_ok f p /\ cell_ok f (succ_cell (to_sflow f) p).
Proof.
  intros Hn Hc Hr Hk. unfold counter_next, place, cur, cell_ok, succ_cell in *.
  destruct f as [n|n]; cbn [to_sflow count_of max_row max_col fst snd] in *;
  destruct r as [r|], k as [k|]; cbn [next_row next_column fst snd];
  try (specialize (Hr _ eq_refl)); try (specialize (Hk _ eq_refl)).
  all: rewrite step_mod by lia.
  all: repeat match goal with
       | |- context[if ?b then _ else _] => let E := fresh "E" in destruct b eqn:E
       end; cbn [fst snd next_row next_column]; repeat split; try lia; try (f_equal; lia).
Qed.

Fixpoint positions (f : flow) (c : counter) (kids : list attach) : list (Z * Z) :=
  match kids with
  | [] => []
  | a :: rest => let '(p, c', _) := parse_next f c a in p :: positions f c' rest
  end.

Lemma parse_next_spec f c a : 0 < count_of f -> cell_ok f (cur c) ->
  let F := to_sflow f in
  let p := place F (cur c) (in_range (max_row MAX_INDEX F) (a_row a)) (in_range (max_col MAX_INDEX F) (a_col a)) in
  fst (fst (parse_next f c a)) = p /\ cur (snd (fst (parse_next f c a))) = succ_cell F p /\ cell_ok f p /\ cell_ok f (succ_cell F p).
Proof.
  intros Hn Hc F p. unfold parse_next.
  assert (Emax : (match f with LeftToRight n => (MAX_INDEX, n - 1) | TopToBottom n => (n - 1, MAX_INDEX) end)
                 = (max_row MAX_INDEX F, max_col MAX_INDEX F)) by (destruct f; reflexivity).
  rewrite Emax.
  pose proof (parse_index_fst 0 (a_row a) (max_row MAX_INDEX F)) as E1.
  pose proof (parse_index_fst 1 (a_col a) (max_col MAX_INDEX F)) as E2.
  destruct (parse_index 0 (a_row a) (max_row MAX_INDEX F)) as [r d1].
  destruct (parse_index 1 (a_col a) (max_col MAX_INDEX F)) as [k d2]. cbn [fst] in E1, E2. subst r k.
  pose proof (counter_next_spec f c _ _ Hn Hc (in_range_bounds _ (a_row a)) (in_range_bounds _ (a_col a))) as H.
  fold F in H. fold p in H.
  destruct (counter_next f c (in_range (max_row MAX_INDEX F) (a_row a)) (in_range (max_col MAX_INDEX F) (a_col a))) as [q c'].
  cbn [fst snd] in *. exact H.
Qed.

Theorem positions_spec f : 0 < count_of f -> forall kids c, cell_ok f (cur c) ->
  positions f c kids = spec_positions MAX_INDEX (to_sflow f) (cur c) (map (fun a => (a_row a, a_col a)) kids).
Proof.
  intros Hn. induction kids as [|a rest IH]; intros c Hc; [reflexivity|].
  cbn [positions map spec_positions].
  destruct (parse_next_spec f c a Hn Hc) as [E1 [E2 [_ Ok2]]].
  destruct (parse_next f c a) as [[p c'] d]. cbn [fst snd] in *. subst p. f_equal.
  rewrite <- E2. apply IH. rewrite E2. exact Ok2.
Qed.

Lemma positions_ok f : 0 < count_of f -> forall kids c, cell_ok f (cur c) -> Forall (cell_ok f) (positions f c kids).
Proof.
  intros Hn. induction kids as [|a rest IH]; intros c Hc; [constructor|].
  cbn [positions]. destruct (parse_next_spec f c a Hn Hc) as [E1 [E2 [Ok1 Ok2]]].
  destruct (parse_next f c a) as [[p c'] d]. cbn [fst snd] in *. constructor; [rewrite E1; exact Ok1|].
  apply IH. rewrite E2. exact Ok2.
Qed.

Lemma divmod_succ n x : 0 < n -> 0 <= x ->
  if x mod n + 1 <? n then (x + 1) / n = x / n /\ (x + 1) mod n = x mod n + 1
  else (x + 1) / n = x / n + 1 /\ (x + 1) mod n = 0.
Proof.
  intros Hn Hx. pose proof (Z.div_mod x n ltac:(lia)) as D. pose proof (Z.mod_pos_bound x n Hn) as B.
  destruct (Z.ltb_spec (x mod n + 1) n).
  - split; symmetry; [apply Z.div_unique with (r := x mod n + 1)|apply Z.mod_unique with (q := x / n)]; lia.
  - split; symmetry; [apply Z.div_unique with (r := 0)|apply Z.mod_unique with (q := x / n + 1)]; lia.
Qed.

(* closed form: k automatically placed children after an in-range cell *)
Lemma succ_auto F rc k : (match F with SLeftToRight n => 0 < n /\ 0 <= snd rc < n | STopToBottom n => 0 < n /\ 0 <= fst rc < n end) -> 0 <= k ->
  succ_cell F (auto_cell F rc k) = auto_cell F rc (k + 1).
Proof.
  destruct rc as [r c]. unfold succ_cell, auto_cell. destruct F as [n|n]; cbn [fst snd]; intros [Hn Hc] Hk.
  - pose proof (divmod_succ n (c + k) Hn ltac:(lia)) as D. replace (c + (k + 1)) with (c + k + 1) by lia.
    destruct ((c + k) mod n + 1 <? n) eqn:E; destruct D as [D1 D2]; rewrite D1, D2; f_equal; lia.
  - pose proof (divmod_succ n (r + k) Hn ltac:(lia)) as D. replace (r + (k + 1)) with (r + k + 1) by lia.
    destruct ((r + k) mod n + 1 <? n) eqn:E; destruct D as [D1 D2]; rewrite D1, D2; f_equal; lia.
Qed.

Theorem auto_positions F rc : (match F with SLeftToRight n => 0 < n /\ 0 <= snd rc < n | STopToBottom n => 0 < n /\ 0 <= fst rc < n end) ->
  forall m k, 0 <= k ->
  spec_positions MAX_INDEX F (auto_cell F rc k) (repeat (None, None) m) = map (fun i => auto_cell F rc (k + Z.of_nat i)) (seq 0 m).
Proof.
  intros H. induction m as [|m IH]; intros k Hk; [reflexivity|].
  cbn [repeat spec_positions in_range place seq map]. f_equal; [f_equal; lia|].
  rewrite succ_auto by assumption. rewrite IH by lia. rewrite <- seq_shift, map_map. apply map_ext. intros i. f_equal. lia.
Qed.

(* ---------- B. per-index arrays ---------- *)
Lemma nth_set_nth {A} (l : list A) i j x d : nth j (set_nth l i x) d = if Nat.eqb j i then (if Nat.ltb i (List.length l) then x else nth j l d) else nth j l d.
Proof.
  revert i j. induction l as [|y r IH]; intros i j; cbn [set_nth List.length].
  - destruct (Nat.eqb j i); [destruct (Nat.ltb i 0) eqn:E; [apply Nat.ltb_lt in E; lia|reflexivity]|reflexivity].
  - destruct i as [|i], j as [|j]; cbn [set_nth nth Nat.eqb]; try reflexivity.
    rewrite IH. change (Nat.ltb (S i) (S (List.length r))) with (Nat.ltb i (List.length r)). reflexivity.
Qed.
Lemma set_nth_length {A} (l : list A) i x : List.length (set_nth l i x) = List.length l.
Proof. revert i. induction l as [|y r IH]; intros [|i]; cbn; auto. Qed.

Lemma resize_length l n : (List.length l <= n)%nat -> List.length (resize l n) = n.
Proof. intros H. unfold resize. rewrite app_length, repeat_length. lia. Qed.
Lemma resize_nth l n j : nth j (resize l n) None = nth j l None.
Proof.
  unfold resize. destruct (Nat.ltb_spec j (List.length l)).
  - rewrite app_nth1 by assumption. reflexivity.
  - rewrite app_nth2 by assumption. rewrite (nth_overflow l) by assumption.
    destruct (Nat.ltb_spec (j - List.length l) (n - List.length l)).
    + rewrite nth_repeat. reflexivity.
    + rewrite nth_overflow; [reflexivity|rewrite repeat_length; assumption].
Qed.

Lemma insert_opt_spec arr j v : 0 <= j ->
  exists arr' d, insert_opt arr j (Some v) = Ok (arr', d) /\
    List.length arr' = Nat.max (List.length arr) (S (Z.to_nat j)) /\
    (forall i, nth i arr' None = if Nat.eqb i (Z.to_nat j) then (match nth i arr None with Some v0 => Some v0 | None => Some v end) else nth i arr None) /\
    d = match nth (Z.to_nat j) arr None with Some v0 => if v0 =? v then [] else [DMismatch v0] | None => [] end.
Proof.
  intros Hj. unfold insert_opt. destruct (j <? 0) eqn:E; [lia|]. clear E.
  set (i := Z.to_nat j).
  set (arr1 := if Nat.leb (List.length arr) i then resize arr (S i) else arr).
  assert (L1 : List.length arr1 = Nat.max (List.length arr) (S i)).
  { unfold arr1. destruct (Nat.leb_spec (List.length arr) i); [rewrite resize_length by lia; lia|lia]. }
  assert (N1 : forall k, nth k arr1 None = nth k arr None).
  { intros k. unfold arr1. destruct (Nat.leb (List.length arr) i); [apply resize_nth|reflexivity]. }
  assert (Hlt : Nat.ltb i (List.length arr1) = true) by (apply Nat.ltb_lt; lia).
  rewrite N1. destruct (nth i arr None) as [v0|] eqn:Ni.
  - destruct (v0 =? v) eqn:Ev; cbn [negb].
    + eexists _, _. split; [reflexivity|]. rewrite set_nth_length. split; [exact L1|]. split; [|reflexivity].
      intros k. rewrite nth_set_nth, Hlt, N1. destruct (Nat.eqb_spec k i) as [->|]; [rewrite Ni; f_equal; lia|reflexivity].
    + eexists _, _. split; [reflexivity|]. split; [exact L1|]. split; [|reflexivity].
      intros k. rewrite N1. destruct (Nat.eqb_spec k i) as [->|]; [rewrite Ni; reflexivity|reflexivity].
  - eexists _, _. split; [reflexivity|]. rewrite set_nth_length. split; [exact L1|]. split; [|reflexivity].
    intros k. rewrite nth_set_nth, Hlt, N1. destruct (Nat.eqb_spec k i) as [->|]; [rewrite Ni; reflexivity|reflexivity].
Qed.

(* folding the insertions over a list of (index, value) *)
Fixpoint insert_all (arr : list (option Z)) (ivs : list (Z * option Z)) (ds : list ldiag) : res (list (option Z) * list ldiag) :=
  match ivs with
  | [] => Ok (arr, ds)
  | (j, v) :: r => do x <- insert_opt arr j v; insert_all (fst x) r (ds ++ snd x)
  end.

Definition arr_agrees (arr : list (option Z)) (seen : list (Z * option Z)) : Prop :=
  List.length arr = Z.to_nat (arr_len seen) /\ forall i, nth i arr None = first_at seen (Z.of_nat i).

Lemma first_at_app s t i : first_at (s ++ t) i = match first_at s i with Some v => Some v | None => first_at t i end.
Proof.
  induction s as [|[j [v|]] r IH]; cbn [app first_at]; [destruct (first_at t i); reflexivity| |exact IH].
  destruct (j =? i); [reflexivity|exact IH].
Qed.
Lemma arr_len_nonneg s : 0 <= arr_len s.
Proof. induction s as [|[j [v|]] r IH]; cbn [arr_len]; lia. Qed.
Lemma arr_len_app s t : arr_len (s ++ t) = Z.max (arr_len s) (arr_len t).
Proof. pose proof (arr_len_nonneg t). induction s as [|[j [v|]] r IH]; cbn [app arr_len]; [| |exact IH]; lia. Qed.

Lemma insert_all_spec : forall ivs arr seen ds, Forall (fun iv => 0 <= fst iv) ivs -> arr_agrees arr seen ->
  exists arr', insert_all arr ivs ds = Ok (arr', ds ++ map DMismatch (spec_conflicts seen ivs)) /\ arr_agrees arr' (seen ++ ivs).
Proof.
  induction ivs as [|[j [v|]] r IH]; intros arr seen ds HF [HL HN].
  - exists arr. cbn. rewrite !app_nil_r. split; [reflexivity|split; assumption].
  - inversion HF as [|? ? Hj HF']; subst. cbn [fst] in Hj. cbn [insert_all spec_conflicts].
    destruct (insert_opt_spec arr j v Hj) as [arr1 [d [E [L1 [N1 Dd]]]]]. rewrite E. cbn [bind fst snd].
    assert (Hnth : nth (Z.to_nat j) arr None = first_at seen j) by (rewrite HN; f_equal; lia).
    assert (A1 : arr_agrees arr1 (seen ++ [(j, Some v)])).
    { split.
      - rewrite L1, HL, arr_len_app. cbn [arr_len]. pose proof (arr_len_nonneg seen). lia.
      - intros i. rewrite N1, first_at_app. cbn [first_at]. rewrite HN.
        destruct (Nat.eqb_spec i (Z.to_nat j)) as [->|Ne].
        + rewrite Z2Nat.id by lia. rewrite Z.eqb_refl. destruct (first_at seen j); reflexivity.
        + destruct (j =? Z.of_nat i) eqn:Ej; [lia|]. destruct (first_at seen (Z.of_nat i)); reflexivity. }
    rewrite Hnth in Dd.
    destruct (first_at seen j) as [v0|] eqn:F0.
    + (* index already set: seen is unchanged for first_at purposes *)
      assert (A1' : arr_agrees arr1 seen).
      { destruct A1 as [La Na]. split.
        - rewrite La, arr_len_app. cbn [arr_len]. 
          assert (j + 1 <= arr_len seen).
          { clear -F0. induction seen as [|[k [w|]] t IHs]; cbn [first_at arr_len] in *; [discriminate| |auto].
            destruct (Z.eqb_spec k j); [lia|specialize (IHs F0); lia]. }
          lia.
        - intros i. rewrite Na, first_at_app. cbn [first_at].
          destruct (first_at seen (Z.of_nat i)) eqn:Fi; [reflexivity|].
          destruct (Z.eqb_spec j (Z.of_nat i)); [subst; congruence|reflexivity]. }
      destruct (IH arr1 seen (ds ++ d) HF' A1') as [arr' [E' A']]. exists arr'. split.
      * rewrite E'. f_equal. f_equal. subst d. destruct (v0 =? v); cbn; rewrite <- ?app_assoc; reflexivity.
      * destruct A' as [La Na]. split.
        -- rewrite La, !arr_len_app. cbn [arr_len].
           assert (j + 1 <= arr_len seen).
           { clear -F0. induction seen as [|[k [w|]] t IHs]; cbn [first_at arr_len] in *; [discriminate| |auto].
             destruct (Z.eqb_spec k j); [lia|specialize (IHs F0); lia]. }
           lia.
        -- intros i. rewrite Na, !first_at_app. cbn [first_at].
           destruct (first_at seen (Z.of_nat i)) eqn:Fi; [reflexivity|].
           destruct (Z.eqb_spec j (Z.of_nat i)); [subst; congruence|reflexivity].
    + destruct (IH arr1 (seen ++ [(j, Some v)]) (ds ++ d) HF' A1) as [arr' [E' A']]. exists arr'. split.
      * rewrite E'. subst d. rewrite app_nil_r. reflexivity.
      * rewrite <- app_assoc in A'. exact A'.
  - inversion HF as [|? ? Hj HF']; subst. cbn [insert_all insert_opt bind fst snd spec_conflicts]. rewrite app_nil_r.
    destruct (IH arr seen ds HF' (conj HL HN)) as [arr' [E' [La Na]]]. exists arr'. split; [exact E'|].
    split.
    + rewrite La, !arr_len_app. cbn [arr_len]. reflexivity.
    + intros i. rewrite Na, !first_at_app. cbn [first_at]. reflexivity.
Qed.

Lemma agrees_spec_arr arr ivs : arr_agrees arr ivs -> arr = spec_arr ivs.
Proof.
  intros [HL HN]. unfold spec_arr. apply nth_ext with (d := None) (d' := None).
  - rewrite map_length, seq_length. exact HL.
  - intros n Hn. rewrite HN.
    rewrite nth_indep with (d' := first_at ivs (Z.of_nat 0)) by (rewrite map_length, seq_length; lia).
    rewrite map_nth with (f := fun i => first_at ivs (Z.of_nat i)). rewrite seq_nth by lia. reflexivity.
Qed.

Theorem insert_all_array ivs : Forall (fun iv => 0 <= fst iv) ivs ->
  insert_all [] ivs [] = Ok (spec_arr ivs, map DMismatch (spec_conflicts [] ivs)).
Proof.
  intros HF. destruct (insert_all_spec ivs [] [] [] HF) as [arr' [E A]].
  - split; [reflexivity|intros i; destruct i; reflexivity].
  - rewrite E. cbn [app] in *. rewrite (agrees_spec_arr _ _ A). reflexivity.
Qed.

(* ---------- C. the grid / form / box passes ---------- *)
Lemma insert_opt_agrees arr seen j v : 0 <= j -> arr_agrees arr seen ->
  exists arr' d, insert_opt arr j v = Ok (arr', d) /\ arr_agrees arr' (seen ++ [(j, v)]).
Proof.
  intros Hj A. assert (HF : Forall (fun iv : Z * option Z => 0 <= fst iv) [(j, v)]) by (constructor; [exact Hj|constructor]).
  destruct (insert_all_spec [(j, v)] arr seen [] HF A) as [arr' [E A']].
  cbn [insert_all] in E. destruct (insert_opt arr j v) as [[a d]|m|m|]; cbn [bind fst snd] in E; try discriminate.
  exists a, d. split; [reflexivity|]. inversion E as [[Ea Ed]]. exact A'.
Qed.

Definition ivs_of (ix : Z -> Z -> Z) (g : attach -> option Z) (ps : list (Z * Z)) (kids : list attach) : list (Z * option Z) :=
  map (fun pa => (ix (fst (fst pa)) (snd (fst pa)), g (snd pa))) (combine ps kids).

Definition ix_nonneg (ix : Z -> Z -> Z) := forall r c, 0 <= r -> 0 <= c -> 0 <= ix r c.
Lemma gen_ix_nonneg : ix_nonneg GRID_COL_MIN_WIDTH_INDEX /\ ix_nonneg GRID_COL_STRETCH_INDEX /\
                      ix_nonneg GRID_ROW_MIN_HEIGHT_INDEX /\ ix_nonneg GRID_ROW_STRETCH_INDEX.
Proof. repeat split; intros r c Hr Hc; unfold GRID_COL_MIN_WIDTH_INDEX, GRID_COL_STRETCH_INDEX, GRID_ROW_MIN_HEIGHT_INDEX, GRID_ROW_STRETCH_INDEX; lia. Qed.

Lemma cell_ok_nonneg f p : 0 < count_of f -> cell_ok f p -> 0 <= fst p /\ 0 <= snd p.
Proof. destruct f; cbn; lia. Qed.

Lemma grid_go_spec f : 0 < count_of f -> forall kids c at_ items ds s1 s2 s3 s4,
  cell_ok f (cur c) ->
  arr_agrees (column_minimum_width at_) s1 -> arr_agrees (column_stretch at_) s2 ->
  arr_agrees (row_minimum_height at_) s3 -> arr_agrees (row_stretch at_) s4 ->
  let ps := positions f c kids in
  exists at' ds', grid_go f c at_ kids items ds = Ok (at', rev items ++ map (fun pa => mk_item (Some (fst pa)) (snd pa)) (combine ps kids), ds') /\
    arr_agrees (column_minimum_width at') (s1 ++ ivs_of GRID_COL_MIN_WIDTH_INDEX a_cmw ps kids) /\
    arr_agrees (column_stretch at') (s2 ++ ivs_of GRID_COL_STRETCH_INDEX a_cst ps kids) /\
    arr_agrees (row_minimum_height at') (s3 ++ ivs_of GRID_ROW_MIN_HEIGHT_INDEX a_rmh ps kids) /\
    arr_agrees (row_stretch at') (s4 ++ ivs_of GRID_ROW_STRETCH_INDEX a_rst ps kids) /\ stretch at' = stretch at_.
Proof.
  intros Hn. destruct gen_ix_nonneg as [N1 [N2 [N3 N4]]].
  induction kids as [|a rest IH]; intros c at_ items ds s1 s2 s3 s4 Hc A1 A2 A3 A4.
  - cbn. exists at_, ds. rewrite !app_nil_r. auto 10.
  - cbn [positions grid_go].
    destruct (parse_next_spec f c a Hn Hc) as [E1 [E2 [Ok1 Ok2]]].
    destruct (parse_next f c a) as [[[row column] c'] d0]. cbn [fst snd] in E1, E2.
    assert (Hp : cell_ok f (row, column)) by (rewrite E1; exact Ok1).
    destruct (cell_ok_nonneg f _ Hn Hp) as [Hr Hk]. cbn [fst snd] in Hr, Hk.
    destruct (insert_opt_agrees _ _ _ (a_cmw a) (N1 row column Hr Hk) A1) as [x1 [d1 [X1 B1]]].
    destruct (insert_opt_agrees _ _ _ (a_cst a) (N2 row column Hr Hk) A2) as [x2 [d2 [X2 B2]]].
    destruct (insert_opt_agrees _ _ _ (a_rmh a) (N3 row column Hr Hk) A3) as [x3 [d3 [X3 B3]]].
    destruct (insert_opt_agrees _ _ _ (a_rst a) (N4 row column Hr Hk) A4) as [x4 [d4 [X4 B4]]].
    rewrite X1, X2, X3, X4. cbn [bind fst snd].
    match goal with |- context[grid_go f c' ?AT rest ?IT ?DS] =>
      destruct (IH c' AT IT DS _ _ _ _ ltac:(rewrite E2; exact Ok2) B1 B2 B3 B4) as [at' [ds' [G [C1 [C2 [C3 [C4 C5]]]]]]] end.
    cbn [column_minimum_width column_stretch row_minimum_height row_stretch stretch] in *.
    exists at', ds'. split; [|unfold ivs_of in *; cbn [combine map fst snd]; rewrite <- !app_assoc in *; cbn [app] in *; auto 10].
    rewrite G. cbn [rev combine map fst snd]. rewrite <- app_assoc. reflexivity.
Qed.

Lemma agrees_nil : arr_agrees [] [].
Proof. split; [reflexivity|intros [|i]; reflexivity]. Qed.

Definition counter0 := {| next_row := 0; next_column := 0 |}.
Lemma counter0_ok f : 0 < count_of f -> cell_ok f (cur counter0).
Proof. destruct f; cbn; lia. Qed.

(* the grid pass: never panics, places every child by the flow rule, and builds each array as "first value per index" *)
Theorem process_grid_spec f kids : 0 < count_of f ->
  let ps := positions f counter0 kids in
  exists ds, process_grid f kids =
    Ok ({| column_minimum_width := spec_arr (ivs_of GRID_COL_MIN_WIDTH_INDEX a_cmw ps kids);
           column_stretch := spec_arr (ivs_of GRID_COL_STRETCH_INDEX a_cst ps kids);
           row_minimum_height := spec_arr (ivs_of GRID_ROW_MIN_HEIGHT_INDEX a_rmh ps kids);
           row_stretch := spec_arr (ivs_of GRID_ROW_STRETCH_INDEX a_rst ps kids);
           stretch := [] |},
        map (fun pa => mk_item (Some (fst pa)) (snd pa)) (combine ps kids), ds).
Proof.
  intros Hn ps. unfold process_grid.
  destruct (grid_go_spec f Hn kids counter0 lattrs0 [] [] [] [] [] [] (counter0_ok f Hn) agrees_nil agrees_nil agrees_nil agrees_nil)
    as [at' [ds' [G [C1 [C2 [C3 [C4 C5]]]]]]].
  exists ds'. fold counter0. rewrite G. cbn [rev app]. f_equal. f_equal. f_equal.
  destruct at' as [a1 a2 a3 a4 a5]. cbn in *.
  rewrite (agrees_spec_arr _ _ C1), (agrees_spec_arr _ _ C2), (agrees_spec_arr _ _ C3), (agrees_spec_arr _ _ C4), C5. reflexivity.
Qed.

Theorem form_positions kids :
  let ps := positions (LeftToRight 2) counter0 kids in
  exists ds, process_form kids = (lattrs0, map (fun pa => mk_item (Some (fst pa)) (snd pa)) (combine ps kids), ds).
Proof.
  unfold process_form. fold counter0.
  assert (G : forall kids c items ds, exists ds', form_go c kids items ds =
            (lattrs0, rev items ++ map (fun pa => mk_item (Some (fst pa)) (snd pa)) (combine (positions (LeftToRight 2) c kids) kids), ds')).
  { clear kids. induction kids as [|a rest IH]; intros c items ds.
    - exists ds. cbn. rewrite app_nil_r. reflexivity.
    - cbn [form_go positions]. destruct (parse_next (LeftToRight 2) c a) as [[p c'] d0].
      destruct (IH c' (mk_item (Some p) a :: items) (ds ++ d0)) as [ds' E]. exists ds'. rewrite E.
      cbn [rev combine map fst snd]. rewrite <- app_assoc. reflexivity. }
  destruct (G kids counter0 [] []) as [ds' E]. exists ds'. rewrite E. reflexivity.
Qed.

(* box layouts record the stretch at the child's position *)
Theorem process_box_spec vertical kids :
  exists ds, process_box vertical kids =
    Ok ({| column_minimum_width := []; column_stretch := []; row_minimum_height := []; row_stretch := [];
           stretch := spec_arr (map (fun ia => (Z.of_nat (fst ia), if vertical then a_rst (snd ia) else a_cst (snd ia)))
                                    (combine (seq 0 (List.length kids)) kids)) |},
        map (mk_item None) kids, ds).
Proof.
  unfold process_box.
  assert (G : forall kids pos st items ds seen, arr_agrees st seen ->
     exists st' ds', box_go vertical pos st kids items ds =
       Ok ({| column_minimum_width := []; column_stretch := []; row_minimum_height := []; row_stretch := []; stretch := st' |},
           rev items ++ map (mk_item None) kids, ds') /\
       arr_agrees st' (seen ++ map (fun ia => (Z.of_nat (fst ia), if vertical then a_rst (snd ia) else a_cst (snd ia)))
                                   (combine (seq pos (List.length kids)) kids))).
  { clear kids. induction kids as [|a rest IH]; intros pos st items ds seen A.
    - exists st, ds. cbn. rewrite !app_nil_r. auto.
    - cbn [box_go].
      destruct (insert_opt_agrees st seen (Z.of_nat pos) (if vertical then a_rst a else a_cst a) ltac:(lia) A) as [x [d [X B]]].
      rewrite X. cbn [bind fst snd].
      destruct (IH (S pos) x (mk_item None a :: items) (ds ++ d) _ B) as [st' [ds' [E A']]].
      exists st', ds'. split.
      + rewrite E. cbn [rev map]. rewrite <- app_assoc. reflexivity.
      + cbn [List.length seq combine map fst snd]. rewrite <- app_assoc in A'. exact A'. }
  destruct (G kids 0%nat [] [] [] [] agrees_nil) as [st' [ds' [E A]]]. exists ds'. rewrite E. cbn [rev app] in *.
  rewrite (agrees_spec_arr _ _ A). reflexivity.
Qed.

(* out-of-range explicit indices are diagnosed and ignored, in-range ones are used *)
Theorem parse_index_diagnosed fld x mx :
  (x < 0 -> parse_index fld (Some x) mx = (None, [DNegative fld])) /\
  (mx < x -> 0 <= x -> parse_index fld (Some x) mx = (None, [DTooLarge fld])) /\
  (0 <= x <= mx -> parse_index fld (Some x) mx = (Some x, [])).
Proof.
  unfold parse_index. repeat split; intros.
  - destruct (x <? 0) eqn:E; [reflexivity|lia].
  - destruct (x <? 0) eqn:E; [lia|]. destruct (mx <? x) eqn:E2; [reflexivity|lia].
  - destruct (x <? 0) eqn:E; [lia|]. destruct (mx <? x) eqn:E2; [lia|reflexivity].
Qed.

(* F1: the full statement -- rowMinimumHeight recorded at the index of the child's ROW -- is refuted *)
Definition att (r c : option Z) (rmh : option Z) : attach :=
  {| a_row := r; a_col := c; a_rowspan := None; a_colspan := None; a_cmw := None; a_cst := None; a_rmh := rmh; a_rst := None |}.
Definition f1_kids : list attach := [att None None (Some 20); att None None None; att None None (Some 30)].
Lemma f1_witness :
  exists at_ items ds, process_grid (LeftToRight 2) f1_kids = Ok (at_, items, ds) /\
    row_minimum_height at_ = [Some 20] /\ ds = [DMismatch 20] /\
    spec_arr (ivs_of (fun r _ => r) a_rmh (positions (LeftToRight 2) counter0 f1_kids) f1_kids) = [Some 20; Some 30].
Proof. eexists _, _, _. vm_compute. repeat split. Qed.

(* arrays depend only on the entries that carry a value *)
Lemma spec_arr_ext l1 l2 :
  Forall2 (fun x y : Z * option Z => snd x = snd y /\ (snd x <> None -> fst x = fst y)) l1 l2 -> spec_arr l1 = spec_arr l2.
Proof.
  intros H. assert (E : arr_len l1 = arr_len l2 /\ forall i, first_at l1 i = first_at l2 i).
  { induction H as [|[j1 v1] [j2 v2] r1 r2 [Ev Ej] _ [IL IF]]; [split; reflexivity|]. cbn [fst snd] in *. subst v2.
    destruct v1 as [v|]; cbn [arr_len first_at].
    - rewrite (Ej ltac:(discriminate)), IL. split; [reflexivity|]. intros i. rewrite IF. reflexivity.
    - split; [exact IL|exact IF]. }
  destruct E as [EL EF]. unfold spec_arr. rewrite EL. apply map_ext. intros i. apply EF.
Qed.

Lemma ivs_of_ext ix1 ix2 g ps kids :
  (forall p a, In (p, a) (combine ps kids) -> g a <> None -> ix1 (fst p) (snd p) = ix2 (fst p) (snd p)) ->
  spec_arr (ivs_of ix1 g ps kids) = spec_arr (ivs_of ix2 g ps kids).
Proof.
  intros H. apply spec_arr_ext. unfold ivs_of. induction (combine ps kids) as [|[p a] r IH]; [constructor|].
  cbn [map]. constructor.
  - cbn [fst snd]. split; [reflexivity|]. intros Hg. apply (H p a); [now left|exact Hg].
  - apply IH. intros p' a' Hin. apply H. now right.
Qed.

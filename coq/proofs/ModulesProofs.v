(* ModulesProofs.v -- C18 over model/Modules.v *)
From Coq Require Import Lia Permutation.
From QV Require Import model.Base model.Modules.
Open Scope nat_scope.
Open Scope list_scope.

Lemma nmem_in x l : nmem x l = true <-> In x l.
Proof.
  unfold nmem. rewrite existsb_exists. split.
  - intros [y [Hy E]]. apply Nat.eqb_eq in E. subst. exact Hy.
  - intros H. exists x. split; [exact H|apply Nat.eqb_refl].
Qed.
Lemma nmem_false x l : nmem x l = false <-> ~ In x l.
Proof. rewrite <- nmem_in. destruct (nmem x l); split; congruence. Qed.

(* import reachability *)
Inductive reach (g : dgraph) (srcs : list nat) : nat -> Prop :=
| reach_src s : In s srcs -> reach g srcs s
| reach_step a b : reach g srcs a -> In b (succs g a) -> reach g srcs b.

(* soundness: only directories reachable from the sources are ever visited *)
Lemma populate_sound g srcs : forall fuel pending visited v,
  populate g fuel pending visited = Some v ->
  (forall x, In x pending -> reach g srcs x) -> (forall x, In x visited -> reach g srcs x) ->
  forall x, In x v -> reach g srcs x.
Proof.
  induction fuel as [|f IH]; intros pending visited v H Hp Hv; cbn in H; [discriminate|].
  destruct pending as [|d rest]; [inversion H; subst; exact Hv|].
  destruct (nmem d visited) eqn:M.
  - apply (IH rest visited v H); [intros x Hx; apply Hp; now right|exact Hv].
  - apply (IH _ _ v H).
    + intros x Hx. apply in_app_or in Hx. destruct Hx as [Hx|Hx]; [|apply Hp; now right].
      apply in_rev in Hx. apply filter_In in Hx. destruct Hx as [Hx _]. eapply reach_step; [apply Hp; now left|exact Hx].
    + intros x [<-|Hx]; [apply Hp; now left|apply Hv, Hx].
Qed.

(* completeness: when the work-list runs empty, the visited set contains the sources and is closed under imports *)
Definition closed_upto (g : dgraph) (visited pending : list nat) : Prop :=
  forall a b, In a visited -> In b (succs g a) -> In b visited \/ In b pending.

Lemma populate_complete g : forall fuel pending visited v,
  populate g fuel pending visited = Some v -> closed_upto g visited pending ->
  (forall x, In x visited \/ In x pending -> In x v) /\ closed_upto g v [].
Proof.
  induction fuel as [|f IH]; intros pending visited v H C; cbn in H; [discriminate|].
  destruct pending as [|d rest].
  - inversion H; subst. split; [intros x [Hx|[]]; exact Hx|exact C].
  - destruct (nmem d visited) eqn:M.
    + apply nmem_in in M. destruct (IH rest visited v H) as [I1 I2].
      * intros a b Ha Hb. destruct (C a b Ha Hb) as [X|[<-|X]]; auto.
      * split; [|exact I2]. intros x [Hx|[<-|Hx]]; apply I1; auto.
    + destruct (IH _ _ v H) as [I1 I2].
      * intros a b [<-|Ha] Hb.
        -- destruct (nmem b visited) eqn:Mb; [left; right; apply nmem_in, Mb|].
           right. apply in_or_app. left. apply in_rev. rewrite rev_involutive. apply filter_In. split; [exact Hb|rewrite Mb; reflexivity].
        -- destruct (C a b Ha Hb) as [X|[<-|X]]; [left; now right|left; now left|right; apply in_or_app; now right].
      * split; [|exact I2]. intros x [Hx|[<-|Hx]]; apply I1; [left; now right|left; now left|right; apply in_or_app; now right].
Qed.

Lemma closed_reach g srcs v : (forall s, In s srcs -> In s v) -> closed_upto g v [] -> forall x, reach g srcs x -> In x v.
Proof.
  intros Hs C x R. induction R as [s Hin|a b R IH Hb]; [apply Hs, Hin|].
  destruct (C a b IH Hb) as [X|[]]. exact X.
Qed.

(* the visited set IS the import-reachability closure of the source directories *)
Theorem discover_exact g srcs v : discover g srcs = Some v -> forall x, In x v <-> reach g srcs x.
Proof.
  unfold discover. intros H x. split.
  - apply (populate_sound g srcs _ _ _ _ H); [intros y Hy; apply reach_src; apply in_rev; exact Hy|intros ? []].
  - destruct (populate_complete g _ _ _ _ H) as [I1 I2]; [intros a b []|].
    apply closed_reach; [intros s Hs; apply I1; right; apply in_rev; rewrite rev_involutive; exact Hs|exact I2].
Qed.

(* hence independent of the order (and multiplicity) of the source arguments *)
Lemma reach_same_sources g s1 s2 x : (forall y, In y s1 <-> In y s2) -> reach g s1 x -> reach g s2 x.
Proof. intros E R. induction R as [s Hin|a b R IH Hb]; [apply reach_src, E, Hin|eapply reach_step; eassumption]. Qed.
Theorem discover_order_independent g s1 s2 v1 v2 : (forall y, In y s1 <-> In y s2) ->
  discover g s1 = Some v1 -> discover g s2 = Some v2 -> forall x, In x v1 <-> In x v2.
Proof.
  intros E H1 H2 x. rewrite (discover_exact g s1 v1 H1), (discover_exact g s2 v2 H2).
  split; apply reach_same_sources; [exact E|intros y; symmetry; apply E].
Qed.

(* each directory is registered at most once: the visited check precedes every push *)
Lemma populate_nodup g : forall fuel pending visited v,
  populate g fuel pending visited = Some v -> NoDup visited -> NoDup v.
Proof.
  induction fuel as [|f IH]; intros pending visited v H N; cbn in H; [discriminate|].
  destruct pending as [|d rest]; [inversion H; subst; exact N|].
  destruct (nmem d visited) eqn:M; [exact (IH _ _ _ H N)|].
  apply (IH _ _ _ H). constructor; [apply nmem_false, M|exact N].
Qed.
Theorem discover_nodup g srcs v : discover g srcs = Some v -> NoDup v.
Proof. unfold discover. intros H. exact (populate_nodup g _ _ _ _ H (NoDup_nil _)). Qed.

(* naming more sources only adds directories: what one source sees never depends on the others *)
Lemma reach_more_sources g s1 s2 x : incl s1 s2 -> reach g s1 x -> reach g s2 x.
Proof. intros E R. induction R as [s Hin|a b R IH Hb]; [apply reach_src, E, Hin|eapply reach_step; eassumption]. Qed.
Theorem discover_monotone g s1 s2 v1 v2 : incl s1 s2 ->
  discover g s1 = Some v1 -> discover g s2 = Some v2 -> incl v1 v2.
Proof.
  intros E H1 H2 x Hx. apply (discover_exact g s2 v2 H2). apply (reach_more_sources g s1 s2 x E).
  apply (discover_exact g s1 v1 H1). exact Hx.
Qed.
(* and the closure of a union is the union of the closures *)
Lemma reach_app g s1 s2 x : reach g (s1 ++ s2) x <-> reach g s1 x \/ reach g s2 x.
Proof.
  split.
  - intros R. induction R as [s Hin|a b R IH Hb].
    + apply in_app_or in Hin. destruct Hin as [Hin|Hin]; [left|right]; apply reach_src, Hin.
    + destruct IH as [IH|IH]; [left|right]; eapply reach_step; eassumption.
  - intros [R|R]; eapply reach_more_sources; try exact R; intros y Hy; apply in_or_app; auto.
Qed.
Theorem discover_union g s1 s2 v1 v2 v : discover g s1 = Some v1 -> discover g s2 = Some v2 ->
  discover g (s1 ++ s2) = Some v -> forall x, In x v <-> In x v1 \/ In x v2.
Proof.
  intros H1 H2 H x. rewrite (discover_exact g _ _ H), (discover_exact g _ _ H1), (discover_exact g _ _ H2). apply reach_app.
Qed.

(* ---- termination: the fuel of discover always suffices, cycles included ---- *)
Definition wf (g : dgraph) : Prop := forall d x, In x (succs g d) -> x < length g.
Definition unvisited (n : nat) (visited : list nat) : nat := length (filter (fun d => negb (nmem d visited)) (seq 0 n)).

Lemma nmem_cons x y l : nmem x (y :: l) = (Nat.eqb x y || nmem x l)%bool.
Proof. reflexivity. Qed.
Lemma filter_cons_count l d vis : NoDup l -> nmem d vis = false ->
  length (filter (fun x => negb (nmem x (d :: vis))) l) + (if nmem d l then 1 else 0) = length (filter (fun x => negb (nmem x vis)) l).
Proof.
  intros ND M. induction l as [|x r IH]; [reflexivity|]. inversion ND as [|? ? N1 ND']; subst. specialize (IH ND').
  cbn [filter]. rewrite !nmem_cons.
  destruct (Nat.eqb_spec x d) as [->|Ne].
  - rewrite Nat.eqb_refl. cbn [orb negb]. rewrite M. cbn [negb length].
    assert (nmem d r = false) as Hr by (apply nmem_false; exact N1). rewrite Hr in IH. lia.
  - assert (Nat.eqb d x = false) as -> by (apply Nat.eqb_neq; congruence). cbn [orb].
    destruct (nmem x vis); cbn [negb length]; lia.
Qed.

Lemma unvisited_cons n d visited : d < n -> nmem d visited = false -> unvisited n (d :: visited) + 1 = unvisited n visited.
Proof.
  intros Hd M. unfold unvisited. pose proof (filter_cons_count (seq 0 n) d visited (seq_NoDup n 0) M) as H.
  assert (nmem d (seq 0 n) = true) as E by (apply nmem_in, in_seq; lia). rewrite E in H. exact H.
Qed.

Lemma filter_length_le' {A} (f : A -> bool) l : length (filter f l) <= length l.
Proof. induction l as [|x r IH]; cbn; [lia|]. destruct (f x); cbn; lia. Qed.

Lemma max_out_bound g d : length (succs g d) <= max_out g.
Proof.
  unfold succs, max_out. revert d. induction g as [|l r IH]; intros [|d]; cbn; try lia. specialize (IH d). lia.
Qed.

Lemma populate_terminates g : wf g -> forall fuel pending visited,
  (forall x, In x pending -> x < length g) ->
  unvisited (length g) visited * (max_out g + 2) + length pending + 1 <= fuel ->
  populate g fuel pending visited <> None.
Proof.
  intros W. induction fuel as [|f IH]; intros pending visited Hp Hf; [lia|]. cbn [populate].
  destruct pending as [|d rest]; [discriminate|]. cbn [length] in Hf.
  destruct (nmem d visited) eqn:M.
  - apply IH; [intros x Hx; apply Hp; now right|lia].
  - assert (Hd : d < length g) by (apply Hp; now left).
    pose proof (unvisited_cons (length g) d visited Hd M) as U.
    apply IH.
    + intros x Hx. apply in_app_or in Hx. destruct Hx as [Hx|Hx]; [|apply Hp; now right].
      apply in_rev in Hx. apply filter_In in Hx. destruct Hx as [Hx _]. eapply W. exact Hx.
    + rewrite app_length, rev_length.
      pose proof (filter_length_le' (fun x => negb (nmem x visited)) (succs g d)) as L1. pose proof (max_out_bound g d) as L2.
      set (u' := unvisited (length g) (d :: visited)) in *. set (M2 := max_out g + 2) in *.
      assert (E : unvisited (length g) visited * M2 = u' * M2 + M2) by (rewrite <- U; rewrite Nat.mul_add_distr_r; lia).
      rewrite E in Hf. lia.
Qed.

Lemma unvisited_le n visited : unvisited n visited <= n.
Proof. unfold unvisited. etransitivity; [apply filter_length_le'|]. rewrite seq_length. lia. Qed.

(* discovery terminates on every directory layout, mutually importing directories included *)
Theorem discover_terminates g srcs : wf g -> (forall s, In s srcs -> s < length g) -> discover g srcs <> None.
Proof.
  intros W Hs. unfold discover, fuel_bound. apply populate_terminates; [exact W|intros x Hx; apply Hs; apply in_rev; exact Hx|].
  rewrite rev_length. pose proof (unvisited_le (length g) []) as U.
  assert (unvisited (length g) [] * (max_out g + 2) <= length g * (max_out g + 2)) by (apply Nat.mul_le_mono_r; exact U). lia.
Qed.

(* ---- custom widgets: each custom class instantiated in the document is listed exactly once ---- *)
Lemma unique_go_spec seen l : NoDup (unique_go seen l) /\ (forall x, In x (unique_go seen l) <-> In x l /\ ~ In x seen).
Proof.
  revert seen. induction l as [|y r IH]; intros seen; cbn [unique_go].
  - split; [constructor|]. intros x. split; [intros []|intros [[] _]].
  - destruct (nmem y seen) eqn:M.
    + destruct (IH seen) as [I1 I2]. split; [exact I1|]. intros x. rewrite I2. split; [intros [A B]; split; [now right|exact B]|].
      intros [[<-|A] B]; [apply nmem_in in M; contradiction|split; assumption].
    + destruct (IH (y :: seen)) as [I1 I2]. apply nmem_false in M. split.
      * constructor; [|exact I1]. intros X. apply I2 in X. destruct X as [_ X]. apply X. now left.
      * intros x. split.
        -- intros [<-|X]; [split; [now left|exact M]|]. apply I2 in X. destruct X as [A B]. split; [now right|]. intros C. apply B. now right.
        -- intros [[<-|A] B]; [now left|]. destruct (Nat.eq_dec y x) as [->|Ne]; [now left|]. right. apply I2. split; [exact A|].
           intros [C|C]; [congruence|contradiction].
Qed.

Theorem custom_widgets_once hs objs : NoDup (custom_widgets hs objs)
  /\ (forall c, In c (custom_widgets hs objs) <-> (exists o, In o objs /\ snd o = true /\ fst o = c) /\ hs c = true).
Proof.
  unfold custom_widgets, unique. destruct (unique_go_spec [] (map fst (filter snd objs))) as [U1 U2]. split.
  - apply NoDup_filter, U1.
  - intros c. rewrite filter_In, U2, in_map_iff. split.
    + intros [[[o [E Ho]] _] H]. apply filter_In in Ho. split; [exists o; tauto|exact H].
    + intros [[o [Ho [Hs E]]] H]. split; [split; [exists o; split; [exact E|apply filter_In; tauto]|intros []]|exact H].
Qed.

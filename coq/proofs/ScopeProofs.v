(* ScopeProofs.v -- let/const scoping, in the model of the translator (model/Builder.v walk_stmt: which local a name
   resolves to) and in the reference semantics (model/Sem.v exec: which variable a name denotes).  Finding F21 was a
   violation of the first theorem by the code (the clauses of a switch shared the enclosing name table). *)
From QV Require Import model.Base model.Lang model.Types model.Tir model.Ceval model.Builder.
From Coq Require Import Arith Lia.
Open Scope nat_scope.
Open Scope list_scope.

(* ---------------------------------------------------------------- the translator *)
(* partial-correctness triple over the builder monad: whatever the state, a successful run yields a result in Q *)
Definition Post {A} (m : M A) (Q : A -> Prop) : Prop := forall s a s', m s = (V a, s') -> Q a.

Lemma Post_ret {A} (a : A) (Q : A -> Prop) : Q a -> Post (ret a) Q.
Proof. intros H s a' s' E. unfold ret in E. inversion E; subst. exact H. Qed.

Lemma Post_bind {A B} (m : M A) (f : A -> M B) (Q : A -> Prop) (R : B -> Prop) :
  Post m Q -> (forall a, Q a -> Post (f a) R) -> Post (mbind m f) R.
Proof.
  intros Hm Hf s b s' E. unfold mbind in E. destruct (m s) as [[a| |site] s1] eqn:Em; try discriminate.
  exact (Hf a (Hm _ _ _ Em) _ _ _ E).
Qed.

Lemma Post_any {A} (m : M A) : Post m (fun _ => True).
Proof. intros s a s' _. exact I. Qed.

Lemma Post_bind_any {A B} (m : M A) (f : A -> M B) (R : B -> Prop) : (forall a, Post (f a) R) -> Post (mbind m f) R.
Proof. intros Hf. apply Post_bind with (Q := fun _ => True); [apply Post_any | intros a _; apply Hf]. Qed.

Lemma Post_sfail env : Post (sfail env) (fun r => snd r = env).
Proof. apply Post_ret. reflexivity. Qed.

(* statements other than a declaration (an `if` whose arm is a bare declaration is no ECMAScript statement) *)
Fixpoint scoped (s : stmt) : bool :=
  match s with
  | SDecl _ _ => false
  | SIf _ t e => scoped t && match e with Some n => scoped n | None => true end
  | _ => true
  end.

Ltac post_step :=
  match goal with
  | |- Post (ret _) _ => apply Post_ret; reflexivity
  | |- Post (sfail _) _ => apply Post_sfail
  | |- Post (mbind _ _) _ => apply Post_bind_any; intros
  | |- Post (match ?x with _ => _ end) _ => destruct x
  | |- Post (if ?x then _ else _) _ => destruct x
  end.

(* the name table after a statement that is not a declaration is the name table before it: nothing declared inside a
   block, an if arm or a switch clause is visible to what follows, and nothing outside is hidden by it *)
Theorem walk_stmt_no_leak : forall s E env brk, scoped s = true -> Post (walk_stmt E env brk s) (fun r => snd r = env).
Proof.
  fix IH 1. intros s E env brk Hs. destruct s as [e|ss|k vars|c t e|v cases default|labeled|e]; cbn [walk_stmt].
  - repeat post_step.
  - repeat post_step.
  - discriminate.
  - cbn [scoped] in Hs. apply andb_prop in Hs. destruct Hs as [Ht He].
    apply Post_bind_any; intros cv. destruct cv as [cond|]; [|apply Post_sfail].
    apply Post_bind_any; intros cond_label.
    apply Post_bind with (Q := fun r => snd r = env); [apply IH; exact Ht|]. intros rt Hrt. rewrite Hrt.
    destruct (negb (fst rt)); [apply Post_sfail|]. cbv zeta.
    apply Post_bind_any; intros conseq_label.
    apply Post_bind with (Q := fun ra => snd (fst ra) = env).
    + destruct e as [n|].
      * apply Post_bind with (Q := fun r => snd r = env); [apply IH; exact He|]. intros r Hr.
        destruct (fst r); [apply Post_bind_any; intros l|]; apply Post_ret; exact Hr.
      * apply Post_ret. reflexivity.
    + intros [[ok env'] alt] Hra. cbn in Hra. subst env'. repeat post_step.
  - repeat post_step.
  - repeat post_step.
  - repeat post_step.
Qed.

(* ---------------------------------------------------------------- the reference semantics *)
From QV Require Import model.Sem.
Open Scope nat_scope.
Open Scope list_scope.

Definition names_of (e : list (string * option val)) : list string := map fst e.
(* e' is e, possibly with new values for its variables, under some newer declarations *)
Definition Ext (e e' : list (string * option val)) : Prop := exists pre e'', e' = pre ++ e'' /\ names_of e'' = names_of e.

Lemma Ext_refl e : Ext e e.
Proof. exists [], e. split; reflexivity. Qed.

Lemma names_app_split (l : list (string * option val)) a b :
  names_of l = a ++ b -> exists la lb, l = la ++ lb /\ names_of la = a /\ names_of lb = b.
Proof.
  revert l. induction a as [|x a IH]; intros l H.
  - exists [], l. repeat split. exact H.
  - destruct l as [|y l]; [discriminate|]. cbn in H. injection H as Hx Hl. destruct (IH l Hl) as (la & lb & E & Ha & Hb).
    exists (y :: la), lb. subst l. split; [reflexivity|]. split; [|exact Hb]. unfold names_of in *. cbn [map]. rewrite Hx, Ha. reflexivity.
Qed.

Lemma Ext_trans e0 e1 e2 : Ext e0 e1 -> Ext e1 e2 -> Ext e0 e2.
Proof.
  intros (p1 & r1 & E1 & N1) (p2 & r2 & E2 & N2). subst e1. unfold names_of in N2. rewrite map_app in N2.
  destruct (names_app_split r2 _ _ N2) as (la & lb & E & Ha & Hb). subst r2 e2.
  exists (p2 ++ la), lb. split; [rewrite app_assoc; reflexivity|]. unfold names_of in *. congruence.
Qed.

Lemma Ext_cons e x : Ext e (x :: e).
Proof. exists [x], e. split; reflexivity. Qed.

Lemma names_length (a b : list (string * option val)) : names_of a = names_of b -> length a = length b.
Proof. intros H. apply (f_equal (@length _)) in H. unfold names_of in H. rewrite !map_length in H. exact H. Qed.

(* leaving a scope: the declarations made inside are dropped, what remains has the names it had on entry *)
Lemma Ext_pop e e1 : Ext e e1 -> names_of (skipn (length e1 - length e) e1) = names_of e.
Proof.
  intros (pre & r & E & N). subst e1. rewrite app_length, <- (names_length _ _ N).
  replace (length pre + length r - length r) with (length pre) by lia.
  rewrite skipn_app, skipn_all, Nat.sub_diag. cbn. exact N.
Qed.

Lemma Ext_of_names e e' : names_of e' = names_of e -> Ext e e'.
Proof. intros H. exists [], e'. split; [reflexivity|exact H]. Qed.

Lemma set_var_names e x v e' : set_var e x v = Some e' -> names_of e' = names_of e.
Proof.
  revert e'. induction e as [|[y w] r IH]; intros e' H; cbn [set_var] in H; [discriminate|].
  destruct (String.eqb x y).
  - inversion H. reflexivity.
  - destruct (set_var r x v) as [r'|]; [|discriminate]. inversion H. cbn. f_equal. apply IH. reflexivity.
Qed.

Section Scope.
  Variable names : list string.
  Variable this : nat.
  Notation exec := (exec names this).
  Notation eval := (eval names this).

  Definition P (s : stmt) : Prop := forall st e o st' e', exec st e s = Def (o, st', e') -> Ext e e'.

  Lemma run_seq_ext l : Forall P l -> forall st e o st' e', run_seq exec l st e = Def (o, st', e') -> Ext e e'.
  Proof.
    induction 1 as [|x r Hx Hr IH]; intros st e o st' e' H; cbn [run_seq] in H.
    - inversion H. apply Ext_refl.
    - destruct (exec st e x) as [[[o1 s1] e1]| |] eqn:Ex; cbn [rbind] in H; try discriminate.
      pose proof (Hx _ _ _ _ _ Ex) as H1. destruct o1.
      + eapply Ext_trans; [exact H1|]. eapply IH. exact H.
      + inversion H; subst. exact H1.
      + inversion H; subst. exact H1.
  Qed.

  Lemma at_default_ext default found i started st e o b st' e' :
    (forall p db, default = Some (p, db) -> Forall P db) ->
    at_default exec default found i started st e = Def (o, b, st', e') -> Ext e e'.
  Proof.
    intros Hd H. unfold at_default in H. destruct default as [[pos db]|]; [|inversion H; apply Ext_refl].
    destruct (Nat.eqb pos i); [|inversion H; apply Ext_refl].
    destruct (started || match found with None => true | Some _ => false end); [|inversion H; apply Ext_refl].
    destruct (run_seq exec db st e) as [[[o1 s1] e1]| |] eqn:Er; cbn [rbind] in H; try discriminate.
    inversion H; subst. eapply run_seq_ext; [apply (Hd _ _ eq_refl)|exact Er].
  Qed.

  Lemma run_clauses_ext default found l :
    (forall p db, default = Some (p, db) -> Forall P db) -> Forall (fun c => Forall P (snd c)) l ->
    forall i started st e o st' e', run_clauses exec default found l i started st e = Def (o, st', e') -> Ext e e'.
  Proof.
    intros Hd Hl. induction Hl as [|[c b] r Hb Hr IH]; intros i started st e o st' e' H; cbn [run_clauses] in H.
    - destruct (at_default exec default found i started st e) as [[[[o0 b0] s0] e0]| |] eqn:Ea; cbn [rbind] in H; try discriminate.
      pose proof (at_default_ext _ _ _ _ _ _ _ _ _ _ Hd Ea) as H0. destruct o0; inversion H; subst; exact H0.
    - destruct (at_default exec default found i started st e) as [[[[o0 b0] s0] e0]| |] eqn:Ea; cbn [rbind] in H; try discriminate.
      pose proof (at_default_ext _ _ _ _ _ _ _ _ _ _ Hd Ea) as H0.
      destruct o0; [|inversion H; subst; exact H0|inversion H; subst; exact H0].
      destruct (b0 || match found with Some j => Nat.eqb j i | None => false end).
      + destruct (run_seq exec b s0 e0) as [[[o1 s1] e1]| |] eqn:Er; cbn [rbind] in H; try discriminate.
        pose proof (run_seq_ext _ Hb _ _ _ _ _ Er) as H1. cbn [snd] in *.
        destruct o1; [|inversion H; subst; eapply Ext_trans; eassumption|inversion H; subst; eapply Ext_trans; eassumption].
        eapply Ext_trans; [exact H0|]. eapply Ext_trans; [exact H1|]. eapply IH. exact H.
      + eapply Ext_trans; [exact H0|]. eapply IH. exact H.
  Qed.
End Scope.

(* induction over statements, with the hypotheses for the statements nested in lists and options *)
Definition opt_all (Q : stmt -> Prop) (e : option stmt) : Prop := match e with Some n => Q n | None => True end.
Definition dflt_all (Q : stmt -> Prop) (d : option (nat * list stmt)) : Prop := match d with Some (_, db) => Forall Q db | None => True end.
Section StmtInd.
  Variable Q : stmt -> Prop.
  Hypothesis HExpr : forall e, Q (SExpr e).
  Hypothesis HBlock : forall ss, Forall Q ss -> Q (SBlock ss).
  Hypothesis HDecl : forall k vars, Q (SDecl k vars).
  Hypothesis HIf : forall c t e, Q t -> opt_all Q e -> Q (SIf c t e).
  Hypothesis HSwitch : forall v cases default, Forall (fun c => Forall Q (snd c)) cases ->
    dflt_all Q default -> Q (SSwitch v cases default).
  Hypothesis HBreak : forall l, Q (SBreak l).
  Hypothesis HReturn : forall e, Q (SReturn e).

  Fixpoint stmt_ind' (s : stmt) : Q s :=
    let go := fix go (l : list stmt) : Forall Q l :=
                match l with [] => Forall_nil Q | x :: r => Forall_cons x (stmt_ind' x) (go r) end in
    match s with
    | SExpr e => HExpr e
    | SBlock ss => HBlock ss (go ss)
    | SDecl k vars => HDecl k vars
    | SIf c t e => HIf c t e (stmt_ind' t) (match e as e0 return opt_all Q e0 with Some n => stmt_ind' n | None => I end)
    | SSwitch v cases default =>
        HSwitch v cases default
          ((fix goc (l : list (expr * list stmt)) : Forall (fun c => Forall Q (snd c)) l :=
              match l with
              | [] => Forall_nil _
              | (x, b) :: r => Forall_cons (P := fun c => Forall Q (snd c)) (x, b) (go b) (goc r)
              end) cases)
          (match default as d0 return dflt_all Q d0 with
           | Some (p, db) => go db
           | None => I
           end)
    | SBreak l => HBreak l
    | SReturn e => HReturn e
    end.
End StmtInd.

Ltac brk H :=
  repeat (match type of H with
          | context [rbind ?m _] => let E := fresh "E" in destruct m as [?| |] eqn:E; cbn [rbind] in H; try discriminate H
          | context [match ?x with _ => _ end] => let E := fresh "E" in destruct x eqn:E; try discriminate H
          end).

(* an expression statement declares nothing: the variables are the same ones, possibly with a new value for one of them *)
Lemma exec_expr_names names this x st e o st' e' : exec names this st e (SExpr x) = Def (o, st', e') -> names_of e' = names_of e.
Proof.
  intros H. cbn [exec] in H. brk H.
  all: try (inversion H; subst; reflexivity).
  all: try (inversion H; subst; eapply set_var_names; eassumption).
Qed.

Lemma dflt_all_forall Q default : dflt_all Q default -> forall (p : nat) db, default = Some (p, db) -> Forall Q db.
Proof. intros H p db E. subst default. exact H. Qed.

(* every statement leaves the variables that existed before it in place (same names, same order), under the declarations
   it added itself *)
Theorem exec_ext names this : forall s, P names this s.
Proof.
  apply stmt_ind'.
  - intros x st e o st' e' H. apply Ext_of_names. eapply exec_expr_names. exact H.
  - intros ss Hss st e o st' e' H. cbn [exec] in H.
    destruct (run_seq (exec names this) ss st e) as [[[o1 s1] e1]| |] eqn:Er; cbn [rbind] in H; try discriminate.
    inversion H; subst. apply Ext_of_names, Ext_pop. eapply run_seq_ext; eassumption.
  - intros k vars st e o st' e' H. cbn [exec] in H. revert st e H.
    induction vars as [|[[x ty] [init|]] r IH]; intros st e H.
    + inversion H. apply Ext_refl.
    + destruct (eval names this st e init) as [[v s1]| |] eqn:Ev; cbn [rbind] in H; try discriminate.
      match type of H with context [rbind ?m _] => destruct m as [w| |] eqn:Ec; cbn [rbind] in H; try discriminate end.
      eapply Ext_trans; [apply (Ext_cons e (x, Some w))|]. eapply IH. exact H.
    + eapply Ext_trans; [apply (Ext_cons e (x, None))|]. eapply IH. exact H.
  - intros c t e Ht He st env o st' e' H. cbn [exec] in H.
    destruct (eval names this st env c) as [[v s1]| |] eqn:Ev; cbn [rbind] in H; try discriminate.
    destruct v as [[|]| | | | | | | |]; try discriminate.
    + destruct (exec names this s1 env t) as [[[o1 s2] e1]| |] eqn:Et; cbn [rbind] in H; try discriminate.
      inversion H; subst. apply Ext_of_names, Ext_pop. eapply Ht. exact Et.
    + destruct e as [n|].
      * destruct (exec names this s1 env n) as [[[o1 s2] e1]| |] eqn:Et; cbn [rbind] in H; try discriminate.
        inversion H; subst. apply Ext_of_names, Ext_pop. eapply He. exact Et.
      * inversion H. apply Ext_refl.
  - intros v cases default Hc Hd st e o st' e' H. cbn [exec] in H.
    destruct (eval names this st e v) as [[dv s1]| |] eqn:Ev; cbn [rbind] in H; try discriminate.
    match type of H with context [rbind ?m _] => destruct m as [[found s2]| |] eqn:Ef; cbn [rbind] in H; try discriminate end.
    destruct (run_clauses (exec names this) default found cases 0 false s2 e) as [[[o1 s3] e3]| |] eqn:Er; cbn [rbind] in H; try discriminate.
    inversion H; subst. apply Ext_of_names, Ext_pop.
    eapply run_clauses_ext; [apply dflt_all_forall; exact Hd|exact Hc|exact Er].
  - intros l st e o st' e' H. inversion H. apply Ext_refl.
  - intros [x|] st e o st' e' H; cbn [exec] in H.
    + destruct (eval names this st e x) as [[v s1]| |]; cbn [rbind] in H; try discriminate. inversion H. apply Ext_refl.
    + inversion H. apply Ext_refl.
Qed.

(* let/const scoping: after a statement that is not itself a declaration -- a block, an if, a switch with all its clauses,
   whatever is declared inside them -- exactly the variables that were visible before are visible again, in the same
   order (so every name denotes the variable it denoted before) *)
Theorem exec_scope_restored names this s st e o st' e' :
  match s with SDecl _ _ => False | _ => True end ->
  exec names this st e s = Def (o, st', e') -> names_of e' = names_of e.
Proof.
  intros Hs H. destruct s as [x|ss|k vars|c t f|v cases default|l|r]; try contradiction.
  - eapply exec_expr_names. exact H.
  - cbn [exec] in H. destruct (run_seq (exec names this) ss st e) as [[[o1 s1] e1]| |] eqn:Er; cbn [rbind] in H; try discriminate.
    inversion H; subst. apply Ext_pop. eapply run_seq_ext; [|exact Er]. apply Forall_forall. intros x _. apply exec_ext.
  - cbn [exec] in H.
    destruct (eval names this st e c) as [[v s1]| |] eqn:Ev; cbn [rbind] in H; try discriminate.
    destruct v as [[|]| | | | | | | |]; try discriminate.
    + destruct (exec names this s1 e t) as [[[o1 s2] e1]| |] eqn:Et; cbn [rbind] in H; try discriminate.
      inversion H; subst. apply Ext_pop. eapply exec_ext. exact Et.
    + destruct f as [n|].
      * destruct (exec names this s1 e n) as [[[o1 s2] e1]| |] eqn:Et; cbn [rbind] in H; try discriminate.
        inversion H; subst. apply Ext_pop. eapply exec_ext. exact Et.
      * inversion H. reflexivity.
  - pose proof (exec_ext names this (SSwitch v cases default) _ _ _ _ _ H) as Hx.
    cbn [exec] in H.
    destruct (eval names this st e v) as [[dv s1]| |] eqn:Ev; cbn [rbind] in H; try discriminate.
    match type of H with context [rbind ?m _] => destruct m as [[found s2]| |] eqn:Ef; cbn [rbind] in H; try discriminate end.
    destruct (run_clauses (exec names this) default found cases 0 false s2 e) as [[[o1 s3] e3]| |] eqn:Er; cbn [rbind] in H; try discriminate.
    inversion H; subst. apply Ext_pop. eapply run_clauses_ext; [| |exact Er].
    + intros p db _. apply Forall_forall. intros x _. apply exec_ext.
    + apply Forall_forall. intros c _. apply Forall_forall. intros x _. apply exec_ext.
  - inversion H. reflexivity.
  - destruct r as [x|]; cbn [exec] in H.
    + destruct (eval names this st e x) as [[v s1]| |]; cbn [rbind] in H; try discriminate. inversion H. reflexivity.
    + inversion H. reflexivity.
Qed.

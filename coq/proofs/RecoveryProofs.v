(* RecoveryProofs.v -- C20 over model/Recovery.v *)
From Coq Require Import Lia Permutation.
From QV Require Import model.Base gen.GenUigen model.Uigen model.ObjTree model.Layout model.Recovery.
Open Scope string_scope.
Open Scope list_scope.

Lemma mem_in s l : mem s l = true <-> In s l.
Proof.
  unfold mem. rewrite existsb_exists. split.
  - intros [x [Hx E]]. apply String.eqb_eq in E. subst. exact Hx.
  - intros H. exists s. split; [exact H|apply String.eqb_refl].
Qed.

Lemma first_dup_none seen l : first_dup seen l = None <-> NoDup l /\ (forall x, In x l -> ~ In x seen).
Proof.
  revert seen. induction l as [|x r IH]; intros seen; cbn.
  - split; [intros _; split; [constructor|intros ? []]|reflexivity].
  - destruct (mem x seen) eqn:M.
    + split; [discriminate|]. intros [_ H]. exfalso. apply (H x (or_introl eq_refl)). apply mem_in. exact M.
    + rewrite IH. split.
      * intros [ND H]. split.
        -- constructor; [|exact ND]. intros Hin. apply (H x Hin). now left.
        -- intros y [<-|Hy]; [intros Hin; apply mem_in in Hin; congruence|]. intros Hin. apply (H y Hy). now right.
      * intros [ND H]. inversion ND as [|? ? N1 ND']; subst. split; [exact ND'|].
        intros y Hy [<-|Hs]; [contradiction|]. apply (H y (or_intror Hy) Hs).
Qed.

Lemma goods_app a b : goods (a ++ b) = goods a ++ goods b.
Proof. unfold goods. apply flat_map_app. Qed.
Lemma faults_app a b : faults (a ++ b) = faults a ++ faults b.
Proof. unfold faults. apply flat_map_app. Qed.

Definition with_raw (o : robj) (rs : list rawb) : robj :=
  {| ro_kind := ro_kind o; ro_ctx := ro_ctx o; ro_raw := rs; ro_callbacks := ro_callbacks o; ro_attached := ro_attached o |}.

(* a binding that fails to build is dropped alone: the preview is the preview of the document without it, and the error is reported *)
Theorem fault_dropped_alone o rs1 n rs2 :
  NoDup (map rname (rs1 ++ RFault n :: rs2)) ->
  fst (preview (with_raw o (rs1 ++ RFault n :: rs2))) = fst (preview (with_raw o (rs1 ++ rs2)))
  /\ In (RBuildFailed n) (snd (preview (with_raw o (rs1 ++ RFault n :: rs2))))
  /\ (forall d, In d (snd (preview (with_raw o (rs1 ++ rs2)))) -> In d (snd (preview (with_raw o (rs1 ++ RFault n :: rs2))))).
Proof.
  intros ND.
  assert (ND' : NoDup (map rname (rs1 ++ rs2))).
  { rewrite map_app in *. cbn [map] in ND. apply NoDup_remove_1 in ND. exact ND. }
  assert (F1 : first_dup [] (map rname (rs1 ++ RFault n :: rs2)) = None) by (apply first_dup_none; split; [exact ND|intros ? _ []]).
  assert (F2 : first_dup [] (map rname (rs1 ++ rs2)) = None) by (apply first_dup_none; split; [exact ND'|intros ? _ []]).
  unfold preview, elaborate, elaborate_props, with_raw. cbn [ro_raw ro_kind ro_ctx ro_callbacks ro_attached].
  rewrite F1, F2. rewrite !goods_app, !faults_app. cbn [goods faults flat_map app]. cbn [flat_map]. rewrite ?app_nil_l.
  destruct (dedup_first [] (ro_attached o)) as [att datt]; cbn [fst snd]; (split; [reflexivity|]); split.
  all: try (apply in_or_app; left; apply in_or_app; left; apply in_map; apply in_or_app; right; now left).
  all: intros d Hd; apply in_app_or in Hd; destruct Hd as [Hd|Hd]; [|apply in_or_app; right; exact Hd];
       apply in_or_app; left; apply in_app_or in Hd; destruct Hd as [Hd|Hd]; [|apply in_or_app; right; exact Hd];
       apply in_or_app; left; rewrite map_app in *; apply in_app_or in Hd; apply in_or_app; destruct Hd; [left|right; right]; assumption.
Qed.

(* a duplicated name empties the binding map of that object -- and touches nothing else of it *)
Theorem duplicate_loses_only_own o n : first_dup [] (map rname (ro_raw o)) = Some n ->
  let e := fst (elaborate o) in
  o_props e = [] /\ o_kind e = ro_kind o /\ o_ctx e = ro_ctx o /\ o_callbacks e = ro_callbacks o
  /\ o_attached e = map (fun x => (fst x, [snd x])) (fst (dedup_first [] (ro_attached o)))
  /\ In (RDuplicated n) (snd (elaborate o)).
Proof.
  intros H. unfold elaborate, elaborate_props. rewrite H. destruct (dedup_first [] (ro_attached o)); cbn; repeat split; auto.
Qed.

(* a duplicated ATTACHED binding is skipped alone: the first definition and every other attached binding are kept, so the cells of
   the object and of its siblings are those of the document without the duplicate (F15, after the repair) *)
Lemma dedup_skip seen l1 d l2 : (mem (akey d) seen = true \/ In (akey d) (map akey l1)) ->
  fst (dedup_first seen (l1 ++ d :: l2)) = fst (dedup_first seen (l1 ++ l2))
  /\ In (RDuplicated (akey d)) (snd (dedup_first seen (l1 ++ d :: l2))).
Proof.
  revert seen. induction l1 as [|x r IH]; intros seen H.
  - destruct H as [H|[]]. change ([] ++ d :: l2) with (d :: l2). change ([] ++ l2) with l2. cbn [dedup_first]. rewrite H.
    destruct (dedup_first seen l2) as [k dd]. cbn. split; [reflexivity|now left].
  - change ((x :: r) ++ d :: l2) with (x :: (r ++ d :: l2)). change ((x :: r) ++ l2) with (x :: (r ++ l2)). cbn [dedup_first].
    destruct (mem (akey x) seen) eqn:M.
    + assert (Hs : mem (akey d) seen = true \/ In (akey d) (map akey r)).
      { destruct H as [H|[E|H]]; [left; exact H|left; rewrite <- E; exact M|right; exact H]. }
      destruct (IH seen Hs) as [E1 E2].
      destruct (dedup_first seen (r ++ d :: l2)) as [k1 d1]. destruct (dedup_first seen (r ++ l2)) as [k2 d2]. cbn in *.
      split; [exact E1|right; exact E2].
    + assert (Hs : mem (akey d) (akey x :: seen) = true \/ In (akey d) (map akey r)).
      { destruct H as [H|[E|H]].
        - left. unfold mem in *. cbn [existsb]. rewrite H. apply orb_true_r.
        - left. unfold mem. cbn [existsb]. rewrite E. rewrite String.eqb_refl. reflexivity.
        - right. exact H. }
      destruct (IH (akey x :: seen) Hs) as [E1 E2].
      destruct (dedup_first (akey x :: seen) (r ++ d :: l2)) as [k1 d1]. destruct (dedup_first (akey x :: seen) (r ++ l2)) as [k2 d2]. cbn in *.
      split; [f_equal; exact E1|exact E2].
Qed.

Definition with_attached (o : robj) (l : list (aclass * leaf)) : robj :=
  {| ro_kind := ro_kind o; ro_ctx := ro_ctx o; ro_raw := ro_raw o; ro_callbacks := ro_callbacks o; ro_attached := l |}.

Theorem attached_duplicate_local o l1 d l2 : In (akey d) (map akey l1) ->
  fst (preview (with_attached o (l1 ++ d :: l2))) = fst (preview (with_attached o (l1 ++ l2)))
  /\ In (RDuplicated (akey d)) (snd (preview (with_attached o (l1 ++ d :: l2)))).
Proof.
  intros H. destruct (dedup_skip [] l1 d l2 (or_intror H)) as [E1 E2].
  unfold preview, elaborate, with_attached. cbn [ro_raw ro_kind ro_ctx ro_callbacks ro_attached].
  destruct (elaborate_props (ro_raw o)) as [ps dp].
  destruct (dedup_first [] (l1 ++ d :: l2)) as [k1 d1]. destruct (dedup_first [] (l1 ++ l2)) as [k2 d2]. cbn [fst snd] in *. subst k2.
  split; [reflexivity|]. apply in_or_app. left. apply in_or_app. right. exact E2.
Qed.

(* ---- the object tree ---- *)
Lemma rnode_ind' (P : rnode -> Prop) :
  (forall ok k nm acts ch, Forall P ch -> P (RN ok k nm acts ch)) -> forall n, P n.
Proof.
  intros H. fix IH 1. intros [ok k nm acts ch]. apply H.
  induction ch as [|c r IHr]; constructor; [apply IH|exact IHr].
Qed.

Definition resolves (n : rnode) : bool := match n with RN ok _ _ _ _ => ok end.
(* the document without the subtrees whose root does not resolve *)
Fixpoint prune (n : rnode) : rnode :=
  match n with RN ok k nm acts ch => RN ok k nm acts (flat_map (fun c => if resolves c then [prune c] else []) ch) end.

Theorem resolve_prune : forall n, resolve n = resolve (prune n).
Proof.
  induction n as [ok k nm acts ch IH] using rnode_ind'. cbn [resolve prune]. destruct ok; [|reflexivity]. do 2 f_equal.
  induction ch as [|c r IHr]; [reflexivity|]. inversion IH as [|? ? Hc Hr]; subst. cbn [flat_map].
  rewrite flat_map_app. rewrite <- (IHr Hr). f_equal.
  destruct c as [okc kc nmc actsc chc] eqn:E. cbn [resolves]. destruct okc.
  - cbn [flat_map]. rewrite app_nil_r. rewrite <- E in *. exact Hc.
  - reflexivity.
Qed.

(* an unresolvable child is skipped with its whole subtree, wherever it stands; its siblings are kept *)
Theorem subtree_absent k nm acts ch1 k' nm' acts' sub ch2 :
  resolve (RN true k nm acts (ch1 ++ RN false k' nm' acts' sub :: ch2)) = resolve (RN true k nm acts (ch1 ++ ch2)).
Proof. cbn [resolve]. rewrite !flat_map_app. cbn [flat_map resolve app]. reflexivity. Qed.

(* a form exists whenever the root object resolves *)
Theorem form_exists root : resolves root = true -> preview_form root <> None.
Proof. destruct root as [ok k nm acts ch]. cbn. intros ->. unfold preview_form. cbn. discriminate. Qed.
Theorem no_form_without_root root : resolves root = false -> preview_form root = None.
Proof. destruct root as [ok k nm acts ch]. cbn. intros ->. reflexivity. Qed.

(* ---- F15: when the attached map of a child is lost as a whole, the cells of its FOLLOWING SIBLINGS move ---- *)
Open Scope Z_scope.
Theorem attached_loss_moves_siblings_refuted :
  exists (f : flow) (a b : attach),
    option_map (fun l => nth 1 l (None, None, None, None)) (cells f [a; b])
    <> option_map (fun l => nth 1 l (None, None, None, None)) (cells f [no_attach; b]).
Proof.
  exists (LeftToRight 2), {| a_row := Some 2; a_col := None; a_rowspan := None; a_colspan := None; a_cmw := None; a_cst := None; a_rmh := None; a_rst := None |}, no_attach.
  vm_compute. discriminate.
Qed.

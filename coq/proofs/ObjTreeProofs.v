(* ObjTreeProofs.v -- C11: every object appears exactly once, in document order, nested in its parent's element. *)
From Coq Require Import Lia.
From QV Require Import model.Base model.ObjTree.
Open Scope nat_scope.

(* induction over object trees (children in a list) *)
Lemma onode_rect' (P : onode -> Prop) :
  (forall k nm acts ch, Forall P ch -> P (ON k nm acts ch)) -> forall n, P n.
Proof.
  intros H. fix IH 1. intros [k nm acts ch]. apply H.
  induction ch as [|c r IHr]; constructor; [apply IH|exact IHr].
Qed.

(* an accepted placement: only layout / spacer / widget / menu below a layout; only action / separator / layout / menu /
   widget below a widget; actions, separators and spacers have no children *)
Fixpoint well_placed (in_layout : bool) (n : onode) : bool :=
  match n with
  | ON k _ _ ch =>
      match k with
      | KLayout => forallb (well_placed true) ch
      | KWidget | KMenu => forallb (well_placed false) ch
      | KSpacer => in_layout && match ch with [] => true | _ => false end
      | KAction | KSeparator => negb in_layout && match ch with [] => true | _ => false end
      | KOther => false
      end
  end.

Lemma flat_map_nil_forall {A B} (f : A -> list B) l : Forall (fun x => f x = []) l -> flat_map f l = [].
Proof. induction 1 as [|x r Hx _ IH]; cbn; [reflexivity|]. rewrite Hx, IH. reflexivity. Qed.

Lemma flat_map_ext_forall {A B} (f g : A -> list B) l : Forall (fun x => f x = g x) l -> flat_map f l = flat_map g l.
Proof. induction 1 as [|x r Hx _ IH]; cbn; [reflexivity|]. rewrite Hx, IH. reflexivity. Qed.

Lemma flat_map_map {A B C} (f : B -> list C) (g : A -> B) l : flat_map f (map g l) = flat_map (fun x => f (g x)) l.
Proof. induction l as [|x r IH]; cbn; [reflexivity|]. rewrite IH. reflexivity. Qed.

(* well-placed documents produce no placement diagnostic *)
Theorem well_placed_no_error : forall n seps il, well_placed il n = true -> snd (ui_of seps il n) = [].
Proof.
  induction n as [k nm acts ch IH] using onode_rect'. intros seps il H.
  assert (Hw : forall b, forallb (well_placed b) ch = true -> flat_map snd (map (ui_of seps b) ch) = []).
  { intros b Hb. rewrite flat_map_map. apply flat_map_nil_forall.
    rewrite forallb_forall in Hb. rewrite Forall_forall in *. intros x Hx. apply IH; [exact Hx|apply Hb, Hx]. }
  destruct il, k; cbn [well_placed ui_of fst snd] in *; try discriminate;
    try (apply Hw; exact H);
    try (apply andb_prop in H; destruct H as [_ H]; destruct ch; [reflexivity|discriminate]).
Qed.

(* each object appears exactly once, in document order; a separator contributes no element of its own *)
Theorem ui_names_preorder : forall n seps il, well_placed il n = true ->
  flat_map ui_names (fst (ui_of seps il n)) = pre_order_no_sep n.
Proof.
  induction n as [k nm acts ch IH] using onode_rect'. intros seps il H.
  assert (Hc : forall b, forallb (well_placed b) ch = true ->
               flat_map ui_names (flat_map fst (map (ui_of seps b) ch)) = flat_map pre_order_no_sep ch).
  { intros b Hb. rewrite forallb_forall in Hb. rewrite Forall_forall in IH.
    clear H. induction ch as [|c r IHr]; [reflexivity|]. cbn [map flat_map]. rewrite flat_map_app.
    rewrite (IH c (or_introl eq_refl) seps b (Hb c (or_introl eq_refl))). f_equal.
    apply IHr; [intros x Hx; apply IH; now right|intros x Hx; apply Hb; now right]. }
  destruct il, k; cbn [well_placed ui_of fst snd pre_order_no_sep flat_map ui_names app] in *; try discriminate;
    try (rewrite app_nil_r; f_equal; apply Hc; exact H);
    try (apply andb_prop in H; destruct H as [_ H]; destruct ch; [reflexivity|discriminate]).
Qed.

(* children of a widget keep their order, and so do the items of a layout *)
Theorem children_in_order seps k nm acts ch :
  match k with KWidget | KMenu => True | _ => False end ->
  fst (ui_of seps false (ON k nm acts ch)) =
    [UWidget nm (widget_actions seps acts ch) (flat_map (fun c => fst (ui_of seps false c)) ch)].
Proof. intros Hk. destruct k; try contradiction; cbn [ui_of fst]; rewrite flat_map_map; reflexivity. Qed.

Theorem layout_items_in_order seps nm acts ch il :
  fst (ui_of seps il (ON KLayout nm acts ch)) = [ULayout nm (flat_map (fun c => fst (ui_of seps true c)) ch)].
Proof. destruct il; cbn [ui_of fst]; rewrite flat_map_map; reflexivity. Qed.

(* without an explicit list, actions and menus declared as children are added in declaration order and a separator
   becomes a separator entry; an explicit list is used as written *)
Theorem addactions_in_order seps ch :
  widget_actions seps None ch =
  flat_map (fun c => match okind_of c with KAction | KMenu => [Some (oname c)] | KSeparator => [None] | _ => [] end) ch.
Proof. reflexivity. Qed.
Theorem explicit_actions_as_written seps l ch : ~ (exists a, In a l /\ In a seps) -> widget_actions seps (Some l) ch = map Some l.
Proof.
  intros H. cbn [widget_actions]. apply map_ext_in. intros a Ha.
  destruct (existsb (Nat.eqb a) seps) eqn:E; [|reflexivity].
  exfalso. apply H. exists a. split; [exact Ha|]. apply existsb_exists in E. destruct E as [x [Hx Hx2]].
  apply Nat.eqb_eq in Hx2. subst x. exact Hx.
Qed.

(* the whole form: the root is a widget whose sub-elements enumerate the objects of the document in document order *)
Theorem form_names_preorder : forall k nm acts ch, forallb (well_placed false) ch = true ->
  ui_names (fst (form_of (ON k nm acts ch))) = nm :: flat_map pre_order_no_sep ch /\ snd (form_of (ON k nm acts ch)) = [].
Proof.
  intros k nm acts ch H. cbn [form_of fst snd ui_names]. generalize (separators (ON k nm acts ch)). intros seps. rewrite forallb_forall in H. split.
  - f_equal. rewrite flat_map_map. induction ch as [|c r IH]; [reflexivity|]. cbn [flat_map]. rewrite flat_map_app.
    rewrite ui_names_preorder by (apply H; now left). f_equal. apply IH. intros x Hx. apply H. now right.
  - rewrite flat_map_map. apply flat_map_nil_forall. apply Forall_forall. intros x Hx. apply well_placed_no_error. apply H, Hx.
Qed.

(* ---- objtree.rs: the flat vector and the child index lists represent the tree ---- *)
Definition fname (f : fnode) : nat := snd (fst f).
(* node i of the flat vector represents the tree n: same kind and name, and its child indices represent the children in order *)
Fixpoint represents (nodes : list fnode) (i : nat) (n : onode) : Prop :=
  match n with
  | ON k nm _ ch => exists idxs, nth_error nodes i = Some (k, nm, idxs) /\
      (fix all2 (ix : list nat) (cs : list onode) {struct cs} : Prop :=
         match cs, ix with [], [] => True | c :: cs', j :: ix' => represents nodes j c /\ all2 ix' cs' | _, _ => False end) idxs ch
  end.
Definition all_represent (nodes : list fnode) := fix all2 (ix : list nat) (cs : list onode) {struct cs} : Prop :=
  match cs, ix with [], [] => True | c :: cs', j :: ix' => represents nodes j c /\ all2 ix' cs' | _, _ => False end.

Lemma represents_unfold nodes i k nm a ch : represents nodes i (ON k nm a ch) <-> exists idxs, nth_error nodes i = Some (k, nm, idxs) /\ all_represent nodes idxs ch.
Proof. reflexivity. Qed.

Lemma all_represent_map (P Q : nat -> onode -> Prop) nodes nodes' : forall cs ix,
  Forall (fun c => forall j, represents nodes j c -> represents nodes' j c) cs -> all_represent nodes ix cs -> all_represent nodes' ix cs.
Proof.
  induction cs as [|c r IHr]; intros [|j ix] F H; cbn [all_represent] in *; try contradiction; auto.
  inversion F as [|? ? Hc Hr]; subst. destruct H as [A B]. split; [apply Hc, A|apply IHr; assumption].
Qed.

Lemma represents_mono : forall n nodes ext i, represents nodes i n -> represents (nodes ++ ext) i n.
Proof.
  induction n as [k nm acts ch IH] using onode_rect'. intros nodes ext i H.
  destruct (proj1 (represents_unfold _ _ _ _ _ _) H) as [idxs [H1 H2]]. apply (proj2 (represents_unfold _ _ _ _ _ _)). exists idxs. split.
  - rewrite nth_error_app1; [exact H1|]. apply nth_error_Some. congruence.
  - apply (all_represent_map (fun _ _ => True) (fun _ _ => True) nodes (nodes ++ ext) ch idxs); [|exact H2].
    eapply Forall_impl; [|exact IH]. intros c Hc j Hj. apply Hc, Hj.
Qed.

Definition go_children := fix go (cs : list onode) (a : list fnode) : list fnode * list nat :=
  match cs with [] => (a, []) | c :: r => let '(a1, i) := flatten c a in let '(a2, ix) := go r a1 in (a2, i :: ix) end.

Lemma flatten_unfold k nm a ch acc : flatten (ON k nm a ch) acc = let '(acc', idxs) := go_children ch acc in (acc' ++ [(k, nm, idxs)], length acc').
Proof. reflexivity. Qed.

(* the flat vector extends the accumulator by the nodes of the tree in post-order; the returned index is the root's, it is the last
   one; and it represents the tree *)
Theorem flatten_spec : forall n acc, exists ext, fst (flatten n acc) = acc ++ ext /\ snd (flatten n acc) = length acc + length ext - 1
  /\ ext <> [] /\ map fname ext = post_order n /\ represents (fst (flatten n acc)) (snd (flatten n acc)) n.
Proof.
  induction n as [k nm acts ch IH] using onode_rect'. intros acc. rewrite flatten_unfold.
  assert (G : forall cs a, Forall (fun c => forall acc0, exists ext, fst (flatten c acc0) = acc0 ++ ext /\ snd (flatten c acc0) = length acc0 + length ext - 1
                                          /\ ext <> [] /\ map fname ext = post_order c /\ represents (fst (flatten c acc0)) (snd (flatten c acc0)) c) cs ->
              exists ext, fst (go_children cs a) = a ++ ext /\ map fname ext = flat_map post_order cs /\ all_represent (fst (go_children cs a)) (snd (go_children cs a)) cs).
  { induction cs as [|c r IHr]; intros a F; cbn [go_children].
    - exists []. rewrite app_nil_r. repeat split.
    - inversion F as [|? ? Hc Hr]; subst. destruct (Hc a) as [e1 [E1 [E2 [E3 [E4 E5]]]]].
      destruct (flatten c a) as [a1 i] eqn:Fc. cbn [fst snd] in *. destruct (IHr a1 Hr) as [e2 [G1 [G2 G3]]].
      destruct (go_children r a1) as [a2 ix] eqn:Gr. cbn [fst snd] in *. exists (e1 ++ e2). split; [rewrite G1, E1, app_assoc; reflexivity|].
      split; [rewrite map_app, E4, G2; reflexivity|]. cbn. split; [|exact G3].
      rewrite G1. apply represents_mono. exact E5. }
  destruct (G ch acc IH) as [ext [G1 [G2 G3]]]. destruct (go_children ch acc) as [acc' idxs]. cbn [fst snd] in *.
  exists (ext ++ [(k, nm, idxs)]). split; [rewrite G1, app_assoc; reflexivity|]. split; [rewrite G1, !app_length; cbn; lia|].
  split; [intros X; apply app_eq_nil in X; destruct X; discriminate|]. split; [rewrite map_app, G2; reflexivity|].
  apply (proj2 (represents_unfold _ _ _ _ _ _)). exists idxs. split.
  - rewrite nth_error_app2 by lia. rewrite Nat.sub_diag. reflexivity.
  - apply (all_represent_map (fun _ _ => True) (fun _ _ => True) acc' (acc' ++ [(k, nm, idxs)]) ch idxs); [|exact G3].
    apply Forall_forall. intros c _ j Hj. apply represents_mono, Hj.
Qed.

(* the root is the last node of the flat vector (ObjectTree::root = nodes.last()), and the vector lists the objects in post-order *)
Theorem flatten_tree_spec root : map fname (flatten_tree root) = post_order root
  /\ represents (flatten_tree root) (length (flatten_tree root) - 1) root.
Proof.
  unfold flatten_tree. destruct (flatten_spec root []) as [ext [E1 [E2 [E3 [E4 E5]]]]]. cbn [app length Nat.add] in *.
  rewrite E1. split; [exact E4|]. rewrite E1 in E5. rewrite E2 in E5. exact E5.
Qed.

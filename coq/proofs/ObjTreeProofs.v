(* ObjTreeProofs.v -- C11: every object appears exactly once, in document order, nested in its parent's element. *)
From Coq Require Import Lia.
From QV Require Import model.Base model.ObjTree.
Open Scope nat_scope.

(* induction over object trees (children in a list) *)
Lemma onode_rect' (P : onode -> Prop) :
  (forall k nm acts ch, Forall P ch -> P (ON k nm acts ch)) -> forall n, P n.
Proof.
  intros H. fix IH 1. intros [k nm acts ch]. apply H.
  induction ch as [|c r IHr]; constructor; [apply IH|exact IHr].
Qed.

(* an accepted placement: only layout / spacer / widget / menu below a layout; only action / separator / layout / menu /
   widget below a widget; actions, separators and spacers have no children *)
Fixpoint well_placed (in_layout : bool) (n : onode) : bool :=
  match n with
  | ON k _ _ ch =>
      match k with
      | KLayout => forallb (well_placed true) ch
      | KWidget | KMenu => forallb (well_placed false) ch
      | KSpacer => in_layout && match ch with [] => true | _ => false end
      | KAction | KSeparator => negb in_layout && match ch with [] => true | _ => false end
      | KOther => false
      end
  end.

Lemma flat_map_nil_forall {A B} (f : A -> list B) l : Forall (fun x => f x = []) l -> flat_map f l = [].
Proof. induction 1 as [|x r Hx _ IH]; cbn; [reflexivity|]. rewrite Hx, IH. reflexivity. Qed.

Lemma flat_map_ext_forall {A B} (f g : A -> list B) l : Forall (fun x => f x = g x) l -> flat_map f l = flat_map g l.
Proof. induction 1 as [|x r Hx _ IH]; cbn; [reflexivity|]. rewrite Hx, IH. reflexivity. Qed.

Lemma flat_map_map {A B C} (f : B -> list C) (g : A -> B) l : flat_map f (map g l) = flat_map (fun x => f (g x)) l.
Proof. induction l as [|x r IH]; cbn; [reflexivity|]. rewrite IH. reflexivity. Qed.

(* well-placed documents produce no placement diagnostic *)
Theorem well_placed_no_error : forall n seps il, well_placed il n = true -> snd (ui_of seps il n) = [].
Proof.
  induction n as [k nm acts ch IH] using onode_rect'. intros seps il H.
  assert (Hw : forall b, forallb (well_placed b) ch = true -> flat_map snd (map (ui_of seps b) ch) = []).
  { intros b Hb. rewrite flat_map_map. apply flat_map_nil_forall.
    rewrite forallb_forall in Hb. rewrite Forall_forall in *. intros x Hx. apply IH; [exact Hx|apply Hb, Hx]. }
  destruct il, k; cbn [well_placed ui_of fst snd] in *; try discriminate;
    try (apply Hw; exact H);
    try (apply andb_prop in H; destruct H as [_ H]; destruct ch; [reflexivity|discriminate]).
Qed.

(* each object appears exactly once, in document order; a separator contributes no element of its own *)
Theorem ui_names_preorder : forall n seps il, well_placed il n = true ->
  flat_map ui_names (fst (ui_of seps il n)) = pre_order_no_sep n.
Proof.
  induction n as [k nm acts ch IH] using onode_rect'. intros seps il H.
  assert (Hc : forall b, forallb (well_placed b) ch = true ->
               flat_map ui_names (flat_map fst (map (ui_of seps b) ch)) = flat_map pre_order_no_sep ch).
  { intros b Hb. rewrite forallb_forall in Hb. rewrite Forall_forall in IH.
    clear H. induction ch as [|c r IHr]; [reflexivity|]. cbn [map flat_map]. rewrite flat_map_app.
    rewrite (IH c (or_introl eq_refl) seps b (Hb c (or_introl eq_refl))). f_equal.
    apply IHr; [intros x Hx; apply IH; now right|intros x Hx; apply Hb; now right]. }
  destruct il, k; cbn [well_placed ui_of fst snd pre_order_no_sep flat_map ui_names app] in *; try discriminate;
    try (rewrite app_nil_r; f_equal; apply Hc; exact H);
    try (apply andb_prop in H; destruct H as [_ H]; destruct ch; [reflexivity|discriminate]).
Qed.

(* children of a widget keep their order, and so do the items of a layout *)
Theorem children_in_order seps k nm acts ch :
  match k with KWidget | KMenu => True | _ => False end ->
  fst (ui_of seps false (ON k nm acts ch)) =
    [UWidget nm (widget_actions seps acts ch) (flat_map (fun c => fst (ui_of seps false c)) ch)].
Proof. intros Hk. destruct k; try contradiction; cbn [ui_of fst]; rewrite flat_map_map; reflexivity. Qed.

Theorem layout_items_in_order seps nm acts ch il :
  fst (ui_of seps il (ON KLayout nm acts ch)) = [ULayout nm (flat_map (fun c => fst (ui_of seps true c)) ch)].
Proof. destruct il; cbn [ui_of fst]; rewrite flat_map_map; reflexivity. Qed.

(* without an explicit list, actions and menus declared as children are added in declaration order and a separator
   becomes a separator entry; an explicit list is used as written *)
Theorem addactions_in_order seps ch :
  widget_actions seps None ch =
  flat_map (fun c => match okind_of c with KAction | KMenu => [Some (oname c)] | KSeparator => [None] | _ => [] end) ch.
Proof. reflexivity. Qed.
Theorem explicit_actions_as_written seps l ch : ~ (exists a, In a l /\ In a seps) -> widget_actions seps (Some l) ch = map Some l.
Proof.
  intros H. cbn [widget_actions]. apply map_ext_in. intros a Ha.
  destruct (existsb (Nat.eqb a) seps) eqn:E; [|reflexivity].
  exfalso. apply H. exists a. split; [exact Ha|]. apply existsb_exists in E. destruct E as [x [Hx Hx2]].
  apply Nat.eqb_eq in Hx2. subst x. exact Hx.
Qed.

(* the whole form: the root is a widget whose sub-elements enumerate the objects of the document in document order *)
Theorem form_names_preorder : forall k nm acts ch, forallb (well_placed false) ch = true ->
  ui_names (fst (form_of (ON k nm acts ch))) = nm :: flat_map pre_order_no_sep ch /\ snd (form_of (ON k nm acts ch)) = [].
Proof.
  intros k nm acts ch H. cbn [form_of fst snd ui_names]. generalize (separators (ON k nm acts ch)). intros seps. rewrite forallb_forall in H. split.
  - f_equal. rewrite flat_map_map. induction ch as [|c r IH]; [reflexivity|]. cbn [flat_map]. rewrite flat_map_app.
    rewrite ui_names_preorder by (apply H; now left). f_equal. apply IH. intros x Hx. apply H. now right.
  - rewrite flat_map_map. apply flat_map_nil_forall. apply Forall_forall. intros x Hx. apply well_placed_no_error. apply H, Hx.
Qed.

From Coq Require Import List Bool.
From QV Require Import model.Driver.
Import ListNotations.

Section DriverProofs.
  Variable out : Type.
  Notation run := (@run_sources out).
  Theorem exit_status_spec vs : snd (run vs) = negb (existsb (@is_error out) vs).
  Proof.
    induction vs as [|[o|] r IH]; cbn; [reflexivity| |reflexivity].
    destruct (run r) as [w ok]. cbn in *. exact IH.
  Qed.

  Theorem written_spec vs : fst (run vs) = (@outputs_before_first_error out) vs.
  Proof.
    induction vs as [|[o|] r IH]; cbn; [reflexivity| |reflexivity].
    destruct (run r) as [w ok]. cbn in *. rewrite IH. reflexivity.
  Qed.

  (* an error in ANY source -- first, last or in the middle -- makes the command fail *)
  Corollary any_error_fails a b : snd (run (a ++ HasErrors :: b)) = false.
  Proof. rewrite exit_status_spec, existsb_app. cbn. rewrite orb_true_r. reflexivity. Qed.

  (* nothing of a source with errors is written, nor of any source after it *)
  Corollary nothing_written_from_the_error_on a b : fst (run (a ++ HasErrors :: b)) = (@outputs_before_first_error out) a.
  Proof.
    rewrite written_spec. induction a as [|[o|] r IH]; cbn; [reflexivity| |reflexivity]. rewrite IH. reflexivity.
  Qed.

  Corollary all_translated_all_written os : run (map Translated os) = (os, true).
  Proof. induction os as [|o r IH]; cbn; [reflexivity|]. rewrite IH. reflexivity. Qed.
End DriverProofs.

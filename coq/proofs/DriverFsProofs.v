From Coq Require Import List Bool.
From QV Require Import model.Base model.FsModel proofs.FsProofs model.Driver proofs.DriverProofs model.DriverFs.
Import ListNotations.

(* an error in a source: at EVERY moment of the run, every path that is not an output of a source in front of it -- the outputs of the faulty source itself, of
   the sources after it, anything else -- holds what it held before (it is neither created nor modified) *)
Theorem faulty_source_writes_nothing s t a b n q : fresh s t ->
  ~ In q (map fst (outs_of (outputs_before_first_error _ a))) ->
  lookup (files (exec_all s (firstn n (command_ops s t (a ++ HasErrors :: b))))) q = lookup (files s) q.
Proof.
  intros F N. unfold command_ops. rewrite nothing_written_from_the_error_on. apply run_prefix_other; assumption.
Qed.

(* ... and the exit status says so *)
Theorem faulty_source_fails_the_command a b : snd (run_sources (list (path * data)) (a ++ HasErrors :: b)) = false.
Proof. apply any_error_fails. Qed.

(* NamesProofs.v -- C10: generated names are fresh (no id, no earlier generated name), the search always succeeds. *)
From Coq Require Import Lia Arith DecimalString DecimalNat DecimalFacts FinFun.
From QV Require Import model.Base model.Names.

Lemma smem_In x l : smem x l = true <-> In x l.
Proof.
  induction l as [|y r IH]; cbn [smem In]; [split; [discriminate|intros []]|].
  rewrite orb_true_iff, IH, String.eqb_eq. split; intros [H|H]; auto.
Qed.

(* ---- decimal suffixes are injective ---- *)
Lemma dec_inj a b : dec a = dec b -> a = b.
Proof.
  unfold dec. intros H.
  assert (E : Nat.to_uint a = Nat.to_uint b).
  { pose proof (NilEmpty.usu (Nat.to_uint a)) as Ha. pose proof (NilEmpty.usu (Nat.to_uint b)) as Hb.
    rewrite H in Ha. rewrite Ha in Hb. inversion Hb. reflexivity. }
  rewrite <- (Unsigned.of_to a), <- (Unsigned.of_to b), E. reflexivity.
Qed.

Lemma dec_nonempty n : dec n <> EmptyString.
Proof.
  unfold dec. intros H. pose proof (NilEmpty.usu (Nat.to_uint n)) as U. rewrite H in U. cbn in U.
  inversion U as [E]. pose proof (Unsigned.to_of (Nat.to_uint n)) as T. rewrite Unsigned.of_to in T.
  rewrite <- E in T. cbn in T. discriminate.
Qed.

Lemma append_inj_r p a b : (p ++ a)%string = (p ++ b)%string -> a = b.
Proof. induction p as [|c r IH]; cbn; [auto|]. intros H. inversion H. auto. Qed.
Lemma append_nil_r_inv p a : (p ++ a)%string = p -> a = EmptyString.
Proof. induction p as [|c r IH]; cbn; [auto|]. intros H. inversion H. auto. Qed.

Lemma concat_inj p a b : concat_number_suffix p a = concat_number_suffix p b -> a = b.
Proof.
  unfold concat_number_suffix. destruct a as [|a], b as [|b]; intros H; [reflexivity| | |].
  - symmetry in H. apply append_nil_r_inv in H. exfalso. eapply dec_nonempty; eauto.
  - apply append_nil_r_inv in H. exfalso. eapply dec_nonempty; eauto.
  - apply append_inj_r, dec_inj in H. exact H.
Qed.

(* ---- the search ---- *)
Lemma find_free_spec fuel p n taken k id : find_free fuel p n taken = Some (k, id) ->
  id = concat_number_suffix p k /\ taken id = false /\ n <= k.
Proof.
  revert n. induction fuel as [|f IH]; intros n H; [discriminate|]. cbn [find_free] in H.
  destruct (taken (concat_number_suffix p n)) eqn:T.
  - destruct (IH _ H) as [E [F L]]. repeat split; auto. lia.
  - inversion H; subst. auto.
Qed.

Lemma find_free_none fuel p n taken : find_free fuel p n taken = None ->
  forall i, i < fuel -> taken (concat_number_suffix p (n + i)) = true.
Proof.
  revert n. induction fuel as [|f IH]; intros n H i Hi; [lia|]. cbn [find_free] in H.
  destruct (taken (concat_number_suffix p n)) eqn:T; [|discriminate].
  destruct i as [|i]; [rewrite Nat.add_0_r; exact T|].
  replace (n + S i) with (S n + i) by lia. apply IH; [exact H|lia].
Qed.

(* pigeonhole: more distinct candidates than taken names *)
Theorem find_free_total p n (taken_l : list string) :
  find_free (S (List.length taken_l)) p n (fun id => smem id taken_l) <> None.
Proof.
  intros H. pose proof (find_free_none _ _ _ _ H) as A.
  set (cands := map (fun i => concat_number_suffix p (n + i)) (seq 0 (S (List.length taken_l)))).
  assert (ND : NoDup cands).
  { unfold cands. apply FinFun.Injective_map_NoDup; [|apply seq_NoDup].
    intros a b E. apply concat_inj in E. lia. }
  assert (IN : incl cands taken_l).
  { intros x Hx. unfold cands in Hx. apply in_map_iff in Hx. destruct Hx as [i [<- Hi]]. apply in_seq in Hi.
    apply smem_In. apply A. lia. }
  pose proof (NoDup_incl_length ND IN) as L. unfold cands in L. rewrite map_length, seq_length in L. lia.
Qed.

Lemma smem_app x a b : smem x (a ++ b) = smem x a || smem x b.
Proof. induction a as [|y r IH]; cbn; [reflexivity|]. rewrite IH, orb_assoc. reflexivity. Qed.

Theorem generate_total g p reserved : exists id g', generate_with_reserved g p reserved = Ok (id, g').
Proof.
  unfold generate_with_reserved.
  set (count := match assoc p (used_prefixes g) with Some c => c | None => 0 end).
  pose proof (find_free_total p count (reserved ++ used_names g)) as T.
  rewrite app_length in T.
  assert (E : find_free (S (List.length reserved + List.length (used_names g))) p count (fun id => smem id reserved || smem id (used_names g))
            = find_free (S (List.length reserved + List.length (used_names g))) p count (fun id => smem id (reserved ++ used_names g))).
  { generalize (S (List.length reserved + List.length (used_names g))). intros fuel. clear T. generalize count. clear count.
    induction fuel as [|f IH]; intros c; [reflexivity|]. cbn [find_free]. rewrite smem_app, IH. reflexivity. }
  rewrite E. destruct (find_free _ p count _) as [[n id]|]; [eauto|contradiction].
Qed.

Theorem generate_fresh g p reserved id g' : generate_with_reserved g p reserved = Ok (id, g') ->
  ~ In id reserved /\ ~ In id (used_names g) /\ used_names g' = id :: used_names g /\ exists n, id = concat_number_suffix p n.
Proof.
  unfold generate_with_reserved.
  destruct (find_free _ p _ _) as [[n i]|] eqn:F; [|discriminate]. intros E. inversion E; subst.
  destruct (find_free_spec _ _ _ _ _ _ F) as [Ei [T _]]. apply orb_false_iff in T. destruct T as [T1 T2].
  repeat split; [intros X; apply smem_In in X; congruence|intros X; apply smem_In in X; congruence|eauto].
Qed.

(* ---- naming the object tree ---- *)
Lemma name_nodes_go_spec : forall nodes g reserved,
  incl (ids_of nodes) reserved ->
  exists names, name_nodes_go g reserved nodes = Ok names /\
    List.length names = List.length nodes /\
    (* ids verbatim *)
    (forall k c i, nth_error nodes k = Some (c, Some i) -> nth_error names k = Some i) /\
    (* generated names: fresh w.r.t. every id and every name issued before, pairwise distinct, built from the class prefix *)
    (forall k c, nth_error nodes k = Some (c, None) ->
       exists nm n, nth_error names k = Some nm /\ ~ In nm reserved /\ ~ In nm (used_names g) /\
                    nm = concat_number_suffix (variable_name_for_type c) n) /\
    (forall j k cj ck nj nk, j < k -> nth_error nodes j = Some (cj, None) -> nth_error nodes k = Some (ck, None) ->
       nth_error names j = Some nj -> nth_error names k = Some nk -> nj <> nk).
Proof.
  induction nodes as [|[c [i|]] r IH]; intros g reserved Hincl.
  - exists []. cbn. repeat split; try reflexivity; intros; destruct k; discriminate.
  - cbn [ids_of] in Hincl. destruct (IH g reserved (fun x Hx => Hincl x (or_intror Hx))) as [names [E [L [V [G D]]]]].
    exists (i :: names). cbn [name_nodes_go]. rewrite E. cbn [bind]. split; [reflexivity|]. split; [cbn; lia|].
    split; [|split].
    + intros [|k] c' i' H; cbn in *; [inversion H; reflexivity|eapply V; eauto].
    + intros [|k] c' H; cbn in *; [discriminate|eapply G; eauto].
    + intros [|j] [|k] cj ck nj nk Hlt Hj Hk Nj Nk; cbn in *; try lia; try discriminate.
      eapply (D j k); eauto. lia.
  - cbn [ids_of] in Hincl. cbn [name_nodes_go].
    destruct (generate_total g (variable_name_for_type c) reserved) as [id [g' Eg]]. rewrite Eg. cbn [bind fst snd].
    destruct (generate_fresh _ _ _ _ _ Eg) as [F1 [F2 [U' [n En]]]].
    destruct (IH g' reserved Hincl) as [names [E [L [V [G D]]]]]. rewrite E. cbn [bind].
    exists (id :: names). split; [reflexivity|]. split; [cbn; lia|]. split; [|split].
    + intros [|k] c' i' H; cbn in *; [discriminate|eapply V; eauto].
    + intros [|k] c' H; cbn in *.
      * inversion H; subst c'. exists id, n. auto.
      * destruct (G k c' H) as [nm [m [Nk [R1 [R2 R3]]]]]. exists nm, m. repeat split; auto.
        rewrite U' in R2. intros X. apply R2. now right.
    + intros [|j] [|k] cj ck nj nk Hlt Hj Hk Nj Nk; cbn in *; try lia.
      * inversion Nj; subst nj. destruct (G k ck Hk) as [nm [m [Nk' [_ [R2 _]]]]]. rewrite Nk in Nk'. inversion Nk'; subst nm.
        rewrite U' in R2. intros X. apply R2. left. exact X.
      * eapply (D j k); eauto. lia.
Qed.

Lemma ids_of_In nodes c i : In (c, Some i) nodes -> In i (ids_of nodes).
Proof.
  induction nodes as [|[c' [i'|]] r IH]; cbn; [auto| |].
  - intros [H|H]; [inversion H; now left|right; auto].
  - intros [H|H]; [discriminate|auto].
Qed.

Lemma ids_of_nth nodes : forall k i, nth_error (ids_of nodes) k = Some i -> exists j c, nth_error nodes j = Some (c, Some i).
Proof.
  induction nodes as [|[c [i'|]] r IH]; intros k i H; cbn [ids_of] in H.
  - destruct k; discriminate.
  - destruct k as [|k]; cbn in H.
    + inversion H; subst. exists 0, c. reflexivity.
    + destruct (IH k i H) as [j [c' Hj]]. exists (S j), c'. exact Hj.
  - destruct (IH k i H) as [j [c' Hj]]. exists (S j), c'. exact Hj.
Qed.

(* the full statement: with pairwise distinct ids, ALL names of the tree are pairwise distinct *)
Theorem names_unique nodes : NoDup (ids_of nodes) ->
  exists names, name_nodes nodes = Ok names /\ List.length names = List.length nodes /\ NoDup names /\
    (forall k c i, nth_error nodes k = Some (c, Some i) -> nth_error names k = Some i) /\
    (forall k c, nth_error nodes k = Some (c, None) -> exists nm n, nth_error names k = Some nm /\ ~ In nm (ids_of nodes) /\
                                                                  nm = concat_number_suffix (variable_name_for_type c) n).
Proof.
  intros ND. unfold name_nodes.
  destruct (name_nodes_go_spec nodes namegen0 (ids_of nodes) (incl_refl _)) as [names [E [L [V [G D]]]]].
  exists names. split; [exact E|]. split; [exact L|]. split; [|split; [exact V|]].
  2:{ intros k c H. destruct (G k c H) as [nm [n [N [R1 [_ R3]]]]]. exists nm, n. auto. }
  (* NoDup names: by cases on the kinds of two positions *)
  apply NoDup_nth_error. intros j k Hj Ejk.
  assert (Hk : k < List.length names).
  { apply nth_error_Some. rewrite <- Ejk. apply nth_error_Some. exact Hj. }
  destruct (nth_error nodes j) as [[cj ij]|] eqn:Nj; [|apply nth_error_None in Nj; lia].
  destruct (nth_error nodes k) as [[ck ik]|] eqn:Nk; [|apply nth_error_None in Nk; lia].
  destruct (Nat.eq_dec j k) as [|Ne]; [assumption|exfalso].
  destruct ij as [ij|], ik as [ik|].
  - (* two ids *)
    pose proof (V j cj ij Nj) as A. pose proof (V k ck ik Nk) as B. rewrite A, B in Ejk. inversion Ejk; subst ik.
    (* the same id at two positions contradicts NoDup (ids_of nodes) *)
    clear -ND Nj Nk Ne. revert j k Nj Nk Ne. induction nodes as [|[c [i|]] r IH]; intros j k Nj Nk Ne; [destruct j; discriminate| |].
    + cbn [ids_of] in ND. inversion ND as [|? ? Hnot ND']; subst.
      destruct j as [|j], k as [|k]; cbn in *; try congruence.
      * inversion Nj; subst. apply Hnot. eapply ids_of_In, nth_error_In; eauto.
      * inversion Nk; subst. apply Hnot. eapply ids_of_In, nth_error_In; eauto.
      * eapply (IH ND' j k); eauto.
    + cbn [ids_of] in ND. destruct j as [|j], k as [|k]; cbn in *; try discriminate. eapply (IH ND j k); eauto.
  - pose proof (V j cj ij Nj) as A. destruct (G k ck Nk) as [nm [n [B [R1 _]]]]. rewrite A, B in Ejk. inversion Ejk; subst nm.
    apply R1. eapply ids_of_In, nth_error_In; eauto.
  - pose proof (V k ck ik Nk) as B. destruct (G j cj Nj) as [nm [n [A [R1 _]]]]. rewrite A, B in Ejk. inversion Ejk; subst nm.
    apply R1. eapply ids_of_In, nth_error_In; eauto.
  - destruct (G j cj Nj) as [nj [n1 [A _]]]. destruct (G k ck Nk) as [nk [n2 [B _]]].
    destruct (Nat.lt_ge_cases j k) as [Lt|Ge].
    + apply (D j k cj ck nj nk Lt Nj Nk A B). rewrite A, B in Ejk. inversion Ejk. reflexivity.
    + assert (Lt : k < j) by lia. apply (D k j ck cj nk nj Lt Nk Nj B A). rewrite A, B in Ejk. inversion Ejk. reflexivity.
Qed.

(* duplicate ids are diagnosed, and only they *)
Lemma dup_ids_nil_iff nodes : forall seen, (dup_ids seen nodes = [] <-> NoDup (ids_of nodes) /\ forall i, In i (ids_of nodes) -> ~ In i seen).
Proof.
  induction nodes as [|[c [i|]] r IH]; intros seen; cbn [dup_ids ids_of].
  - split; [intros _; split; [constructor|intros i []]|reflexivity].
  - destruct (smem i seen) eqn:S.
    + split; [discriminate|]. intros [_ H]. exfalso. apply (H i (or_introl eq_refl)). apply smem_In, S.
    + rewrite IH. split.
      * intros [ND H]. split.
        -- constructor; [intros X; apply (H i X); now left|exact ND].
        -- intros x [<-|Hx] Hs; [apply smem_In in Hs; congruence|apply (H x Hx); now right].
      * intros [ND H]. inversion ND as [|? ? Hn ND']; subst. split; [exact ND'|].
        intros x Hx [<-|Hs]; [contradiction|apply (H x (or_intror Hx) Hs)].
  - apply IH.
Qed.

Theorem dup_ids_spec nodes : dup_ids [] nodes = [] <-> NoDup (ids_of nodes).
Proof. rewrite dup_ids_nil_iff. split; [intros [H _]; exact H|intros H; split; [exact H|intros i _ []]]. Qed.

(* variable_name_for_type examples pinned from qtname.rs tests *)
Example vn_examples : variable_name_for_type "QMainWindow" = "mainWindow"%string /\ variable_name_for_type "QVBoxLayout" = "vboxLayout"%string
  /\ variable_name_for_type "Q" = "q"%string /\ variable_name_for_type "Q3D" = "q3D"%string.
Proof. vm_compute. repeat split. Qed.

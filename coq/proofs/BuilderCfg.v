(* BuilderCfg.v -- every jump of every function body the model of tir::build produces targets an existing block *)
From QV Require Import model.Sem proofs.SemProofs proofs.ScopeProofs proofs.FrameProofs.
From QV Require Import model.Base model.Lang model.Types model.Tir model.Ceval model.Builder model.Passes proofs.BuilderInv.
From QV Require Import proofs.BuilderSafe proofs.BuilderSafeStmt proofs.BuilderSafeSwitch.
From Coq Require Import Arith Lia.
Open Scope nat_scope.
Open Scope list_scope.

Definition targets_in (blocks : list block) : Prop :=
  forall i b t, nth_error blocks i = Some b -> b_term b = Some t -> tgt_ok t (List.length blocks) i.

Lemma targets_in_update blocks i t : targets_in blocks -> tgt_ok t (List.length blocks) i -> targets_in (update_nth blocks i (fun b => set_term b t)).
Proof.
  intros H Ht j b t0 Hj Hb. rewrite update_nth_length.
  destruct (Nat.eq_dec i j) as [->|Hne].
  - destruct (nth_error blocks j) as [b0|] eqn:E0.
    + erewrite update_nth_same in Hj by exact E0. inversion Hj; subst. cbn in Hb. inversion Hb; subst. exact Ht.
    + exfalso. assert (Hn : nth_error (update_nth blocks j (fun b1 => set_term b1 t)) j = None).
      { apply nth_error_None. rewrite update_nth_length. apply nth_error_None. exact E0. }
      rewrite Hn in Hj. discriminate.
  - rewrite update_nth_other in Hj by exact Hne. eapply H; eassumption.
Qed.

Lemma finalize_loop_targets : forall fuel reachable blocks to_visit taken bl,
  finalize_loop fuel reachable blocks to_visit taken = Ok bl -> targets_in blocks -> targets_in bl /\ List.length bl = List.length blocks.
Proof.
  induction fuel as [|k IH]; intros reachable blocks to_visit taken bl H HT; cbn [finalize_loop] in H; [discriminate|].
  destruct (rev to_visit) as [|i rest_rev]; [inversion H; subst; auto|].
  destruct (nth_error blocks i) as [b|]; [|discriminate].
  assert (Hstep : forall t blocks' tv tk, tgt_ok t (List.length blocks) i -> blocks' = update_nth blocks i (fun b0 => set_term b0 t) ->
                   finalize_loop k reachable blocks' tv tk = Ok bl -> targets_in bl /\ List.length bl = List.length blocks).
  { intros t blocks' tv tk Ht -> H'. destruct (IH _ _ _ _ _ H' (targets_in_update _ _ _ HT Ht)) as [H1 H2]. split; [exact H1|]. rewrite H2. apply update_nth_length. }
  destruct (b_term b) as [[l|c a0 c0|a0|]|].
  - destruct (b_compl b) as [a|].
    + eapply Hstep; [|reflexivity|exact H]. exact I.
    + destruct (b_stmts b); eapply Hstep; try reflexivity; try exact H; destruct (reachable i || _); exact I.
  - discriminate.
  - discriminate.
  - discriminate.
  - destruct (b_compl b) as [a|].
    + eapply Hstep; [|reflexivity|exact H]. exact I.
    + destruct (b_stmts b); eapply Hstep; try reflexivity; try exact H; destruct (reachable i || _); exact I.
Qed.

Lemma finalize_completion_targets blocks start bl :
  finalize_completion_values blocks start = Ok bl -> targets_in blocks -> targets_in bl /\ List.length bl = List.length blocks.
Proof.
  unfold finalize_completion_values. intros H HT.
  destruct (nth_error blocks start) as [sb|]; [|discriminate]. destruct (b_term sb); [discriminate|].
  destruct (b_compl sb) as [a|].
  - inversion H; subst. split; [apply targets_in_update; [exact HT|exact I]|apply update_nth_length].
  - destruct (negb (br_targets_ok blocks)); [discriminate|]. eapply finalize_loop_targets; eassumption.
Qed.

Definition wf_cb := wf_callback.

(* every binding or handler the model of tir::build accepts: all `br` / `br_cond` terminators of its body name existing blocks *)
Theorem build_jump_targets_exist E cb c : wf_callback cb = true -> bu_code (build_callback E cb) = Some c -> targets_in (c_blocks c).
Proof.
  intros Hwf H. unfold build_callback, finish in H. pose proof (walk_callback_good E cb Hwf) as G.
  destruct (walk_callback E cb bstate0) as [[[ok env]| |x] s]; cbn in H; try discriminate.
  destruct ok; [|discriminate].
  destruct (finalize_completion_values (bs_blocks s) (List.length (bs_blocks s) - 1)) as [bl| | |] eqn:Ef; cbn in H; try discriminate.
  inversion H; subst. cbn [c_blocks].
  destruct G as [_ [_ GT]]. eapply finalize_completion_targets; [exact Ef|]. exact GT.
Qed.

(* ---------------------------------------------------------------- finalize_completion_values never panics *)
Definition patchable (b : block) : bool := match b_term b with Some (TmBr _) | None => true | _ => false end.
Definition npatch (blocks : list block) : nat := List.length (filter patchable blocks).

Lemma npatch_update : forall blocks i b t, nth_error blocks i = Some b -> patchable b = true -> patchable (set_term b t) = false ->
  npatch (update_nth blocks i (fun b0 => set_term b0 t)) + 1 = npatch blocks.
Proof.
  unfold npatch. induction blocks as [|x r IH]; intros [|i] b t H Hp Hq; cbn in H; try discriminate.
  - inversion H; subst. cbn [update_nth filter]. rewrite Hp, Hq. cbn. lia.
  - cbn [update_nth filter]. destruct (patchable x); cbn [List.length]; rewrite <- (IH i b t H Hp Hq); lia.
Qed.

Lemma incoming_of_spec : forall blocks k target j, In j (incoming_of blocks k target) <->
  exists b, k <= j /\ nth_error blocks (j - k) = Some b /\ b_term b = Some (TmBr target).
Proof.
  induction blocks as [|x r IH]; intros k target j; cbn [incoming_of].
  - split; [contradiction|]. intros (b & _ & H & _). destruct (j - k); discriminate.
  - rewrite in_app_iff, IH. split.
    + intros [H|(b & Hk & Hn & Ht)].
      * destruct (b_term x) as [[l|? ? ?|?|]|] eqn:Ex; try contradiction. destruct (Nat.eqb_spec l target); [|contradiction]. destruct H as [<-|[]].
        exists x. rewrite Nat.sub_diag. subst. auto.
      * exists b. split; [lia|]. replace (j - k) with (S (j - S k)) by lia. auto.
    + intros (b & Hk & Hn & Ht). destruct (Nat.eq_dec j k) as [->|Hne].
      * left. rewrite Nat.sub_diag in Hn. cbn in Hn. inversion Hn; subst. rewrite Ht, Nat.eqb_refl. now left.
      * right. exists b. split; [lia|]. replace (j - k) with (S (j - S k)) in Hn by lia. auto.
Qed.

Lemma incoming_of_nodup : forall blocks k target, NoDup (incoming_of blocks k target) /\ forall j, In j (incoming_of blocks k target) -> k <= j.
Proof.
  induction blocks as [|x r IH]; intros k target; cbn [incoming_of]; [split; [constructor|contradiction]|].
  destruct (IH (S k) target) as [Hn Hge]. split.
  - destruct (b_term x) as [[l|? ? ?|?|]|]; cbn [app]; try exact Hn. destruct (Nat.eqb l target); cbn [app]; [|exact Hn].
    constructor; [|exact Hn]. intros Hin. specialize (Hge _ Hin). lia.
  - intros j Hj. apply in_app_iff in Hj. destruct Hj as [Hj|Hj]; [|specialize (Hge _ Hj); lia].
    destruct (b_term x) as [[l|? ? ?|?|]|]; try contradiction. destruct (Nat.eqb l target); [destruct Hj as [<-|[]]; apply le_n|contradiction].
Qed.

Lemma NoDup_app_intro {A} (a b : list A) : NoDup a -> NoDup b -> (forall x, In x a -> In x b -> False) -> NoDup (a ++ b).
Proof.
  induction a as [|x r IH]; intros Ha Hb Hd; cbn [app]; [exact Hb|]. inversion Ha; subst. constructor.
  - intros Hin. apply in_app_iff in Hin. destruct Hin as [Hin|Hin]; [contradiction|]. eapply Hd; [now left|exact Hin].
  - apply IH; [assumption|exact Hb|]. intros y Hy1 Hy2. eapply Hd; [right; exact Hy1|exact Hy2].
Qed.

Lemma patch_not_patchable b t : match t with TmReturn _ | TmUnreachable => True | _ => False end -> patchable (set_term b t) = false.
Proof. destruct t; cbn; intros H; try contradiction; reflexivity. Qed.

Lemma finalize_loop_ok : forall fuel reachable blocks to_visit taken,
  targets_in blocks -> NoDup to_visit ->
  (forall j, In j to_visit -> exists b, nth_error blocks j = Some b /\ patchable b = true) ->
  (forall j b i', In j to_visit -> nth_error blocks j = Some b -> b_term b = Some (TmBr i') -> In i' taken) ->
  npatch blocks + 1 <= fuel ->
  exists bl, finalize_loop fuel reachable blocks to_visit taken = Ok bl.
Proof.
  induction fuel as [|k IH]; intros reachable blocks to_visit taken HT Hnd Hp Htk Hf; [lia|]. cbn [finalize_loop].
  destruct (rev to_visit) as [|i rest_rev] eqn:Erev; [eexists; reflexivity|].
  assert (Etv : to_visit = rev rest_rev ++ [i]) by (rewrite <- (rev_involutive to_visit), Erev; reflexivity).
  set (rest := rev rest_rev) in *.
  assert (Hi : In i to_visit) by (rewrite Etv; apply in_or_app; right; now left).
  destruct (Hp i Hi) as (b & Hb & Hpb). rewrite Hb.
  assert (Hndr : NoDup rest /\ ~ In i rest).
  { rewrite Etv in Hnd. apply NoDup_remove in Hnd. rewrite app_nil_r in Hnd. exact Hnd. }
  destruct Hndr as [Hndr Hir].
  (* what a patch of block i does to the invariant, for a continuation on [tv] / [tk] *)
  assert (Hcont : forall t tv tk, match t with TmReturn _ | TmUnreachable => True | _ => False end ->
            NoDup tv -> (forall j, In j tv -> j <> i /\ exists b0, nth_error blocks j = Some b0 /\ patchable b0 = true) ->
            (forall j b0 i', In j tv -> nth_error blocks j = Some b0 -> b_term b0 = Some (TmBr i') -> In i' tk) ->
            exists bl, finalize_loop k reachable (update_nth blocks i (fun b0 => set_term b0 t)) tv tk = Ok bl).
  { intros t tv tk Ht Hnd' Hp' Htk'. apply IH.
    - apply targets_in_update; [exact HT|]. destruct t; try contradiction; exact I.
    - exact Hnd'.
    - intros j Hj. destruct (Hp' j Hj) as (Hne & b0 & Hb0 & Hpb0). exists b0. rewrite update_nth_other by (intros ->; apply Hne; reflexivity). auto.
    - intros j b0 i' Hj Hb0 Hbt. destruct (Hp' j Hj) as (Hne & _). rewrite update_nth_other in Hb0 by (intros ->; apply Hne; reflexivity). eapply Htk'; eassumption.
    - pose proof (npatch_update blocks i b t Hb Hpb (patch_not_patchable b t Ht)). lia. }
  assert (Hrest : forall j, In j rest -> j <> i /\ exists b0, nth_error blocks j = Some b0 /\ patchable b0 = true).
  { intros j Hj. split; [intros ->; exact (Hir Hj)|]. apply Hp. rewrite Etv. apply in_or_app. now left. }
  assert (Hresttk : forall j b0 i', In j rest -> nth_error blocks j = Some b0 -> b_term b0 = Some (TmBr i') -> In i' taken).
  { intros j b0 i' Hj. apply Htk. rewrite Etv. apply in_or_app. now left. }
  unfold patchable in Hpb.
  destruct (b_term b) as [[l|c a0 c0|a0|]|] eqn:Ebt; try discriminate.
  - destruct (b_compl b) as [a|].
    + apply Hcont; [exact I|exact Hndr|exact Hrest|exact Hresttk].
    + destruct (b_stmts b) eqn:Est.
      * (* an empty block: its incoming jumps are visited next, once *)
        set (t := if reachable i || (false && match incoming_of blocks 0 i with [] => false | _ :: _ => true end) then TmReturn OVoid else TmUnreachable).
        assert (Htt : match t with TmReturn _ | TmUnreachable => True | _ => False end) by (unfold t; destruct (reachable i || _); exact I).
        destruct (existsb (Nat.eqb i) taken) eqn:Etk.
        -- apply Hcont; [exact Htt|rewrite app_nil_r; exact Hndr|rewrite app_nil_r; exact Hrest|].
           rewrite app_nil_r. intros j b0 i' Hj Hb0 Hbt0. right. eapply Hresttk; eassumption.
        -- assert (Hnt : ~ In i taken).
           { intros Hin. assert (existsb (Nat.eqb i) taken = true) by (apply existsb_exists; exists i; split; [exact Hin|apply Nat.eqb_refl]). congruence. }
           apply Hcont; [exact Htt| | |].
           ++ apply NoDup_app_intro; [exact Hndr|apply incoming_of_nodup|].
              intros j Hj1 Hj2. apply incoming_of_spec in Hj2. destruct Hj2 as (b0 & _ & Hb0 & Hbt0). rewrite Nat.sub_0_r in Hb0.
              apply Hnt. eapply Hresttk; eassumption.
           ++ intros j Hj. apply in_app_iff in Hj. destruct Hj as [Hj|Hj]; [apply Hrest, Hj|].
              apply incoming_of_spec in Hj. destruct Hj as (b0 & _ & Hb0 & Hbt0). rewrite Nat.sub_0_r in Hb0. split.
              ** intros ->. specialize (HT i b0 _ Hb0 Hbt0). cbn in HT. destruct HT as [_ HT]. apply HT. reflexivity.
              ** exists b0. split; [exact Hb0|]. unfold patchable. rewrite Hbt0. reflexivity.
           ++ intros j b0 i' Hj Hb0 Hbt0. apply in_app_iff in Hj. destruct Hj as [Hj|Hj]; [right; eapply Hresttk; eassumption|].
              apply incoming_of_spec in Hj. destruct Hj as (b1 & _ & Hb1 & Hbt1). rewrite Nat.sub_0_r in Hb1. rewrite Hb0 in Hb1. inversion Hb1; subst.
              rewrite Hbt0 in Hbt1. inversion Hbt1; subst. now left.
      * apply Hcont; [destruct (reachable i || _); exact I|exact Hndr|exact Hrest|exact Hresttk].
  - destruct (b_compl b) as [a|].
    + apply Hcont; [exact I|exact Hndr|exact Hrest|exact Hresttk].
    + destruct (b_stmts b) eqn:Est.
      * set (t := if reachable i || (false && match incoming_of blocks 0 i with [] => false | _ :: _ => true end) then TmReturn OVoid else TmUnreachable).
        assert (Htt : match t with TmReturn _ | TmUnreachable => True | _ => False end) by (unfold t; destruct (reachable i || _); exact I).
        destruct (existsb (Nat.eqb i) taken) eqn:Etk.
        -- apply Hcont; [exact Htt|rewrite app_nil_r; exact Hndr|rewrite app_nil_r; exact Hrest|].
           rewrite app_nil_r. intros j b0 i' Hj Hb0 Hbt0. right. eapply Hresttk; eassumption.
        -- assert (Hnt : ~ In i taken).
           { intros Hin. assert (existsb (Nat.eqb i) taken = true) by (apply existsb_exists; exists i; split; [exact Hin|apply Nat.eqb_refl]). congruence. }
           apply Hcont; [exact Htt| | |].
           ++ apply NoDup_app_intro; [exact Hndr|apply incoming_of_nodup|].
              intros j Hj1 Hj2. apply incoming_of_spec in Hj2. destruct Hj2 as (b0 & _ & Hb0 & Hbt0). rewrite Nat.sub_0_r in Hb0.
              apply Hnt. eapply Hresttk; eassumption.
           ++ intros j Hj. apply in_app_iff in Hj. destruct Hj as [Hj|Hj]; [apply Hrest, Hj|].
              apply incoming_of_spec in Hj. destruct Hj as (b0 & _ & Hb0 & Hbt0). rewrite Nat.sub_0_r in Hb0. split.
              ** intros ->. specialize (HT i b0 _ Hb0 Hbt0). cbn in HT. destruct HT as [_ HT]. apply HT. reflexivity.
              ** exists b0. split; [exact Hb0|]. unfold patchable. rewrite Hbt0. reflexivity.
           ++ intros j b0 i' Hj Hb0 Hbt0. apply in_app_iff in Hj. destruct Hj as [Hj|Hj]; [right; eapply Hresttk; eassumption|].
              apply incoming_of_spec in Hj. destruct Hj as (b1 & _ & Hb1 & Hbt1). rewrite Nat.sub_0_r in Hb1. rewrite Hb0 in Hb1. inversion Hb1; subst.
              rewrite Hbt0 in Hbt1. inversion Hbt1; subst. now left.
      * apply Hcont; [destruct (reachable i || _); exact I|exact Hndr|exact Hrest|exact Hresttk].
Qed.

Lemma targets_in_ok blocks : targets_in blocks -> br_targets_ok blocks = true.
Proof.
  intros HT. unfold br_targets_ok. apply forallb_forall. intros b Hb. apply In_nth_error in Hb. destruct Hb as [i Hi].
  destruct (b_term b) as [[l|c a0 c0|a0|]|] eqn:Et; try reflexivity.
  - specialize (HT i b _ Hi Et). cbn in HT. apply Nat.ltb_lt. tauto.
  - specialize (HT i b _ Hi Et). cbn in HT. destruct HT as [H1 H2]. apply andb_true_intro. split; apply Nat.ltb_lt; assumption.
Qed.

Lemma npatch_le blocks : npatch blocks <= List.length blocks.
Proof. unfold npatch. induction blocks as [|x r IH]; cbn; [apply le_n|]. destruct (patchable x); cbn; lia. Qed.

Lemma finalize_completion_ok blocks sb : targets_in blocks -> 1 <= List.length blocks ->
  nth_error blocks (List.length blocks - 1) = Some sb -> b_term sb = None ->
  exists bl, finalize_completion_values blocks (List.length blocks - 1) = Ok bl.
Proof.
  intros HT Hlen Hsb Hterm. unfold finalize_completion_values. rewrite Hsb, Hterm.
  destruct (b_compl sb); [eexists; reflexivity|]. rewrite (targets_in_ok _ HT). cbn [negb].
  apply finalize_loop_ok.
  - exact HT.
  - constructor; [intros []|constructor].
  - intros j [<-|[]]. exists sb. split; [exact Hsb|]. unfold patchable. rewrite Hterm. reflexivity.
  - intros j b i' [<-|[]] Hb Hbt. rewrite Hsb in Hb. inversion Hb; subst. rewrite Hterm in Hbt. discriminate.
  - pose proof (npatch_le blocks). lia.
Qed.

(* the model of tir::build / build_callback (walk, then finalize_completion_values) never panics and never runs out of fuel *)
Theorem build_never_panics E cb : wf_callback cb = true -> bu_panic (build_callback E cb) = None.
Proof.
  intros Hwf. unfold build_callback, finish. pose proof (walk_callback_good E cb Hwf) as G.
  destruct (walk_callback E cb bstate0) as [[[ok env]| |x] s]; [|reflexivity|contradiction].
  destruct ok; [|reflexivity].
  destruct G as [G1 [[sb [Hsb Hterm]] GT]]. unfold nb in *.
  destruct (finalize_completion_ok (bs_blocks s) sb GT G1 Hsb Hterm) as [bl Hbl]. rewrite Hbl. reflexivity.
Qed.

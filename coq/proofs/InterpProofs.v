(* InterpProofs.v -- the constant interpreter always terminates (its visited-blocks guard bounds the walk). *)
From Coq Require Import Lia Arith.
From QV Require Import model.Base model.Lang model.Types model.Tir model.Builder model.Passes.
Open Scope nat_scope.

Lemma existsb_nat_In x l : existsb (Nat.eqb x) l = true <-> In x l.
Proof.
  rewrite existsb_exists. split.
  - intros [y [Hy E]]. apply Nat.eqb_eq in E. subst. exact Hy.
  - intros H. exists x. split; [exact H|apply Nat.eqb_refl].
Qed.

(* number of block indices below n that are not yet visited *)
Definition unvisited (n : nat) (visited : list nat) : nat :=
  List.length (filter (fun i => negb (existsb (Nat.eqb i) visited)) (seq 0 n)).

Lemma unvisited_dec n visited r : r < n -> existsb (Nat.eqb r) visited = false ->
  unvisited n (r :: visited) < unvisited n visited.
Proof.
  unfold unvisited. intros Hr Hv.
  assert (G : forall l, In r l -> NoDup l ->
     List.length (filter (fun i => negb (existsb (Nat.eqb i) (r :: visited))) l) < List.length (filter (fun i => negb (existsb (Nat.eqb i) visited)) l)).
  { induction l as [|x t IH]; intros Hin ND; [destruct Hin|].
    inversion ND as [|? ? Hnot ND']; subst. cbn [filter].
    change (existsb (Nat.eqb x) (r :: visited)) with (Nat.eqb x r || existsb (Nat.eqb x) visited).
    destruct (Nat.eqb_spec x r) as [->|Ne].
    - rewrite Hv. cbn [orb negb].
      assert (E : filter (fun i => negb (existsb (Nat.eqb i) (r :: visited))) t = filter (fun i => negb (existsb (Nat.eqb i) visited)) t).
      { apply filter_ext_in. intros a Ha. cbn [existsb]. destruct (Nat.eqb_spec a r) as [->|]; [contradiction|reflexivity]. }
      rewrite E. cbn [List.length]. lia.
    - destruct Hin as [->|Hin]; [contradiction|]. specialize (IH Hin ND').
      cbn [orb]. destruct (existsb (Nat.eqb x) visited); cbn [negb List.length]; lia. }
  apply G; [apply in_seq; lia|apply seq_NoDup].
Qed.

Lemma bind_nf {A B} (m : res A) (f : A -> res B) : m <> OutOfFuel -> (forall a, f a <> OutOfFuel) -> bind m f <> OutOfFuel.
Proof. destruct m; cbn; auto; intros; discriminate. Qed.

Lemma tev_nf locals a k : to_evaluated_value locals a k <> OutOfFuel.
Proof. destruct a as [[]| | | |]; cbn; try discriminate. destruct (nth_error locals l); discriminate. Qed.

Lemma eval_all_nf locals args : eval_all locals args <> OutOfFuel.
Proof.
  induction args as [|a r IH]; cbn [eval_all]; [discriminate|].
  apply bind_nf; [apply tev_nf|]. intros v. apply bind_nf; [exact IH|]. intros; discriminate.
Qed.

Lemma tel_nf locals args : to_evaluated_list locals args <> OutOfFuel.
Proof.
  unfold to_evaluated_list. apply bind_nf; [apply eval_all_nf|]. intros vs.
  destruct vs as [|[[]|] t]; discriminate.
Qed.

Lemma eval_stmts_nf E ss : forall locals, eval_stmts E ss locals <> OutOfFuel.
Proof.
  induction ss as [|s t IH]; intros locals; cbn [eval_stmts]; [discriminate|].
  destruct s as [l rv|rv|h l m]; try apply IH; [|destruct rv; try apply IH; discriminate].
  apply bind_nf.
  - destruct rv; try discriminate.
    + apply bind_nf; [apply tev_nf|intros; discriminate].
    + destruct op; try discriminate. apply bind_nf; [apply tev_nf|]. intros [x|]; [|discriminate].
      apply bind_nf; [apply tev_nf|]. intros [y|]; [|discriminate]. destruct x, y; discriminate.
    + destruct f; try discriminate. destruct args; [discriminate|]. apply bind_nf; [apply tev_nf|intros; discriminate].
    + destruct obj; try discriminate. destruct (is_menu_action E m); discriminate.
    + apply bind_nf; [apply tel_nf|intros; discriminate].
  - intros [x|]; [|discriminate]. destruct (Nat.ltb l (List.length locals)); [apply IH|discriminate].
Qed.

Lemma eval_blocks_total E c : forall fuel r visited locals,
  unvisited (List.length (c_blocks c)) visited < fuel -> eval_blocks E fuel c r visited locals <> OutOfFuel.
Proof.
  induction fuel as [|k IH]; intros r visited locals H; [lia|].
  cbn [eval_blocks]. destruct (existsb (Nat.eqb r) visited) eqn:V; [discriminate|].
  destruct (nth_error (c_blocks c) r) as [b|] eqn:Eb; [|discriminate].
  assert (Hr : r < List.length (c_blocks c)) by (apply nth_error_Some; congruence).
  apply bind_nf; [apply eval_stmts_nf|]. intros [locals'|]; [|discriminate].
  destruct (b_term b) as [[t|cnd t f|a|]|]; try discriminate.
  - apply IH. pose proof (unvisited_dec _ _ _ Hr V). lia.
  - apply tev_nf.
Qed.

Lemma unvisited_le n : unvisited n [] <= n.
Proof.
  unfold unvisited. rewrite <- (seq_length n 0) at 2. generalize (seq 0 n). intros l.
  induction l as [|x t IH]; cbn [filter List.length]; [lia|]. destruct (negb _); cbn [List.length]; lia.
Qed.

(* the interpreter terminates on EVERY code body, well-formed or not: its own visited set bounds the walk *)
Theorem evaluate_code_total E c : evaluate_code E c <> OutOfFuel.
Proof.
  unfold evaluate_code. destruct (c_blocks c) as [|b0 t] eqn:Eb; [discriminate|].
  destruct (b_term b0) as [[| |a|]|]; try discriminate;
    try (apply eval_blocks_total; rewrite Eb; pose proof (unvisited_le (List.length (b0 :: t))); lia).
  destruct a; try apply tev_nf;
    try (apply eval_blocks_total; rewrite Eb; pose proof (unvisited_le (List.length (b0 :: t))); lia).
Qed.

(* CevalProofs.v -- C03: constant folding returns the exact integer result or rejects (never a wrong value). *)
From Coq Require Import Lia ZifyBool.
From QV Require Import model.Base model.Lang model.Types model.Tir model.Ceval.
Open Scope Z_scope.

Definition i64 (z : Z) : Prop := I64_MIN <= z <= I64_MAX.
Lemma in_i64_spec z : in_i64 z = true <-> i64 z.
Proof. unfold in_i64, i64. lia. Qed.

(* the mathematical meaning of the integer operators (C-like: / truncates, % has the sign of the dividend) *)
Definition spec_arith (op : binop) (a b : Z) : option Z :=
  match op with
  | BoAdd => Some (a + b) | BoSub => Some (a - b) | BoMul => Some (a * b)
  | BoDiv => if b =? 0 then None else Some (Z.quot a b)
  | BoRem => if b =? 0 then None else Some (Z.rem a b)
  | _ => None
  end.

Lemma checked_spec z : (checked z = inl (CInt z) /\ i64 z) \/ (checked z = inr CeOverflow /\ ~ i64 z).
Proof. unfold checked. destruct (in_i64 z) eqn:E; [left|right]; split; auto; [apply in_i64_spec, E|intros H; apply in_i64_spec in H; congruence]. Qed.

Theorem fold_arith_exact op a b : i64 a -> i64 b ->
  match op with BoAdd | BoSub | BoMul | BoDiv | BoRem => True | _ => False end ->
  match eval_binary_arith op (CInt a) (CInt b) with
  | inl v => exists r, spec_arith op a b = Some r /\ v = CInt r /\ i64 r
  | inr e => e = CeOverflow /\
             (match spec_arith op a b with Some r => ~ i64 r | None => True end
              \/ (op = BoRem /\ a = I64_MIN /\ b = -1))     (* checked_rem over-rejects MIN % -1, whose value 0 is representable *)
  end.
Proof.
  intros Ha Hb Hop. unfold i64, I64_MIN, I64_MAX in *.
  destruct op; try contradiction; cbn [eval_binary_arith spec_arith].
  - destruct (checked_spec (a + b)) as [[E R]|[E R]]; rewrite E; eauto.
  - destruct (checked_spec (a - b)) as [[E R]|[E R]]; rewrite E; eauto.
  - destruct (checked_spec (a * b)) as [[E R]|[E R]]; rewrite E; eauto.
  - destruct (Z.eqb_spec b 0) as [->|Nz]; cbn [orb]; [split; auto|].
    destruct ((a =? I64_MIN) && (b =? -1)) eqn:M.
    + split; [reflexivity|]. left. unfold I64_MIN in M. assert (a = -9223372036854775808 /\ b = -1) as [-> ->] by lia.
      intros [_ H2]. vm_compute in H2. apply H2. reflexivity.
    + destruct (checked_spec (Z.quot a b)) as [[E R]|[E R]]; rewrite E; eauto.
  - destruct (Z.eqb_spec b 0) as [->|Nz]; cbn [orb]; [split; auto|].
    destruct ((a =? I64_MIN) && (b =? -1)) eqn:M.
    + split; [reflexivity|]. right. split; [reflexivity|]. unfold I64_MIN in *. lia.
    + destruct (checked_spec (Z.rem a b)) as [[E R]|[E R]]; rewrite E; eauto.
Qed.

(* shifts: a << b is accepted exactly when a * 2^b is representable, and then IS a * 2^b; a >> b is floor (a / 2^b);
   a negative or huge shift count is rejected *)
Lemma wrap_i64_range z : i64 (wrap_i64 z).
Proof. unfold wrap_i64, i64, I64_MIN, I64_MAX. pose proof (Z.mod_pos_bound (z + 9223372036854775808) 18446744073709551616 ltac:(lia)). lia. Qed.
Lemma wrap_i64_id z : i64 z -> wrap_i64 z = z.
Proof. unfold wrap_i64, i64, I64_MIN, I64_MAX. intros H. rewrite Z.mod_small by lia. lia. Qed.

Theorem fold_shl_exact a b : i64 a -> i64 b ->
  match eval_shift BoShl (CInt a) (CInt b) with
  | inl v => 0 <= b < 64 /\ v = CInt (a * 2 ^ b) /\ i64 (a * 2 ^ b)
  | inr CeConversion => b < 0 \/ 4294967295 < b
  | inr CeOverflow => 64 <= b \/ (0 <= b < 64 /\ ~ i64 (a * 2 ^ b))
  | inr _ => False
  end.
Proof.
  intros Ha Hb. cbn [eval_shift].
  destruct ((b <? 0) || (4294967295 <? b)) eqn:C; [lia|].
  destruct (64 <=? b) eqn:C2; [left; lia|].
  assert (Hb0 : 0 <= b < 64) by lia.
  rewrite Z.shiftl_mul_pow2 by lia. set (X := a * 2 ^ b). set (w := wrap_i64 X).
  assert (Hp : 0 < 2 ^ b <= 2 ^ 63) by (split; [apply Z.pow_pos_nonneg; lia|apply Z.pow_le_mono_r; lia]).
  change (2 ^ 63) with 9223372036854775808 in Hp.
  rewrite Z.shiftr_div_pow2 by lia.
  destruct (Z.eqb_spec (w / 2 ^ b) a) as [E|E].
  - (* accepted: then w = X *)
    assert (Hw : w = X).
    { unfold w, wrap_i64 in *. fold X.
      pose proof (Z.div_mod (X + 9223372036854775808) 18446744073709551616 ltac:(lia)) as D.
      pose proof (Z.mod_pos_bound (X + 9223372036854775808) 18446744073709551616 ltac:(lia)) as B.
      set (k := (X + 9223372036854775808) / 18446744073709551616) in *.
      set (m := (X + 9223372036854775808) mod 18446744073709551616) in *.
      pose proof (Z.div_mod (m - 9223372036854775808) (2 ^ b) ltac:(lia)) as D2.
      pose proof (Z.mod_pos_bound (m - 9223372036854775808) (2 ^ b) ltac:(lia)) as B2.
      rewrite E in D2. fold X in D2. replace (2 ^ b * a) with X in D2 by (unfold X; ring).
      (* m - 2^63 = X + t with 0 <= t < 2^b, and m - 2^63 = X - 2^64 k  =>  -2^64 k = t  => k = 0 *)
      assert (k = 0) by lia. lia. }
    split; [exact Hb0|]. rewrite Hw. split; [reflexivity|]. rewrite <- Hw. apply wrap_i64_range.
  - right. split; [exact Hb0|]. intros HX. apply E. unfold w. rewrite (wrap_i64_id X HX). unfold X.
    rewrite Z.div_mul by lia. reflexivity.
Qed.

Theorem fold_shr_exact a b : i64 a -> i64 b ->
  match eval_shift BoShr (CInt a) (CInt b) with
  | inl v => 0 <= b < 64 /\ v = CInt (a / 2 ^ b)
  | inr CeConversion => b < 0 \/ 4294967295 < b
  | inr CeOverflow => 64 <= b
  | inr _ => False
  end.
Proof.
  intros Ha Hb. cbn [eval_shift].
  destruct ((b <? 0) || (4294967295 <? b)) eqn:C; [lia|].
  destruct (64 <=? b) eqn:C2; [lia|]. split; [lia|]. rewrite Z.shiftr_div_pow2 by lia. reflexivity.
Qed.

Theorem fold_neg_exact a : i64 a ->
  match eval_unary_arith true (CInt a) with
  | inl v => v = CInt (- a) /\ i64 (- a)
  | inr e => e = CeOverflow /\ a = I64_MIN
  end.
Proof.
  intros Ha. cbn [eval_unary_arith]. destruct (checked_spec (- a)) as [[E R]|[E R]]; rewrite E; [auto|].
  split; [reflexivity|]. unfold i64, I64_MIN, I64_MAX in *. lia.
Qed.

Theorem fold_not_exact a : eval_unary_bitwise (CInt a) = inl (CInt (- a - 1)).
Proof. cbn [eval_unary_bitwise]. unfold Z.lnot, Z.pred. do 2 f_equal. Qed.

Theorem fold_compare_exact op a b :
  match op with BoEq | BoNe | BoLt | BoLe | BoGt | BoGe => True | _ => False end ->
  eval_comparison op (CInt a) (CInt b) =
  inl (CBool (match op with BoEq => a =? b | BoNe => negb (a =? b) | BoLt => a <? b | BoLe => a <=? b | BoGt => b <? a | _ => b <=? a end)).
Proof.
  intros H. cbn [eval_comparison]. f_equal. f_equal.
  destruct op; try contradiction; cbn [cmp_result];
    destruct (Z.compare_spec a b); destruct (Z.eqb_spec a b); try lia;
    try (destruct (Z.ltb_spec a b)); try (destruct (Z.leb_spec a b)); try (destruct (Z.ltb_spec b a)); try (destruct (Z.leb_spec b a)); try lia; reflexivity.
Qed.

Theorem fold_concat_exact a b : eval_binary_arith BoAdd (CCString a) (CCString b) = inl (CCString (a ++ b)).
Proof. reflexivity. Qed.

(* CfgProofs.v -- soundness of the C06 checker: [cfg_ok c = true] implies the all-paths statement. *)
From Coq Require Import Lia Arith.
From QV Require Import model.Base model.Lang model.Types model.Tir model.CfgCheck.
Open Scope nat_scope.

Lemma nmem_In x l : nmem x l = true <-> In x l.
Proof.
  unfold nmem. rewrite existsb_exists. split.
  - intros [y [Hy E]]. apply Nat.eqb_eq in E. subst. exact Hy.
  - intros H. exists x. split; [exact H|apply Nat.eqb_refl].
Qed.
Lemma nsubset_incl a b : nsubset a b = true <-> incl a b.
Proof.
  unfold nsubset. rewrite forallb_forall. split; intros H x Hx; specialize (H x Hx); apply nmem_In; exact H.
Qed.

(* an execution path through the control-flow graph: block indices from the entry, each the successor of the previous *)
Inductive path (blocks : list block) : list nat -> Prop :=
| path_entry : path blocks [0]
| path_step p i b s : path blocks (p ++ [i]) -> nth_error blocks i = Some b -> In s (succs b) -> path blocks (p ++ [i; s]).

Definition last_block (p : list nat) : nat := last p 0.

Lemma last_snoc {A} (l : list A) x d : last (l ++ [x]) d = x.
Proof. apply last_last. Qed.

(* every block on a path is in a verified reachable set *)
Lemma path_in_reach blocks r p : reach_ok blocks r = true -> path blocks p -> In (last_block p) r.
Proof.
  unfold reach_ok. intros H. apply andb_prop in H. destruct H as [H0 Hall]. rewrite forallb_forall in Hall.
  induction 1 as [|p i b s Hp IH Hb Hs].
  - apply nmem_In. exact H0.
  - unfold last_block in *. rewrite last_snoc in IH.
    replace (p ++ [i; s]) with ((p ++ [i]) ++ [s]) by (rewrite <- app_assoc; reflexivity). rewrite last_snoc.
    specialize (Hall i IH). rewrite Hb in Hall. apply andb_prop in Hall. destruct Hall as [_ Hsub].
    apply nsubset_incl in Hsub. apply Hsub, Hs.
Qed.

(* locals definitely assigned along a path (in the blocks before the last one) *)
Definition defs_of (blocks : list block) (i : nat) : list nat :=
  match nth_error blocks i with Some b => block_defs b | None => [] end.
Definition assigned_before (blocks : list block) (p : list nat) : list nat := flat_map (defs_of blocks) (removelast p).

Lemma assigned_before_snoc blocks p i s :
  assigned_before blocks ((p ++ [i]) ++ [s]) = assigned_before blocks (p ++ [i]) ++ defs_of blocks i.
Proof.
  unfold assigned_before. rewrite !removelast_last. rewrite flat_map_app. cbn. rewrite app_nil_r. reflexivity.
Qed.

Lemma path_in_ok blocks r have ins p : reach_ok blocks r = true -> ins_ok blocks r have ins = true -> path blocks p ->
  exists i_in, nth (last_block p) ins None = Some i_in /\ incl i_in (have ++ assigned_before blocks p).
Proof.
  intros Hr Hi. pose proof Hi as Hi'. unfold ins_ok in Hi'. apply andb_prop in Hi'. destruct Hi' as [H0 Hall].
  rewrite forallb_forall in Hall.
  induction 1 as [|p i b s Hp IH Hb Hs].
  - cbn. destruct (nth 0 ins None) as [i0|]; [|discriminate]. exists i0. split; [reflexivity|].
    apply nsubset_incl in H0. rewrite app_nil_r. exact H0.
  - destruct IH as [i_in [Ei Hincl]].
    pose proof (path_in_reach blocks r _ Hr Hp) as Hin. unfold last_block in *. rewrite last_snoc in *.
    specialize (Hall i Hin). rewrite Hb, Ei in Hall. apply andb_prop in Hall. destruct Hall as [_ Hsucc].
    rewrite forallb_forall in Hsucc. specialize (Hsucc s Hs).
    replace (p ++ [i; s]) with ((p ++ [i]) ++ [s]) by (rewrite <- app_assoc; reflexivity). rewrite last_snoc.
    destruct (nth s ins None) as [s_in|]; [|discriminate]. exists s_in. split; [reflexivity|].
    apply nsubset_incl in Hsucc. intros a Ha. apply Hsucc in Ha.
    rewrite assigned_before_snoc. unfold defs_of. rewrite Hb.
    apply in_app_or in Ha. apply in_or_app. destruct Ha as [Ha|Ha].
    + right. apply in_or_app. now right.
    + apply Hincl in Ha. apply in_app_or in Ha. destruct Ha as [Ha|Ha]; [now left|right; apply in_or_app; now left].
Qed.

(* reads inside a block *)
Lemma stmts_reads_ok_spec have ss t : stmts_reads_ok have ss t = true ->
  (forall k s, nth_error ss k = Some s -> incl (stmt_reads s) (flat_map stmt_defs (firstn k ss) ++ have)) /\
  incl (term_reads t) (flat_map stmt_defs ss ++ have).
Proof.
  revert have. induction ss as [|s0 r IH]; intros have H; cbn [stmts_reads_ok] in H.
  - split; [intros k s Hk; destruct k; discriminate|]. apply nsubset_incl in H. exact H.
  - apply andb_prop in H. destruct H as [H1 H2]. destruct (IH _ H2) as [A B]. split.
    + intros [|k] s Hk; cbn in Hk.
      * inversion Hk; subst. apply nsubset_incl in H1. exact H1.
      * cbn [firstn flat_map]. intros a Ha. apply (A k s Hk) in Ha. apply in_app_or in Ha. apply in_or_app.
        destruct Ha as [Ha|Ha]; [left; apply in_or_app; now right|].
        apply in_app_or in Ha. destruct Ha as [Ha|Ha]; [left; apply in_or_app; now left|now right].
    + cbn [flat_map]. intros a Ha. apply B in Ha. apply in_app_or in Ha. apply in_or_app.
      destruct Ha as [Ha|Ha]; [left; apply in_or_app; now right|].
      apply in_app_or in Ha. destruct Ha as [Ha|Ha]; [left; apply in_or_app; now left|now right].
Qed.

(* ---------- the all-paths statement ---------- *)
Definition CfgSound (c : code) (exempt : list nat) : Prop :=
  forall p, path (c_blocks c) p ->
    exists b, nth_error (c_blocks c) (last_block p) = Some b /\
      (* every jump targets an existing label and the block ends in a jump or a return *)
      term_is_exit_or_jump b = true /\ (forall s, In s (succs b) -> s < List.length (c_blocks c)) /\
      (* every local read in the block was assigned earlier on this path, or is a parameter / exempt user variable *)
      (forall k s l, nth_error (b_stmts b) k = Some s -> In l (stmt_reads s) ->
         In l (seq 0 (c_nparams c) ++ exempt) \/ In l (assigned_before (c_blocks c) p) \/ In l (flat_map stmt_defs (firstn k (b_stmts b)))) /\
      (forall l, In l (term_reads (b_term b)) ->
         In l (seq 0 (c_nparams c) ++ exempt) \/ In l (assigned_before (c_blocks c) p) \/ In l (block_defs b)).

Theorem cfg_ok_sound c exempt : cfg_ok c exempt = true -> CfgSound c exempt.
Proof.
  unfold cfg_ok. intros H. apply andb_prop in H. destruct H as [H Hret]. apply andb_prop in H. destruct H as [Hr Hi].
  intros p Hp.
  pose proof (path_in_reach _ _ _ Hr Hp) as Hin.
  destruct (path_in_ok _ _ _ _ _ Hr Hi Hp) as [i_in [Ei Hincl]].
  pose proof Hr as Hr'. unfold reach_ok in Hr'. apply andb_prop in Hr'. destruct Hr' as [_ Hall]. rewrite forallb_forall in Hall.
  specialize (Hall _ Hin). destruct (nth_error (c_blocks c) (last_block p)) as [b|] eqn:Eb; [|discriminate].
  apply andb_prop in Hall. destruct Hall as [Ht Hs]. exists b. split; [reflexivity|]. split; [exact Ht|].
  pose proof Hi as Hi'. unfold ins_ok in Hi'. apply andb_prop in Hi'. destruct Hi' as [_ Hall2]. rewrite forallb_forall in Hall2.
  specialize (Hall2 _ Hin). rewrite Eb, Ei in Hall2. apply andb_prop in Hall2. destruct Hall2 as [Hreads Hsucc].
  destruct (stmts_reads_ok_spec _ _ _ Hreads) as [A B].
  split; [|split].
  - intros s Hs'. apply nsubset_incl in Hs. apply Hs in Hs'.
    (* a member of a verified reachable set is an existing block *)
    unfold reach_ok in Hr. apply andb_prop in Hr. destruct Hr as [_ Hall3]. rewrite forallb_forall in Hall3.
    specialize (Hall3 _ Hs'). destruct (nth_error (c_blocks c) s) eqn:E; [|discriminate]. apply nth_error_Some. congruence.
  - intros k s l Hk Hl. apply (A k s Hk) in Hl. apply in_app_or in Hl. destruct Hl as [Hl|Hl]; [right; now right|].
    apply Hincl in Hl. apply in_app_or in Hl. destruct Hl; [now left|right; now left].
  - intros l Hl. apply B in Hl. apply in_app_or in Hl. destruct Hl as [Hl|Hl]; [right; now right|].
    apply Hincl in Hl. apply in_app_or in Hl. destruct Hl; [now left|right; now left].
Qed.

(* value-returning bodies: among the reachable returns either all are void or none is *)
Theorem cfg_ok_returns c exempt : cfg_ok c exempt = true ->
  forall p q bp bq a a', path (c_blocks c) p -> path (c_blocks c) q ->
    nth_error (c_blocks c) (last_block p) = Some bp -> nth_error (c_blocks c) (last_block q) = Some bq ->
    b_term bp = Some (TmReturn a) -> b_term bq = Some (TmReturn a') -> (a = OVoid <-> a' = OVoid).
Proof.
  unfold cfg_ok. intros H. apply andb_prop in H. destruct H as [H Hret]. apply andb_prop in H. destruct H as [Hr _].
  intros p q bp bq a a' Hp Hq Ebp Ebq Tp Tq.
  pose proof (path_in_reach _ _ _ Hr Hp) as Ip. pose proof (path_in_reach _ _ _ Hr Hq) as Iq.
  unfold returns_consistent in Hret.
  set (rets := flat_map _ (reach_candidate (c_blocks c))) in Hret.
  assert (Ia : In a rets). { unfold rets. apply in_flat_map. exists (last_block p). split; [exact Ip|]. rewrite Ebp, Tp. now left. }
  assert (Ia' : In a' rets). { unfold rets. apply in_flat_map. exists (last_block q). split; [exact Iq|]. rewrite Ebq, Tq. now left. }
  apply orb_prop in Hret. destruct Hret as [Hv|Hn]; rewrite forallb_forall in *.
  - pose proof (Hv _ Ia) as A. pose proof (Hv _ Ia') as A'. destruct a, a'; try discriminate. split; reflexivity.
  - pose proof (Hn _ Ia) as A. pose proof (Hn _ Ia') as A'. destruct a, a'; try discriminate; split; intros X; discriminate.
Qed.

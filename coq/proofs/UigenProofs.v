(* UigenProofs.v -- C04 / C08 / C14 over model/Uigen.v *)
From Coq Require Import Lia Permutation.
From QV Require Import model.Base gen.GenUigen model.Uigen.
Open Scope string_scope.
Open Scope list_scope.

(* ================= sorting ================= *)
Lemma str_leb_total a b : str_leb a b = false -> str_leb b a = true.
Proof.
  revert b. induction a as [|x r IH]; intros [|y s]; cbn; try discriminate; auto.
  destruct (N.ltb_spec (Ascii.N_of_ascii x) (Ascii.N_of_ascii y)); [discriminate|].
  destruct (N.ltb_spec (Ascii.N_of_ascii y) (Ascii.N_of_ascii x)); [reflexivity|]. apply IH.
Qed.
Lemma str_leb_antisym a b : str_leb a b = true -> str_leb b a = true -> a = b.
Proof.
  revert b. induction a as [|x r IH]; intros [|y s]; cbn; try discriminate; auto.
  destruct (N.ltb_spec (Ascii.N_of_ascii x) (Ascii.N_of_ascii y)) as [H|H];
  destruct (N.ltb_spec (Ascii.N_of_ascii y) (Ascii.N_of_ascii x)) as [H2|H2]; try discriminate; try lia.
  intros A B. assert (Ascii.N_of_ascii x = Ascii.N_of_ascii y) as E by lia.
  apply (f_equal Ascii.ascii_of_N) in E. rewrite !Ascii.ascii_N_embedding in E. subst y. f_equal. apply IH; assumption.
Qed.
Lemma str_leb_trans a b c : str_leb a b = true -> str_leb b c = true -> str_leb a c = true.
Proof.
  revert b c. induction a as [|x r IH]; intros [|y s] [|z t]; cbn; try discriminate; auto.
  destruct (N.ltb_spec (Ascii.N_of_ascii x) (Ascii.N_of_ascii y)) as [H|H];
  destruct (N.ltb_spec (Ascii.N_of_ascii y) (Ascii.N_of_ascii x)) as [H2|H2]; try discriminate; try lia;
  destruct (N.ltb_spec (Ascii.N_of_ascii y) (Ascii.N_of_ascii z)) as [H3|H3];
  destruct (N.ltb_spec (Ascii.N_of_ascii z) (Ascii.N_of_ascii y)) as [H4|H4]; try discriminate; try lia;
  destruct (N.ltb_spec (Ascii.N_of_ascii x) (Ascii.N_of_ascii z)) as [H5|H5]; auto; try lia;
  destruct (N.ltb_spec (Ascii.N_of_ascii z) (Ascii.N_of_ascii x)) as [H6|H6]; try lia; eauto.
Qed.
Lemma str_leb_refl a : str_leb a a = true.
Proof. induction a as [|x r IH]; cbn; [reflexivity|]. rewrite N.ltb_irrefl. exact IH. Qed.

Section Sort.
  Context {A : Type} (key : A -> string).

  Lemma insert_perm x l : Permutation (insert_by key x l) (x :: l).
  Proof.
    induction l as [|y r IH]; cbn; [reflexivity|]. destruct (str_leb (key x) (key y)); [reflexivity|].
    rewrite IH. apply perm_swap.
  Qed.
  Lemma sort_perm l : Permutation (sort_by key l) l.
  Proof. induction l as [|x r IH]; cbn; [constructor|]. rewrite insert_perm. constructor. exact IH. Qed.
  Lemma sort_in x l : In x (sort_by key l) <-> In x l.
  Proof. split; apply Permutation_in; [|symmetry]; apply sort_perm. Qed.

  Lemma insert_cons x y l : insert_by key x (y :: l) = if str_leb (key x) (key y) then x :: y :: l else y :: insert_by key x l.
  Proof. reflexivity. Qed.

  (* insertions of elements with different keys commute, whatever the list *)
  Lemma insert_comm x y l : key x <> key y -> insert_by key x (insert_by key y l) = insert_by key y (insert_by key x l).
  Proof.
    intros N.
    assert (Hxy : str_leb (key x) (key y) = true -> str_leb (key y) (key x) = false).
    { intros Ha. destruct (str_leb (key y) (key x)) eqn:Hb; [|reflexivity]. exfalso. apply N. apply str_leb_antisym; assumption. }
    assert (Hyx : str_leb (key x) (key y) = false -> str_leb (key y) (key x) = true) by apply str_leb_total.
    induction l as [|z r IH].
    - cbn. destruct (str_leb (key x) (key y)) eqn:E1; [rewrite (Hxy eq_refl)|rewrite (Hyx eq_refl)]; reflexivity.
    - rewrite (insert_cons y z), (insert_cons x z).
      destruct (str_leb (key y) (key z)) eqn:Ey; destruct (str_leb (key x) (key z)) eqn:Ex.
      + rewrite (insert_cons x y), (insert_cons y x).
        destruct (str_leb (key x) (key y)) eqn:E1; [rewrite (Hxy eq_refl)|rewrite (Hyx eq_refl)]; rewrite insert_cons, ?Ex, ?Ey; reflexivity.
      + (* y <= z < x *)
        assert (str_leb (key x) (key y) = false) as E1.
        { destruct (str_leb (key x) (key y)) eqn:E; [|reflexivity]. rewrite (str_leb_trans _ _ _ E Ey) in Ex. discriminate. }
        rewrite (insert_cons x y), E1, (insert_cons x z), Ex, (insert_cons y z), Ey. reflexivity.
      + assert (str_leb (key y) (key x) = false) as E1.
        { destruct (str_leb (key y) (key x)) eqn:E; [|reflexivity]. rewrite (str_leb_trans _ _ _ E Ex) in Ey. discriminate. }
        rewrite (insert_cons x z), Ex, (insert_cons y x), E1, (insert_cons y z), Ey. reflexivity.
      + rewrite (insert_cons x z), Ex, (insert_cons y z), Ey. f_equal. exact IH.
  Qed.

  (* a list sorted by distinct keys is determined by its elements: the hash order is irrelevant *)
  Lemma sort_perm_unique l l' : Permutation l l' -> NoDup (map key l) -> sort_by key l = sort_by key l'.
  Proof.
    unfold sort_by. induction 1 as [|x l l' P IH|x y l|l l' l'' P1 IH1 P2 IH2]; intros ND; cbn [fold_right].
    - reflexivity.
    - inversion ND; subst. rewrite IH by assumption. reflexivity.
    - inversion ND as [|? ? N1 ND']; subst. apply insert_comm. intros E. apply N1. left. symmetry. exact E.
    - rewrite IH1 by assumption. apply IH2. eapply Permutation_NoDup; [apply Permutation_map; exact P1|exact ND].
  Qed.
End Sort.

(* ================= C04 ================= *)
Lemma flat_map_perm {A B} (f : A -> list B) l l' : Permutation l l' -> Permutation (flat_map f l) (flat_map f l').
Proof.
  induction 1; cbn; [constructor|apply Permutation_app_head; assumption| |etransitivity; eassumption].
  rewrite !app_assoc. apply Permutation_app_tail. apply Permutation_app_comm.
Qed.
Lemma flat_map_fst_map {A B C} (f : A -> list B * list C) l : flat_map fst (map f l) = flat_map (fun x => fst (f x)) l.
Proof. induction l; cbn; congruence. Qed.
Lemma flat_map_snd_map {A B C} (f : A -> list B * list C) l : flat_map snd (map f l) = flat_map (fun x => snd (f x)) l.
Proof. induction l; cbn; congruence. Qed.

Lemma const_pass_form o : fst (fst (const_pass o)) = sort_by f_name (flat_map (fate_form o) (o_props o)).
Proof. unfold const_pass, fate_form. cbn [fst]. rewrite flat_map_fst_map. reflexivity. Qed.
Lemma const_pass_attached o : snd (fst (const_pass o)) = sort_by f_name (attached_form o).
Proof.
  unfold const_pass, attached_form. cbn [fst snd]. rewrite flat_map_fst_map. f_equal.
  induction (flat_attached o) as [|[a l] r IH]; cbn; congruence.
Qed.
Lemma const_pass_diags o : snd (const_pass o) = flat_map (fun p => snd (const_prop (role_of o (pname p)) p)) (o_props o) ++ attached_diags o.
Proof.
  unfold const_pass, attached_diags. cbn [snd]. rewrite !flat_map_snd_map. f_equal.
  induction (flat_attached o) as [|[a l] r IH]; cbn; congruence.
Qed.

Lemma run_form m o : r_form (run m o) = fst (fst (const_pass o)).
Proof. unfold run. destruct (const_pass o) as [[? ?] ?]; destruct m; reflexivity. Qed.
Lemma run_attached m o : r_attached (run m o) = snd (fst (const_pass o)).
Proof. unfold run. destruct (const_pass o) as [[? ?] ?]; destruct m; reflexivity. Qed.

(* the form consists exactly of the entries of the bindings the constant pass places (and of the consumed attached ones) *)
Theorem run_form_fates m o : Permutation (r_form (run m o)) (flat_map (fate_form o) (o_props o)).
Proof. rewrite run_form, const_pass_form. apply sort_perm. Qed.
Theorem run_attached_fates m o : Permutation (r_attached (run m o)) (attached_form o).
Proof. rewrite run_attached, const_pass_attached. apply sort_perm. Qed.

Lemma filter_flat_map_fate {B} o (g : pcode -> list B) l :
  flat_map g (filter (fun p => negb (evaluated_constant (role_of o (pname p)) p)) l)
  = flat_map (fun p => if evaluated_constant (role_of o (pname p)) p then [] else g p) l.
Proof. induction l as [|p r IH]; cbn; [reflexivity|]. destruct (evaluated_constant _ p); cbn; rewrite IH; reflexivity. Qed.

(* the header consists exactly of the bindings of the properties left to the C++ pass *)
Theorem run_bindings_fates o : Permutation (r_bindings (run Generate o)) (flat_map (fate_header o) (o_props o)).
Proof.
  unfold run. destruct (const_pass o) as [[f at'] cd]. cbn [r_bindings]. rewrite flat_map_fst_map.
  etransitivity; [apply flat_map_perm, sort_perm|]. unfold dynamic_props. rewrite filter_flat_map_fate. reflexivity.
Qed.

Theorem run_diags_fates o : Permutation (r_diags (run Generate o)) (flat_map (fate_diags o) (o_props o) ++ attached_diags o).
Proof.
  unfold run. pose proof (const_pass_diags o) as Hd. destruct (const_pass o) as [[f at'] cd]. cbn [snd] in Hd. cbn [r_diags]. subst cd.
  rewrite flat_map_snd_map.
  assert (P : Permutation (flat_map (fun x => snd (header_prop x)) (sort_by pname (dynamic_props o)))
                          (flat_map (fun p => if evaluated_constant (role_of o (pname p)) p then [] else snd (header_prop p)) (o_props o))).
  { etransitivity; [apply flat_map_perm, sort_perm|]. unfold dynamic_props. rewrite filter_flat_map_fate. reflexivity. }
  rewrite P. clear P. unfold fate_diags.
  rewrite <- app_assoc. rewrite (Permutation_app_comm (attached_diags o)). rewrite app_assoc. apply Permutation_app_tail.
  induction (o_props o) as [|p r IH]; cbn; [constructor|].
  rewrite <- !app_assoc. apply Permutation_app_head. rewrite !app_assoc.
  rewrite (Permutation_app_comm (flat_map _ r) (if evaluated_constant _ p then [] else _)). rewrite <- !app_assoc. apply Permutation_app_head. exact IH.
Qed.

(* an accepted document has no diagnostic at any binding *)
Theorem accepted_no_binding_diag o p : accepted (run Generate o) = true -> In p (o_props o) -> fate_diags o p = [].
Proof.
  unfold accepted. intros H Hp. destruct (r_diags (run Generate o)) eqn:E; [|discriminate].
  pose proof (run_diags_fates o) as P. rewrite E in P. apply Permutation_nil in P. apply app_eq_nil in P. destruct P as [P _].
  destruct (fate_diags o p) as [|d ds] eqn:F; [reflexivity|]. exfalso.
  assert (In d (flat_map (fate_diags o) (o_props o))) as Hin by (apply in_flat_map; exists p; split; [exact Hp|rewrite F; now left]).
  rewrite P in Hin. exact Hin.
Qed.

(* a scalar binding without diagnostic is in exactly one place *)
Theorem scalar_exactly_one o l : fate_diags o (PExpr l) = [] ->
  (fate_form o (PExpr l) = [{| f_name := l_name l; f_members := [] |}] /\ fate_header o (PExpr l) = [])
  \/ (fate_form o (PExpr l) = [] /\ fate_header o (PExpr l) = [{| h_name := l_name l; h_members := [] |}]).
Proof.
  unfold fate_diags, fate_form, fate_header. cbn [pname]. destruct (role_of o (l_name l));
  destruct l as [n w r c cv rt]; cbn; destruct c, cv, w, r, rt; cbn; intros H; try discriminate H; auto.
Qed.

Lemma forallb_ext' {A} (f g : A -> bool) l : (forall x, f x = g x) -> forallb f l = forallb g l.
Proof. intros H. induction l as [|x r IH]; cbn; [reflexivity|]. rewrite H, IH. reflexivity. Qed.

Lemma value_members_no_diag n ms : snd (value_members n ms) = [] ->
  fst (value_members n ms) = sort_by (fun s => s) (map l_name (filter l_const ms)).
Proof.
  unfold value_members. cbn [fst snd]. intros Hd. f_equal. f_equal.
  induction ms as [|l t IH]; cbn in *; [reflexivity|]. apply app_eq_nil in Hd. destruct Hd as [H1 H2].
  unfold leaf_value in *. destruct (l_const l); cbn in *; [|apply IH; exact H2].
  destruct (l_conv_ok l); cbn in *; [f_equal; apply IH; exact H2|discriminate].
Qed.

Lemma gadget_form o n w r ms :
  (role_of o n = RSerial \/ role_of o n = RValue) -> snd (const_prop (role_of o n) (PGadget n w r GSupported ms)) = [] ->
  fst (const_prop (role_of o n) (PGadget n w r GSupported ms)) = [{| f_name := n; f_members := sort_by (fun s => s) (map l_name (filter l_const ms)) |}].
Proof.
  intros Hr Hc. pose proof (value_members_no_diag n ms) as Hvm.
  destruct Hr as [E | E]; rewrite E in *; unfold const_prop in *; destruct (value_members n ms) as [m d] eqn:V; cbn [fst snd pname] in *.
  - destruct w; cbn [andb negb fst snd] in *.
    + subst d. rewrite (Hvm eq_refl). reflexivity.
    + apply app_eq_nil in Hc. destruct Hc as [_ Hc]. discriminate.
  - cbn [andb fst snd] in *. subst d. rewrite (Hvm eq_refl). reflexivity.
Qed.

Lemma header_members_all n ms : snd (header_members n ms) = [] -> Permutation (fst (header_members n ms)) (map l_name ms).
Proof.
  unfold header_members. cbn [fst snd]. intros Hd.
  assert (Hall : forall l, In l (sort_by l_name ms) -> (l_ret_ok l && l_readable l && l_writable l) = true).
  { intros l Hl. destruct (l_ret_ok l) eqn:R1; cbn [andb].
    - destruct (l_readable l) eqn:R2; [destruct (l_writable l) eqn:R3; [reflexivity|]|]; exfalso.
      + assert (In (D n (Some (l_name l)) DNotWritable) []) as X; [|destruct X].
        rewrite <- Hd. apply in_flat_map. exists l. split; [exact Hl|]. rewrite R1. unfold update_ok. rewrite R2, R3. cbn. now left.
      + assert (In (D n (Some (l_name l)) DNotReadable) []) as X; [|destruct X].
        rewrite <- Hd. apply in_flat_map. exists l. split; [exact Hl|]. rewrite R1. unfold update_ok. rewrite R2. cbn. now left.
    - exfalso. assert (In (D n (Some (l_name l)) DRetType) []) as X; [|destruct X].
      rewrite <- Hd. apply in_flat_map. exists l. split; [exact Hl|]. rewrite R1. now left. }
  assert (filter (fun l => l_ret_ok l && l_readable l && l_writable l) (sort_by l_name ms) = sort_by l_name ms) as ->.
  { revert Hall. generalize (sort_by l_name ms). intros s Hs. induction s as [|x t IH]; cbn [filter]; [reflexivity|].
    rewrite (Hs x (or_introl eq_refl)). f_equal. apply IH. intros l Hl. apply Hs. now right. }
  apply Permutation_map. apply sort_perm.
Qed.

Theorem gadget_members_placed o n w r ms :
  (role_of o n = RSerial \/ role_of o n = RValue) -> fate_diags o (PGadget n w r GSupported ms) = [] ->
  fate_form o (PGadget n w r GSupported ms) = [{| f_name := n; f_members := sort_by (fun s => s) (map l_name (filter l_const ms)) |}]
  /\ (forallb l_const ms = true -> fate_header o (PGadget n w r GSupported ms) = [])
  /\ (forallb l_const ms = false -> exists hm, fate_header o (PGadget n w r GSupported ms) = [{| h_name := n; h_members := hm |}]
                                               /\ Permutation hm (map l_name ms)).
Proof.
  intros Hr. unfold fate_diags, fate_form, fate_header. cbn [pname].
  assert (Hev : evaluated_constant (role_of o n) (PGadget n w r GSupported ms) = forallb l_const ms).
  { destruct Hr as [-> | ->]; cbn; apply forallb_ext'; intros; reflexivity. }
  rewrite Hev. intros Hd. apply app_eq_nil in Hd. destruct Hd as [Hc Hh].
  split; [apply gadget_form; assumption|]. split; [intros ->; reflexivity|].
  intros E. rewrite E in Hh |- *. cbn [header_prop] in *.
  pose proof (header_members_all n ms) as HM. destruct (header_members n ms) as [m d].
  destruct (update_ok n None r w) as [ok d'] eqn:U. cbn [fst snd] in *. apply app_eq_nil in Hh. destruct Hh as [-> ->].
  assert (ok = true) as -> by (unfold update_ok in U; destruct r, w; cbn in U; congruence).
  eexists. split; [reflexivity|]. apply HM. reflexivity.
Qed.

(* never in neither: a binding that carries a value and is placed in neither output is diagnosed *)
Definition carries_value (p : pcode) : Prop := match p with PExpr _ => True | PGadget _ _ _ _ ms | PObjMap _ _ _ ms => ms <> [] end.

Lemma header_prop_nonempty p : header_prop p <> ([], []).
Proof.
  destruct p as [l|n w r gk ms|n w r ms]; cbn [header_prop].
  - destruct (l_ret_ok l); cbn; [|discriminate]. unfold update_ok. destruct (l_readable l), (l_writable l); cbn; discriminate.
  - destruct (header_members n ms) as [m d]. unfold update_ok. destruct r, w; cbn; try discriminate; intros E; inversion E as [E2];
      apply app_eq_nil in E2; destruct E2; discriminate.
  - discriminate.
Qed.

Lemma const_prop_quiet r p : const_prop r p = ([], []) ->
  r = RUnvisited \/ (exists l, p = PExpr l /\ l_const l = false /\ top_visited r = true).
Proof.
  destruct r; [| | | |left; reflexivity]; intros H; right.
  - (* RSerial *) destruct p as [l|n w rd gk ms|n w rd ms]; cbn [const_prop] in H.
    + exists l. unfold leaf_value in H. destruct (l_const l); [|auto]. destruct (l_conv_ok l), (l_writable l); cbn in H; discriminate.
    + destruct gk; [destruct (value_members n ms) as [m d]; destruct w; cbn in H; [discriminate|]|discriminate].
      inversion H as [E]. apply app_eq_nil in E. destruct E; discriminate.
    + discriminate.
  - (* RValue *) destruct p as [l|n w rd gk ms|n w rd ms]; cbn [const_prop] in H.
    + exists l. unfold leaf_value in H. destruct (l_const l); [|auto]. destruct (l_conv_ok l); cbn in H; discriminate.
    + destruct gk; [destruct (value_members n ms) as [m d]; cbn in H; discriminate|discriminate].
    + discriminate.
  - (* RSpecialEval *) destruct p as [l|n w rd gk ms|n w rd ms]; cbn [const_prop] in H; try discriminate.
    exists l. unfold leaf_value in H. destruct (l_const l); [|auto]. destruct (l_conv_ok l); cbn in H; discriminate.
  - (* RHeaderMap *) destruct p as [l|n w rd gk ms|n w rd ms]; cbn [const_prop] in H; try discriminate.
    all: try (destruct (serial_members n ms); discriminate).
Qed.

Lemma unvisited_not_constant p : carries_value p -> evaluated_constant RUnvisited p = false.
Proof. destruct p as [l|n w rd [|] [|l t]|n w rd [|l t]]; cbn; intros H; try reflexivity; exfalso; apply H; reflexivity. Qed.

Theorem never_in_neither o p : carries_value p -> fate_form o p = [] -> fate_header o p = [] -> fate_diags o p <> [].
Proof.
  unfold fate_form, fate_header, fate_diags. intros Hv Hf Hh Hd. apply app_eq_nil in Hd. destruct Hd as [Hd1 Hd2].
  assert (Hq : const_prop (role_of o (pname p)) p = ([], [])) by (destruct (const_prop _ p); cbn in *; congruence).
  assert (He : evaluated_constant (role_of o (pname p)) p = false).
  { destruct (const_prop_quiet _ _ Hq) as [E|[l [-> [Hc Ht]]]].
    - rewrite E. apply unvisited_not_constant, Hv.
    - cbn. unfold leaf_evaluated_constant. rewrite Hc. apply andb_false_r. }
  rewrite He in *. apply (header_prop_nonempty p). destruct (header_prop p); cbn in *; congruence.
Qed.

(* ================= C14 ================= *)
Theorem form_mode_free m m' o : r_form (run m o) = r_form (run m' o) /\ r_attached (run m o) = r_attached (run m' o).
Proof. rewrite !run_form, !run_attached. split; reflexivity. Qed.

Lemma sort_nil {A} (key : A -> string) l : sort_by key l = [] -> l = [].
Proof. intros H. pose proof (sort_perm key l) as P. rewrite H in P. apply Permutation_nil in P. exact P. Qed.

Theorem reject_iff o :
  accepted (run Reject o) = true <->
  accepted (run Generate o) = true /\ r_bindings (run Generate o) = [] /\ r_callbacks (run Generate o) = [].
Proof.
  unfold accepted, run. destruct (const_pass o) as [[f at'] cd]. cbn [r_diags r_bindings r_callbacks]. split.
  - intros H. destruct (cd ++ _ ++ _) eqn:E; [|discriminate]. apply app_eq_nil in E. destruct E as [-> E].
    apply app_eq_nil in E. destruct E as [E1 E2]. apply map_eq_nil in E1. apply map_eq_nil in E2. rewrite E1, E2. cbn. auto.
  - intros [H1 [H2 H3]]. apply sort_nil in H3. rewrite H3. cbn [map]. rewrite app_nil_r.
    destruct (cd ++ _) eqn:E in H1; [|discriminate]. apply app_eq_nil in E. destruct E as [-> E]. cbn [app].
    assert (sort_by pname (dynamic_props o) = []) as S.
    { destruct (sort_by pname (dynamic_props o)) as [|p t]; [reflexivity|]. exfalso. cbn in E, H2.
      apply app_eq_nil in E. destruct E as [E _]. apply app_eq_nil in H2. destruct H2 as [H2 _].
      apply (header_prop_nonempty p). destruct (header_prop p); cbn in *; congruence. }
    apply sort_nil in S. rewrite S. reflexivity.
Qed.

Theorem omit_diags_subset o : incl (r_diags (run Omit o)) (r_diags (run Generate o)) /\ incl (r_diags (run Omit o)) (r_diags (run Reject o)).
Proof. unfold run. destruct (const_pass o) as [[f at'] cd]. cbn [r_diags]. split; apply incl_appl, incl_refl. Qed.

Theorem header_only_in_generate m o : r_header (run m o) = true <-> m = Generate.
Proof. unfold run. destruct (const_pass o) as [[? ?] ?]; destruct m; cbn; split; congruence. Qed.

Theorem omit_reject_no_code m o : m <> Generate -> r_bindings (run m o) = [] /\ r_callbacks (run m o) = [].
Proof. unfold run. destruct (const_pass o) as [[? ?] ?]; destruct m; cbn; intros H; try congruence; auto. Qed.

(* ================= C08 ================= *)
Definition same_object (o o' : obj) : Prop :=
  o_kind o = o_kind o' /\ o_ctx o = o_ctx o' /\ Permutation (o_props o) (o_props o') /\ Permutation (o_callbacks o) (o_callbacks o')
  /\ Permutation (flat_attached o) (flat_attached o').
Definition distinct_names (o : obj) : Prop :=
  NoDup (map pname (o_props o)) /\ NoDup (o_callbacks o) /\ NoDup (map (fun '(a, l) => attached_name a (l_name l)) (flat_attached o)).

Lemma perm_singleton_match {A} (f : A -> bool) l l' : Permutation l l' ->
  match l with [p] => f p | _ => false end = match l' with [p] => f p | _ => false end.
Proof.
  intros P. destruct l as [|x [|y t]].
  - apply Permutation_nil in P. subst. reflexivity.
  - apply Permutation_length_1_inv in P. subst. reflexivity.
  - pose proof (Permutation_length P) as L. destruct l' as [|x' [|y' t']]; cbn in L; try discriminate. reflexivity.
Qed.

Lemma role_of_same o o' n : same_object o o' -> role_of o n = role_of o' n.
Proof.
  intros [Hk [Hc [Hp [Hcb Ha]]]]. unfold role_of. rewrite <- Hk. destruct (o_kind o) eqn:K; try reflexivity.
  assert (lone_separator o = lone_separator o') as ->; [|reflexivity].
  unfold lone_separator. rewrite <- Hk, K.
  pose proof (perm_singleton_match (fun p => String.eqb (pname p) "separator") _ _ Hp) as H.
  destruct (o_callbacks o) as [|c cs] eqn:E1.
  - apply Permutation_nil in Hcb. rewrite Hcb.
    destruct (o_props o) as [|x [|y t]]; destruct (o_props o') as [|x' [|y' t']]; cbn in H |- *; auto.
  - destruct (o_callbacks o') as [|c' cs'] eqn:E2; [symmetry in Hcb; apply Permutation_nil in Hcb; discriminate|].
    destruct (o_props o) as [|x [|y t]]; destruct (o_props o') as [|x' [|y' t']]; reflexivity.
Qed.

Lemma fate_form_same o o' p : same_object o o' -> fate_form o p = fate_form o' p.
Proof. intros H. unfold fate_form. rewrite (role_of_same o o' _ H). reflexivity. Qed.

Ltac crunch_const :=
  repeat match goal with
         | |- context [match ?x with GSupported => _ | GUnsupported => _ end] => destruct x
         | |- context [let '(_, _) := ?x in _] => destruct x
         | |- context [if ?b then _ else _] => destruct b
         end.
Lemma const_prop_names r p e : In e (fst (const_prop r p)) -> f_name e = pname p.
Proof.
  destruct r; destruct p as [l|n w rd gk ms|n w rd ms]; cbn [const_prop pname]; unfold leaf_value; crunch_const; cbn;
    intros H; repeat (destruct H as [H|H]); subst; try reflexivity; try contradiction.
Qed.
Lemma const_prop_le1 r p : length (fst (const_prop r p)) <= 1.
Proof.
  destruct r; destruct p as [l|n w rd gk ms|n w rd ms]; cbn [const_prop pname]; unfold leaf_value; crunch_const; cbn; lia.
Qed.

Lemma nodup_flat_map_names {A B} (ka : A -> string) (kb : B -> string) (f : A -> list B) l :
  (forall a b, In b (f a) -> kb b = ka a) -> (forall a, length (f a) <= 1) -> NoDup (map ka l) -> NoDup (map kb (flat_map f l)).
Proof.
  intros Hn Hl. induction l as [|a r IH]; cbn; [constructor|]. intros ND. inversion ND as [|? ? N1 ND']; subst.
  specialize (IH ND'). pose proof (Hl a) as La. destruct (f a) as [|b [|b' t]] eqn:E; cbn in La |- *; [exact IH| |lia].
  constructor; [|exact IH]. rewrite (Hn a b) by (rewrite E; now left). intros Hin. apply N1.
  apply in_map_iff in Hin. destruct Hin as [b2 [E2 Hb2]]. apply in_flat_map in Hb2. destruct Hb2 as [a2 [Ha2 Hb2]].
  apply in_map_iff. exists a2. split; [|exact Ha2]. rewrite <- E2. symmetry. apply Hn. exact Hb2.
Qed.

Lemma filter_perm {A} (f : A -> bool) l l' : Permutation l l' -> Permutation (filter f l) (filter f l').
Proof.
  induction 1 as [|x l l' P IH|x y l|l l' l'' P1 IH1 P2 IH2]; cbn; [constructor| | |etransitivity; eassumption].
  - destruct (f x); [constructor|]; exact IH.
  - destruct (f x), (f y); try reflexivity. apply perm_swap.
Qed.
Lemma nodup_map_filter {A B} (k : A -> B) (f : A -> bool) l : NoDup (map k l) -> NoDup (map k (filter f l)).
Proof.
  induction l as [|x r IH]; cbn; [auto|]. intros ND. inversion ND as [|? ? N1 ND']; subst. destruct (f x); cbn; [|auto].
  constructor; [|auto]. intros Hin. apply N1. apply in_map_iff in Hin. destruct Hin as [y [E Hy]]. apply filter_In in Hy. apply in_map_iff. exists y. tauto.
Qed.

Lemma const_attached_names c a l e : In e (fst (const_attached c a l)) -> f_name e = attached_name a (l_name l).
Proof.
  unfold const_attached. destruct (attached_consumed c a (l_name l)); cbn; [|intros []].
  unfold leaf_value. destruct (l_const l), (l_conv_ok l); cbn; intros H; try destruct H as [<-|[]]; try destruct H; reflexivity.
Qed.
Lemma const_attached_le1 c a l : length (fst (const_attached c a l)) <= 1.
Proof.
  unfold const_attached. destruct (attached_consumed c a (l_name l)); cbn; [|lia].
  unfold leaf_value. destruct (l_const l), (l_conv_ok l); cbn; lia.
Qed.

Theorem order_irrelevant m o o' : same_object o o' -> distinct_names o ->
  r_form (run m o) = r_form (run m o') /\ r_attached (run m o) = r_attached (run m o') /\
  r_bindings (run m o) = r_bindings (run m o') /\ r_callbacks (run m o) = r_callbacks (run m o') /\
  r_header (run m o) = r_header (run m o') /\ Permutation (r_diags (run m o)) (r_diags (run m o')).
Proof.
  intros Hs [ND1 [ND2 ND3]]. pose proof Hs as [Hk [Hc [Hp [Hcb Ha]]]].
  assert (Hform : fst (fst (const_pass o)) = fst (fst (const_pass o'))).
  { rewrite !const_pass_form. rewrite (flat_map_ext _ _ (fun p => fate_form_same o o' p Hs)).
    apply sort_perm_unique; [apply flat_map_perm, Hp|].
    apply (nodup_flat_map_names pname f_name); [intros a b; apply const_prop_names|intros a; apply const_prop_le1|exact ND1]. }
  assert (Hatt : snd (fst (const_pass o)) = snd (fst (const_pass o'))).
  { rewrite !const_pass_attached. unfold attached_form. rewrite <- Hc.
    apply sort_perm_unique; [apply flat_map_perm, Ha|].
    apply (nodup_flat_map_names (fun '(a, l) => attached_name a (l_name l)) f_name);
      [intros [a l] b; apply const_attached_names|intros [a l]; apply const_attached_le1|exact ND3]. }
  assert (Hdyn : sort_by pname (dynamic_props o) = sort_by pname (dynamic_props o')).
  { unfold dynamic_props. rewrite (filter_ext _ (fun p => negb (evaluated_constant (role_of o' (pname p)) p)))
      by (intros p; rewrite (role_of_same o o' _ Hs); reflexivity).
    apply sort_perm_unique; [apply filter_perm, Hp|apply nodup_map_filter, ND1]. }
  assert (Hcbs : sort_by (fun s => s) (o_callbacks o) = sort_by (fun s => s) (o_callbacks o')).
  { apply sort_perm_unique; [exact Hcb|rewrite map_id; exact ND2]. }
  assert (Hcd : Permutation (snd (const_pass o)) (snd (const_pass o'))).
  { rewrite !const_pass_diags. apply Permutation_app.
    - rewrite (flat_map_ext _ (fun p => snd (const_prop (role_of o' (pname p)) p))) by (intros p; rewrite (role_of_same o o' _ Hs); reflexivity).
      apply flat_map_perm, Hp.
    - unfold attached_diags. rewrite <- Hc. apply flat_map_perm, Ha. }
  unfold run. destruct (const_pass o) as [[f at1] cd]. destruct (const_pass o') as [[f' at1'] cd']. cbn [fst snd] in *. subst f' at1'.
  destruct m; cbn [r_form r_attached r_bindings r_callbacks r_header r_diags]; rewrite ?Hdyn, ?Hcbs; repeat (split; [reflexivity|]).
  - apply Permutation_app_tail, Hcd.
  - apply Permutation_app; [exact Hcd|]. apply Permutation_app; [|apply Permutation_map, Hcb].
    unfold dynamic_props. rewrite (filter_ext _ (fun p => negb (evaluated_constant (role_of o' (pname p)) p)))
      by (intros p; rewrite (role_of_same o o' _ Hs); reflexivity).
    apply Permutation_map, filter_perm, Hp.
  - exact Hcd.
Qed.

(* document level: the objects of a document are translated one by one, nothing survives from one to the next *)
Theorem doc_order_irrelevant m d d' : Forall2 same_object d d' -> Forall distinct_names d ->
  Forall2 (fun r r' => r_form r = r_form r' /\ r_attached r = r_attached r' /\ r_bindings r = r_bindings r' /\ r_callbacks r = r_callbacks r' /\
                       r_header r = r_header r' /\ Permutation (r_diags r) (r_diags r')) (run_doc m d) (run_doc m d').
Proof.
  induction 1 as [|o o' t t' H1 H2 IH]; intros F; cbn; constructor; inversion F; subst; [apply order_irrelevant; assumption|apply IH; assumption].
Qed.
Theorem doc_history_free m d1 d2 : run_doc m (d1 ++ d2) = run_doc m d1 ++ run_doc m d2.
Proof. apply map_app. Qed.

Theorem doc_form_mode_free m m' d : map r_form (run_doc m d) = map r_form (run_doc m' d) /\ map r_attached (run_doc m d) = map r_attached (run_doc m' d).
Proof. unfold run_doc. rewrite !map_map. split; apply map_ext; intros o; apply form_mode_free. Qed.

Theorem doc_reject_iff d :
  doc_accepted (run_doc Reject d) = true <->
  doc_accepted (run_doc Generate d) = true /\ Forall (fun r => r_bindings r = [] /\ r_callbacks r = []) (run_doc Generate d).
Proof.
  unfold doc_accepted, run_doc. rewrite !forallb_forall, Forall_forall. split.
  - intros H. split; intros r Hr; apply in_map_iff in Hr; destruct Hr as [o [<- Ho]];
      apply (reject_iff o); apply H; apply in_map; exact Ho.
  - intros [H1 H2] r Hr. apply in_map_iff in Hr. destruct Hr as [o [<- Ho]]. apply reject_iff.
    split; [apply H1, in_map, Ho|apply H2, in_map, Ho].
Qed.

(* ---- the members of a grouped value are a map too: any order gives the same outputs ---- *)
Inductive pequiv : pcode -> pcode -> Prop :=
| pe_expr l : pequiv (PExpr l) (PExpr l)
| pe_gadget n w r gk ms ms' : Permutation ms ms' -> pequiv (PGadget n w r gk ms) (PGadget n w r gk ms')
| pe_objmap n w r ms ms' : Permutation ms ms' -> pequiv (PObjMap n w r ms) (PObjMap n w r ms').
Definition members_distinct (p : pcode) : Prop :=
  match p with PExpr _ => True | PGadget _ _ _ _ ms | PObjMap _ _ _ ms => NoDup (map l_name ms) end.

Lemma forallb_perm {A} (f : A -> bool) l l' : Permutation l l' -> forallb f l = forallb f l'.
Proof. induction 1; cbn; try congruence. destruct (f x), (f y); reflexivity. Qed.

Lemma pequiv_name p p' : pequiv p p' -> pname p = pname p'.
Proof. destruct 1; reflexivity. Qed.
Lemma pequiv_evaluated r p p' : pequiv p p' -> evaluated_constant r p = evaluated_constant r p'.
Proof. destruct 1; cbn; [reflexivity| |]; apply forallb_perm; assumption. Qed.

Lemma nodup_map_filter' {A} (k : A -> string) (f : A -> bool) l : NoDup (map k l) -> NoDup (map k (filter f l)).
Proof.
  induction l as [|x r IH]; cbn; [auto|]. intros ND. inversion ND as [|? ? N1 ND']; subst. destruct (f x); cbn; [|auto].
  constructor; [|auto]. intros Hin. apply N1. apply in_map_iff in Hin. destruct Hin as [y [E Hy]]. apply filter_In in Hy. apply in_map_iff. exists y. tauto.
Qed.

Lemma sorted_names_perm (f : leaf -> bool) ms ms' : Permutation ms ms' -> NoDup (map l_name ms) ->
  sort_by (fun s => s) (map l_name (filter f ms)) = sort_by (fun s => s) (map l_name (filter f ms')).
Proof.
  intros P ND. apply sort_perm_unique; [apply Permutation_map, filter_perm, P|]. rewrite map_id. apply nodup_map_filter', ND.
Qed.

Lemma value_members_perm top ms ms' : Permutation ms ms' -> NoDup (map l_name ms) ->
  fst (value_members top ms) = fst (value_members top ms') /\ Permutation (snd (value_members top ms)) (snd (value_members top ms')).
Proof. intros P ND. unfold value_members. cbn [fst snd]. split; [apply sorted_names_perm; assumption|apply flat_map_perm, P]. Qed.
Lemma serial_members_perm top ms ms' : Permutation ms ms' -> NoDup (map l_name ms) ->
  fst (serial_members top ms) = fst (serial_members top ms') /\ Permutation (snd (serial_members top ms)) (snd (serial_members top ms')).
Proof. intros P ND. unfold serial_members. cbn [fst snd]. split; [apply sorted_names_perm; assumption|apply flat_map_perm, P]. Qed.

Lemma const_prop_pequiv r p p' : pequiv p p' -> members_distinct p ->
  fst (const_prop r p) = fst (const_prop r p') /\ Permutation (snd (const_prop r p)) (snd (const_prop r p')).
Proof.
  destruct 1 as [l|n w rd gk ms ms' P|n w rd ms ms' P]; intros ND; cbn [members_distinct] in ND.
  - split; reflexivity.
  - destruct (value_members_perm n ms ms' P ND) as [E1 E2].
    destruct r; cbn [const_prop pname]; try (split; reflexivity);
      destruct gk; try (split; reflexivity);
      destruct (value_members n ms) as [m d]; destruct (value_members n ms') as [m' d']; cbn [fst snd] in *; subst m';
      try destruct w; cbn [andb negb fst snd]; (split; [reflexivity|]); try exact E2; try (apply Permutation_app_tail, E2).
  - destruct (serial_members_perm n ms ms' P ND) as [E1 E2].
    destruct r; cbn [const_prop pname]; try (split; reflexivity).
    destruct (serial_members n ms) as [m d]; destruct (serial_members n ms') as [m' d']; cbn [fst snd] in *; subst m'. split; [reflexivity|exact E2].
Qed.

Lemma header_members_perm top ms ms' : Permutation ms ms' -> NoDup (map l_name ms) -> header_members top ms = header_members top ms'.
Proof. intros P ND. unfold header_members. rewrite (sort_perm_unique l_name ms ms' P ND). reflexivity. Qed.
Lemma header_prop_pequiv p p' : pequiv p p' -> members_distinct p -> header_prop p = header_prop p'.
Proof.
  destruct 1 as [l|n w rd gk ms ms' P|n w rd ms ms' P]; intros ND; cbn [members_distinct] in ND; cbn [header_prop]; try reflexivity.
  rewrite (header_members_perm n ms ms' P ND). reflexivity.
Qed.

Section F2.
  Context {A : Type} (R : A -> A -> Prop) (key : A -> string).
  Hypothesis Rkey : forall a b, R a b -> key a = key b.
  Lemma insert_forall2 x y l l' : R x y -> Forall2 R l l' -> Forall2 R (insert_by key x l) (insert_by key y l').
  Proof.
    intros Hxy. induction 1 as [|a b r s Hab Hrs IH]; cbn; [repeat constructor; assumption|].
    rewrite (Rkey _ _ Hxy), (Rkey _ _ Hab). destruct (str_leb (key y) (key b)); repeat constructor; assumption.
  Qed.
  Lemma sort_forall2 l l' : Forall2 R l l' -> Forall2 R (sort_by key l) (sort_by key l').
  Proof. unfold sort_by. induction 1; cbn; [constructor|]. apply insert_forall2; assumption. Qed.
  Lemma filter_forall2 (f : A -> bool) l l' : (forall a b, R a b -> f a = f b) -> Forall2 R l l' -> Forall2 R (filter f l) (filter f l').
  Proof. intros Hf. induction 1 as [|a b r s Hab Hrs IH]; cbn; [constructor|]. rewrite (Hf _ _ Hab). destruct (f b); [constructor|]; assumption. Qed.
End F2.

Lemma forall2_flat_map_eq {A B} (R : A -> A -> Prop) (f g : A -> list B) l l' : (forall a b, R a b -> f a = g b) -> Forall2 R l l' -> flat_map f l = flat_map g l'.
Proof. intros Hf. induction 1 as [|a b r s Hab Hrs IH]; cbn; [reflexivity|]. rewrite (Hf _ _ Hab), IH. reflexivity. Qed.
Lemma forall2_flat_map_perm {A B} (R : A -> A -> Prop) (f g : A -> list B) l l' : (forall a b, R a b -> Permutation (f a) (g b)) -> Forall2 R l l' -> Permutation (flat_map f l) (flat_map g l').
Proof. intros Hf. induction 1 as [|a b r s Hab Hrs IH]; cbn; [constructor|]. apply Permutation_app; [apply Hf, Hab|exact IH]. Qed.

Definition pequiv_d (p p' : pcode) : Prop := pequiv p p' /\ members_distinct p.

Definition with_props (o : obj) (ps : list pcode) : obj :=
  {| o_kind := o_kind o; o_ctx := o_ctx o; o_props := ps; o_callbacks := o_callbacks o; o_attached := o_attached o |}.

Lemma lone_separator_pointwise o ps ps' : Forall2 pequiv_d ps ps' -> lone_separator (with_props o ps) = lone_separator (with_props o ps').
Proof.
  intros H. unfold lone_separator, with_props. cbn [o_kind o_props o_callbacks]. destruct (o_kind o); try reflexivity.
  inversion H as [|a b r s [Hab _] Hrs]; subst; [reflexivity|]. inversion Hrs; subst; [|reflexivity].
  rewrite (pequiv_name _ _ Hab). reflexivity.
Qed.
Lemma role_of_pointwise o ps ps' n : Forall2 pequiv_d ps ps' -> role_of (with_props o ps) n = role_of (with_props o ps') n.
Proof.
  intros H. unfold role_of. change (o_kind (with_props o ps)) with (o_kind o). change (o_kind (with_props o ps')) with (o_kind o).
  destruct (o_kind o); try reflexivity. rewrite (lone_separator_pointwise o ps ps' H). reflexivity.
Qed.

(* the same object with the members of its grouped values in another order: equal outputs, permuted diagnostics *)
Theorem members_order_irrelevant m o ps ps' : Forall2 pequiv_d ps ps' ->
  let r := run m (with_props o ps) in let r' := run m (with_props o ps') in
  r_form r = r_form r' /\ r_attached r = r_attached r' /\ r_bindings r = r_bindings r' /\ r_callbacks r = r_callbacks r' /\
  r_header r = r_header r' /\ Permutation (r_diags r) (r_diags r').
Proof.
  intros H. set (o1 := with_props o ps). set (o2 := with_props o ps').
  assert (Hrole : forall n, role_of o1 n = role_of o2 n) by (intros n; apply role_of_pointwise, H).
  assert (Hform : fst (fst (const_pass o1)) = fst (fst (const_pass o2))).
  { rewrite !const_pass_form. change (o_props o1) with ps. change (o_props o2) with ps'.
    rewrite (forall2_flat_map_eq pequiv_d (fate_form o1) (fate_form o2) ps ps'); [reflexivity| |exact H].
    intros a b [Hab Hd]. unfold fate_form. rewrite <- (pequiv_name _ _ Hab), <- Hrole. apply (const_prop_pequiv _ _ _ Hab Hd). }
  assert (Hatt : snd (fst (const_pass o1)) = snd (fst (const_pass o2))) by (rewrite !const_pass_attached; reflexivity).
  assert (Hcd : Permutation (snd (const_pass o1)) (snd (const_pass o2))).
  { rewrite !const_pass_diags. apply Permutation_app; [|reflexivity]. change (o_props o1) with ps. change (o_props o2) with ps'.
    apply (forall2_flat_map_perm pequiv_d); [|exact H]. intros a b [Hab Hd]. rewrite <- (pequiv_name _ _ Hab), <- Hrole. apply (const_prop_pequiv _ _ _ Hab Hd). }
  assert (Hd2 : Forall2 pequiv_d (dynamic_props o1) (dynamic_props o2)).
  { unfold dynamic_props. change (o_props o1) with ps. change (o_props o2) with ps'.
    assert (G : forall l l', Forall2 pequiv_d l l' ->
                Forall2 pequiv_d (filter (fun p => negb (evaluated_constant (role_of o1 (pname p)) p)) l) (filter (fun p => negb (evaluated_constant (role_of o2 (pname p)) p)) l')).
    { induction 1 as [|a b r s [Hab Hd] Hrs IH]; cbn [filter]; [constructor|].
      rewrite <- (pequiv_name _ _ Hab), <- Hrole, <- (pequiv_evaluated _ _ _ Hab).
      destruct (evaluated_constant (role_of o1 (pname a)) a); cbn [negb]; [exact IH|constructor; [split; assumption|exact IH]]. }
    apply G, H. }
  assert (Hdyn : Forall2 pequiv_d (sort_by pname (dynamic_props o1)) (sort_by pname (dynamic_props o2))).
  { apply sort_forall2; [intros a b [Hab _]; apply pequiv_name, Hab|]. apply Hd2. }
  unfold run. destruct (const_pass o1) as [[f at1] cd]. destruct (const_pass o2) as [[f' at1'] cd']. cbn [fst snd] in *. subst f' at1'.
  destruct m; cbn [r_form r_attached r_bindings r_callbacks r_header r_diags]; repeat (split; [try reflexivity|]); try reflexivity.
  - rewrite !flat_map_fst_map. apply (forall2_flat_map_eq pequiv_d); [|exact Hdyn]. intros a b [Hab Hd]. rewrite (header_prop_pequiv _ _ Hab Hd). reflexivity.
  - apply Permutation_app; [exact Hcd|]. rewrite !flat_map_snd_map.
    apply (forall2_flat_map_perm pequiv_d); [|exact Hdyn]. intros a b [Hab Hd]. rewrite (header_prop_pequiv _ _ Hab Hd). reflexivity.
  - apply Permutation_app; [exact Hcd|]. apply Permutation_app; [|reflexivity].
    clear -Hd2. induction Hd2 as [|a b r s [Hab _] Hrs IH]; cbn; [constructor|]. rewrite (pequiv_name _ _ Hab).
    assert (E : match a with PExpr l => l_writable l | PGadget _ w _ _ _ | PObjMap _ w _ _ => w end = match b with PExpr l => l_writable l | PGadget _ w _ _ _ | PObjMap _ w _ _ => w end)
      by (destruct Hab; reflexivity). rewrite E. constructor. exact IH.
  - exact Hcd.
Qed.

(* LiteralProofs.v -- C03: literal spellings denote their ECMAScript values (integers, single-character and hex escapes). *)
From Coq Require Import Lia ZifyBool.
From QV Require Import model.Base model.Floats model.Literal.
Open Scope Z_scope.

(* the mathematical value of a digit string in a radix: MV(d1 ... dn) = sum di * radix^(n-i) *)
Fixpoint mv (radix : Z) (ds : list Z) : Z :=
  match ds with [] => 0 | d :: r => d * radix ^ Z.of_nat (List.length r) + mv radix r end.
Fixpoint all_digits (radix : Z) (s : list N) : option (list Z) :=
  match s with
  | [] => Some []
  | c :: r => match digit_val radix c, all_digits radix r with Some d, Some ds => Some (d :: ds) | _, _ => None end
  end.

Lemma digit_val_bound radix c d : digit_val radix c = Some d -> 0 <= d < radix.
Proof.
  unfold digit_val. intros H.
  destruct ((48 <=? c)%N && (c <=? 57)%N) eqn:E1.
  - destruct (Z.of_N c - 48 <? radix) eqn:L; inversion H; subst; lia.
  - destruct ((97 <=? c)%N && (c <=? 122)%N) eqn:E2.
    + destruct (Z.of_N c - 87 <? radix) eqn:L; inversion H; subst; lia.
    + destruct ((65 <=? c)%N && (c <=? 90)%N) eqn:E3; [|discriminate].
      destruct (Z.of_N c - 55 <? radix) eqn:L; inversion H; subst; lia.
Qed.

Lemma mv_nonneg radix ds : 0 < radix -> Forall (fun d => 0 <= d) ds -> 0 <= mv radix ds.
Proof.
  intros Hr. induction 1 as [|d r Hd _ IH]; cbn [mv]; [lia|].
  assert (0 <= radix ^ Z.of_nat (List.length r)) by (apply Z.pow_nonneg; lia). nia.
Qed.

Lemma all_digits_length radix s ds : all_digits radix s = Some ds -> List.length ds = List.length s.
Proof.
  revert ds. induction s as [|c r IH]; cbn [all_digits]; intros ds H; [inversion H; reflexivity|].
  destruct (digit_val radix c); [|discriminate]. destruct (all_digits radix r) as [t|]; [|discriminate].
  inversion H; subst. cbn. f_equal. apply IH. reflexivity.
Qed.

(* u64::from_str_radix returns the mathematical value of the digit string, or fails -- it never returns another number *)
Lemma digits_value_sound radix : 0 < radix -> forall s acc v,
  digits_value radix s acc = Some v ->
  exists ds, all_digits radix s = Some ds /\ v = acc * radix ^ Z.of_nat (List.length ds) + mv radix ds.
Proof.
  intros Hr. induction s as [|c r IH]; intros acc v H; cbn [digits_value all_digits] in *.
  - inversion H; subst. exists []. cbn. split; [reflexivity|lia].
  - destruct (digit_val radix c) as [d|] eqn:D; [|discriminate].
    destruct (acc * radix + d <=? 18446744073709551615); [|discriminate].
    destruct (IH _ _ H) as [ds [E V]]. rewrite E. exists (d :: ds). split; [reflexivity|].
    subst v. cbn [List.length mv]. rewrite Nat2Z.inj_succ, Z.pow_succ_r by lia. ring.
Qed.

Theorem integer_literal_value s radix v : 0 < radix ->
  u64_from_str_radix s radix = Some v ->
  exists ds, all_digits radix (match s with 43%N :: r => r | _ => s end) = Some ds /\ ds <> [] /\ v = mv radix ds.
Proof.
  intros Hr. unfold u64_from_str_radix. set (body := match s with 43%N :: r => r | _ => s end).
  destruct body as [|c r] eqn:B; [discriminate|]. intros H.
  destruct (digits_value_sound radix Hr _ _ _ H) as [ds [E V]]. exists ds. split; [exact E|]. split; [|lia].
  intros ->. apply all_digits_length in E. cbn in E. discriminate.
Qed.

(* digit separators: the cleaned string is the original with every '_' removed, nothing else *)
Theorem separators_only_removed s radix v : parse_integer_str_radix s radix = Some v ->
  u64_from_str_radix s radix = Some v \/ u64_from_str_radix (filter (fun c => negb (c =? 95)%N) s) radix = Some v.
Proof. unfold parse_integer_str_radix. destruct (u64_from_str_radix s radix); [left|right]; assumption. Qed.

(* integer-vs-float classification: a radix prefix or the absence of '.' / 'e' means integer *)
Theorem number_classification s n : parse_number_str s = Some n ->
  match n with
  | NumInt _ => strip_radix_prefix s <> None \/ existsb (fun c => (c =? 101)%N || (c =? 46)%N) s = false
  | NumFloat _ => strip_radix_prefix s = None /\ existsb (fun c => (c =? 101)%N || (c =? 46)%N) s = true
  end.
Proof.
  unfold parse_number_str. destruct (strip_radix_prefix s) as [[radix t]|] eqn:P.
  - destruct (parse_integer_str_radix t radix); [|discriminate]. intros H. inversion H; subst. left. discriminate.
  - destruct (existsb _ s) eqn:X.
    + destruct (parse_f64 s); [|discriminate]. intros H. inversion H; subst. auto.
    + destruct (parse_integer_str_radix s 10); [|discriminate]. intros H. inversion H; subst. auto.
Qed.

(* ---- escapes: the ECMAScript SingleEscapeCharacter table plus \0, written independently ---- *)
Definition es_single_escape : list (N * N) :=
  [(39, 39); (34, 34); (92, 92); (98, 8); (102, 12); (110, 10); (114, 13); (116, 9); (118, 11); (48, 0)]%N.
Definition es_single (c : N) : option N :=
  match find (fun p => (fst p =? c)%N) es_single_escape with Some p => Some (snd p) | None => None end.

Lemma single_escapes_ascii : forallb (fun c => match unescape_tail [c], es_single c with
                                                | Some a, Some b => (a =? b)%N | None, None => true | _, _ => false end)
                                     (map N.of_nat (seq 0 128)) = true.
Proof. vm_compute. reflexivity. Qed.

(* every single-character escape is decoded to the ES character value, every other single character is rejected *)
Theorem single_escape_spec c : unescape_tail [c] = es_single c.
Proof.
  destruct (N.ltb_spec c 128) as [L|G].
  - pose proof single_escapes_ascii as H. rewrite forallb_forall in H.
    specialize (H c). assert (I : In c (map N.of_nat (seq 0 128))).
    { apply in_map_iff. exists (N.to_nat c). split; [lia|apply in_seq; lia]. }
    specialize (H I). destruct (unescape_tail [c]), (es_single c); try discriminate; [f_equal; lia|reflexivity].
  - (* beyond ASCII neither table has an entry *)
    unfold unescape_tail, es_single, es_single_escape. cbn [find fst snd].
    repeat match goal with |- context[(?k =? c)%N] => destruct (N.eqb_spec k c); [lia|] end.
    repeat match goal with |- context[(c =? ?k)%N] => destruct (N.eqb_spec c k); [lia|] end.
    destruct c as [|p]; [reflexivity|]. do 8 (try (destruct p as [p|p|]; try reflexivity)).
Qed.

(* \xHH denotes the code unit 16*H1 + H0 *)
Theorem hex_escape_spec a b da db : digit_val 16 a = Some da -> digit_val 16 b = Some db ->
  unescape_tail [120%N; a; b] = Some (Z.to_N (da * 16 + db)).
Proof.
  intros Ha Hb. pose proof (digit_val_bound _ _ _ Ha). pose proof (digit_val_bound _ _ _ Hb).
  cbn [unescape_tail List.length Nat.eqb]. unfold char_from_hex, hex_value. cbn [fold_left]. rewrite Ha, Hb.
  replace ((0 * 16 + da) * 16 + db) with (da * 16 + db) by ring.
  destruct (da * 16 + db <=? 4294967295) eqn:L1; [|lia]. unfold char_from_u32.
  destruct ((da * 16 + db <=? 1114111) && negb ((55296 <=? da * 16 + db) && (da * 16 + db <=? 57343))) eqn:L2; [reflexivity|lia].
Qed.

(* a code point escape is accepted exactly for Unicode scalar values (no surrogates, at most U+10FFFF) *)
Theorem scalar_value_spec v : char_from_u32 v = Some (Z.to_N v) <-> (v <= 1114111 /\ ~ (55296 <= v <= 57343)).
Proof. unfold char_from_u32. destruct ((v <=? 1114111) && negb ((55296 <=? v) && (v <=? 57343))) eqn:E; split; intros H; try discriminate; try reflexivity; lia. Qed.

(* ClassGraphProofs.v -- C17: termination (explicit fuel bound), soundness and completeness of the base-class walk. *)
From Coq Require Import Lia Arith Relations.
From QV Require Import model.Base model.ClassGraph.

Section WalkProofs.
  Variable resolve_ : nat -> option nat.
  Variable supers_ : nat -> list nat.
  Variable A : Type.
  Variable f : nat -> fm A.

  (* specification: x directly and publicly inherits y *)
  Definition super (x y : nat) : Prop := exists n, In n (supers_ x) /\ resolve_ n = Some y.
  Definition reach := clos_refl_trans nat super.
  (* classes reachable from a list of pending names *)
  Definition from_names (ns : list nat) (c : nat) : Prop := exists n y, In n ns /\ resolve_ n = Some y /\ reach y c.

  Notation walk := (bfs_find resolve_ supers_ f).

  Lemma existsb_In c l : existsb (Nat.eqb c) l = true <-> In c l.
  Proof.
    rewrite existsb_exists. split.
    - intros [x [Hin E]]. apply Nat.eqb_eq in E. subst. exact Hin.
    - intros H. exists c. split; [exact H|apply Nat.eqb_refl].
  Qed.

  (* ---------- soundness: whatever is found was found at a class reachable from a pending name ---------- *)
  Lemma walk_sound : forall fuel pending visited a,
    walk fuel pending visited = FSome a ->
    exists it c, In it pending /\ from_names it c /\ f c = FSome a.
  Proof.
    induction fuel as [|k IH]; intros pending visited a H; [discriminate|].
    cbn [bfs_find] in H. destruct pending as [|[|n it] rest]; [discriminate| |].
    - destruct (IH _ _ _ H) as [it' [c [Hin [Hf Hc]]]]. exists it', c. split; [now right|auto].
    - destruct (resolve_ n) as [c|] eqn:R; [|discriminate].
      destruct (existsb (Nat.eqb c) visited).
      + destruct (IH _ _ _ H) as [it' [c' [Hin [Hf Hc]]]]. destruct Hin as [<-|Hin].
        * exists (n :: it), c'. split; [now left|]. split; [|exact Hc].
          destruct Hf as [m [y [Hm [Ry Hr]]]]. exists m, y. split; [now right|auto].
        * exists it', c'. split; [now right|auto].
      + destruct (f c) as [| |a'|] eqn:Fc; try discriminate.
        * destruct (IH _ _ _ H) as [it' [c' [Hin [Hf Hc]]]].
          apply in_app_or in Hin. destruct Hin as [[<-|Hin]|[<-|[]]].
          -- exists (n :: it), c'. split; [now left|]. split; [|exact Hc].
             destruct Hf as [m [y [Hm [Ry Hr]]]]. exists m, y. split; [now right|auto].
          -- exists it', c'. split; [now right|auto].
          -- exists (n :: it), c'. split; [now left|]. split; [|exact Hc].
             destruct Hf as [m [y [Hm [Ry Hr]]]]. exists n, c. split; [now left|]. split; [exact R|].
             eapply rt_trans; [apply rt_step; exists m; split; eauto|exact Hr].
        * inversion H; subst a'. exists (n :: it), c. split; [now left|]. split; [|exact Fc].
          exists n, c. split; [now left|]. split; [exact R|apply rt_refl].
  Qed.

  (* ---------- completeness: FNone means f is FNone on everything reachable ---------- *)
  Definition closed_under (visited : list nat) (pending : list (list nat)) : Prop :=
    forall v n c, In v visited -> In n (supers_ v) -> resolve_ n = Some c ->
      In c visited \/ exists it m, In it pending /\ In m it /\ resolve_ m = Some c.

  Lemma walk_complete : forall fuel pending visited,
    walk fuel pending visited = FNone ->
    closed_under visited pending ->
    (forall v, In v visited -> f v = FNone) ->
    exists visited', incl visited visited' /\ closed_under visited' [] /\
                     (forall v, In v visited' -> f v = FNone) /\
                     (forall it n c, In it pending -> In n it -> resolve_ n = Some c -> In c visited').
  Proof.
    induction fuel as [|k IH]; intros pending visited H Hcl Hf; [discriminate|].
    cbn [bfs_find] in H. destruct pending as [|[|n it] rest].
    - exists visited. split; [apply incl_refl|]. split; [exact Hcl|]. split; [exact Hf|]. intros it n c [].
    - destruct (IH rest visited H) as [v' [Hi [Hc [Hfv Hp]]]]; [|exact Hf|].
      + intros v n c Hv Hn R. destruct (Hcl v n c Hv Hn R) as [?|[it [m [Hin [Hm Rm]]]]]; [now left|].
        destruct Hin as [<-|Hin]; [destruct Hm|]. right. exists it, m. auto.
      + exists v'. split; [exact Hi|]. split; [exact Hc|]. split; [exact Hfv|].
        intros it n c [<-|Hin] Hn R; [destruct Hn|]. eapply Hp; eauto.
    - destruct (resolve_ n) as [c|] eqn:R; [|discriminate].
      destruct (existsb (Nat.eqb c) visited) eqn:Ev.
      + apply existsb_In in Ev.
        destruct (IH (it :: rest) visited H) as [v' [Hi [Hc [Hfv Hp]]]]; [|exact Hf|].
        * intros v m c' Hv Hm Rm. destruct (Hcl v m c' Hv Hm Rm) as [?|[it' [m' [Hin [Hm' Rm']]]]]; [now left|].
          destruct Hin as [<-|Hin].
          -- destruct Hm' as [<-|Hm']; [left; congruence|]. right. exists it, m'. split; [now left|auto].
          -- right. exists it', m'. split; [now right|auto].
        * exists v'. split; [exact Hi|]. split; [exact Hc|]. split; [exact Hfv|].
          intros it' m c' [<-|Hin] Hm Rm.
          -- destruct Hm as [<-|Hm]; [apply Hi; congruence|]. eapply (Hp it); eauto. now left.
          -- eapply (Hp it'); eauto. now right.
      + destruct (f c) as [| |a'|] eqn:Fc; try discriminate.
        destruct (IH ((it :: rest) ++ [supers_ c]) (c :: visited) H) as [v' [Hi [Hc [Hfv Hp]]]].
        * intros v m c' Hv Hm Rm. destruct Hv as [<-|Hv].
          -- right. exists (supers_ c), m. split; [apply in_or_app; right; now left|auto].
          -- destruct (Hcl v m c' Hv Hm Rm) as [?|[it' [m' [Hin [Hm' Rm']]]]]; [left; now right|].
             destruct Hin as [<-|Hin].
             ++ destruct Hm' as [<-|Hm']; [left; left; congruence|].
                right. exists it, m'. split; [apply in_or_app; left; now left|auto].
             ++ right. exists it', m'. split; [apply in_or_app; left; now right|auto].
        * intros v [<-|Hv]; [exact Fc|apply Hf, Hv].
        * exists v'. split; [intros x Hx; apply Hi; now right|]. split; [exact Hc|]. split; [exact Hfv|].
          intros it' m c' [<-|Hin] Hm Rm.
          -- destruct Hm as [<-|Hm]; [apply Hi; left; congruence|].
             eapply (Hp it); eauto. apply in_or_app; left; now left.
          -- eapply (Hp it'); eauto. apply in_or_app; left; now right.
  Qed.

  Lemma closed_reach visited : closed_under visited [] ->
    forall x y, reach x y -> In x visited -> In y visited.
  Proof.
    intros Hc x y Hr. apply clos_rt_rt1n in Hr. induction Hr as [|x z y [n [Hn R]] _ IH]; [auto|].
    intros Hx. apply IH. destruct (Hc x n z Hx Hn R) as [?|[it [m [[] _]]]]. assumption.
  Qed.

  Theorem walk_none_complete fuel pending :
    walk fuel pending [] = FNone ->
    forall it c, In it pending -> from_names it c -> f c = FNone.
  Proof.
    intros H it c Hin [n [y [Hn [R Hr]]]].
    destruct (walk_complete fuel pending [] H) as [v' [_ [Hc [Hfv Hp]]]].
    - intros v n0 c0 [].
    - intros v [].
    - apply Hfv. eapply closed_reach; [exact Hc|exact Hr|]. eapply Hp; eauto.
  Qed.

  (* ---------- errors only come from f or from an unresolvable name at a reachable class ---------- *)
  Definition dangling_from (it : list nat) : Prop :=
    (exists n, In n it /\ resolve_ n = None) \/
    (exists c m, from_names it c /\ In m (supers_ c) /\ resolve_ m = None).

  Lemma dangling_from_tail n it : dangling_from it -> dangling_from (n :: it).
  Proof.
    intros [[m [Hm R]]|[c [m [[k [y [Hk [Ry Hr]]]] [Hm R]]]]].
    - left. exists m. split; [now right|exact R].
    - right. exists c, m. split; [exists k, y; split; [now right|auto]|auto].
  Qed.

  Lemma from_names_tail n it c : from_names it c -> from_names (n :: it) c.
  Proof. intros [m [y [Hm [R Hr]]]]. exists m, y. split; [now right|auto]. Qed.

  Lemma walk_err : forall fuel pending visited,
    walk fuel pending visited = FErr ->
    exists it, In it pending /\ ((exists c, from_names it c /\ f c = FErr) \/ dangling_from it).
  Proof.
    induction fuel as [|k IH]; intros pending visited H; [discriminate|].
    cbn [bfs_find] in H. destruct pending as [|[|n it] rest]; [discriminate| |].
    - destruct (IH _ _ H) as [it [Hin D]]. exists it. split; [now right|exact D].
    - destruct (resolve_ n) as [c|] eqn:R.
      2:{ exists (n :: it). split; [now left|]. right. left. exists n. split; [now left|exact R]. }
      destruct (existsb (Nat.eqb c) visited).
      + destruct (IH _ _ H) as [it' [Hin D]]. destruct Hin as [<-|Hin].
        * exists (n :: it). split; [now left|]. destruct D as [[c' [Hf Hc]]|D]; [left; exists c'; split; [apply from_names_tail, Hf|exact Hc]|right; apply dangling_from_tail, D].
        * exists it'. split; [now right|exact D].
      + destruct (f c) as [| |a'|] eqn:Fc; try discriminate.
        * destruct (IH _ _ H) as [it' [Hin D]].
          apply in_app_or in Hin. destruct Hin as [[<-|Hin]|[<-|[]]].
          -- exists (n :: it). split; [now left|]. destruct D as [[c' [Hf Hc]]|D]; [left; exists c'; split; [apply from_names_tail, Hf|exact Hc]|right; apply dangling_from_tail, D].
          -- exists it'. split; [now right|exact D].
          -- exists (n :: it). split; [now left|].
             assert (Lift : forall x, from_names (supers_ c) x -> from_names (n :: it) x).
             { intros x [k' [y [Hk [Ry Hr]]]]. exists n, c. split; [now left|]. split; [exact R|].
               eapply rt_trans; [apply rt_step; exists k'; eauto|exact Hr]. }
             destruct D as [[c' [Hf Hc]]|[[m [Hm Rm]]|[c' [m [Hf [Hm Rm]]]]]].
             ++ left. exists c'. split; [apply Lift, Hf|exact Hc].
             ++ right. right. exists c, m. split; [exists n, c; split; [now left|split; [exact R|apply rt_refl]]|auto].
             ++ right. right. exists c', m. split; [apply Lift, Hf|auto].
        * exists (n :: it). split; [now left|]. left. exists c. split; [|exact Fc].
          exists n, c. split; [now left|]. split; [exact R|apply rt_refl].
  Qed.

  (* ---------- termination ---------- *)
  Variable universe : list nat.
  Hypothesis resolve_in_universe : forall n c, resolve_ n = Some c -> In c universe.

  Fixpoint wt (l : list nat) (visited : list nat) : nat :=
    match l with
    | [] => 0
    | k :: t => (if existsb (Nat.eqb k) visited then 0 else 2 + length (supers_ k)) + wt t visited
    end.
  Fixpoint psum (pending : list (list nat)) : nat :=
    match pending with [] => 0 | it :: t => 1 + length it + psum t end.
  Definition mu pending visited := psum pending + wt universe visited.

  Lemma psum_app a b : psum (a ++ b) = psum a + psum b.
  Proof. induction a; cbn [psum app]; lia. Qed.

  Lemma wt_mono l n visited : wt l (n :: visited) <= wt l visited.
  Proof.
    induction l as [|k t IH]; cbn [wt existsb]; [lia|].
    destruct (Nat.eqb k n); cbn [orb]; destruct (existsb (Nat.eqb k) visited); lia.
  Qed.

  Lemma wt_dec l n visited : In n l -> existsb (Nat.eqb n) visited = false ->
    wt l (n :: visited) + 2 + length (supers_ n) <= wt l visited.
  Proof.
    induction l as [|k t IH]; intros Hin Hv; [destruct Hin|].
    cbn [wt existsb]. destruct Hin as [E|Hin].
    - subst k. rewrite Nat.eqb_refl. cbn [orb]. rewrite Hv. pose proof (wt_mono t n visited). lia.
    - specialize (IH Hin Hv). destruct (Nat.eqb k n); cbn [orb]; destruct (existsb (Nat.eqb k) visited); lia.
  Qed.

  Theorem walk_terminates : (forall c, f c <> FFuel) -> forall fuel pending visited,
    mu pending visited < fuel -> walk fuel pending visited <> FFuel.
  Proof.
    intros Hf.
    induction fuel as [|k IH]; intros pending visited Hmu; [lia|].
    cbn [bfs_find]. destruct pending as [|[|n it] rest]; [discriminate| |].
    - apply IH. unfold mu in *. cbn [psum length] in Hmu. lia.
    - destruct (resolve_ n) as [c|] eqn:R; [|discriminate].
      destruct (existsb (Nat.eqb c) visited) eqn:Ev.
      + apply IH. unfold mu in *. cbn [psum length] in *. lia.
      + assert (H : walk k ((it :: rest) ++ [supers_ c]) (c :: visited) <> FFuel).
        { apply IH. unfold mu in *. rewrite psum_app. cbn [psum length] in *.
          pose proof (wt_dec universe c visited (resolve_in_universe _ _ R) Ev). lia. }
        pose proof (Hf c) as Hfc. destruct (f c); try discriminate; [exact H|congruence].
  Qed.
End WalkProofs.

(* ====================================================================== instantiation on [graph] *)
Definition gsuper (g : graph) := super (resolve g) (supers g).
Definition greach (g : graph) := reach (resolve g) (supers g).
(* a class reachable from c (c included) lists a public super-class name that does not resolve to a class *)
Definition has_dangling (g : graph) (c : nat) : Prop :=
  exists d m, greach g c d /\ In m (supers g d) /\ resolve g m = None.

Lemma resolve_lt g n c : resolve g n = Some c -> c < length (g_classes g).
Proof.
  unfold resolve. destruct (nassoc n (g_names g)) as [[i|]|]; try discriminate.
  destruct (Nat.ltb_spec i (length (g_classes g))); [|discriminate]. intros E. inversion E; subst. assumption.
Qed.

Lemma resolve_in_seq g n c : resolve g n = Some c -> In c (seq 0 (length (g_classes g))).
Proof. intros H. apply in_seq. pose proof (resolve_lt g n c H). lia. Qed.

Lemma supers_len g c d : cls g c = Some d -> length (supers g c) <= length (c_supers d).
Proof.
  unfold supers. intros ->. rewrite map_length. induction (c_supers d) as [|[n b] t IH]; cbn; [lia|].
  destruct b; cbn; lia.
Qed.

Lemma wt_bound g : forall (l : list cdata) (start : nat),
  (forall i d, nth_error l i = Some d -> cls g (start + i) = Some d) ->
  wt (supers g) (seq start (length l)) [] <= fold_right (fun d acc => 3 + length (c_supers d) + acc) 0 l.
Proof.
  induction l as [|d t IH]; intros start H; cbn [length seq wt fold_right existsb]; [lia|].
  assert (C : cls g start = Some d) by (pose proof (H 0 d eq_refl) as C; rewrite Nat.add_0_r in C; exact C).
  pose proof (supers_len g start d C) as L.
  specialize (IH (S start)). assert (IH' : wt (supers g) (seq (S start) (length t)) [] <= fold_right (fun d acc => 3 + length (c_supers d) + acc) 0 t).
  { apply IH. intros i d' Hn. replace (S start + i) with (start + S i) by lia. apply H. exact Hn. }
  lia.
Qed.

Lemma max_bound (l : list cdata) d : In d l -> length (c_supers d) <= fold_right (fun d acc => Nat.max (length (c_supers d)) acc) 0 l.
Proof. induction l as [|x t IH]; intros []; cbn [fold_right]; [subst; lia|specialize (IH H); lia]. Qed.

Lemma mu_start_bound g c : mu (supers g) (seq 0 (length (g_classes g))) [supers g c] [] < fuel_bound g.
Proof.
  unfold mu, fuel_bound. cbn [psum].
  pose proof (wt_bound g (g_classes g) 0 (fun i d H => H)) as W.
  assert (L : length (supers g c) <= fold_right (fun d acc => Nat.max (length (c_supers d)) acc) 0 (g_classes g)).
  { destruct (cls g c) as [d|] eqn:E.
    - etransitivity; [apply (supers_len g c d E)|]. apply max_bound. eapply nth_error_In. exact E.
    - unfold supers. rewrite E. cbn. lia. }
  lia.
Qed.

Theorem bfs_total g A (f : nat -> fm A) c : (forall x, f x <> FFuel) ->
  bfs_find (resolve g) (supers g) f (fuel_bound g) [supers g c] [] <> FFuel.
Proof.
  intros Hf. eapply walk_terminates with (universe := seq 0 (length (g_classes g))).
  - apply resolve_in_seq.
  - exact Hf.
  - apply mu_start_bound.
Qed.

Theorem find_total g A (f : nat -> fm A) c : (forall x, f x <> FFuel) ->
  find_self_and_bases (resolve g) (supers g) f (fuel_bound g) c <> FFuel.
Proof.
  intros Hf. unfold find_self_and_bases. pose proof (Hf c) as Hc.
  destruct (f c); try discriminate; [apply bfs_total, Hf|congruence].
Qed.

(* ---- derives ---- *)
Theorem derives_total g c b : derives_pedantic g c b <> FFuel.
Proof.
  unfold derives_pedantic. destruct (Nat.eqb c b); [discriminate|]. apply bfs_total.
  intros x. destruct (Nat.eqb x b); discriminate.
Qed.

Lemma from_supers_reach g c d : from_names (resolve g) (supers g) (supers g c) d -> greach g c d.
Proof.
  intros [n [y [Hn [R Hr]]]]. eapply rt_trans; [apply rt_step; exists n; split; eauto|exact Hr].
Qed.

Theorem derives_sound g c b : derives_pedantic g c b = FSome tt -> greach g c b.
Proof.
  unfold derives_pedantic. destruct (Nat.eqb_spec c b) as [->|Hne]; [intros _; apply rt_refl|].
  intros H. apply walk_sound in H. destruct H as [it [d [[<-|[]] [Hf Hd]]]].
  destruct (Nat.eqb_spec d b) as [->|]; [|discriminate]. apply from_supers_reach, Hf.
Qed.

Lemma reach_cases g c b : greach g c b -> c = b \/ from_names (resolve g) (supers g) (supers g c) b.
Proof.
  intros H. apply clos_rt_rt1n in H. destruct H as [|y z [n [Hn R]] Hr]; [now left|].
  right. exists n, y. split; [exact Hn|]. split; [exact R|]. apply clos_rt1n_rt, Hr.
Qed.

Theorem derives_none_complete g c b : derives_pedantic g c b = FNone -> ~ greach g c b.
Proof.
  unfold derives_pedantic. destruct (Nat.eqb_spec c b) as [->|Hne]; [discriminate|].
  intros H Hr. destruct (reach_cases g c b Hr) as [E|Hf]; [contradiction|].
  pose proof (walk_none_complete _ _ _ _ _ _ H (supers g c) b (or_introl eq_refl) Hf) as X.
  cbn in X. rewrite Nat.eqb_refl in X. discriminate.
Qed.

Theorem derives_err_dangling g c b : derives_pedantic g c b = FErr -> has_dangling g c.
Proof.
  unfold derives_pedantic. destruct (Nat.eqb c b); [discriminate|].
  intros H. apply walk_err in H. destruct H as [it [[<-|[]] [[x [_ Hx]]|D]]].
  - destruct (Nat.eqb x b); discriminate.
  - destruct D as [[n [Hn R]]|[d [m [Hf [Hm R]]]]].
    + exists c, n. split; [apply rt_refl|auto].
    + exists d, m. split; [apply from_supers_reach, Hf|auto].
Qed.

(* 'derives from' holds exactly for reflexive-transitive public inheritance -- whenever no class reachable from c
   lists an unresolvable super-class name *)
Theorem derives_exact g c b : ~ has_dangling g c ->
  (is_derived_from g c b = FSome true <-> greach g c b) /\ (is_derived_from g c b = FSome false <-> ~ greach g c b).
Proof.
  intros ND. unfold is_derived_from.
  destruct (derives_pedantic g c b) as [| |[]|] eqn:D.
  - pose proof (derives_none_complete g c b D) as N. split; split; intros H; try discriminate; try reflexivity; try contradiction; exact N.
  - exfalso. apply ND. eapply derives_err_dangling; eauto.
  - pose proof (derives_sound g c b D) as S. split; split; intros H; try discriminate; try reflexivity; try contradiction; auto.
  - exfalso. eapply derives_total; eauto.
Qed.

(* answers "true" are always right, also on graphs with dangling names *)
Theorem derives_true_sound g c b : is_derived_from g c b = FSome true -> greach g c b.
Proof.
  unfold is_derived_from. destruct (derives_pedantic g c b) as [| |[]|] eqn:D; try discriminate. intros _. apply derives_sound, D.
Qed.

(* ---- lookups through find_map_self_and_base_classes ---- *)
Theorem find_sound g A (f : nat -> fm A) c a :
  find_self_and_bases (resolve g) (supers g) f (fuel_bound g) c = FSome a -> exists d, greach g c d /\ f d = FSome a.
Proof.
  unfold find_self_and_bases. destruct (f c) as [| |a'|] eqn:Fc; try discriminate.
  - intros H. apply walk_sound in H. destruct H as [it [d [[<-|[]] [Hf Hd]]]]. exists d. split; [apply from_supers_reach, Hf|exact Hd].
  - intros E. inversion E; subst. exists c. split; [apply rt_refl|exact Fc].
Qed.

Theorem find_own_first g A (f : nat -> fm A) c a : f c = FSome a ->
  find_self_and_bases (resolve g) (supers g) f (fuel_bound g) c = FSome a.
Proof. unfold find_self_and_bases. intros ->. reflexivity. Qed.

Theorem find_none_complete g A (f : nat -> fm A) c :
  find_self_and_bases (resolve g) (supers g) f (fuel_bound g) c = FNone -> forall d, greach g c d -> f d = FNone.
Proof.
  unfold find_self_and_bases. destruct (f c) as [| |a'|] eqn:Fc; try discriminate.
  intros H d Hr. destruct (reach_cases g c d Hr) as [<-|Hf]; [exact Fc|].
  eapply walk_none_complete; [exact H|now left|exact Hf].
Qed.

Theorem find_err g A (f : nat -> fm A) c :
  find_self_and_bases (resolve g) (supers g) f (fuel_bound g) c = FErr -> (exists x, greach g c x /\ f x = FErr) \/ has_dangling g c.
Proof.
  unfold find_self_and_bases. destruct (f c) as [| |a'|] eqn:Fc; try discriminate.
  - intros H. apply walk_err in H. destruct H as [it [[<-|[]] [[x [Hf Hx]]|D]]].
    + left. exists x. split; [apply from_supers_reach, Hf|exact Hx].
    + right. destruct D as [[n [Hn R]]|[d [m [Hf [Hm R]]]]].
      * exists c, n. split; [apply rt_refl|auto].
      * exists d, m. split; [apply from_supers_reach, Hf|auto].
  - intros _. left. exists c. split; [apply rt_refl|exact Fc].
Qed.

Lemma has_dangling_reach g c d : greach g c d -> has_dangling g d -> has_dangling g c.
Proof. intros Hr [x [m [Hx P]]]. exists x, m. split; [eapply rt_trans; eauto|exact P]. Qed.

(* found exactly when the class or one of its public ancestors declares it
   (no class reachable from c lists an unresolvable super-class name; f may only fail for that reason) *)
Theorem find_exact g A (f : nat -> fm A) c : ~ has_dangling g c ->
  (forall x, f x = FErr -> has_dangling g x) -> (forall x, f x <> FFuel) ->
  (find_self_and_bases (resolve g) (supers g) f (fuel_bound g) c = FNone <-> forall d, greach g c d -> f d = FNone).
Proof.
  intros ND NE NF. split; [apply find_none_complete|].
  intros H. destruct (find_self_and_bases (resolve g) (supers g) f (fuel_bound g) c) as [| |a|] eqn:E; [reflexivity| | |].
  - exfalso. destruct (find_err g A f c E) as [[x [Hr Hx]]|D]; [|auto]. apply ND. eapply has_dangling_reach; eauto.
  - destruct (find_sound g A f c a E) as [d [Hr Hd]]. rewrite (H d Hr) in Hd. discriminate.
  - exfalso. eapply find_total; eauto.
Qed.

Lemma type_probe_total g c : type_probe g c <> FFuel.
Proof. unfold type_probe. apply find_total. discriminate. Qed.
Lemma type_probe_err g c : type_probe g c = FErr -> has_dangling g c.
Proof. unfold type_probe. intros H. apply find_err in H. destruct H as [[x [_ Hx]]|D]; [discriminate|exact D]. Qed.
Lemma with_probe_total g A c (a : A) : with_probe g c a <> FFuel.
Proof. unfold with_probe. pose proof (type_probe_total g c). destruct (type_probe g c); congruence. Qed.
Lemma with_probe_err g A c (a : A) : with_probe g c a = FErr -> has_dangling g c.
Proof. unfold with_probe. destruct (type_probe g c) eqn:E; try discriminate. intros _. apply type_probe_err, E. Qed.
Lemma with_probe_some g A c (a b : A) : with_probe g c a = FSome b -> a = b.
Proof. unfold with_probe. destruct (type_probe g c); try discriminate; intros E; inversion E; reflexivity. Qed.

Lemma declares_prop_total g p x : declares_prop g p x <> FFuel.
Proof. unfold declares_prop. destruct (cls g x); [destruct (existsb _ _); [apply with_probe_total|]|]; discriminate. Qed.
Lemma declares_prop_err g p x : declares_prop g p x = FErr -> has_dangling g x.
Proof. unfold declares_prop. destruct (cls g x); [destruct (existsb _ _); [apply with_probe_err|]|]; discriminate. Qed.
Lemma declares_method_total g n x : declares_method g n x <> FFuel.
Proof. unfold declares_method. destruct (cls g x); [destruct (table_lookup _ _); [|apply with_probe_total]|]; discriminate. Qed.
Lemma declares_method_err g n x : declares_method g n x = FErr -> has_dangling g x.
Proof. unfold declares_method. destruct (cls g x); [destruct (table_lookup _ _); [|apply with_probe_err]|]; discriminate. Qed.

(* the property statement, for properties: found exactly when the class or a public ancestor declares it; own first *)
Theorem get_property_exact g c p : ~ has_dangling g c ->
  (get_property g c p = FNone <-> forall d cd, greach g c d -> cls g d = Some cd -> ~ In p (c_props cd)) /\
  (forall d, get_property g c p = FSome d -> greach g c d /\ exists cd, cls g d = Some cd /\ In p (c_props cd)) /\
  (forall cd, cls g c = Some cd -> In p (c_props cd) -> get_property g c p = FSome c) /\
  get_property g c p <> FErr /\ get_property g c p <> FFuel.
Proof.
  intros ND. unfold get_property.
  assert (In_ex : forall l, existsb (Nat.eqb p) l = true <-> In p l).
  { intros l. rewrite existsb_exists. split; [intros [x [Hx E]]; apply Nat.eqb_eq in E; subst; exact Hx|intros H; exists p; split; [exact H|apply Nat.eqb_refl]]. }
  assert (NDr : forall d, greach g c d -> ~ has_dangling g d) by (intros d Hr D; apply ND; eapply has_dangling_reach; eauto).
  assert (Decl : forall d, greach g c d -> (declares_prop g p d = FNone <-> forall cd, cls g d = Some cd -> ~ In p (c_props cd))).
  { intros d Hr. unfold declares_prop. destruct (cls g d) as [cd|]; [|split; [intros _ cd' E; discriminate|reflexivity]].
    destruct (existsb (Nat.eqb p) (c_props cd)) eqn:E.
    - split; [|intros H; exfalso; apply (H cd eq_refl), In_ex, E].
      intros W. exfalso. unfold with_probe in W. destruct (type_probe g d) eqn:T; discriminate.
    - split; [intros _ cd' E' Hin; inversion E'; subst; apply In_ex in Hin; congruence|reflexivity]. }
  split; [|split; [|split; [|split]]].
  - rewrite find_exact; [|exact ND|apply declares_prop_err|apply declares_prop_total].
    split.
    + intros H d cd Hr Hc. apply (proj1 (Decl d Hr) (H d Hr) cd Hc).
    + intros H d Hr. apply (Decl d Hr). intros cd Hc. apply (H d cd Hr Hc).
  - intros d H. apply find_sound in H. destruct H as [d' [Hr Hd]]. unfold declares_prop in Hd.
    destruct (cls g d') as [cd|] eqn:C; [|discriminate]. destruct (existsb (Nat.eqb p) (c_props cd)) eqn:E; [|discriminate].
    apply with_probe_some in Hd. subst d'. split; [exact Hr|]. exists cd. split; [exact C|apply In_ex, E].
  - intros cd Hc Hin. apply find_own_first. unfold declares_prop. rewrite Hc. apply In_ex in Hin. rewrite Hin.
    unfold with_probe. destruct (type_probe g c) eqn:T; try reflexivity.
    + exfalso. apply ND, type_probe_err, T.
    + exfalso. eapply type_probe_total; eauto.
  - intros E. apply find_err in E. destruct E as [[x [Hr Hx]]|D]; [|auto]. apply (NDr x Hr), declares_prop_err with (p := p), Hx.
  - apply find_total, declares_prop_total.
Qed.

(* ---- common base ---- *)
Theorem common_base_sound g a b x : common_base_class g a b = FSome x -> greach g a x /\ greach g b x.
Proof.
  unfold common_base_class. intros H. apply find_sound in H. destruct H as [d [Hr Hd]].
  destruct (derives_pedantic g b d) as [| |[]|] eqn:D; try discriminate. inversion Hd; subst.
  split; [exact Hr|apply derives_sound, D].
Qed.

Theorem common_base_total g a b : common_base_class g a b <> FFuel.
Proof.
  unfold common_base_class. apply find_total. intros x. pose proof (derives_total g b x).
  destruct (derives_pedantic g b x); congruence.
Qed.

Theorem common_base_none_complete g a b : common_base_class g a b = FNone -> forall x, greach g a x -> ~ greach g b x.
Proof.
  unfold common_base_class. intros H x Ha Hb. pose proof (find_none_complete _ _ _ _ H x Ha) as X. cbn in X.
  destruct (derives_pedantic g b x) as [| |[]|] eqn:D; try discriminate. exact (derives_none_complete g b x D Hb).
Qed.

(* ---- enum variants ---- *)
Lemma last_enum_with_variant_spec v es : forall acc e,
  last_enum_with_variant v es acc = Some e ->
  (In e es /\ e_scoped e = false /\ In v (e_variants e)) \/ acc = Some e.
Proof.
  induction es as [|x r IH]; intros acc e H; cbn [last_enum_with_variant] in H; [now right|].
  destruct (IH _ _ H) as [[Hin P]|E]; [left; split; [now right|exact P]|].
  destruct (negb (e_scoped x) && existsb (Nat.eqb v) (e_variants x)) eqn:C; [|now right].
  inversion E; subst x. left. apply andb_prop in C. destruct C as [C1 C2].
  split; [now left|]. split; [destruct (e_scoped e); [discriminate|reflexivity]|].
  apply existsb_exists in C2. destruct C2 as [y [Hy Ey]]. apply Nat.eqb_eq in Ey. subst. exact Hy.
Qed.

Theorem variant_sound g c v d en : get_enum_by_variant g c v = FSome (d, en) ->
  greach g c d /\ exists cd e, cls g d = Some cd /\ In e (c_enums cd) /\ e_name e = en /\ e_scoped e = false /\ In v (e_variants e).
Proof.
  unfold get_enum_by_variant. intros H. apply find_sound in H. destruct H as [d' [Hr Hd]].
  unfold declares_variant in Hd. destruct (cls g d') as [cd|] eqn:C; [|discriminate].
  destruct (last_enum_with_variant v (c_enums cd) None) as [e|] eqn:L; [|discriminate].
  inversion Hd; subst. split; [exact Hr|]. exists cd, e.
  destruct (last_enum_with_variant_spec _ _ _ _ L) as [[Hin [Hs Hv]]|]; [|discriminate]. auto.
Qed.

(* ---- method table: binary search on the name-sorted table = filter by name on the declaration-ordered list ---- *)
Fixpoint sorted_by_name (l : list mdata) : Prop :=
  match l with
  | [] => True
  | x :: r => (forall y, In y r -> m_name x <= m_name y) /\ sorted_by_name r
  end.

Lemma insert_sorted_in m l y : In y (insert_sorted m l) <-> y = m \/ In y l.
Proof.
  induction l as [|x r IH]; cbn [insert_sorted]; [cbn; intuition|].
  destruct (m_name m <=? m_name x); cbn [In]; [intuition|]. rewrite IH. intuition.
Qed.

Lemma insert_sorted_sorted m l : sorted_by_name l -> sorted_by_name (insert_sorted m l).
Proof.
  induction l as [|x r IH]; intros H; cbn [insert_sorted]; [cbn; intuition|].
  destruct H as [Hx Hr]. destruct (Nat.leb_spec (m_name m) (m_name x)).
  - cbn [sorted_by_name]. split; [|split; assumption].
    intros y [<-|Hy]; [lia|specialize (Hx y Hy); lia].
  - cbn [sorted_by_name]. split; [|apply IH, Hr].
    intros y Hy. apply insert_sorted_in in Hy. destruct Hy as [->|Hy]; [lia|apply Hx, Hy].
Qed.

Lemma sort_methods_sorted l : sorted_by_name (sort_methods l).
Proof. induction l as [|x r IH]; cbn; [auto|apply insert_sorted_sorted, IH]. Qed.

Definition by_name (n : nat) (l : list mdata) := filter (fun m => Nat.eqb (m_name m) n) l.

(* stability: an inserted element goes BEFORE the elements of equal name that were declared after it *)
Lemma insert_sorted_filter n m l :
  by_name n (insert_sorted m l) = if Nat.eqb (m_name m) n then m :: by_name n l else by_name n l.
Proof.
  unfold by_name. induction l as [|x r IH]; cbn [insert_sorted filter]; [reflexivity|].
  destruct (Nat.leb_spec (m_name m) (m_name x)).
  - cbn [filter]. reflexivity.
  - cbn [filter]. rewrite IH. destruct (Nat.eqb_spec (m_name m) n) as [Em|Em]; [|reflexivity].
    destruct (Nat.eqb_spec (m_name x) n) as [Ex|Ex]; [lia|reflexivity].
Qed.

Lemma sort_methods_filter n l : by_name n (sort_methods l) = by_name n l.
Proof.
  induction l as [|x r IH]; [reflexivity|]. cbn [sort_methods fold_right].
  change (fold_right insert_sorted [] r) with (sort_methods r). rewrite insert_sorted_filter, IH. reflexivity.
Qed.

Lemma by_name_above n l : (forall y, In y l -> n < m_name y) -> by_name n l = [].
Proof.
  unfold by_name. induction l as [|x r IH]; intros H; cbn [filter]; [reflexivity|].
  destruct (Nat.eqb_spec (m_name x) n) as [E|E]; [specialize (H x (or_introl eq_refl)); lia|].
  apply IH. intros y Hy. apply H. now right.
Qed.

Lemma take_while_sorted n l : sorted_by_name l -> (forall y, In y l -> n <= m_name y) ->
  take_while_name n l = by_name n l.
Proof.
  unfold by_name. induction l as [|x r IH]; intros Hs Hge; cbn [take_while_name filter]; [reflexivity|].
  destruct Hs as [Hx Hr]. destruct (Nat.eqb_spec (m_name x) n) as [E|E].
  - f_equal. apply IH; [exact Hr|]. intros y Hy. apply Hge. now right.
  - symmetry. apply by_name_above. intros y Hy. specialize (Hx y Hy). specialize (Hge x (or_introl eq_refl)). lia.
Qed.

Lemma table_lookup_sorted n l : sorted_by_name l -> table_lookup n l = by_name n l.
Proof.
  unfold table_lookup. induction l as [|x r IH]; intros Hs; [reflexivity|].
  cbn [partition_point]. pose proof Hs as [Hx Hr]. destruct (Nat.ltb_spec (m_name x) n).
  - cbn [skipn]. rewrite (IH Hr). unfold by_name. cbn [filter].
    destruct (Nat.eqb_spec (m_name x) n); [lia|reflexivity].
  - cbn [skipn]. apply take_while_sorted; [exact Hs|].
    intros y [<-|Hy]; [lia|specialize (Hx y Hy); lia].
Qed.

(* the overloads returned for a name are exactly the public methods of that name, in declaration order
   (signals, then slots, then methods) *)
Theorem method_lookup_spec n d :
  table_lookup n (method_table d) =
  by_name n (filter m_public (map (set_kind KSignal) (c_signals d) ++ map (set_kind KSlot) (c_slots d) ++ map (set_kind KMethod) (c_methods d))).
Proof.
  unfold method_table. rewrite table_lookup_sorted by apply sort_methods_sorted. apply sort_methods_filter.
Qed.

(* F13: completeness of 'derives from' is refuted on a graph with a dangling name listed before a valid base *)
Definition f13_graph : graph :=
  mk_graph [(0, {| c_supers := [(9, true); (1, true)]; c_props := []; c_signals := []; c_slots := []; c_methods := []; c_enums := [] |});
            (1, {| c_supers := []; c_props := [7]; c_signals := []; c_slots := []; c_methods := []; c_enums := [] |})] [] [].
Theorem derives_complete_refuted : greach f13_graph 0 1 /\ is_derived_from f13_graph 0 1 = FSome false /\ has_dangling f13_graph 0.
Proof.
  split; [|split].
  - apply rt_step. exists 1. split; [cbn; auto|reflexivity].
  - vm_compute. reflexivity.
  - exists 0, 9. split; [apply rt_refl|]. split; [cbn; auto|reflexivity].
Qed.
(* with the order of the two names swapped the same question is answered 'true' *)
Example f13_swapped :
  is_derived_from (mk_graph [(0, {| c_supers := [(1, true); (9, true)]; c_props := []; c_signals := []; c_slots := []; c_methods := []; c_enums := [] |});
            (1, {| c_supers := []; c_props := []; c_signals := []; c_slots := []; c_methods := []; c_enums := [] |})] [] []) 0 1 = FSome true.
Proof. vm_compute. reflexivity. Qed.
(* cycles and self-inheritance terminate and are answered *)
Example cyclic_graph_answers :
  let mk s := {| c_supers := map (fun n => (n, true)) s; c_props := []; c_signals := []; c_slots := []; c_methods := []; c_enums := [] |} in
  let g := mk_graph [(0, mk [1]); (1, mk [0; 2; 1]); (2, mk [2]); (3, mk [])] [] [] in
  is_derived_from g 0 2 = FSome true /\ is_derived_from g 2 0 = FSome false /\ is_derived_from g 0 3 = FSome false
  /\ common_base_class g 0 1 = FSome 0.
Proof. vm_compute. repeat split. Qed.

(* ReturnType.v -- C06 third clause at the level of return statements: when a body is given a return type (resolve_return_type, tir/core.rs), EVERY return
   of the body carries a value assignable to that type -- so a value-returning body has no bare `return`, and a void body returns no value. *)
From QV Require Import model.Base model.Lang model.Types model.Tir model.Builder model.Passes spec.Typing proofs.TypingProofs.
From Coq Require Import Arith Lia Bool.
Open Scope list_scope.

Notation td := operand_tdesc.
Definition is_lit (d : tdesc) : bool := match d with DConcrete _ => false | _ => true end.

(* what the running common type says about the operands seen so far *)
Lemma Some_inj {A} (x y : A) : Some x = Some y -> x = y. Proof. intros H. inversion H. reflexivity. Qed.
Definition fits (E : cenv) (acc : tdesc) (a : operand) : Prop :=
  match acc with DConcrete t => spec_assignable E t (td a) = true | _ => td a = acc end.

Lemma common_step E acc x acc' a : common E acc x = Some acc' -> fits E acc a -> fits E acc' a.
Proof.
  unfold common. destruct (tdesc_eqb acc x) eqn:Eq; [intros H; inversion H; subst; auto|].
  destruct acc as [| | | |ta]; destruct x as [| | | |tb]; try discriminate; cbn [lit_below fits].
  - destruct tb as [[c|e|p]|n|u]; try discriminate; destruct p; try discriminate; intros H Ha; inversion H; subst; cbn [fits]; rewrite Ha; reflexivity.
  - destruct tb as [[c|e|p]|n|u]; try discriminate; destruct p; try discriminate; intros H Ha; inversion H; subst; cbn [fits]; rewrite Ha; reflexivity.
  - destruct tb as [[c|e|p]|n|u]; try discriminate; intros H Ha; inversion H; subst; cbn [fits]; rewrite Ha; reflexivity.
  - destruct tb as [[c|e|p]|n|u]; try discriminate; intros H Ha; inversion H; subst; cbn [fits]; rewrite Ha; reflexivity.
  - destruct ta as [[c|e|p]|n|u]; try discriminate; destruct p; try discriminate; intros H Ha; inversion H; subst; exact Ha.
  - destruct ta as [[c|e|p]|n|u]; try discriminate; destruct p; try discriminate; intros H Ha; inversion H; subst; exact Ha.
  - destruct ta as [[c|e|p]|n|u]; try discriminate; intros H Ha; inversion H; subst; exact Ha.
  - destruct ta as [[c|e|p]|n|u]; try discriminate; intros H Ha; inversion H; subst; exact Ha.
  - destruct ta as [[c|e|p]|n|u]; try discriminate. destruct tb as [[c'|e'|p']|n'|u']; try discriminate.
    destruct (is_compatible_enum E e e'); [|discriminate]. intros H Ha; inversion H; subst; exact Ha.
Qed.

Lemma common_new E acc x acc' a : common E acc x = Some acc' -> td a = x -> fits E acc' a.
Proof.
  unfold common. destruct (tdesc_eqb acc x) eqn:Eq.
  - apply tdesc_eqb_eq in Eq. subst x. intros H Ha. apply Some_inj in H. subst acc'. unfold fits. destruct acc as [| | | |t]; try exact Ha. rewrite Ha. cbn. rewrite tkind_eqb_refl. reflexivity.
  - destruct acc as [| | | |ta]; destruct x as [| | | |tb]; try discriminate; cbn [lit_below].
    + destruct tb as [[c|e|p]|n|u]; try discriminate; destruct p; try discriminate; intros H Ha; inversion H; subst; cbn [fits]; rewrite Ha; cbn; rewrite ?tkind_eqb_refl; reflexivity.
    + destruct tb as [[c|e|p]|n|u]; try discriminate; destruct p; try discriminate; intros H Ha; inversion H; subst; cbn [fits]; rewrite Ha; cbn; rewrite ?tkind_eqb_refl; reflexivity.
    + destruct tb as [[c|e|p]|n|u]; try discriminate; intros H Ha; inversion H; subst; cbn [fits]; rewrite Ha; cbn [spec_assignable]; rewrite tkind_eqb_refl; reflexivity.
    + destruct tb as [[c|e|p]|n|u]; try discriminate; intros H Ha; inversion H; subst; cbn [fits]; rewrite Ha; cbn [spec_assignable]; rewrite tkind_eqb_refl; reflexivity.
    + destruct ta as [[c|e|p]|n|u]; try discriminate; destruct p; try discriminate; intros H Ha; inversion H; subst; cbn [fits]; rewrite Ha; reflexivity.
    + destruct ta as [[c|e|p]|n|u]; try discriminate; destruct p; try discriminate; intros H Ha; inversion H; subst; cbn [fits]; rewrite Ha; reflexivity.
    + destruct ta as [[c|e|p]|n|u]; try discriminate; intros H Ha; inversion H; subst; cbn [fits]; rewrite Ha; reflexivity.
    + destruct ta as [[c|e|p]|n|u]; try discriminate; intros H Ha; inversion H; subst; cbn [fits]; rewrite Ha; reflexivity.
    + destruct ta as [[c|e|p]|n|u]; try discriminate. destruct tb as [[c'|e'|p']|n'|u']; try discriminate.
      destruct (is_compatible_enum E e e') eqn:Ec; [|discriminate]. intros H Ha; inversion H; subst. cbn [fits]. rewrite Ha. cbn [spec_assignable]. rewrite Ec. apply orb_true_r.
Qed.

Lemma deduce_all_fits E : forall rest known d seen, deduce_all E known rest = Some d -> Forall (fits E known) seen -> Forall (fits E d) (seen ++ rest).
Proof.
  induction rest as [|a r IH]; intros known d seen H Hs; cbn [deduce_all] in H.
  - inversion H; subst. rewrite app_nil_r. exact Hs.
  - pose proof (deduce_type_common E known (td a)) as Hc. destruct (deduce_type E known (td a)) as [t|e]; [|discriminate H].
    replace (seen ++ a :: r) with ((seen ++ [a]) ++ r) by (rewrite <- app_assoc; reflexivity).
    eapply IH; [exact H|]. apply Forall_app. split.
    + eapply Forall_impl; [|exact Hs]. intros x Hx. eapply common_step; eauto.
    + constructor; [|constructor]. eapply common_new; eauto.
Qed.

Theorem return_type_sound E c d t : resolve_return_type E c = Some d -> concrete d = Some t ->
  Forall (fun a => spec_assignable E t (td a) = true) (return_operands c).
Proof.
  unfold resolve_return_type. destruct (return_operands c) as [|first rest] eqn:Er; [constructor|].
  intros H Hc.
  assert (Hf : Forall (fits E d) ([first] ++ rest)).
  { eapply deduce_all_fits; [exact H|]. constructor; [|constructor]. unfold fits. destruct (td first) as [| | | |k] eqn:Ek; try reflexivity. cbn. rewrite tkind_eqb_refl. reflexivity. }
  cbn [app] in Hf. eapply Forall_impl; [|exact Hf]. intros a Ha. unfold fits in Ha.
  destruct d as [| | | |k]; cbn [concrete] in Hc; try discriminate; inversion Hc; subst.
  - rewrite Ha. reflexivity.
  - rewrite Ha. reflexivity.
  - exact Ha.
Qed.

(* consequences in the words of the property *)
Corollary value_body_has_no_bare_return E c d t : resolve_return_type E c = Some d -> concrete d = Some t -> t <> T_VOID ->
  forall b, In b (c_blocks c) -> b_term b <> Some (TmReturn OVoid).
Proof.
  intros H Hc Hv b Hb Ht. pose proof (return_type_sound E c d t H Hc) as Hs. rewrite Forall_forall in Hs.
  assert (Hin : In OVoid (return_operands c)).
  { unfold return_operands. apply in_flat_map. exists b. split; [exact Hb|]. rewrite Ht. left. reflexivity. }
  specialize (Hs _ Hin). cbn [operand_tdesc spec_assignable] in Hs. apply orb_prop in Hs. destruct Hs as [Hs|Hs].
  - apply tkind_eqb_eq in Hs. exact (Hv Hs).
  - unfold T_VOID in Hs. destruct t as [[c0|e0|p0]|[c1|e1|p1]|u0]; cbn in Hs; try discriminate Hs.
Qed.
Corollary void_body_returns_no_value E c a : resolve_return_type E c = Some (DConcrete T_VOID) ->
  forall b, In b (c_blocks c) -> b_term b = Some (TmReturn a) -> td a = DConcrete T_VOID.
Proof.
  intros H b Hb Ht. pose proof (return_type_sound E c _ T_VOID H eq_refl) as Hs. rewrite Forall_forall in Hs.
  assert (Hin : In a (return_operands c)).
  { unfold return_operands. apply in_flat_map. exists b. split; [exact Hb|]. rewrite Ht. left. reflexivity. }
  specialize (Hs _ Hin). destruct (td a) as [| | | |k] eqn:Ek; try discriminate Hs. cbn [spec_assignable] in Hs. apply orb_prop in Hs. destruct Hs as [Hs|Hs].
  - apply tkind_eqb_eq in Hs. subst. reflexivity.
  - discriminate Hs.
Qed.

(* ColorProofs.v -- theorems about model/Color.v (C19). *)
From Coq Require Import Lia ZifyBool ZifyN.
From QV Require Import model.Base gen.GenColorTable spec.SvgColors model.Color spec.ColorSpec.
Ltac Zify.zify_post_hook ::= Z.div_mod_to_equations.
Open Scope N_scope.
Arguments N.add : simpl never.
Arguments N.mul : simpl never.
Arguments N.sub : simpl never.
Arguments N.ltb : simpl never.
Arguments N.leb : simpl never.
Arguments N.shiftr : simpl never.
Arguments N.land : simpl never.
Arguments N.pow : simpl never.

(* ---------- digits ---------- *)
Lemma spec_digit_hex c : is_ascii_hexdigit c = true -> spec_digit c = Some (hexval c) /\ hexval c < 16.
Proof.
  unfold is_ascii_hexdigit, spec_digit, hexval. intros H.
  destruct ((48 <=? N_of_ascii c) && (N_of_ascii c <=? 57)) eqn:E1.
  - split; [reflexivity|lia].
  - destruct ((65 <=? N_of_ascii c) && (N_of_ascii c <=? 70)) eqn:E2.
    + split; [f_equal; lia|lia].
    + destruct ((97 <=? N_of_ascii c) && (N_of_ascii c <=? 102)) eqn:E3.
      * split; [f_equal; lia|lia].
      * cbn in H. discriminate.
Qed.

Lemma spec_digit_nonhex c : is_ascii_hexdigit c = false -> spec_digit c = None.
Proof.
  unfold is_ascii_hexdigit, spec_digit. intros H.
  destruct ((48 <=? N_of_ascii c) && (N_of_ascii c <=? 57)) eqn:E1; [discriminate|].
  destruct ((65 <=? N_of_ascii c) && (N_of_ascii c <=? 70)) eqn:E2; [discriminate|].
  destruct ((97 <=? N_of_ascii c) && (N_of_ascii c <=? 102)) eqn:E3; [discriminate|reflexivity].
Qed.

Fixpoint hexvals (s : string) : list N :=
  match s with EmptyString => [] | String c r => hexval c :: hexvals r end.

Lemma spec_digits_hex s : all_hex s = true -> spec_digits s = Some (hexvals s) /\ Forall (fun d => d < 16) (hexvals s).
Proof.
  induction s as [|c r IH]; cbn [all_hex spec_digits hexvals]; intros H.
  - split; [reflexivity|constructor].
  - apply andb_prop in H. destruct H as [Hc Hr].
    destruct (spec_digit_hex c Hc) as [E B]. destruct (IH Hr) as [E' B'].
    rewrite E, E'. split; [reflexivity|constructor; assumption].
Qed.

Lemma spec_digits_nonhex s : all_hex s = false -> spec_digits s = None.
Proof.
  induction s as [|c r IH]; cbn [all_hex spec_digits]; intros H; [discriminate|].
  apply andb_false_iff in H. destruct H as [H|H].
  - rewrite (spec_digit_nonhex c H). reflexivity.
  - rewrite (IH H). destruct (spec_digit c); reflexivity.
Qed.

Lemma hexvals_length s : List.length (hexvals s) = String.length s.
Proof. induction s as [|c r IH]; cbn; [reflexivity|now rewrite IH]. Qed.

(* ---------- from_str_radix: no overflow up to 8 digits ---------- *)
Definition value_from (ds : list N) (acc : N) : N := fold_left (fun a d => a * 16 + d) ds acc.

Lemma go_spec s : forall acc,
  Forall (fun d => d < 16) (hexvals s) ->
  (acc + 1) * 16 ^ (N.of_nat (String.length s)) <= 4294967296 ->
  from_str_radix16_go s acc = Some (value_from (hexvals s) acc).
Proof.
  induction s as [|c r IH]; intros acc HF Hb.
  - reflexivity.
  - cbn [from_str_radix16_go hexvals value_from fold_left String.length] in *.
    inversion HF as [|? ? Hd HF']; subst.
    rewrite Nat2N.inj_succ, N.pow_succ_r' in Hb.
    assert (Hp : 1 <= 16 ^ N.of_nat (String.length r)) by (pose proof (N.pow_nonzero 16 (N.of_nat (String.length r))); lia).
    assert (Hstep : (acc * 16 + hexval c + 1) * 16 ^ N.of_nat (String.length r) <= 4294967296).
    { eapply N.le_trans; [|exact Hb].
      replace ((acc + 1) * (16 * 16 ^ N.of_nat (String.length r))) with (((acc + 1) * 16) * 16 ^ N.of_nat (String.length r)) by ring.
      apply N.mul_le_mono_r. lia. }
    assert (Hlt : acc * 16 + hexval c <? 4294967296 = true).
    { apply N.ltb_lt. nia. }
    rewrite Hlt. apply IH; assumption.
Qed.

(* ---------- C19_hex ---------- *)
Lemma land15 a : N.land a 15 = a mod 16.
Proof. change 15 with (N.ones 4). rewrite N.land_ones. reflexivity. Qed.
Lemma land255 a : N.land a 255 = a mod 256.
Proof. change 255 with (N.ones 8). rewrite N.land_ones. reflexivity. Qed.

Definition parse_hex_result (hex : string) : option (N * N * N * N) :=
  match parse_hex_color hex with Some c => Some (color_gadget c) | None => None end.

Ltac inv_forall :=
  repeat match goal with H : Forall _ (_ :: _) |- _ => inversion H; subst; clear H end.

Ltac abstract_digits :=
  repeat match goal with |- context[hexval ?c] => let d := fresh "d" in set (d := hexval c) in *; clearbody d end.

Lemma parse_hex_digits s : all_hex s = true -> parse_hex_result s = qt_hex (hexvals s).
Proof.
  intros H. destruct (spec_digits_hex s H) as [_ HF].
  unfold parse_hex_result, parse_hex_color. rewrite H. cbn [negb].
  destruct s as [|c0 [|c1 [|c2 [|c3 [|c4 [|c5 [|c6 [|c7 [|c8 t]]]]]]]]];
    try reflexivity;
    try (unfold from_str_radix16; rewrite go_spec; [| exact HF | cbn; lia]);
    cbn [hexvals String.length value_from fold_left qt_hex color_gadget] in *;
    try reflexivity.
  - (* 3 *) inv_forall. rewrite !land15, !N.shiftr_div_pow2. unfold dbl.
    change (2 ^ 4) with 16; change (2 ^ 8) with 256; change (2 ^ 12) with 4096.
    abstract_digits. repeat (f_equal; try lia).
  - (* 4 *) inv_forall. rewrite !land15, !N.shiftr_div_pow2. unfold dbl.
    change (2 ^ 4) with 16; change (2 ^ 8) with 256; change (2 ^ 12) with 4096.
    abstract_digits. repeat (f_equal; try lia).
  - (* 6 *) inv_forall. rewrite !land255, !N.shiftr_div_pow2. unfold byte2.
    change (2 ^ 8) with 256; change (2 ^ 16) with 65536; change (2 ^ 24) with 16777216.
    abstract_digits. repeat (f_equal; try lia).
  - (* 8 *) inv_forall. rewrite !land255, !N.shiftr_div_pow2. unfold byte2.
    change (2 ^ 8) with 256; change (2 ^ 16) with 65536; change (2 ^ 24) with 16777216.
    abstract_digits. repeat (f_equal; try lia).
  - (* >= 9 digits: whatever from_str_radix says, the length match rejects *)
    unfold from_str_radix16.
    destruct (from_str_radix16_go _ 0); reflexivity.
Qed.

Lemma parse_hex_nonhex s : all_hex s = false -> parse_hex_result s = None.
Proof. intros H. unfold parse_hex_result, parse_hex_color. rewrite H. reflexivity. Qed.

Theorem hex_refines hex : parse_hex_result hex = match spec_digits hex with Some ds => qt_hex ds | None => None end.
Proof.
  destruct (all_hex hex) eqn:H.
  - rewrite (parse_hex_digits hex H). destruct (spec_digits_hex hex H) as [E _]. rewrite E. reflexivity.
  - rewrite (parse_hex_nonhex hex H), (spec_digits_nonhex hex H). reflexivity.
Qed.

(* ---------- tables ---------- *)
Definition rgb_eqb (a b : N * N * N) : bool :=
  let '(r, g, b') := a in let '(r2, g2, b2) := b in (r =? r2) && (g =? g2) && (b' =? b2).
Definition orgb_eqb (a b : option (N * N * N)) : bool :=
  match a, b with Some x, Some y => rgb_eqb x y | None, None => true | _, _ => false end.
Lemma rgb_eqb_eq a b : rgb_eqb a b = true -> a = b.
Proof.
  destruct a as [[r g] b1], b as [[r2 g2] b2]. unfold rgb_eqb. intros H.
  apply andb_prop in H. destruct H as [H H3]. apply andb_prop in H. destruct H as [H1 H2].
  apply N.eqb_eq in H1, H2, H3. subst. reflexivity.
Qed.
Lemma orgb_eqb_eq a b : orgb_eqb a b = true -> a = b.
Proof. destruct a, b; cbn; intros H; try discriminate; [f_equal; now apply rgb_eqb_eq|reflexivity]. Qed.

Definition agree_on (l1 l2 keys : list (string * (N * N * N))) : bool :=
  forallb (fun kv => orgb_eqb (assoc (fst kv) l1) (assoc (fst kv) l2)) keys.

Lemma assoc_none {V} k (l : list (string * V)) : (forall kv, In kv l -> fst kv <> k) -> assoc k l = None.
Proof.
  induction l as [|[k' v] r IH]; intros H; cbn; [reflexivity|].
  destruct (String.eqb_spec k k') as [E|E].
  - exfalso. apply (H (k', v)); [now left|cbn; congruence].
  - apply IH. intros kv Hin. apply H. now right.
Qed.

Lemma assoc_tables_equiv (l1 l2 : list (string * (N * N * N))) :
  agree_on l1 l2 l1 = true -> agree_on l1 l2 l2 = true -> forall k, assoc k l1 = assoc k l2.
Proof.
  unfold agree_on. intros H1 H2 k. rewrite forallb_forall in H1, H2.
  destruct (in_dec string_dec k (map fst l1)) as [I1|N1].
  - apply in_map_iff in I1. destruct I1 as [kv [E I]]. subst k. apply orgb_eqb_eq, H1, I.
  - destruct (in_dec string_dec k (map fst l2)) as [I2|N2].
    + apply in_map_iff in I2. destruct I2 as [kv [E I]]. subst k. apply orgb_eqb_eq, H2, I.
    + rewrite !assoc_none; [reflexivity| |].
      * intros kv I E. apply N2. subst k. now apply in_map.
      * intros kv I E. apply N1. subst k. now apply in_map.
Qed.

(* the table translated from color.rs on this run and the independent SVG 1.1 table denote the same map *)
Theorem table_agrees : forall k, lookup_named k = assoc k svg_spec.
Proof. unfold lookup_named. apply assoc_tables_equiv; vm_compute; reflexivity. Qed.

Fixpoint is_lower_str (s : string) : bool :=
  match s with EmptyString => true | String c r => Ascii.eqb (ascii_lower c) c && is_lower_str r end.
Lemma is_lower_str_fix s : is_lower_str s = true -> to_ascii_lowercase s = s.
Proof.
  induction s as [|c r IH]; cbn; intros H; [reflexivity|].
  apply andb_prop in H. destruct H as [Hc Hr]. apply Ascii.eqb_eq in Hc. rewrite Hc, (IH Hr). reflexivity.
Qed.
Lemma assoc_in {V} k (l : list (string * V)) v : assoc k l = Some v -> In k (map fst l).
Proof.
  induction l as [|[k' v'] r IH]; cbn; intros H; [discriminate|].
  destruct (String.eqb_spec k k'); [left; congruence|right; auto].
Qed.
Lemma spec_keys_lower : forallb is_lower_str (map fst svg_spec) = true.
Proof. vm_compute. reflexivity. Qed.

Lemma spec_hit_lower k v : assoc k svg_spec = Some v -> to_ascii_lowercase k = k.
Proof.
  intros H. apply is_lower_str_fix. pose proof spec_keys_lower as L. rewrite forallb_forall in L.
  apply L. eapply assoc_in. exact H.
Qed.

Lemma ascii_lower_idem c : ascii_lower (ascii_lower c) = ascii_lower c.
Proof.
  unfold ascii_lower.
  destruct ((65 <=? N_of_ascii c) && (N_of_ascii c <=? 90)) eqn:E; [|rewrite E; reflexivity].
  assert (Hc : N_of_ascii c < 256) by apply N_ascii_bounded.
  rewrite N_ascii_embedding by lia.
  destruct ((65 <=? N_of_ascii c + 32) && (N_of_ascii c + 32 <=? 90)) eqn:E2; [lia|reflexivity].
Qed.
Lemma to_lower_idem s : to_ascii_lowercase (to_ascii_lowercase s) = to_ascii_lowercase s.
Proof. unfold to_ascii_lowercase. induction s as [|c r IH]; cbn [str_map]; [reflexivity|]. rewrite ascii_lower_idem, IH. reflexivity. Qed.

(* ---------- the refinement theorem: the model of Color::from_str + the gadget conversion equals Qt's reading ---------- *)
Theorem color_refines s : model_color s = spec_color s.
Proof.
  unfold model_color, spec_color, color_from_str.
  change (strip_hash_spec s) with (strip_hash s).
  destruct (strip_hash s) as [hex|].
  - pose proof (hex_refines hex) as H. unfold parse_hex_result in H.
    destruct (parse_hex_color hex); rewrite <- H; reflexivity.
  - cbv zeta. unfold eq_ignore_ascii_case. change (to_ascii_lowercase "transparent") with "transparent"%string.
    destruct (String.eqb (to_ascii_lowercase s) "transparent"); [reflexivity|].
    rewrite !table_agrees.
    destruct (assoc s svg_spec) as [[[r0 g] b]|] eqn:A1.
    + rewrite (spec_hit_lower _ _ A1), A1. reflexivity.
    + destruct (assoc (to_ascii_lowercase s) svg_spec) as [[[r0 g] b]|]; reflexivity.
Qed.

(* consequences, stated the way the property reads *)
Corollary hex_case_insensitive hex : all_hex hex = true ->
  parse_hex_result (to_ascii_lowercase hex) = parse_hex_result hex /\
  parse_hex_result (to_ascii_uppercase hex) = parse_hex_result hex.
Proof.
  assert (Hl : forall c, is_ascii_hexdigit c = true -> is_ascii_hexdigit (ascii_lower c) = true /\ hexval (ascii_lower c) = hexval c).
  { intros c. unfold is_ascii_hexdigit, hexval, ascii_lower. intros H.
    assert (Hc : N_of_ascii c < 256) by apply N_ascii_bounded.
    destruct ((65 <=? N_of_ascii c) && (N_of_ascii c <=? 90)) eqn:E; [|split; [exact H|reflexivity]].
    rewrite N_ascii_embedding by lia. split.
    - lia.
    - destruct ((48 <=? N_of_ascii c + 32) && (N_of_ascii c + 32 <=? 57)) eqn:E1; [lia|].
      destruct ((65 <=? N_of_ascii c + 32) && (N_of_ascii c + 32 <=? 70)) eqn:E2; [lia|].
      destruct ((48 <=? N_of_ascii c) && (N_of_ascii c <=? 57)) eqn:E3; [lia|].
      destruct ((65 <=? N_of_ascii c) && (N_of_ascii c <=? 70)) eqn:E4; lia. }
  assert (Hu : forall c, is_ascii_hexdigit c = true -> is_ascii_hexdigit (ascii_upper c) = true /\ hexval (ascii_upper c) = hexval c).
  { intros c. unfold is_ascii_hexdigit, hexval, ascii_upper. intros H.
    assert (Hc : N_of_ascii c < 256) by apply N_ascii_bounded.
    destruct ((97 <=? N_of_ascii c) && (N_of_ascii c <=? 122)) eqn:E; [|split; [exact H|reflexivity]].
    rewrite N_ascii_embedding by lia. split.
    - lia.
    - destruct ((48 <=? N_of_ascii c - 32) && (N_of_ascii c - 32 <=? 57)) eqn:E1; [lia|].
      destruct ((65 <=? N_of_ascii c - 32) && (N_of_ascii c - 32 <=? 70)) eqn:E2; [|lia].
      destruct ((48 <=? N_of_ascii c) && (N_of_ascii c <=? 57)) eqn:E3; [lia|].
      destruct ((65 <=? N_of_ascii c) && (N_of_ascii c <=? 70)) eqn:E4; lia. }
  assert (G : forall f, (forall c, is_ascii_hexdigit c = true -> is_ascii_hexdigit (f c) = true /\ hexval (f c) = hexval c) ->
              forall s, all_hex s = true -> all_hex (str_map f s) = true /\ hexvals (str_map f s) = hexvals s).
  { intros f Hf s. induction s as [|c r IH]; cbn; intros H; [split; reflexivity|].
    apply andb_prop in H. destruct H as [H1 H2]. destruct (Hf c H1) as [A B]. destruct (IH H2) as [A' B'].
    rewrite A, A', B, B'. split; reflexivity. }
  intros H. split.
  - destruct (G _ Hl hex H) as [A B]. unfold to_ascii_lowercase. rewrite !parse_hex_digits by assumption. now rewrite B.
  - destruct (G _ Hu hex H) as [A B]. unfold to_ascii_uppercase. rewrite !parse_hex_digits by assumption. now rewrite B.
Qed.

Corollary named_case_insensitive s t :
  strip_hash s = None -> strip_hash t = None ->
  to_ascii_lowercase s = to_ascii_lowercase t -> model_color s = model_color t.
Proof.
  intros Hs Ht E. rewrite !color_refines. unfold spec_color.
  change (strip_hash_spec s) with (strip_hash s). change (strip_hash_spec t) with (strip_hash t). rewrite Hs, Ht, E. reflexivity.
Qed.

(* an opaque colour is written with alpha 255; only #argb / #aarrggbb / transparent carry another alpha *)
Corollary opaque_alpha s a r g b : model_color s = Some (a, r, g, b) -> a <> 255 ->
  (exists hex, strip_hash s = Some hex /\ (String.length hex = 4%nat \/ String.length hex = 8%nat))
  \/ to_ascii_lowercase s = "transparent"%string.
Proof.
  rewrite color_refines. unfold spec_color. intros H Ha.
  change (strip_hash_spec s) with (strip_hash s) in *.
  destruct (strip_hash s) as [rest|].
  - left. exists rest. split; [reflexivity|].
    destruct (spec_digits rest) as [ds|] eqn:D; [|discriminate].
    assert (L : List.length ds = String.length rest).
    { clear H. revert ds D. induction rest as [|c r' IH]; cbn; intros ds D; [inversion D; reflexivity|].
      destruct (spec_digit c); [|discriminate]. destruct (spec_digits r'); [|discriminate].
      inversion D; subst. cbn. f_equal. apply IH. reflexivity. }
    rewrite <- L. clear L D.
    destruct ds as [|d0 [|d1 [|d2 [|d3 [|d4 [|d5 [|d6 [|d7 [|d8 t]]]]]]]]]; cbn in H; try discriminate;
      try (inversion H; subst; exfalso; apply Ha; reflexivity); auto.
  - right. cbv zeta in H.
    destruct (String.eqb_spec (to_ascii_lowercase s) "transparent") as [T|T]; [exact T|].
    destruct (assoc _ svg_spec) as [[[r0 g0] b0]|]; [|discriminate]. inversion H; subst. exfalso. apply Ha. reflexivity.
Qed.

(* XmlProofs.v -- C09: what an XML processor reads back from the written text is the source string. *)
From Coq Require Import Lia.
From QV Require Import model.Base model.Lang model.Xml.
Open Scope N_scope.

Lemma read_plain c rest : xml_char c = true -> c <> 13 -> c <> 10 -> c <> 38 -> c <> 60 ->
  xml_read (c :: rest) None false = option_map (cons c) (xml_read rest None false).
Proof.
  intros Hc H13 H10 H38 H60. cbn [xml_read].
  destruct (N.eqb_spec c 13); [contradiction|]. destruct (N.eqb_spec c 10); [contradiction|]. cbn [andb].
  destruct (N.eqb_spec c 38); [contradiction|]. destruct (N.eqb_spec c 60); [contradiction|]. rewrite Hc. reflexivity.
Qed.

(* each escaped character reads back as itself *)
Lemma read_escaped_char c rest : xml_char c = true -> c <> 13 ->
  xml_read (escape_char c ++ rest) None false = option_map (cons c) (xml_read rest None false).
Proof.
  intros Hc H13. unfold escape_char.
  destruct (N.eqb_spec c 60) as [->|N60]; [reflexivity|].
  destruct (N.eqb_spec c 62) as [->|N62]; [reflexivity|].
  destruct (N.eqb_spec c 38) as [->|N38]; [reflexivity|].
  destruct (N.eqb_spec c 39) as [->|N39]; [reflexivity|].
  destruct (N.eqb_spec c 34) as [->|N34]; [reflexivity|].
  cbn [app]. destruct (N.eqb_spec c 10) as [->|N10]; [reflexivity|].
  apply read_plain; assumption.
Qed.

(* round trip of quick-xml's escape: for every string of XML characters WITHOUT carriage return *)
Theorem escape_roundtrip s : forallb xml_char s = true -> ~ In 13 s -> read_back (escape s) = Some s.
Proof.
  unfold read_back. induction s as [|c r IH]; intros Hx H13; [reflexivity|].
  cbn [forallb] in Hx. apply andb_prop in Hx. destruct Hx as [Hc Hr].
  unfold escape. cbn [flat_map]. rewrite read_escaped_char; [|exact Hc|intros ->; apply H13; now left].
  fold (escape r). rewrite IH; [reflexivity|exact Hr|intros X; apply H13; now right].
Qed.

(* the FULL statement over all strings of XML characters is refuted for that writer by a carriage return (finding F6) ... *)
Example escape_cr_refuted : read_back (escape [97; 13; 98]) = Some [97; 10; 98].
Proof. vm_compute. reflexivity. Qed.

(* ... and holds for the repaired writer of uigen, which writes CR as a character reference *)
Lemma read_escaped_text_char c rest : xml_char c = true ->
  xml_read (escape_text_char c ++ rest) None false = option_map (cons c) (xml_read rest None false).
Proof.
  intros Hc. unfold escape_text_char. destruct (N.eqb_spec c 13) as [->|N13]; [reflexivity|].
  apply read_escaped_char; assumption.
Qed.

Theorem escape_text_roundtrip s : forallb xml_char s = true -> read_back (escape_text s) = Some s.
Proof.
  unfold read_back. induction s as [|c r IH]; intros Hx; [reflexivity|].
  cbn [forallb] in Hx. apply andb_prop in Hx. destruct Hx as [Hc Hr].
  unfold escape_text. cbn [flat_map]. rewrite read_escaped_text_char by exact Hc.
  fold (escape_text r). rewrite (IH Hr). reflexivity.
Qed.

(* every character written is an XML Char exactly when every source character is *)
Theorem escape_text_chars s : forallb xml_char (escape_text s) = forallb xml_char s.
Proof.
  induction s as [|c r IH]; [reflexivity|]. unfold escape_text in *. cbn [flat_map forallb]. rewrite forallb_app, IH. f_equal.
  unfold escape_text_char, escape_char.
  destruct (N.eqb_spec c 13) as [->|]; [reflexivity|].
  destruct (N.eqb_spec c 60) as [->|]; [reflexivity|]. destruct (N.eqb_spec c 62) as [->|]; [reflexivity|].
  destruct (N.eqb_spec c 38) as [->|]; [reflexivity|]. destruct (N.eqb_spec c 39) as [->|]; [reflexivity|].
  destruct (N.eqb_spec c 34) as [->|]; [reflexivity|]. cbn [forallb]. apply andb_true_r.
Qed.

(* a string that contains a character outside production Char cannot be read back at all: the document is ill-formed *)
Theorem non_xml_char_ill_formed s : forallb xml_char s = false -> read_back (escape_text s) = None.
Proof.
  unfold read_back. induction s as [|c r IH]; intros Hx; [discriminate|].
  cbn [forallb] in Hx. unfold escape_text. cbn [flat_map]. fold (escape_text r).
  destruct (xml_char c) eqn:Hc.
  - rewrite read_escaped_text_char by exact Hc. cbn [andb] in Hx. rewrite (IH Hx). reflexivity.
  - (* c is not escaped (the escaped ones are XML chars) and the reader refuses it *)
    unfold escape_text_char, escape_char.
    destruct (N.eqb_spec c 13) as [->|]; [discriminate|].
    destruct (N.eqb_spec c 60) as [->|]; [discriminate|]. destruct (N.eqb_spec c 62) as [->|]; [discriminate|].
    destruct (N.eqb_spec c 38) as [->|]; [discriminate|]. destruct (N.eqb_spec c 39) as [->|]; [discriminate|].
    destruct (N.eqb_spec c 34) as [->|]; [discriminate|].
    cbn [app xml_read]. destruct (N.eqb_spec c 13); [contradiction|].
    destruct (N.eqb_spec c 10) as [->|]; [discriminate|]. cbn [andb].
    destruct (N.eqb_spec c 38); [contradiction|]. destruct (N.eqb_spec c 60); [contradiction|]. rewrite Hc. reflexivity.
Qed.

(* ---- attribute values ---- *)
Lemma attr_read_plain c rest : xml_char c = true -> c <> 13 -> c <> 10 -> c <> 9 -> c <> 38 -> c <> 60 -> c <> 34 ->
  attr_read (c :: rest) None false = option_map (cons c) (attr_read rest None false).
Proof.
  intros Hc H13 H10 H9 H38 H60 H34. cbn [attr_read].
  destruct (N.eqb_spec c 13); [contradiction|]. destruct (N.eqb_spec c 10); [contradiction|]. cbn [andb orb].
  destruct (N.eqb_spec c 9); [contradiction|]. destruct (N.eqb_spec c 38); [contradiction|].
  destruct (N.eqb_spec c 60); [contradiction|]. destruct (N.eqb_spec c 34); [contradiction|]. cbn [orb]. rewrite Hc. reflexivity.
Qed.

Lemma attr_read_escaped_char c rest : xml_char c = true ->
  attr_read (escape_attr_char c ++ rest) None false = option_map (cons c) (attr_read rest None false).
Proof.
  intros Hc. unfold escape_attr_char, escape_char.
  destruct (N.eqb_spec c 9) as [->|N9]; [reflexivity|].
  destruct (N.eqb_spec c 10) as [->|N10]; [reflexivity|].
  destruct (N.eqb_spec c 13) as [->|N13]; [reflexivity|].
  destruct (N.eqb_spec c 60) as [->|N60]; [reflexivity|].
  destruct (N.eqb_spec c 62) as [->|N62]; [reflexivity|].
  destruct (N.eqb_spec c 38) as [->|N38]; [reflexivity|].
  destruct (N.eqb_spec c 39) as [->|N39]; [reflexivity|].
  destruct (N.eqb_spec c 34) as [->|N34]; [reflexivity|].
  cbn [app]. apply attr_read_plain; assumption.
Qed.

(* what an XML processor reads back from a written attribute value is the source string, for every string of XML characters *)
Theorem escape_attr_roundtrip s : forallb xml_char s = true -> attr_read_back (escape_attr s) = Some s.
Proof.
  unfold attr_read_back. induction s as [|c r IH]; intros Hx; [reflexivity|].
  cbn [forallb] in Hx. apply andb_prop in Hx. destruct Hx as [Hc Hr].
  unfold escape_attr. cbn [flat_map]. rewrite attr_read_escaped_char by exact Hc.
  fold (escape_attr r). rewrite (IH Hr). reflexivity.
Qed.

(* quick-xml's own attribute escaping (the code before the repair) loses tab, line feed and carriage return: finding F23 *)
Example escape_in_attr_refuted : attr_read_back (escape [97; 9; 98]) = Some [97; 32; 98] /\ attr_read_back (escape [13; 10]) = Some [32].
Proof. vm_compute. split; reflexivity. Qed.

(* PropdepProofs.v -- the dependency analysis (model of tir/propdep.rs in model/Passes.v) leaves no read unobserved; observer slots *)
From Coq Require Import Lia.
From QV Require Import model.Base model.Lang model.Types model.Tir model.Passes proofs.TypingProofs.
From Coq Require Import Bool.
Open Scope nat_scope.
Open Scope list_scope.

(* what a statement needs: a read of a non-constant property through a pointer, with its notify signal *)
Definition needs (E : cenv) (st : tstmt) : option (operand * mref) :=
  match st with
  | TAssign _ (RReadProp a p) | TExec (RReadProp a p) =>
      if tdesc_is_pointer (operand_tdesc a) && negb (pi_constant (pr_info p)) then
        match notify_signal E p with Notify sig => Some (a, sig) | _ => None end
      else None
  | _ => None
  end.

(* the named object a local is known to hold (a copy of a named object, or of such a local), as propdep.rs tracks it *)
Definition known_after (known : list (option string)) (st : tstmt) : list (option string) :=
  match st with
  | TAssign l r => set_nth_opt known l (match r with RCopy (OLocal x _) => nth x known None | RCopy (ONamed x _) => Some x | _ => None end)
  | _ => known
  end.

(* the coverage of one analysed block, as a checker: every read is covered by a static dependency on the object it is known to be,
   or is IMMEDIATELY preceded by the observation of that local with that signal, with a handle inside [lo, hi) *)
Definition is_observe_of (prev : option tstmt) (l : nat) (sig : mref) (lo hi : nat) : Prop :=
  exists k, prev = Some (TObserve k l sig) /\ lo <= k < hi.

Fixpoint covered (E : cenv) (deps : list (string * mref)) (lo hi : nat) (known : list (option string)) (prev : option tstmt) (l : list tstmt) : Prop :=
  match l with
  | [] => True
  | st :: r =>
      (match needs E st with
       | None => True
       | Some (ONamed x _, sig) => In (x, sig) deps
       | Some (OLocal v _, sig) => match nth v known None with Some n => In (n, sig) deps | None => is_observe_of prev v sig lo hi end
       | Some (_, _) => False
       end)
      /\ covered E deps lo hi (known_after known st) (Some st) r
  end.

Lemma covered_mono E deps deps' lo hi lo' hi' known prev l :
  (forall d, In d deps -> In d deps') -> lo' <= lo -> hi <= hi' -> covered E deps lo hi known prev l -> covered E deps' lo' hi' known prev l.
Proof.
  intros Hd Hl Hh. revert known prev. induction l as [|st r IH]; intros known prev; cbn [covered]; [auto|].
  intros [H1 H2]. split; [|apply IH, H2].
  destruct (needs E st) as [[a sig]|]; [|exact I]. destruct a; auto.
  destruct (nth l known None); [auto|]. destruct H1 as [k [E1 E2]]. exists k. split; [exact E1|lia].
Qed.

(* the observation entries analyze_stmts produces carry lines >= the current line *)
Lemma analyze_lines E : forall stmts line known deps obs ds, analyze_stmts E stmts line known = Ok (deps, obs, ds) ->
  forall o, In o obs -> line <= fst (fst o).
Proof.
  induction stmts as [|st rest IH]; intros line known deps obs ds H o Ho; cbn [analyze_stmts] in H.
  - inversion H; subst. destruct Ho.
  - unfold bind in H.
    match type of H with context [match ?h with Ok _ => _ | _ => _ end] => destruct h as [[[hd ho] hds]| | |] eqn:EH; try discriminate end.
    destruct (analyze_stmts E rest (S line) _) as [[[td to] tds]| | |] eqn:ET; try discriminate.
    inversion H; subst. cbn [fst snd] in Ho. apply in_app_or in Ho. destruct Ho as [Ho|Ho].
    + (* from this statement: its line is `line` *)
      clear ET IH. destruct st as [l r|r|h l s]; cbn in EH; try (inversion EH; subst; destruct Ho).
      all: destruct r; try (inversion EH; subst; destruct Ho; fail).
      all: destruct (tdesc_is_pointer (operand_tdesc obj) && negb (pi_constant (pr_info p))); try (inversion EH; subst; destruct Ho; fail).
      all: destruct (notify_signal E p); try (inversion EH; subst; destruct Ho; fail).
      all: destruct obj; try discriminate; try (inversion EH; subst; destruct Ho; fail).
      all: destruct (nth l0 known None) || destruct (nth l known None); inversion EH; subst; try destruct Ho as [<-|[]]; try destruct Ho; cbn; lia.
    + specialize (IH _ _ _ _ _ ET o Ho). lia.
Qed.

Definition here_of (E : cenv) (st : tstmt) (line : nat) (known : list (option string)) : res (list (string * mref) * list (nat * nat * mref) * list pdiag) :=
  match (match st with TAssign _ r | TExec r => Some r | TObserve _ _ _ => None end) with
  | Some (RReadProp a p) =>
      if tdesc_is_pointer (operand_tdesc a) && negb (pi_constant (pr_info p)) then
        match notify_signal E p with
        | Notify sig =>
            match a with
            | ONamed x _ => Ok ([(x, sig)], [], [])
            | OLocal l _ => match nth l known None with Some n => Ok ([(n, sig)], [], []) | None => Ok ([], [(line, l, sig)], []) end
            | _ => Panic "propdep.rs: invald read_property"
            end
        | NoNotify => Ok ([], [], [PUnobservable])
        | NotifyErr => Ok ([], [], [PTypeResolution])
        end
      else Ok ([], [], [])
  | _ => Ok ([], [], [])
  end.

Lemma analyze_cons E st rest line known :
  analyze_stmts E (st :: rest) line known =
  (do h <- here_of E st line known; do t <- analyze_stmts E rest (S line) (known_after known st);
   Ok (fst (fst h) ++ fst (fst t), snd (fst h) ++ snd (fst t), snd h ++ snd t)).
Proof. reflexivity. Qed.

Lemma here_cases E st line known hd ho hds : here_of E st line known = Ok (hd, ho, hds) ->
  (ho = [] /\ match needs E st with
              | None => True
              | Some (ONamed x _, sig) => hd = [(x, sig)]
              | Some (OLocal l _, sig) => exists n, nth l known None = Some n /\ hd = [(n, sig)]
              | Some (_, _) => False
              end)
  \/ (exists l t sig, needs E st = Some (OLocal l t, sig) /\ nth l known None = None /\ ho = [(line, l, sig)] /\ hd = []).
Proof.
  unfold here_of, needs. destruct st as [l r|r|h l s]; [| |intros H; inversion H; left; split; auto].
  all: destruct r; try (intros H; inversion H; left; split; auto; fail).
  all: destruct (tdesc_is_pointer (operand_tdesc obj) && negb (pi_constant (pr_info p))); try (intros H; inversion H; left; split; auto; fail).
  all: destruct (notify_signal E p); try (intros H; inversion H; left; split; auto; fail).
  all: destruct obj; try discriminate; try (intros H; inversion H; left; split; auto; fail).
  all: match goal with |- context [nth ?v ?kk None] => destruct (nth v kk None) eqn:Ek end; intros H; inversion H; subst;
       [left; split; [reflexivity|eauto]|right; eauto 10].
Qed.

Lemma filter_lines_here line (ho to : list (nat * nat * mref)) :
  (forall o, In o ho -> fst (fst o) = line) -> (forall o, In o to -> S line <= fst (fst o)) ->
  filter (fun o => Nat.eqb (fst (fst o)) line) (ho ++ to) = ho /\ filter (fun o => negb (Nat.eqb (fst (fst o)) line)) (ho ++ to) = to.
Proof.
  intros H1 H2. rewrite !filter_app. 
  assert (A : filter (fun o => Nat.eqb (fst (fst o)) line) ho = ho /\ filter (fun o => negb (Nat.eqb (fst (fst o)) line)) ho = []).
  { induction ho as [|x r IH]; [auto|]. cbn. rewrite (H1 x (or_introl eq_refl)), Nat.eqb_refl. cbn.
    destruct IH as [I1 I2]; [intros o Ho; apply H1; now right|]. rewrite I1, I2. auto. }
  assert (B : filter (fun o => Nat.eqb (fst (fst o)) line) to = [] /\ filter (fun o => negb (Nat.eqb (fst (fst o)) line)) to = to).
  { induction to as [|x r IH]; [auto|]. cbn. pose proof (H2 x (or_introl eq_refl)) as L.
    assert (Nat.eqb (fst (fst x)) line = false) as -> by (apply Nat.eqb_neq; lia). cbn.
    destruct IH as [I1 I2]; [intros o Ho; apply H2; now right|]. rewrite I1, I2. auto. }
  destruct A as [A1 A2], B as [B1 B2]. rewrite A1, A2, B1, B2, app_nil_r. auto.
Qed.

(* COVERAGE of one block: in the block rewritten by the dependency analysis, every read of a non-constant property through a pointer
   is covered -- by a static dependency when the object is known, by an observation inserted immediately before it otherwise *)
Lemma analyze_covered E : forall stmts line known deps obs ds h prev,
  analyze_stmts E stmts line known = Ok (deps, obs, ds) ->
  covered E deps h (h + length obs) known prev (insert_observes stmts line obs h).
Proof.
  induction stmts as [|st rest IH]; intros line known deps obs ds h prev H; [exact I|].
  rewrite analyze_cons in H. unfold bind in H.
  destruct (here_of E st line known) as [[[hd ho] hds]| | |] eqn:EH; try discriminate.
  destruct (analyze_stmts E rest (S line) (known_after known st)) as [[[td to] tds]| | |] eqn:ET; try discriminate.
  inversion H; subst. clear H. cbn [fst snd].
  pose proof (analyze_lines E _ _ _ _ _ _ ET) as Lt.
  assert (Lh : forall o, In o ho -> fst (fst o) = line).
  { destruct (here_cases _ _ _ _ _ _ _ EH) as [[-> _]|[l [t [sig [_ [_ [-> _]]]]]]]; [intros ? []|intros o [<-|[]]; reflexivity]. }
  cbn [insert_observes]. destruct (filter_lines_here line ho to Lh Lt) as [F1 F2]. rewrite F1, F2.
  destruct (here_cases _ _ _ _ _ _ _ EH) as [[-> Hn]|[l [t [sig [Hn [Hk [-> ->]]]]]]].
  - (* no observation needed *)
    cbn [app length Nat.add]. rewrite Nat.add_0_r. split.
    + destruct (needs E st) as [[a sig]|]; [|exact I]. destruct a; try contradiction.
      * destruct Hn as [n [-> ->]]. apply in_or_app. left. now left.
      * subst hd. apply in_or_app. left. now left.
    + eapply covered_mono; [| | |apply (IH _ _ _ _ _ h (Some st) ET)]; [intros d Hd; apply in_or_app; now right|lia|lia].
  - (* an observation is inserted immediately before the statement *)
    cbn [app length]. split; [exact I|]. cbn [known_after]. split.
    + rewrite Hn, Hk. exists h. split; [reflexivity|lia].
    + eapply covered_mono; [| | |apply (IH _ _ _ _ _ (h + 1) (Some st) ET)]; [intros d Hd; exact Hd|lia|lia].
Qed.

(* ---- observer handles: the observations inserted into a block carry the handles h, h+1, ... in order ---- *)
Definition observe_handles (l : list tstmt) : list nat := flat_map (fun st => match st with TObserve k _ _ => [k] | _ => [] end) l.
Definition no_observe (l : list tstmt) : Prop := observe_handles l = [].

Lemma analyze_handles E : forall stmts line known deps obs ds h,
  analyze_stmts E stmts line known = Ok (deps, obs, ds) -> no_observe stmts ->
  observe_handles (insert_observes stmts line obs h) = seq h (length obs).
Proof.
  induction stmts as [|st rest IH]; intros line known deps obs ds h H NO.
  - cbn in H. inversion H; subst. reflexivity.
  - rewrite analyze_cons in H. unfold bind in H.
    destruct (here_of E st line known) as [[[hd ho] hds]| | |] eqn:EH; try discriminate.
    destruct (analyze_stmts E rest (S line) (known_after known st)) as [[[td to] tds]| | |] eqn:ET; try discriminate.
    inversion H; subst. clear H. cbn [fst snd].
    pose proof (analyze_lines E _ _ _ _ _ _ ET) as Lt.
    assert (Lh : forall o, In o ho -> fst (fst o) = line).
    { destruct (here_cases _ _ _ _ _ _ _ EH) as [[-> _]|[l [t [sig [_ [_ [-> _]]]]]]]; [intros ? []|intros o [<-|[]]; reflexivity]. }
    cbn [insert_observes]. destruct (filter_lines_here line ho to Lh Lt) as [F1 F2]. rewrite F1, F2.
    assert (NOst : (match st with TObserve k _ _ => [k] | _ => [] end) = [] /\ no_observe rest).
    { unfold no_observe, observe_handles in NO. cbn [flat_map] in NO. apply app_eq_nil in NO. exact NO. }
    destruct NOst as [N1 N2].
    destruct (here_cases _ _ _ _ _ _ _ EH) as [[-> _]|[l [t [sig [_ [_ [-> ->]]]]]]].
    + cbn [app length Nat.add]. rewrite Nat.add_0_r. unfold observe_handles. cbn [flat_map]. rewrite N1. cbn [app]. apply (IH _ _ _ _ _ h ET N2).
    + cbn [app length]. unfold observe_handles. cbn [flat_map app]. rewrite N1. cbn [app seq]. f_equal.
      replace (S h) with (h + 1) by lia. apply (IH _ _ _ _ _ (h + 1) ET N2).
Qed.

(* ---- the whole code ---- *)
Definition block_covered (E : cenv) (c' : code) (lo : nat) (nlocals : nat) (b : block) : Prop :=
  covered E (c_sdeps c') lo (c_nobs c') (repeat None nlocals) None (b_stmts b).

Lemma analyze_blocks_covered E nlocals : forall blocks nobs bl deps n ds,
  analyze_blocks E nlocals blocks nobs = Ok (bl, deps, n, ds) ->
  nobs <= n /\ Forall (fun b => covered E deps nobs n (repeat None nlocals) None (b_stmts b)) bl
  /\ (Forall (fun b => no_observe (b_stmts b)) blocks -> flat_map (fun b => observe_handles (b_stmts b)) bl = seq nobs (n - nobs)).
Proof.
  induction blocks as [|b rest IH]; intros nobs bl deps n ds H; cbn [analyze_blocks] in H.
  - inversion H; subst. split; [lia|]. split; [constructor|]. intros _. rewrite Nat.sub_diag. reflexivity.
  - unfold bind in H. destruct (analyze_stmts E (b_stmts b) 0 (repeat None nlocals)) as [[[d1 o1] s1]| | |] eqn:EA; try discriminate.
    destruct (analyze_blocks E nlocals rest (nobs + length o1)) as [[[[bl2 d2] n2] s2]| | |] eqn:ER; try discriminate.
    inversion H; subst. clear H. destruct (IH _ _ _ _ _ ER) as [I0 [I1 I2]]. split; [lia|]. split.
    + constructor.
      * cbn [b_stmts]. eapply covered_mono; [| | |apply (analyze_covered E _ _ _ _ _ _ nobs None EA)]; [intros d Hd; apply in_or_app; now left|lia|lia].
      * eapply Forall_impl; [|exact I1]. intros x Hx. eapply covered_mono; [| | |exact Hx]; [intros d Hd; apply in_or_app; now right|lia|lia].
    + intros NO. inversion NO as [|? ? N1 N2]; subst. cbn [flat_map b_stmts].
      rewrite (analyze_handles E _ _ _ _ _ _ nobs EA N1), (I2 N2).
      replace (n - nobs) with (length o1 + (n - (nobs + length o1))) by lia. rewrite seq_app. reflexivity.
Qed.

(* C02 / C16, at the level of the IR: after the dependency analysis every read of a non-constant property through a pointer, in every
   block (hence on every path), is covered by a static connection or by an observer slot re-connected immediately before the read;
   and the observer slots used are exactly c_nobs(before) .. c_nobs(after)-1, each once *)
Theorem dependency_complete E c c' ds : analyze_code_property_dependency E c = Ok (c', ds) ->
  Forall (block_covered E c' (c_nobs c) (length (c_locals c))) (c_blocks c')
  /\ (Forall (fun b => no_observe (b_stmts b)) (c_blocks c) ->
      flat_map (fun b => observe_handles (b_stmts b)) (c_blocks c') = seq (c_nobs c) (c_nobs c' - c_nobs c)).
Proof.
  unfold analyze_code_property_dependency, bind. intros H.
  destruct (analyze_blocks E (length (c_locals c)) (c_blocks c) (c_nobs c)) as [[[[bl deps] n] s]| | |] eqn:EB; try discriminate.
  inversion H; subst. clear H. cbn [c_blocks c_nobs c_sdeps]. destruct (analyze_blocks_covered E _ _ _ _ _ _ _ EB) as [I0 [I1 I2]].
  split; [|exact I2]. eapply Forall_impl; [|exact I1]. intros b Hb. unfold block_covered. cbn [c_sdeps c_nobs].
  eapply covered_mono; [| | |exact Hb]; [intros d Hd; apply in_or_app; now right|lia|lia].
Qed.

(* ---- the diagnostic for reads that cannot be observed ---- *)
(* a read that cannot be kept current: a non-constant property, read through a pointer, with no notify signal *)
Definition unobservable_read (E : cenv) (st : tstmt) : bool :=
  match st with
  | TAssign _ (RReadProp a p) | TExec (RReadProp a p) =>
      tdesc_is_pointer (operand_tdesc a) && negb (pi_constant (pr_info p))
      && match notify_signal E p with NoNotify => true | _ => false end
  | _ => false
  end.

Lemma here_unobservable E st line known hd ho hds : here_of E st line known = Ok (hd, ho, hds) ->
  (In PUnobservable hds <-> unobservable_read E st = true).
Proof.
  unfold here_of, unobservable_read.
  assert (T : forall hd' ho' (x : pdiag) , x <> PUnobservable ->
    Ok (hd', ho', [x]) = Ok (hd, ho, hds) -> (In PUnobservable hds <-> false = true)).
  { intros hd' ho' x N H. inversion H; subst. split; [intros [X|[]]; contradiction|discriminate]. }
  assert (T0 : forall hd' ho', @Ok (list (string * mref) * list (nat * nat * mref) * list pdiag) (hd', ho', []) = Ok (hd, ho, hds) -> (In PUnobservable hds <-> false = true)).
  { intros hd' ho' H. inversion H; subst. split; [intros []|discriminate]. }
  assert (T1 : forall hd' ho', Ok (hd', ho', [PUnobservable]) = Ok (hd, ho, hds) -> (In PUnobservable hds <-> true = true)).
  { intros hd' ho' H. inversion H; subst. split; [reflexivity|intros _; now left]. }
  destruct st as [l r|r|h l s]; [| |apply T0].
  all: destruct r; try apply T0.
  all: destruct (tdesc_is_pointer (operand_tdesc obj) && negb (pi_constant (pr_info p))); cbn [andb]; try apply T0.
  all: destruct (notify_signal E p); try apply T1; try (apply T; discriminate).
  all: destruct obj; try discriminate; try apply T0.
  all: match goal with |- context [nth ?v ?kk None] => destruct (nth v kk None) end; apply T0.
Qed.

Lemma analyze_stmts_unobservable E : forall stmts line known deps obs ds, analyze_stmts E stmts line known = Ok (deps, obs, ds) ->
  (In PUnobservable ds <-> exists st, In st stmts /\ unobservable_read E st = true).
Proof.
  induction stmts as [|st rest IH]; intros line known deps obs ds H.
  - cbn in H. inversion H; subst. split; [intros []|intros [st [[] _]]].
  - rewrite analyze_cons in H. unfold bind in H.
    destruct (here_of E st line known) as [[[hd ho] hds]| | |] eqn:EH; try discriminate.
    destruct (analyze_stmts E rest (S line) (known_after known st)) as [[[td to] tds]| | |] eqn:ET; try discriminate.
    inversion H; subst. cbn [fst snd]. rewrite in_app_iff, (here_unobservable _ _ _ _ _ _ _ EH), (IH _ _ _ _ _ ET). split.
    + intros [X|[s [X Y]]]; [exists st; split; [now left|exact X]|exists s; split; [now right|exact Y]].
    + intros [s [[<-|X] Y]]; [left; exact Y|right; exists s; auto].
Qed.

Lemma analyze_blocks_unobservable E nlocals : forall blocks nobs bl deps n ds,
  analyze_blocks E nlocals blocks nobs = Ok (bl, deps, n, ds) ->
  (In PUnobservable ds <-> exists b st, In b blocks /\ In st (b_stmts b) /\ unobservable_read E st = true).
Proof.
  induction blocks as [|b rest IH]; intros nobs bl deps n ds H; cbn [analyze_blocks] in H.
  - inversion H; subst. split; [intros []|intros [b [st [[] _]]]].
  - unfold bind in H. destruct (analyze_stmts E (b_stmts b) 0 (repeat None nlocals)) as [[[d1 o1] s1]| | |] eqn:EA; try discriminate.
    destruct (analyze_blocks E nlocals rest (nobs + length o1)) as [[[[bl2 d2] n2] s2]| | |] eqn:ER; try discriminate.
    inversion H; subst. clear H. rewrite in_app_iff, (analyze_stmts_unobservable _ _ _ _ _ _ _ EA), (IH _ _ _ _ _ ER). split.
    + intros [[st [X Y]]|[b' [st [X [Y Z]]]]]; [exists b, st; split; [now left|auto]|exists b', st; split; [now right|auto]].
    + intros [b' [st [[<-|X] [Y Z]]]]; [left; exists st; auto|right; exists b', st; auto].
Qed.

(* a binding is refused with the 'unobservable property' diagnostic EXACTLY when some block reads, through a pointer, a non-constant
   property that has no notify signal *)
Theorem unobservable_diagnosed E c c' ds : analyze_code_property_dependency E c = Ok (c', ds) ->
  (In PUnobservable ds <-> exists b st, In b (c_blocks c) /\ In st (b_stmts b) /\ unobservable_read E st = true).
Proof.
  unfold analyze_code_property_dependency, bind. intros H.
  destruct (analyze_blocks E (length (c_locals c)) (c_blocks c) (c_nobs c)) as [[[[bl deps] n] s]| | |] eqn:EB; try discriminate.
  inversion H; subst. exact (analyze_blocks_unobservable _ _ _ _ _ _ _ _ EB).
Qed.

(* ---- the coverage predicate as an executable checker (for the implementation's own IR dumps) ---- *)
Definition minfo_eqb (a b : minfo) : bool :=
  String.eqb (mi_name a) (mi_name b) && Nat.eqb (List.length (mi_args a)) (List.length (mi_args b))
  && (fix go (x y : list tkind) := match x, y with [], [] => true | p :: r, q :: s => tkind_eqb p q && go r s | _, _ => false end) (mi_args a) (mi_args b).
Definition mref_eqb (a b : mref) : bool := Nat.eqb (mr_class a) (mr_class b) && minfo_eqb (mr_info a) (mr_info b).
Definition dep_mem (n : string) (sig : mref) (deps : list (string * mref)) : bool := existsb (fun d => String.eqb (fst d) n && mref_eqb (snd d) sig) deps.

Fixpoint covered_b (E : cenv) (deps : list (string * mref)) (lo hi : nat) (known : list (option string)) (prev : option tstmt) (l : list tstmt) : bool :=
  match l with
  | [] => true
  | st :: r =>
      (match needs E st with
       | None => true
       | Some (ONamed x _, sig) => dep_mem x sig deps
       | Some (OLocal v _, sig) => match nth v known None with
                                   | Some n => dep_mem n sig deps
                                   | None => match prev with Some (TObserve k l' s') => Nat.eqb l' v && mref_eqb s' sig && Nat.leb lo k && Nat.ltb k hi | _ => false end
                                   end
       | Some (_, _) => false
       end)
      && covered_b E deps lo hi (known_after known st) (Some st) r
  end.
Definition code_covered_b (E : cenv) (c : code) : bool :=
  forallb (fun b => covered_b E (c_sdeps c) 0 (c_nobs c) (repeat None (List.length (c_locals c))) None (b_stmts b)) (c_blocks c).

(* ---- the executable checker decides the coverage predicate (signals taken up to their signature) ---- *)
(* a signal is identified by its class, name and argument types (what the C++ connect is written from) *)
Definition same_signal (a b : mref) : Prop :=
  mr_class a = mr_class b /\ mi_name (mr_info a) = mi_name (mr_info b) /\ mi_args (mr_info a) = mi_args (mr_info b).

Lemma args_eqb_eq : forall x y,
  (fix go (x y : list tkind) := match x, y with [], [] => true | p :: r, q :: s => tkind_eqb p q && go r s | _, _ => false end) x y = true <-> x = y.
Proof.
  induction x as [|p r IH]; destruct y as [|q s]; split; intros H; try reflexivity; try discriminate.
  - apply andb_prop in H. destruct H as [H1 H2]. apply tkind_eqb_eq in H1. apply IH in H2. subst. reflexivity.
  - inversion H; subst. apply andb_true_intro. split; [apply tkind_eqb_refl|apply IH; reflexivity].
Qed.

Lemma mref_eqb_spec a b : mref_eqb a b = true <-> same_signal a b.
Proof.
  unfold mref_eqb, minfo_eqb, same_signal. rewrite !andb_true_iff, Nat.eqb_eq, String.eqb_eq, Nat.eqb_eq, args_eqb_eq. split.
  - intros [H1 [[H2 H3] H4]]. auto.
  - intros [H1 [H2 H3]]. repeat split; auto. rewrite H3. reflexivity.
Qed.

Definition dep_in (n : string) (sig : mref) (deps : list (string * mref)) : Prop := exists sig', In (n, sig') deps /\ same_signal sig' sig.

Lemma dep_mem_spec n sig deps : dep_mem n sig deps = true <-> dep_in n sig deps.
Proof.
  unfold dep_mem, dep_in. rewrite existsb_exists. split.
  - intros [[m s'] [Hin H]]. cbn [fst snd] in H. apply andb_prop in H. destruct H as [H1 H2]. apply String.eqb_eq in H1. subst m.
    exists s'. split; [exact Hin|]. apply mref_eqb_spec. exact H2.
  - intros [s' [Hin H]]. exists (n, s'). split; [exact Hin|]. cbn [fst snd]. rewrite String.eqb_refl. apply mref_eqb_spec in H. rewrite H. reflexivity.
Qed.

(* the coverage predicate with signals taken up to their signature *)
Fixpoint covered_sig (E : cenv) (deps : list (string * mref)) (lo hi : nat) (known : list (option string)) (prev : option tstmt) (l : list tstmt) : Prop :=
  match l with
  | [] => True
  | st :: r =>
      (match needs E st with
       | None => True
       | Some (ONamed x _, sig) => dep_in x sig deps
       | Some (OLocal v _, sig) => match nth v known None with
                                   | Some n => dep_in n sig deps
                                   | None => exists k s', prev = Some (TObserve k v s') /\ same_signal s' sig /\ lo <= k < hi
                                   end
       | Some (_, _) => False
       end)
      /\ covered_sig E deps lo hi (known_after known st) (Some st) r
  end.

Lemma same_signal_refl a : same_signal a a.
Proof. repeat split. Qed.

Lemma covered_covered_sig E deps lo hi : forall l known prev, covered E deps lo hi known prev l -> covered_sig E deps lo hi known prev l.
Proof.
  induction l as [|st r IH]; intros known prev; cbn [covered covered_sig]; [auto|]. intros [H1 H2]. split; [|apply IH, H2].
  destruct (needs E st) as [[a sig]|]; [|exact I]. destruct a as [c|e v|v t|x cls|]; auto.
  - destruct (nth v known None).
    + exists sig. split; [exact H1|apply same_signal_refl].
    + destruct H1 as [k [E1 E2]]. exists k, sig. split; [exact E1|]. split; [apply same_signal_refl|exact E2].
  - exists sig. split; [exact H1|apply same_signal_refl].
Qed.

Theorem covered_b_sound E deps lo hi : forall l known prev, covered_b E deps lo hi known prev l = true <-> covered_sig E deps lo hi known prev l.
Proof.
  induction l as [|st r IH]; intros known prev; cbn [covered_b covered_sig]; [split; auto|].
  rewrite andb_true_iff, IH. apply and_iff_compat_r.
  destruct (needs E st) as [[a sig]|]; [|split; auto].
  destruct a as [c|e v|v t|x cls|]; try (split; [discriminate|contradiction]).
  - destruct (nth v known None) as [n|]; [apply dep_mem_spec|].
    destruct prev as [[l0 r0|r0|k l' s']|]; try (split; [discriminate|intros (k0 & s0 & X & _); discriminate X]).
    rewrite !andb_true_iff, Nat.eqb_eq, mref_eqb_spec, Nat.leb_le, Nat.ltb_lt. split.
    + intros [[[H1 H2] H3] H4]. subst l'. exists k, s'. split; [reflexivity|]. split; [exact H2|]. split; [exact H3|exact H4].
    + intros (k0 & s0 & X & H2 & H3). inversion X; subst. destruct H3 as [H3 H4]. split; [split; [split; [reflexivity|exact H2]|exact H3]|exact H4].
  - apply dep_mem_spec.
Qed.

Theorem code_covered_b_sound E c : code_covered_b E c = true <->
  Forall (fun b => covered_sig E (c_sdeps c) 0 (c_nobs c) (repeat None (List.length (c_locals c))) None (b_stmts b)) (c_blocks c).
Proof. unfold code_covered_b. rewrite forallb_forall, Forall_forall. split; intros H b Hb; apply covered_b_sound, H, Hb. Qed.

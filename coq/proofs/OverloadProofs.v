From Coq Require Import List String NArith Bool Arith Lia Permutation Sorting.Sorted.
From QV Require Import model.Overload.
Import ListNotations.

Lemma prefixb_refl a : prefixb a a = true.
Proof. induction a as [|x a IH]; cbn; [reflexivity|]. rewrite String.eqb_refl, IH. reflexivity. Qed.

Lemma prefixb_trans a b c : prefixb a b = true -> prefixb b c = true -> prefixb a c = true.
Proof.
  revert b c. induction a as [|x a IH]; intros b c Hab Hbc; [reflexivity|].
  destruct b as [|y b]; [discriminate|]. destruct c as [|z c]; [cbn in Hbc; discriminate|].
  cbn in *. apply andb_true_iff in Hab as [Hxy Hab]. apply andb_true_iff in Hbc as [Hyz Hbc].
  apply String.eqb_eq in Hxy. apply String.eqb_eq in Hyz. subst. rewrite String.eqb_refl. cbn. eauto.
Qed.

Lemma prefixb_length a b : prefixb a b = true -> List.length a <= List.length b.
Proof.
  revert b. induction a as [|x a IH]; intros b H; cbn; [lia|].
  destruct b as [|y b]; [discriminate|]. cbn in *. apply andb_true_iff in H as [_ H]. apply IH in H. lia.
Qed.

Lemma prefixb_same_length a b : prefixb a b = true -> List.length b <= List.length a -> a = b.
Proof.
  revert b. induction a as [|x a IH]; intros b H L.
  - destruct b; [reflexivity|cbn in L; lia].
  - destruct b as [|y b]; [discriminate|]. cbn in *. apply andb_true_iff in H as [Hxy H].
    apply String.eqb_eq in Hxy. subst. f_equal. apply IH; [assumption|lia].
Qed.

(* two prefixes of one list are comparable *)
Lemma prefixb_comparable a b c : prefixb a c = true -> prefixb b c = true -> prefixb a b = true \/ prefixb b a = true.
Proof.
  revert b c. induction a as [|x a IH]; intros b c Ha Hb; [left; reflexivity|].
  destruct b as [|y b]; [right; reflexivity|].
  destruct c as [|z c]; [discriminate|]. cbn in *.
  apply andb_true_iff in Ha as [Hx Ha]. apply andb_true_iff in Hb as [Hy Hb].
  apply String.eqb_eq in Hx. apply String.eqb_eq in Hy. subst. rewrite String.eqb_refl. cbn. eauto.
Qed.

Lemma extends_spec k m : extends k m = true <-> m_kind k = m_kind m /\ m_ret k = m_ret m /\ prefixb (m_args k) (m_args m) = true.
Proof.
  unfold extends. rewrite !andb_true_iff, N.eqb_eq, String.eqb_eq. tauto.
Qed.

Lemma extends_refl m : extends m m = true.
Proof. apply extends_spec. auto using prefixb_refl. Qed.

Lemma extends_trans a b c : extends a b = true -> extends b c = true -> extends a c = true.
Proof.
  rewrite !extends_spec. intros (K1 & R1 & P1) (K2 & R2 & P2). repeat split; try congruence. eapply prefixb_trans; eassumption.
Qed.

Lemma extends_arity a b : extends a b = true -> arity a <= arity b.
Proof. rewrite extends_spec. intros (_ & _ & P). apply prefixb_length. exact P. Qed.

(* an entry that extends a longer-or-equal one is, argument for argument, that one *)
Lemma extends_back a b : extends b a = true -> arity a <= arity b -> extends a b = true.
Proof.
  rewrite !extends_spec. intros (K & R & P) L. apply prefixb_same_length in P; [|exact L].
  repeat split; try congruence. rewrite P. apply prefixb_refl.
Qed.

(* ---- the chain ---- *)
Lemma chain_sound l : forall k m, chain k l = Some m -> In m (k :: l) /\ Forall (fun x => extends x m = true) (k :: l).
Proof.
  induction l as [|y l IH]; intros k m H; cbn in H.
  - injection H as <-. split; [left; reflexivity|]. constructor; [apply extends_refl|constructor].
  - destruct (extends k y) eqn:E; [|discriminate]. apply IH in H as [Hin Hall]. split; [right; exact Hin|].
    constructor; [|exact Hall]. inversion Hall as [|? ? Hy _]; subst. eapply extends_trans; eassumption.
Qed.

Definition ascending (l : list msig) : Prop := StronglySorted (fun a b => arity a <= arity b) l.

Lemma chain_complete l : forall k, ascending (k :: l) ->
  (forall x y, In x (k :: l) -> In y (k :: l) -> extends x y = true \/ extends y x = true) -> chain k l <> None.
Proof.
  induction l as [|y l IH]; intros k S C; cbn; [discriminate|].
  assert (E : extends k y = true).
  { inversion S as [|? ? _ Hk]; subst. inversion Hk as [|? ? Hky _]; subst.
    destruct (C k y) as [E|E]; [left; reflexivity|right; left; reflexivity|exact E|]. apply extends_back; assumption. }
  rewrite E. apply IH.
  - inversion S; assumption.
  - intros a b Ha Hb. apply C; right; assumption.
Qed.

(* ---- the sort ---- *)
Lemma insert_perm x l : Permutation (x :: l) (insert x l).
Proof.
  induction l as [|y r IH]; cbn; [reflexivity|]. destruct (Nat.leb (arity y) (arity x)); [reflexivity|].
  rewrite perm_swap. constructor. exact IH.
Qed.
Lemma sort_perm l : Permutation l (sort_desc l).
Proof. induction l as [|x r IH]; cbn; [constructor|]. rewrite <- insert_perm. constructor. exact IH. Qed.

Definition descending (l : list msig) : Prop := StronglySorted (fun a b => arity b <= arity a) l.

Lemma insert_desc x l : descending l -> descending (insert x l).
Proof.
  induction l as [|y r IH]; intros S; cbn.
  - constructor; constructor.
  - destruct (Nat.leb_spec (arity y) (arity x)) as [L|L].
    + constructor; [exact S|]. constructor; [exact L|]. inversion S as [|? ? _ Hy]; subst.
      eapply Forall_impl; [|exact Hy]. cbn. intros a Ha. lia.
    + inversion S as [|? ? Sr Hy]; subst. constructor; [apply IH; exact Sr|].
      eapply Permutation_Forall; [apply insert_perm|]. constructor; [lia|exact Hy].
Qed.
Lemma sort_desc_sorted l : descending (sort_desc l).
Proof. induction l as [|x r IH]; cbn; [constructor|]. apply insert_desc. exact IH. Qed.

Lemma sorted_app (R : msig -> msig -> Prop) l1 l2 :
  StronglySorted R l1 -> StronglySorted R l2 -> (forall a b, In a l1 -> In b l2 -> R a b) -> StronglySorted R (l1 ++ l2).
Proof.
  induction l1 as [|x r IH]; intros S1 S2 H; cbn; [exact S2|]. inversion S1 as [|? ? Sr Hx]; subst.
  constructor.
  - apply IH; [exact Sr|exact S2|]. intros a b Ha Hb. apply H; [right; exact Ha|exact Hb].
  - apply Forall_app. split; [exact Hx|]. apply Forall_forall. intros b Hb. apply H; [left; reflexivity|exact Hb].
Qed.

Lemma rev_ascending l : descending l -> ascending (rev l).
Proof.
  induction l as [|x r IH]; intros S; cbn; [constructor|]. inversion S as [|? ? Sr Hx]; subst.
  apply sorted_app; [apply IH; exact Sr|constructor; constructor|].
  intros a b Ha Hb. destruct Hb as [<-|[]]. rewrite Forall_forall in Hx. apply Hx. apply in_rev. exact Ha.
Qed.

(* ---- uniquify ---- *)
Theorem uniquify_sound ms m : uniquify ms = Some m ->
  In m ms /\ forall x, In x ms -> m_kind x = m_kind m /\ m_ret x = m_ret m /\ prefixb (m_args x) (m_args m) = true.
Proof.
  unfold uniquify. intros H.
  assert (P : forall a, In a (rev (sort_desc ms)) <-> In a ms).
  { intros a. rewrite <- in_rev. split; apply Permutation_in; [symmetry|]; apply sort_perm. }
  destruct (rev (sort_desc ms)) as [|k r] eqn:E; [discriminate|].
  apply chain_sound in H as [Hin Hall]. split; [apply P; exact Hin|].
  intros x Hx. apply P in Hx. rewrite Forall_forall in Hall. apply extends_spec. apply Hall. exact Hx.
Qed.

Corollary uniquify_most_arguments ms m : uniquify ms = Some m -> forall x, In x ms -> arity x <= arity m.
Proof.
  intros H x Hx. destruct (uniquify_sound _ _ H) as [_ A]. destruct (A x Hx) as (_ & _ & P). apply prefixb_length. exact P.
Qed.

Definition comparable (x y : msig) : Prop := extends x y = true \/ extends y x = true.

(* accepted only if the entries are pairwise default-argument variants of each other *)
Corollary uniquify_accepts_only_variants ms m : uniquify ms = Some m -> forall x y, In x ms -> In y ms -> comparable x y.
Proof.
  intros H x y Hx Hy. destruct (uniquify_sound _ _ H) as [_ A].
  destruct (A x Hx) as (Kx & Rx & Px). destruct (A y Hy) as (Ky & Ry & Py).
  destruct (prefixb_comparable _ _ _ Px Py) as [P|P]; [left|right]; apply extends_spec; repeat split; congruence.
Qed.

(* a genuine overload set -- two entries neither of which extends the other -- gets no answer *)
Corollary uniquify_rejects_ambiguous ms x y : In x ms -> In y ms -> ~ comparable x y -> uniquify ms = None.
Proof.
  intros Hx Hy N. destruct (uniquify ms) as [m|] eqn:E; [|reflexivity]. exfalso. apply N. eapply uniquify_accepts_only_variants; eassumption.
Qed.

Theorem uniquify_complete ms : ms <> [] -> (forall x y, In x ms -> In y ms -> comparable x y) -> uniquify ms <> None.
Proof.
  intros NE C. unfold uniquify.
  assert (P : forall a, In a (rev (sort_desc ms)) -> In a ms).
  { intros a. rewrite <- in_rev. apply Permutation_in. symmetry. apply sort_perm. }
  assert (S : ascending (rev (sort_desc ms))) by (apply rev_ascending, sort_desc_sorted).
  destruct (rev (sort_desc ms)) as [|k r] eqn:E.
  - exfalso. apply NE. apply (f_equal (@rev msig)) in E. rewrite rev_involutive in E. cbn in E.
    apply Permutation_nil. symmetry. rewrite <- E. apply sort_perm.
  - apply chain_complete; [exact S|]. intros x y Hx Hy. apply C; apply P; assumption.
Qed.

(* the verdict of the caller, for any list of entries *)
Theorem connect_means_unambiguous_signal ms args : callback_verdict ms = VConnect args ->
  exists m, In m ms /\ m_args m = args /\ m_kind m = 0%N /\
    forall x, In x ms -> m_kind x = 0%N /\ m_ret x = m_ret m /\ prefixb (m_args x) args = true.
Proof.
  unfold callback_verdict. intros H.
  assert (G : forall m, (In m ms /\ forall x, In x ms -> m_kind x = m_kind m /\ m_ret x = m_ret m /\ prefixb (m_args x) (m_args m) = true) ->
              (if N.eqb (m_kind m) 0 then VConnect (m_args m) else VNotSignal) = VConnect args ->
              exists m, In m ms /\ m_args m = args /\ m_kind m = 0%N /\ forall x, In x ms -> m_kind x = 0%N /\ m_ret x = m_ret m /\ prefixb (m_args x) args = true).
  { intros m [Hin A] Hv. destruct (N.eqb (m_kind m) 0) eqn:K; [|discriminate]. apply N.eqb_eq in K. injection Hv as <-.
    exists m. repeat split; try assumption; destruct (A x H0) as (a & b & c); congruence. }
  destruct ms as [|m0 [|m1 r]].
  - cbn in H. discriminate.
  - apply (G m0); [|exact H]. split; [left; reflexivity|]. intros x [<-|[]]. auto using prefixb_refl.
  - destruct (uniquify (m0 :: m1 :: r)) as [m|] eqn:E; [|discriminate]. apply (G m); [|exact H]. apply uniquify_sound. exact E.
Qed.

Example default_arguments :
  uniquify [ {| m_kind := 0; m_ret := "void"; m_args := [] |}; {| m_kind := 0; m_ret := "void"; m_args := ["int"; "bool"] |}; {| m_kind := 0; m_ret := "void"; m_args := ["int"] |} ]%string
  = Some {| m_kind := 0; m_ret := "void"; m_args := ["int"; "bool"] |}%string.
Proof. reflexivity. Qed.
Example three_way_overload :
  uniquify [ {| m_kind := 0; m_ret := "void"; m_args := [] |}; {| m_kind := 0; m_ret := "void"; m_args := ["int"] |}; {| m_kind := 0; m_ret := "void"; m_args := ["QString"] |} ]%string = None.
Proof. reflexivity. Qed.

(* TypingProofs.v -- C05: the operator-level typing decisions of the builder coincide with the declarative tables,
   on the run-time path (the emit functions), and the constant-folding path admits a type exactly when the run-time path does. *)
From Coq Require Import Lia.
From QV Require Import model.Base model.Lang model.Types model.Tir model.Ceval model.Builder spec.Typing.
Open Scope nat_scope.

Lemma prim_eqb_eq a b : prim_eqb a b = true <-> a = b.
Proof. destruct a, b; cbn; split; intros H; try discriminate; try reflexivity. Qed.
Lemma named_eqb_eq a b : named_eqb a b = true <-> a = b.
Proof.
  destruct a, b; cbn; split; intros H; try discriminate; try (inversion H; subst).
  - apply Nat.eqb_eq in H. subst. reflexivity.
  - apply Nat.eqb_refl.
  - apply Nat.eqb_eq in H. subst. reflexivity.
  - apply Nat.eqb_refl.
  - apply prim_eqb_eq in H. subst. reflexivity.
  - apply prim_eqb_eq. reflexivity.
Qed.
Lemma tkind_eqb_eq a : forall b, tkind_eqb a b = true <-> a = b.
Proof.
  induction a as [n|n|t IH]; intros [m|m|u]; cbn; split; intros H; try discriminate; try (inversion H; subst).
  - apply named_eqb_eq in H. subst. reflexivity.
  - apply named_eqb_eq. reflexivity.
  - apply named_eqb_eq in H. subst. reflexivity.
  - apply named_eqb_eq. reflexivity.
  - apply IH in H. subst. reflexivity.
  - apply IH. reflexivity.
Qed.
Lemma tkind_eqb_refl a : tkind_eqb a a = true.
Proof. apply tkind_eqb_eq. reflexivity. Qed.
Lemma tdesc_eqb_eq a b : tdesc_eqb a b = true <-> a = b.
Proof.
  destruct a, b; cbn; split; intros H; try discriminate; try reflexivity; try (inversion H; subst).
  - apply tkind_eqb_eq in H. subst. reflexivity.
  - apply tkind_eqb_refl.
Qed.

(* ---- deduce_concrete_type = common_concrete ---- *)
Lemma deduce_type_common E a b :
  match deduce_type E a b with inl t => common E a b = Some t | inr _ => common E a b = None end.
Proof.
  unfold deduce_type, common. destruct (tdesc_eqb a b) eqn:Eq; [reflexivity|].
  destruct a as [| | | |[[c|e|p]|n|t]], b as [| | | |[[c'|e'|p']|n'|t']]; cbn in *; try reflexivity; try discriminate;
    try (destruct p; cbn; reflexivity); try (destruct p'; cbn; reflexivity);
    try (destruct (is_compatible_enum E e e'); reflexivity).
Qed.

Lemma to_concrete_concrete t : match to_concrete_type t with inl k => concrete t = Some k | inr _ => concrete t = None end.
Proof. destruct t; reflexivity. Qed.

Lemma deduce_concrete_common E a b :
  match deduce_concrete_type E a b with inl t => common_concrete E a b = Some t | inr _ => common_concrete E a b = None end.
Proof.
  unfold deduce_concrete_type, common_concrete. pose proof (deduce_type_common E a b) as H.
  destruct (deduce_type E a b) as [t|e]; rewrite H; [apply to_concrete_concrete|reflexivity].
Qed.

(* ---- monadic helpers ---- *)
Definition succeeds {A} (m : M A) (s : bstate) : option A := match fst (m s) with V a => Some a | _ => None end.

Lemma m_deduce_concrete_spec E a b s :
  succeeds (m_deduce_concrete E a b) s = common_concrete E a b.
Proof.
  unfold succeeds, m_deduce_concrete. pose proof (deduce_concrete_common E a b) as H.
  destruct (deduce_concrete_type E a b) as [t|[l r|t]]; rewrite H; reflexivity.
Qed.
Lemma m_to_concrete_spec t s : succeeds (m_to_concrete t) s = concrete t.
Proof.
  unfold succeeds, m_to_concrete. pose proof (to_concrete_concrete t) as H.
  destruct (to_concrete_type t) as [k|[l r|u]]; rewrite H; reflexivity.
Qed.

Definition opclass_of (op : binop) : opclass :=
  match op with
  | BoAdd => OArith true | BoSub | BoMul | BoDiv | BoRem => OArith false
  | BoAnd | BoXor | BoOr => OBitwise
  | BoShr | BoShl => OShift
  | BoLAnd | BoLOr => OLogical
  | _ => OComparison
  end.

(* the type check that precedes emit_result in emit_binary_expression, isolated *)
Definition binary_check (E : cenv) (op : binop) (lt rt : tdesc) : M tkind :=
  match binop_class op with
  | KArith =>
      let! ty := m_deduce_concrete E lt rt in
      if is_numeric ty then ret ty
      else if tkind_eqb ty T_STRING then (match op with BoAdd => ret ty | _ => fail XUnsupportedType end)
      else fail XUnsupportedType
  | KBitwise =>
      let! ty := m_deduce_concrete E lt rt in
      if tkind_eqb ty T_BOOL || tkind_eqb ty T_INT || tkind_eqb ty T_UINT || is_enum_type ty then ret ty else fail XUnsupportedType
  | KShift =>
      let! lty := m_to_concrete lt in
      if (tkind_eqb lty T_INT || tkind_eqb lty T_UINT)
         && (tdesc_eqb rt DConstInteger || tdesc_eqb rt (DConcrete T_INT) || tdesc_eqb rt (DConcrete T_UINT))
      then ret lty else fail XUnsupportedTypes
  | KLogical => panic "builder.rs emit_binary_expression: visit_binary_logical_expression() should be called"
  | KComparison =>
      let! ty := m_deduce_concrete E lt rt in
      if tkind_eqb ty T_BOOL || is_numeric ty || tkind_eqb ty T_STRING || is_enum_type ty || tkind_is_pointer ty
      then ret T_BOOL else fail XUnsupportedType
  end.

Lemma is_kind3 c : is_kind [T_INT; T_UINT; T_DOUBLE] c = is_numeric c.
Proof. unfold is_kind, is_numeric. cbn [existsb]. rewrite orb_false_r. destruct (tkind_eqb c T_INT), (tkind_eqb c T_UINT), (tkind_eqb c T_DOUBLE); reflexivity. Qed.

(* run-time operands: the builder accepts `a op b` exactly when the table gives it a type, and that is the result type *)
Theorem binary_check_spec E op lt rt s :
  match op with BoLAnd | BoLOr => False | _ => True end ->
  succeeds (binary_check E op lt rt) s = spec_binary E (opclass_of op) lt rt.
Proof.
  intros Hop. unfold binary_check, spec_binary.
  destruct op; try contradiction; cbn [binop_class opclass_of];
    unfold succeeds, mbind;
    try (pose proof (m_deduce_concrete_spec E lt rt s) as D; unfold succeeds in D;
         destruct (m_deduce_concrete E lt rt s) as [[ty| |x] s']; cbn [fst] in D; rewrite <- D; try reflexivity;
         rewrite ?is_kind3; cbn [is_kind existsb]; rewrite ?orb_false_r;
         unfold is_enum_type, is_enum, tkind_is_pointer, is_ptr, is_numeric;
         destruct (tkind_eqb ty T_DOUBLE), (tkind_eqb ty T_INT), (tkind_eqb ty T_UINT), (tkind_eqb ty T_STRING), (tkind_eqb ty T_BOOL);
         cbn; try reflexivity; destruct ty as [[]| |]; reflexivity);
    try (pose proof (m_to_concrete_spec lt s) as D; unfold succeeds in D;
         destruct (m_to_concrete lt s) as [[ty| |x] s']; cbn [fst] in D; rewrite <- D; try reflexivity;
         cbn [is_kind existsb]; rewrite ?orb_false_r;
         destruct (tkind_eqb ty T_INT), (tkind_eqb ty T_UINT); cbn; destruct (tdesc_eqb rt DConstInteger), (tdesc_eqb rt (DConcrete T_INT)), (tdesc_eqb rt (DConcrete T_UINT)); reflexivity).
Qed.

(* emit_binary_expression is: make string literals concrete, run the type check, emit the instruction *)
Lemma emit_binary_unfold E op l r :
  emit_binary E op l r =
  (let l' := ensure_concrete_string l in let r' := ensure_concrete_string r in
   let! ty := binary_check E op (operand_tdesc l') (operand_tdesc r') in emit_result ty (RBinary op l' r')).
Proof. unfold emit_binary, binary_check. destruct (binop_class op); reflexivity. Qed.

(* ---- unary ---- *)
Definition uclass_of (op : unop) : uclass := match op with UoArithMinus | UoArithPlus => UArithC | UoBitNot => UBitC | UoLogNot => ULogC end.
Definition unary_check (op : unop) (t : tdesc) : M tkind :=
  match op with
  | UoArithMinus | UoArithPlus => let! ty := m_to_concrete t in if is_numeric ty then ret ty else fail XUnsupportedType
  | UoBitNot => let! ty := m_to_concrete t in if tkind_eqb ty T_INT || tkind_eqb ty T_UINT || is_enum_type ty then ret ty else fail XUnsupportedType
  | UoLogNot => if tdesc_eqb t (DConcrete T_BOOL) then ret T_BOOL else fail XUnsupportedType
  end.
Theorem unary_check_spec op t s : succeeds (unary_check op t) s = spec_unary (uclass_of op) t.
Proof.
  unfold unary_check, spec_unary. destruct op; cbn [uclass_of]; unfold succeeds, mbind;
    try (pose proof (m_to_concrete_spec t s) as D; unfold succeeds in D;
         destruct (m_to_concrete t s) as [[ty| |x] s']; cbn [fst] in D; rewrite <- D; try reflexivity;
         rewrite ?is_kind3; cbn [is_kind existsb]; rewrite ?orb_false_r; unfold is_enum_type, is_enum, is_numeric;
         destruct (tkind_eqb ty T_DOUBLE), (tkind_eqb ty T_INT), (tkind_eqb ty T_UINT); cbn; try reflexivity; destruct ty as [[]| |]; reflexivity).
  destruct (tdesc_eqb t (DConcrete T_BOOL)); reflexivity.
Qed.
Lemma emit_unary_unfold op a :
  emit_unary op a = (let a' := ensure_concrete_string a in let! ty := unary_check op (operand_tdesc a') in emit_result ty (RUnary op a')).
Proof. unfold emit_unary, unary_check. destruct op; reflexivity. Qed.

(* ---- subscripts ---- *)
Theorem subscript_check_spec obj ix s : succeeds (check_object_subscript_type obj ix) s = spec_subscript (operand_tdesc obj) (operand_tdesc ix).
Proof.
  unfold check_object_subscript_type, spec_subscript, succeeds, mbind.
  pose proof (m_to_concrete_spec (operand_tdesc obj) s) as D. unfold succeeds in D.
  destruct (m_to_concrete (operand_tdesc obj) s) as [[ty| |x] s']; cbn [fst] in D; rewrite <- D; try reflexivity.
  destruct ty as [n|n|e]; try reflexivity. unfold spec_index.
  destruct (operand_tdesc ix) as [t| | | |]; try reflexivity.
  destruct (tkind_eqb t T_INT || tkind_eqb t T_UINT); reflexivity.
Qed.

(* ---- assignment and casts ---- *)
Theorem is_assignable_spec E t a : is_assignable E t a = spec_assignable E t a.
Proof.
  unfold is_assignable, spec_assignable, pick_type_cast, pick_concrete_type_cast, lit_below.
  destruct a as [| | | |k].
  - destruct (tkind_eqb t T_INT) eqn:A; [apply tkind_eqb_eq in A; subst; reflexivity|].
    destruct (tkind_eqb t T_UINT) eqn:B; [apply tkind_eqb_eq in B; subst; reflexivity|]. cbn [orb].
    destruct (tkind_eqb t T_DOUBLE), (tkind_eqb t T_VOID); destruct t as [[c|e|[]]|n|u]; try reflexivity; cbn in A, B; discriminate.
  - destruct (tkind_eqb t T_STRING) eqn:A; [apply tkind_eqb_eq in A; subst; reflexivity|].
    destruct (tkind_eqb t T_VOID); destruct t as [[c|e|[]]|n|u]; try reflexivity; cbn in A; discriminate.
  - destruct t as [[c|e|p]|n|u]; try reflexivity; destruct (tkind_eqb _ T_VOID); reflexivity.
  - destruct t as [[c|e|p]|n|u]; try reflexivity; destruct (tkind_eqb _ T_VOID); reflexivity.
  - destruct (tkind_eqb t k) eqn:Eq; [reflexivity|]. cbn [orb].
    destruct t as [[c|e|p]|[c|e|p]|u], k as [[c'|e'|p']|[c'|e'|p']|u']; cbn [is_numeric tkind_eqb named_eqb prim_eqb orb andb];
      try reflexivity;
      try (destruct (is_compatible_enum E e e'); [reflexivity|]);
      try (destruct (is_derived_from E c' c); reflexivity);
      repeat match goal with |- context[prim_eqb ?x ?y] => destruct x, y; cbn [prim_eqb orb andb negb] end; try reflexivity.
  all: repeat match goal with |- context[if ?c then _ else _] => destruct c end; reflexivity.
Qed.

(* an operator admits a type on constant operands exactly when it admits it on run-time operands of that type; what the
   folding path rejects beyond that are VALUE errors (overflow, conversion), never a type the table admits *)
Definition is_type_error (e : cerr) : bool :=
  match e with CeUnsupported _ | CeUnsupported2 _ _ | CeIncompatible _ _ => true | _ => false end.
Definition no_qstring (c : constv) : Prop := match c with CQString _ => False | _ => True end.

Definition fold_binary (op : binop) (l r : constv) : constv + cerr :=
  match binop_class op with
  | KArith => eval_binary_arith op l r
  | KBitwise => eval_binary_bitwise op l r
  | KShift => eval_shift op l r
  | KLogical => inr CeUnmodelled
  | KComparison => eval_comparison op l r
  end.

Theorem const_dyn_agree E op l r : no_qstring l -> no_qstring r ->
  match op with BoLAnd | BoLOr => False | _ => True end ->
  match fold_binary op l r with
  | inl v => (* accepted: the table admits the operand types, with the same result type (a literal class of it) ... *)
      (exists t, spec_binary E (opclass_of op) (const_tdesc l) (const_tdesc r) = Some t /\ concrete (const_tdesc v) = Some t)
      (* ... with one exception: null == null is folded although nullptr_t has no concrete type *)
      \/ (l = CNull /\ r = CNull)
  | inr e => is_type_error e = true -> spec_binary E (opclass_of op) (const_tdesc l) (const_tdesc r) = None
  end.
Proof.
  intros Hl Hr Hop.
  destruct op; try contradiction; cbn [fold_binary binop_class opclass_of];
  destruct l as [bl|zl|fl|sl|ql| |], r as [br|zr|fr|sr|qr| |]; try contradiction;
  cbn [eval_binary_arith eval_binary_bitwise eval_shift eval_comparison const_tdesc is_type_error];
  try (intros _; vm_compute; reflexivity);
  try (left; eexists; split; vm_compute; reflexivity);
  try (right; split; reflexivity);
  try (unfold checked; match goal with |- context[in_i64 ?z] => destruct (in_i64 z) end;
       [left; eexists; split; vm_compute; reflexivity|intros X; discriminate]);
  try (repeat match goal with |- context[if ?c then _ else _] => destruct c end;
       try (intros X; discriminate); try (left; eexists; split; vm_compute; reflexivity)).
  all: unfold checked; match goal with |- context[in_i64 ?z] => destruct (in_i64 z) end;
       [left; eexists; split; vm_compute; reflexivity|intros X; discriminate].
Qed.

(* `e as T` is accepted exactly for the casts the documentation lists *)
Arguments is_derived_from : simpl never.
Arguments is_compatible_enum : simpl never.

Theorem pick_type_cast_spec E t a : negb (match pick_type_cast E t a with CInvalid => true | _ => false end) = spec_castable E t a.
Proof.
  unfold spec_castable. rewrite <- is_assignable_spec.
  unfold is_assignable, pick_type_cast, pick_concrete_type_cast.
  destruct a as [| | | |k].
  - destruct (tkind_eqb t T_INT), (tkind_eqb t T_UINT), (tkind_eqb t T_DOUBLE), (tkind_eqb t T_VOID); reflexivity.
  - destruct (tkind_eqb t T_STRING), (tkind_eqb t T_VOID); reflexivity.
  - destruct t as [[c|e|p]|n|u]; cbn; try reflexivity; try (destruct p; reflexivity).
  - destruct t as [[c|e|p]|n|u]; cbn; try reflexivity; try (destruct p; reflexivity).
  - unfold T_INT, T_UINT, T_DOUBLE, T_BOOL, T_VOID, T_VARIANT, T_STRING in *.
    destruct t as [[c|e|p]|[c|e|p]|u], k as [[c'|e'|p']|[c'|e'|p']|u'];
      try destruct p; try destruct p'; cbn;
      repeat (first [ reflexivity
                    | match goal with
                      | |- context[is_compatible_enum ?a ?b ?c] => destruct (is_compatible_enum a b c); cbn
                      | |- context[is_derived_from ?a ?b ?c] => destruct (is_derived_from a b c); cbn
                      | |- context[Nat.eqb ?a ?b] => destruct (Nat.eqb a b); cbn
                      | |- context[tkind_eqb ?a ?b] => destruct (tkind_eqb a b); cbn
                      end ]).
Qed.

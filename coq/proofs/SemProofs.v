(* SemProofs.v -- facts about the reference semantics model/Sem.v used by C01 / C13 / C02 *)
From Coq Require Import Lia.
From QV Require Import model.Base model.Lang model.Types model.Tir model.Ceval proofs.CevalProofs model.Sem.
Open Scope Z_scope.
Open Scope list_scope.

Definition int_ok (v : val) : Prop := match v with VI z => in_int z = true | VU z => 0 <= z < UINT_MOD | _ => True end.

Lemma mk_int_ok z v : mk_int z = Def v -> v = VI z /\ in_int z = true.
Proof. unfold mk_int. destruct (in_int z) eqn:E; intros H; inversion H; auto. Qed.
Lemma mk_uint_ok z v : mk_uint z = Def v -> exists r, v = VU r /\ 0 <= r < UINT_MOD.
Proof. unfold mk_uint. intros H. inversion H. eexists. split; [reflexivity|]. apply Z.mod_pos_bound. reflexivity. Qed.

(* the arithmetic operators never yield an out-of-range int: the result is the mathematical one, or the evaluation is undefined *)
Theorem int_arith_exact op x y v : in_int x = true -> in_int y = true ->
  match op with BAdd | BSub | BMul | BDiv | BRem | BShl => True | _ => False end ->
  arith op (VI x) (VI y) = Def v ->
  exists z, v = VI z /\ in_int z = true /\
    z = match op with BAdd => x + y | BSub => x - y | BMul => x * y | BDiv => Z.quot x y | BRem => Z.rem x y | _ => x * 2 ^ y end.
Proof.
  intros Hx Hy Hop. unfold arith, both_int.
  destruct op; try contradiction; cbn [is_arith];
    repeat match goal with |- context [if ?b then _ else _] => destruct b end; intros H; try discriminate H;
    apply mk_int_ok in H; destruct H as [-> R]; eexists; repeat split; auto.
Qed.

(* unsigned arithmetic wraps modulo 2^32 *)
Theorem uint_arith_wraps op x y v : 0 <= x < UINT_MOD -> 0 <= y < UINT_MOD ->
  match op with BAdd | BSub | BMul => True | _ => False end ->
  arith op (VU x) (VU y) = Def v ->
  v = VU ((match op with BAdd => x + y | BSub => x - y | _ => x * y end) mod UINT_MOD).
Proof. intros Hx Hy Hop. destruct op; try contradiction; cbn; intros H; inversion H; reflexivity. Qed.

(* division by zero, INT_MIN % -1 and bad shift counts are undefined, never a value *)
Theorem undefined_cases x :
  arith BDiv (VI x) (VI 0) = Undef /\ arith BRem (VI x) (VI 0) = Undef /\ arith BRem (VI INT_MIN) (VI (-1)) = Undef
  /\ arith BShl (VI x) (VI 32) = Undef /\ arith BShr (VI x) (VI (-1)) = Undef /\ arith BDiv (VU x) (VU 0) = Undef.
Proof. repeat split; reflexivity. Qed.

(* && and || are lazy: the right operand is not evaluated (so may be undefined) when the left one decides *)
Theorem and_short_circuit names this st e a b st1 : eval names this st e a = Def (VB false, st1) ->
  eval names this st e (EBinary BLAnd a b) = Def (VB false, st1).
Proof. intros H. cbn [eval]. rewrite H. reflexivity. Qed.
Theorem or_short_circuit names this st e a b st1 : eval names this st e a = Def (VB true, st1) ->
  eval names this st e (EBinary BLOr a b) = Def (VB true, st1).
Proof. intros H. cbn [eval]. rewrite H. reflexivity. Qed.
Theorem ternary_lazy names this st e c a b st1 : eval names this st e c = Def (VB true, st1) ->
  eval names this st e (ETernary c a b) = eval names this st1 e a.
Proof. intros H. cbn [eval]. rewrite H. reflexivity. Qed.

(* translation-time folding agrees with the meaning of the operators on literals: whatever Ceval folds, Sem.v denotes *)
Theorem fold_agrees_on_literals op bop x y r :
  (op = BoAdd /\ bop = BAdd) \/ (op = BoSub /\ bop = BSub) \/ (op = BoMul /\ bop = BMul) ->
  eval_binary_arith op (CInt x) (CInt y) = inl (CInt r) -> arith bop (VL x) (VL y) = Def (VL r).
Proof.
  intros [[-> ->]|[[-> ->]|[-> ->]]]; cbn [eval_binary_arith arith]; unfold checked;
    match goal with |- context [in_i64 ?z] => destruct (in_i64 z) end; intros H; inversion H; reflexivity.
Qed.

Theorem fold_agrees_on_literals_all op bop x y r :
  (op = BoAdd /\ bop = BAdd) \/ (op = BoSub /\ bop = BSub) \/ (op = BoMul /\ bop = BMul) \/ (op = BoDiv /\ bop = BDiv) \/ (op = BoRem /\ bop = BRem) ->
  eval_binary_arith op (CInt x) (CInt y) = inl (CInt r) -> arith bop (VL x) (VL y) = Def (VL r).
Proof.
  intros [[-> ->]|[[-> ->]|[[-> ->]|[[-> ->]|[-> ->]]]]]; cbn [eval_binary_arith arith]; unfold checked.
  1-3: match goal with |- context [in_i64 ?z] => destruct (in_i64 z) end; intros H; inversion H; reflexivity.
  all: destruct (y =? 0) eqn:Ey; cbn [orb]; [discriminate|];
       destruct ((x =? I64_MIN) && (y =? -1)); [discriminate|];
       match goal with |- context [in_i64 ?z] => destruct (in_i64 z) end; intros H; inversion H; reflexivity.
Qed.
Theorem fold_bitwise_agrees_on_literals op bop x y r :
  (op = BoAnd /\ bop = BAnd) \/ (op = BoOr /\ bop = BOr) \/ (op = BoXor /\ bop = BXor) ->
  eval_binary_bitwise op (CInt x) (CInt y) = inl (CInt r) -> arith bop (VL x) (VL y) = Def (VL r).
Proof. intros [[-> ->]|[[-> ->]|[-> ->]]]; cbn [eval_binary_bitwise arith]; intros H; inversion H; reflexivity. Qed.

(* a null dereference and a read of a never-assigned variable are undefined *)
Theorem null_deref_undefined names this st e o p st1 : eval names this st e o = Def (VP None, st1) -> eval names this st e (EMember o p) = Undef.
Proof. intros H. cbn [eval]. rewrite H. reflexivity. Qed.
Theorem unassigned_read_undefined names this st e x : lookup e x = Some None -> eval names this st e (EIdent x) = Undef.
Proof. intros H. cbn [eval]. rewrite H. reflexivity. Qed.

(* ---- handlers ---- *)
Definition write_prop_res (st : state) (this : nat) (a : Z) : res state := write_prop st this "i" (VI a).

Theorem parameter_is_first_argument names this st x ty a rest :
  run_handler names this st (CFunc {| f_named := false; f_return_ty := false; f_params := [(x, ty)]; f_body := FStmt (SExpr (EAssign (EMember EThis "i") (EIdent x))) |}) (VI a :: rest)
  = write_prop_res st this a.
Proof.
  unfold run_handler, write_prop_res. cbn [f_params f_body map fst length firstn combine rev app exec eval lookup].
  rewrite String.eqb_refl. cbn [rbind]. destruct (write_prop st this "i" (VI a)); reflexivity.
Qed.

Theorem return_stops names this st s : run_handler names this st (CStmt (SBlock [SReturn None; s])) [] = Def st.
Proof. reflexivity. Qed.


Lemma write_prop_trace' st o p v st' : write_prop st o p v = Def st' -> exists w, trace st' = ESet o p w :: trace st.
Proof.
  unfold write_prop. destruct (get_obj st o) as [x| |]; cbn [rbind]; try discriminate.
  destruct (coerce p v) as [w| |]; cbn [rbind]; try discriminate.
  match goal with |- context [rbind ?m _] => destruct m as [x'| |] end; cbn [rbind]; try discriminate.
  intros H. inversion H. cbn. eauto.
Qed.
Theorem two_writes_in_order names this st o1 i1 o2 i2 n1 n2 st' :
  object_named names o1 = Some i1 -> object_named names o2 = Some i2 ->
  run_handler names this st (CStmt (SBlock [SExpr (EAssign (EMember (EIdent o1) "i") (EInt n1)); SExpr (EAssign (EMember (EIdent o2) "i") (EInt n2))])) [] = Def st' ->
  exists w1 w2, trace st' = ESet i2 "i" w2 :: ESet i1 "i" w1 :: trace st.
Proof.
  intros H1 H2. unfold run_handler. cbn [exec run_seq eval lookup]. rewrite H1. cbn [rbind].
  destruct (write_prop st i1 "i" (VL (Z.of_N n1))) as [s1| |] eqn:W1; cbn [rbind]; try discriminate.
  cbn [eval lookup]. rewrite H2. cbn [rbind].
  destruct (write_prop s1 i2 "i" (VL (Z.of_N n2))) as [s2| |] eqn:W2; cbn [rbind]; try discriminate.
  intros H. inversion H; subst.
  destruct (write_prop_trace' _ _ _ _ _ W1) as [w1 T1]. destruct (write_prop_trace' _ _ _ _ _ W2) as [w2 T2].
  exists w1, w2. rewrite T2, T1. reflexivity.
Qed.

(* ---- handler parameters, in general ---- *)
Open Scope nat_scope.
(* the variables a handler function starts with: its declared parameters, bound to the LEADING signal arguments *)
Definition handler_env (ps : list (string * option (list string))) (args : list val) : list (string * option val) :=
  rev (combine (map fst ps) (map Some (firstn (length ps) args))).

Lemma run_handler_env names this st f args :
  run_handler names this st (CFunc f) args =
  match f_body f with
  | FStmt s => match exec names this st (handler_env (f_params f) args) s with Def (_, st1, _) => Def st1 | Undef => Undef | Stuck w => Stuck w end
  | FExpr x => match eval names this st (handler_env (f_params f) args) x with Def (_, st1) => Def st1 | Undef => Undef | Stuck w => Stuck w end
  end.
Proof.
  unfold run_handler, handler_env. destruct (f_body f); cbn [rbind].
  - destruct (eval _ _ _ _ _) as [[v s1]| |]; reflexivity.
  - destruct (exec _ _ _ _ _) as [[[o s1] e1]| |]; reflexivity.
Qed.

Lemma lookup_in_nodup (l : list (string * option val)) x v : NoDup (map fst l) -> In (x, v) l -> lookup l x = Some v.
Proof.
  induction l as [|[y w] r IH]; intros Hn Hin; [contradiction|]. cbn [lookup]. cbn [map fst] in Hn. inversion Hn as [|? ? Hy Hr]; subst.
  destruct Hin as [Heq|Hin].
  - inversion Heq; subst. rewrite String.eqb_refl. reflexivity.
  - destruct (String.eqb x y) eqn:Exy.
    + apply String.eqb_eq in Exy. subst y. exfalso. apply Hy. apply (in_map fst) in Hin. exact Hin.
    + apply IH; assumption.
Qed.

(* the k-th declared parameter denotes the k-th argument of the emission, whatever further arguments the signal carries *)
Theorem parameters_are_leading_arguments ps args k :
  NoDup (map fst ps) -> length ps <= length args -> k < length ps ->
  lookup (handler_env ps args) (fst (nth k ps (""%string, None))) = Some (Some (nth k args VVoid)).
Proof.
  intros Hn Hl Hk. unfold handler_env. apply lookup_in_nodup.
  - rewrite map_rev. apply NoDup_rev.
    assert (Hc : map fst (combine (map fst ps) (map Some (firstn (length ps) args))) = map fst ps).
    { assert (Hlen : length (map fst ps) = length (map Some (firstn (length ps) args))) by (rewrite !map_length, firstn_length; lia).
      revert Hlen. generalize (map Some (firstn (length ps) args)). generalize (map fst ps). clear.
      induction l as [|a l IH]; intros [|b m] H; try discriminate; [reflexivity|]. cbn. f_equal. apply IH. cbn in H. lia. }
    rewrite Hc. exact Hn.
  - apply -> in_rev.
    assert (Hx : nth k (combine (map fst ps) (map Some (firstn (length ps) args))) (""%string, Some VVoid)
                 = (fst (nth k ps (""%string, None)), Some (nth k args VVoid))).
    { rewrite combine_nth by (rewrite !map_length, firstn_length; lia).
      f_equal.
      - change (""%string) with (fst (""%string, @None (list string))) at 1. apply map_nth.
      - change (Some VVoid) with (Some (A:=val) VVoid). rewrite (map_nth (@Some val)). f_equal.
        clear Hn. revert k args Hl Hk. induction ps as [|p ps IH]; intros k args Hl Hk; [cbn in Hk; lia|].
        destruct args as [|a args]; [cbn in Hl; lia|]. destruct k as [|k]; [reflexivity|]. cbn [length firstn nth]. apply IH; cbn in *; lia. }
    rewrite <- Hx. apply nth_In. rewrite combine_length, !map_length, firstn_length. lia.
Qed.
Open Scope Z_scope.

(* BuilderOpenCount.v -- C06, "control never runs off the end": in the body the model of tir::build produces, EVERY block has a terminator.
   The argument counts open blocks (blocks whose terminator is not set): every construct of the translator closes exactly the labels it
   marked, so a successful walk leaves the count unchanged; the walk starts with one open block, the current one stays open (Good), hence at
   the end the current block is the only open one, and finalize_completion_values closes it. *)
From QV Require Import model.Sem proofs.SemProofs proofs.ScopeProofs proofs.FrameProofs.
From QV Require Import model.Base model.Lang model.Types model.Tir model.Ceval model.Builder model.Passes proofs.BuilderInv proofs.BuilderSafe proofs.BuilderSafeStmt proofs.BuilderSafeSwitch.
From Coq Require Import Arith Lia ZArith.
Open Scope nat_scope.
Open Scope list_scope.

Definition is_open (b : block) : bool := match b_term b with None => true | Some _ => false end.
Definition opens (s : bstate) : list bool := map is_open (bs_blocks s).
Definition cnt (l : list bool) : nat := List.length (filter (fun x => x) l).
Definition nopen (s : bstate) : nat := cnt (opens s).

(* ---- visitors that neither mark nor finalize: the open/closed status of every block is unchanged, whatever the outcome ---- *)
Definition Keep {A} (m : M A) : Prop := forall s, opens (snd (m s)) = opens s.

Lemma Keep_ret {A} (a : A) : Keep (ret a). Proof. intros s. reflexivity. Qed.
Lemma Keep_panic {A} x : Keep (@panic A x). Proof. intros s. reflexivity. Qed.
Lemma Keep_fail {A} d : Keep (@fail A d). Proof. intros s. reflexivity. Qed.
Lemma Keep_warn d : Keep (warn d). Proof. intros s. reflexivity. Qed.
Lemma Keep_bind {A B} (m : M A) (f : A -> M B) : Keep m -> (forall a, Keep (f a)) -> Keep (mbind m f).
Proof.
  intros Hm Hf s. unfold mbind. specialize (Hm s). destruct (m s) as [[a| |x] s1]; cbn [snd] in *; try exact Hm.
  rewrite Hf. exact Hm.
Qed.
Lemma Keep_attempt {A} (m : M A) : Keep m -> Keep (attempt m).
Proof. intros Hm s. unfold attempt. specialize (Hm s). destruct (m s) as [[a| |x] s1]; exact Hm. Qed.
Lemma Keep_get_state : Keep get_state. Proof. intros s. reflexivity. Qed.
Lemma Keep_current_ref : Keep current_ref.
Proof. intros s. unfold current_ref. destruct (bs_blocks s); reflexivity. Qed.
Lemma Keep_alloca ty : Keep (alloca ty).
Proof. intros s. unfold alloca. destruct (tkind_eqb ty T_VOID); reflexivity. Qed.
Lemma Keep_mark_exempt l : Keep (mark_exempt l). Proof. intros s. reflexivity. Qed.
Lemma Keep_visit_local_ref l : Keep (visit_local_ref l).
Proof. intros s. unfold visit_local_ref. destruct (nth_error (bs_locals s) l); reflexivity. Qed.

Lemma map_update_const {A B} (g : A -> B) (l : list A) i y : map g (update_nth l i (fun _ => y)) = update_nth (map g l) i (fun _ => g y).
Proof. revert i. induction l as [|x r IH]; intros [|i]; cbn; auto. rewrite IH. reflexivity. Qed.
Lemma update_nth_same {A} (l : list A) i x : nth_error l i = Some x -> update_nth l i (fun _ => x) = l.
Proof. revert i. induction l as [|y r IH]; intros [|i] H; cbn in *; try discriminate. - inversion H; reflexivity. - rewrite IH by exact H. reflexivity. Qed.
Lemma cnt_close (l : list bool) i : nth_error l i = Some true -> cnt (update_nth l i (fun _ => false)) + 1 = cnt l.
Proof.
  unfold cnt. revert i. induction l as [|y r IH]; intros [|i] H; cbn in *; try discriminate.
  - inversion H; subst. cbn. lia.
  - specialize (IH i H). destruct y; cbn; lia.
Qed.
Lemma cnt_app a b : cnt (a ++ b) = cnt a + cnt b.
Proof. unfold cnt. rewrite filter_app, app_length. reflexivity. Qed.

Definition openpres (f : block -> block + string) : Prop := forall b b', f b = inl b' -> is_open b' = is_open b.
Lemma Keep_with_block r site f : openpres f -> Keep (with_block r site f).
Proof.
  intros Hf s. unfold with_block. destruct (nth_error (bs_blocks s) r) as [b|] eqn:Eb; [|reflexivity].
  destruct (f b) as [b'|msg] eqn:Ef; [|reflexivity].
  unfold opens. cbn. rewrite map_update_const. apply update_nth_same. rewrite nth_error_map, Eb. cbn. f_equal. symmetry. eapply Hf. exact Ef.
Qed.
Lemma openpres_push st : openpres (b_push st).
Proof. intros b b' H. unfold b_push in H. unfold is_open. destruct (b_term b); [discriminate|]. inversion H; reflexivity. Qed.
Lemma openpres_compl a : openpres (b_set_compl a).
Proof. intros b b' H. unfold b_set_compl in H. unfold is_open. destruct (b_term b); [discriminate|]. inversion H; reflexivity. Qed.
Lemma Keep_push_statement_at r st : Keep (push_statement_at r st). Proof. apply Keep_with_block, openpres_push. Qed.
Lemma Keep_push_statement st : Keep (push_statement st).
Proof. apply Keep_bind; [apply Keep_current_ref|intros r; apply Keep_with_block, openpres_push]. Qed.
Lemma Keep_visit_function_parameter ty : Keep (visit_function_parameter ty).
Proof.
  intros s. unfold visit_function_parameter. destruct (negb _); [reflexivity|].
  pose proof (Keep_alloca ty s) as Ha. destruct (alloca ty s) as [[[l|]| |x] s1]; cbn [snd] in *; try exact Ha.
Qed.

Create HintDb keep.
#[export] Hint Resolve Keep_ret Keep_panic Keep_fail Keep_warn Keep_get_state Keep_current_ref Keep_alloca Keep_mark_exempt Keep_visit_local_ref
  Keep_push_statement_at Keep_push_statement Keep_visit_function_parameter openpres_push openpres_compl : keep.

Ltac keep_step :=
  match goal with
  | |- Keep (mbind _ _) => apply Keep_bind; [|intros]
  | |- Keep (attempt _) => apply Keep_attempt
  | |- Keep (with_block _ _ _) => apply Keep_with_block
  | |- Keep (match ?x with _ => _ end) => destruct x
  | |- Keep (if ?x then _ else _) => destruct x
  | |- Keep (let _ := _ in _) => cbv zeta
  | |- Keep _ => solve [auto with keep]
  end.
Ltac keep_auto := repeat keep_step.
Lemma Keep_emit_result ty rv : Keep (emit_result ty rv). Proof. unfold emit_result. keep_auto. Qed.
#[export] Hint Resolve Keep_emit_result : keep.
Lemma Keep_of_terr_op {A} e : Keep (@of_terr_op A e). Proof. unfold of_terr_op. keep_auto. Qed.
#[export] Hint Resolve Keep_of_terr_op : keep.
Lemma Keep_m_deduce_concrete E l r : Keep (m_deduce_concrete E l r). Proof. unfold m_deduce_concrete. keep_auto. Qed.
Lemma Keep_m_to_concrete t : Keep (m_to_concrete t). Proof. unfold m_to_concrete. keep_auto. Qed.
Lemma Keep_of_cerr {A} e : Keep (@of_cerr A e). Proof. unfold of_cerr. keep_auto. Qed.
#[export] Hint Resolve Keep_m_deduce_concrete Keep_m_to_concrete Keep_of_cerr : keep.
Lemma Keep_of_ceval r : Keep (of_ceval r). Proof. unfold of_ceval. keep_auto. Qed.
Lemma Keep_visit_integer n : Keep (visit_integer n). Proof. unfold visit_integer. keep_auto. Qed.
#[export] Hint Resolve Keep_of_ceval Keep_visit_integer : keep.
Lemma Keep_deduce_elems E : forall rest t, Keep (deduce_elems E t rest).
Proof. induction rest as [|a r IH]; intros t; cbn [deduce_elems]; keep_auto; try apply IH. Qed.
#[export] Hint Resolve Keep_deduce_elems : keep.
Lemma Keep_visit_array E els : Keep (visit_array E els). Proof. unfold visit_array. keep_auto. Qed.
Lemma Keep_visit_local_declaration ty : Keep (visit_local_declaration ty). Proof. unfold visit_local_declaration. keep_auto. Qed.
Lemma Keep_visit_local_assignment E l rhs : Keep (visit_local_assignment E l rhs). Proof. unfold visit_local_assignment. keep_auto. Qed.
Lemma Keep_visit_object_property o p : Keep (visit_object_property o p). Proof. unfold visit_object_property. keep_auto. Qed.
Lemma Keep_visit_object_property_assignment E o p r : Keep (visit_object_property_assignment E o p r). Proof. unfold visit_object_property_assignment. keep_auto. Qed.
Lemma Keep_check_object_subscript_type o i : Keep (check_object_subscript_type o i). Proof. unfold check_object_subscript_type. keep_auto. Qed.
#[export] Hint Resolve Keep_visit_array Keep_visit_local_declaration Keep_visit_local_assignment Keep_visit_object_property Keep_visit_object_property_assignment Keep_check_object_subscript_type : keep.
Lemma Keep_visit_object_subscript o i : Keep (visit_object_subscript o i). Proof. unfold visit_object_subscript. keep_auto. Qed.
Lemma Keep_visit_object_subscript_assignment E o i r : Keep (visit_object_subscript_assignment E o i r). Proof. unfold visit_object_subscript_assignment. keep_auto. Qed.
Lemma Keep_visit_object_method_call E o c ms args : Keep (visit_object_method_call E o c ms args). Proof. unfold visit_object_method_call. keep_auto. Qed.
Lemma Keep_visit_builtin_call E f args : Keep (visit_builtin_call E f args). Proof. unfold visit_builtin_call. keep_auto. Qed.
Lemma Keep_emit_unary op a : Keep (emit_unary op a). Proof. unfold emit_unary. keep_auto. Qed.
#[export] Hint Resolve Keep_visit_object_subscript Keep_visit_object_subscript_assignment Keep_visit_object_method_call Keep_visit_builtin_call Keep_emit_unary : keep.
Lemma Keep_visit_unary op a : Keep (visit_unary op a). Proof. unfold visit_unary. keep_auto. Qed.
Lemma Keep_emit_binary E op l r : Keep (emit_binary E op l r). Proof. unfold emit_binary. keep_auto. Qed.
#[export] Hint Resolve Keep_visit_unary Keep_emit_binary : keep.
Lemma Keep_visit_binary E op l r : Keep (visit_binary E op l r). Proof. unfold visit_binary. keep_auto. Qed.
Lemma Keep_visit_as E v t : Keep (visit_as E v t). Proof. unfold visit_as. keep_auto. Qed.
Lemma Keep_visit_expression_statement v : Keep (visit_expression_statement v). Proof. unfold visit_expression_statement. keep_auto. apply openpres_compl. Qed.
#[export] Hint Resolve Keep_visit_binary Keep_visit_as Keep_visit_expression_statement : keep.
Lemma Keep_check_condition_type a : Keep (check_condition_type a). Proof. unfold check_condition_type. keep_auto. Qed.
Lemma Keep_of_ref r n : Keep (of_ref r n). Proof. unfold of_ref. keep_auto. Qed.
#[export] Hint Resolve Keep_check_condition_type Keep_of_ref : keep.
Lemma Keep_process_identifier E env ct n : Keep (process_identifier E env ct n). Proof. unfold process_identifier. keep_auto. Qed.
Lemma Keep_process_namespace_name k n : Keep (process_namespace_name k n). Proof. unfold process_namespace_name. keep_auto. Qed.
Lemma Keep_process_item_property E it n k : Keep (process_item_property E it n k). Proof. unfold process_item_property. keep_auto. Qed.
Lemma Keep_process_type_annotation E p : Keep (process_type_annotation E p). Proof. unfold process_type_annotation. keep_auto. Qed.
Lemma Keep_to_rvalue i : Keep (to_rvalue i). Proof. unfold to_rvalue. keep_auto. Qed.
#[export] Hint Resolve Keep_process_identifier Keep_process_namespace_name Keep_process_item_property Keep_process_type_annotation Keep_to_rvalue : keep.

(* ---- counting: a successful run changes the number of open blocks by k ---- *)
Open Scope Z_scope.
Definition Cnt {A} (m : M A) (k : Z) : Prop := forall s a s', m s = (V a, s') -> Z.of_nat (nopen s') = Z.of_nat (nopen s) + k.

Lemma Cnt_keep {A} (m : M A) : Keep m -> Cnt m 0.
Proof. intros H s a s' E. specialize (H s). rewrite E in H. cbn in H. unfold nopen. rewrite H. lia. Qed.
Lemma Cnt_fail {A} d k : Cnt (@fail A d) k. Proof. intros s a s' E. discriminate E. Qed.
Lemma Cnt_panic {A} x k : Cnt (@panic A x) k. Proof. intros s a s' E. discriminate E. Qed.
Lemma Cnt_bind {A B} (m : M A) (f : A -> M B) k1 k2 : Cnt m k1 -> (forall a, Cnt (f a) k2) -> Cnt (mbind m f) (k1 + k2).
Proof.
  intros Hm Hf s b s' E. unfold mbind in E. destruct (m s) as [[a| |x] s1] eqn:E1; try discriminate E.
  specialize (Hm _ _ _ E1). specialize (Hf a _ _ _ E). lia.
Qed.
Lemma Cnt_bind0 {A B} (m : M A) (f : A -> M B) : Cnt m 0 -> (forall a, Cnt (f a) 0) -> Cnt (mbind m f) 0.
Proof. intros. change 0 with (0 + 0). apply Cnt_bind; assumption. Qed.
Lemma Cnt_eq {A} (m : M A) k k' : k = k' -> Cnt m k -> Cnt m k'. Proof. intros ->. auto. Qed.

Lemma Cnt_finalize_at r t : Cnt (finalize_at r t) (-1).
Proof.
  intros s a s' E. unfold finalize_at, with_block in E. destruct (nth_error (bs_blocks s) r) as [b|] eqn:Eb; [|discriminate E].
  unfold b_finalize in E. destruct (b_term b) eqn:Et; [discriminate E|]. cbn in E. inversion E; subst. clear E.
  unfold nopen, opens. cbn [bs_blocks]. rewrite map_update_const.
  change (is_open {| b_stmts := b_stmts b; b_compl := b_compl b; b_term := Some t |}) with false.
  pose proof (cnt_close (map is_open (bs_blocks s)) r) as H. rewrite nth_error_map, Eb in H. cbn [option_map] in H. unfold is_open at 1 in H. rewrite Et in H.
  specialize (H eq_refl). lia.
Qed.
Lemma Cnt_push_block : Cnt push_block 1.
Proof. intros s a s' E. inversion E; subst. unfold nopen, opens. cbn [bs_blocks]. rewrite map_app, cnt_app. cbn. lia. Qed.
Lemma Cnt_mark : Cnt mark_branch_point 1.
Proof.
  unfold mark_branch_point. apply (Cnt_eq _ (0 + (1 + 0))); [reflexivity|].
  apply Cnt_bind; [apply Cnt_keep, Keep_current_ref|intros r]. apply Cnt_bind; [apply Cnt_push_block|intros; apply Cnt_keep, Keep_ret].
Qed.

Ltac cnt0_step :=
  match goal with
  | |- Cnt (mbind _ _) 0 => apply Cnt_bind0; [|intros]
  | |- Cnt (match ?x with _ => _ end) _ => destruct x
  | |- Cnt (if ?x then _ else _) _ => destruct x
  | |- Cnt (let _ := _ in _) _ => cbv zeta
  | |- Cnt _ _ => solve [apply Cnt_keep; auto with keep | assumption | apply Cnt_fail | apply Cnt_panic]
  end.
Ltac cnt0_auto := repeat cnt0_step.

Lemma Cnt_visit_ternary E c cr a ar b br : Cnt (visit_ternary E c cr a ar b br) (-3).
Proof.
  unfold visit_ternary. cbv zeta.
  apply (Cnt_eq _ (0 + (0 + (-1 + (0 + (-1 + (0 + (-1 + 0)))))))); [reflexivity|].
  apply Cnt_bind; [apply Cnt_keep; auto with keep|intros ty].
  apply Cnt_bind; [apply Cnt_keep; auto with keep|intros sink].
  apply Cnt_bind; [apply Cnt_finalize_at|intros _].
  apply Cnt_bind; [destruct sink; apply Cnt_keep; auto with keep|intros _].
  apply Cnt_bind; [apply Cnt_finalize_at|intros _].
  apply Cnt_bind; [destruct sink; apply Cnt_keep; auto with keep|intros _].
  apply Cnt_bind; [apply Cnt_finalize_at|intros _]. apply Cnt_keep, Keep_ret.
Qed.
Lemma Cnt_visit_binary_logical is_and l lr r rr : Cnt (visit_binary_logical is_and l lr r rr) (-2).
Proof.
  unfold visit_binary_logical. destruct (negb _); [apply Cnt_panic|]. cbv zeta.
  apply (Cnt_eq _ (0 + (0 + (-1 + (0 + (-1 + 0)))))); [reflexivity|].
  apply Cnt_bind; [apply Cnt_keep; auto with keep|intros sink]. destruct sink as [sk|]; [|apply Cnt_panic].
  apply Cnt_bind; [apply Cnt_keep; auto with keep|intros _].
  apply Cnt_bind; [apply Cnt_finalize_at|intros _].
  apply Cnt_bind; [apply Cnt_keep; auto with keep|intros _].
  apply Cnt_bind; [apply Cnt_finalize_at|intros _]. apply Cnt_keep, Keep_ret.
Qed.

Lemma Cnt_go (w : expr -> M inter) l : Forall (fun x => Cnt (w x) 0) l ->
  Cnt ((fix go (l : list expr) : M (list operand) :=
          match l with [] => ret [] | x :: r => let! a := (let! i := w x in to_rvalue i) in let! rest := go r in ret (a :: rest) end) l) 0.
Proof. induction 1 as [|x r Hx Hr IH]; cnt0_auto. Qed.

Ltac cnt_leaf := first [ apply Cnt_mark | apply Cnt_visit_ternary | apply Cnt_visit_binary_logical | apply Cnt_finalize_at | apply Cnt_push_block
                        | solve [cnt0_auto] ].
Ltac cnt_chain := repeat (apply Cnt_bind; [cnt_leaf|intros]); try cnt_leaf.

Theorem Cnt_walk_expr E env : forall e, Cnt (walk_expr E env e) 0.
Proof.
  apply expr_ind'; intros; cbn [walk_expr].
  15: { (* binary *) destruct (bop_of op) as [b|]; [|apply Cnt_fail]. destruct (binop_class b) eqn:Ek; try solve [cnt0_auto].
        apply (Cnt_eq _ (0 + (1 + (0 + (1 + (0 + (0 + (-2 + 0)))))))); [reflexivity|]. cnt_chain. }
  16: { (* ternary *) apply (Cnt_eq _ (0 + (1 + (0 + (1 + (0 + (1 + (0 + (-3 + 0))))))))); [reflexivity|]. cnt_chain. }
  all: cnt0_auto.
  all: try (apply (Cnt_go (walk_expr E env)); assumption).
Qed.

Lemma Cnt_walk_rvalue E env e : Cnt (walk_rvalue E env e) 0.
Proof. unfold walk_rvalue. apply Cnt_bind0; [apply Cnt_walk_expr|intros; apply Cnt_keep; auto with keep]. Qed.

(* ---- statements: a walk that reports success leaves the count changed by k ---- *)
Definition SCk (m : M sres) (k : Z) : Prop := forall s env' s', m s = (V (true, env'), s') -> Z.of_nat (nopen s') = Z.of_nat (nopen s) + k.
Definition NoOk (m : M sres) : Prop := forall s env' s', m s <> (V (true, env'), s').

Lemma NoOk_sfail env : NoOk (sfail env). Proof. intros s env' s' H. discriminate H. Qed.
Lemma NoOk_SCk m k : NoOk m -> SCk m k. Proof. intros H s env' s' E. exfalso. exact (H _ _ _ E). Qed.
Lemma SCk_ret_true env : SCk (ret (true, env)) 0. Proof. intros s env' s' H. inversion H; subst. lia. Qed.
Lemma SCk_eq m k k' : k = k' -> SCk m k -> SCk m k'. Proof. intros ->. auto. Qed.
Lemma SCk_bind_cnt {A} (m : M A) (f : A -> M sres) k1 k2 : Cnt m k1 -> (forall a, SCk (f a) k2) -> SCk (mbind m f) (k1 + k2).
Proof.
  intros Hm Hf s env' s' E. unfold mbind in E. destruct (m s) as [[a| |x] s1] eqn:E1; try discriminate E.
  specialize (Hm _ _ _ E1). specialize (Hf a _ _ _ E). lia.
Qed.
Lemma SCk_bind_attempt {A} (m : M A) (f : option A -> M sres) k1 k2 : Cnt m k1 -> (forall a, SCk (f (Some a)) k2) -> NoOk (f None) -> SCk (mbind (attempt m) f) (k1 + k2).
Proof.
  intros Hm Hf Hn s env' s' E. unfold mbind in E. rewrite attempt_eq in E. destruct (m s) as [[a| |x] s1] eqn:E1; try discriminate E.
  - specialize (Hm _ _ _ E1). specialize (Hf a _ _ _ E). lia.
  - exfalso. exact (Hn _ _ _ E).
Qed.
Lemma SCk_bind_stmt (m : M sres) (f : sres -> M sres) k1 k2 : SCk m k1 -> (forall env1, SCk (f (true, env1)) k2) -> (forall env1, NoOk (f (false, env1))) ->
  SCk (mbind m f) (k1 + k2).
Proof.
  intros Hm Hf Hn s env' s' E. unfold mbind in E. destruct (m s) as [[[ok env1]| |x] s1] eqn:E1; try discriminate E. destruct ok.
  - specialize (Hm _ _ _ E1). specialize (Hf env1 _ _ _ E). lia.
  - exfalso. exact (Hn _ _ _ _ E).
Qed.

Lemma Cnt_visit_break x : Cnt (visit_break x) 0.
Proof. unfold visit_break. apply (Cnt_eq _ (0 + (-1 + 1))); [reflexivity|]. cnt_chain. Qed.
Lemma Cnt_visit_return v : Cnt (visit_return v) 0.
Proof. unfold visit_return. apply (Cnt_eq _ (0 + (-1 + 1))); [reflexivity|]. cnt_chain. Qed.
Lemma Cnt_visit_if c cr qr ar : Cnt (visit_if c cr qr ar) (match ar with Some _ => -3 | None => -2 end).
Proof.
  unfold visit_if. cbv zeta. destruct ar as [l|].
  - apply (Cnt_eq _ (-1 + (-1 + -1))); [reflexivity|]. cnt_chain.
  - apply (Cnt_eq _ (-1 + (-1 + 0))); [reflexivity|]. cnt_chain.
Qed.

Lemma SCk_walk_decls E k : forall vars env, SCk (walk_decls E k env vars) 0.
Proof.
  induction vars as [|[[name ty] value] rest IH]; intros env; cbn [walk_decls]; [apply SCk_ret_true|].
  apply (SCk_eq _ (0 + 0)); [reflexivity|]. apply SCk_bind_attempt; [cnt0_auto; apply Cnt_walk_rvalue| |apply NoOk_sfail].
  intros [local rvalue]. cbv zeta. destruct rvalue as [v|].
  - apply (SCk_eq _ (0 + 0)); [reflexivity|]. apply SCk_bind_attempt; [cnt0_auto|intros; apply IH|apply NoOk_sfail].
  - apply (SCk_eq _ (0 + 0)); [reflexivity|]. apply SCk_bind_cnt; [cnt0_auto|intros; apply IH].
Qed.

Lemma NoOk_bind {A} (m : M A) (f : A -> M sres) : (forall a, NoOk (f a)) -> NoOk (mbind m f).
Proof. intros Hf s env' s' E. unfold mbind in E. destruct (m s) as [[a| |x] s1]; try discriminate E. exact (Hf _ _ _ _ E). Qed.
Lemma NoOk_ret_false env : NoOk (ret (false, env)). Proof. intros s env' s' H. discriminate H. Qed.
Lemma Keep_exempt_new env env' : Keep (exempt_new env env').
Proof. unfold exempt_new. induction (firstn _ env') as [|x r IH]; cbn [fold_right]; keep_auto; try exact IH. Qed.
#[export] Hint Resolve Keep_exempt_new : keep.

Lemma SCk_nodes (w : lenv -> stmt -> M sres) l : Forall (fun x => forall env, SCk (w env x) 0) l ->
  forall env, SCk ((fix go (env : lenv) (l : list stmt) : M sres :=
                      match l with [] => ret (true, env) | x :: r => let! a := w env x in let! b := go (snd a) r in ret (fst a && fst b, snd b) end) env l) 0.
Proof.
  induction 1 as [|x r Hx Hr IH]; intros env; [apply SCk_ret_true|].
  apply (SCk_eq _ (0 + 0)); [reflexivity|]. apply SCk_bind_stmt; [apply Hx| |]; intros env1; cbn [fst snd].
  - apply (SCk_eq _ (0 + 0)); [reflexivity|]. apply SCk_bind_stmt; [apply IH| |]; intros env2; cbn [fst snd andb]; [apply SCk_ret_true|apply NoOk_ret_false].
  - apply NoOk_bind. intros b. cbn [andb]. apply NoOk_ret_false.
Qed.
Lemma SCk_gon (w : lenv -> stmt -> M sres) l : Forall (fun x => forall env, SCk (w env x) 0) l -> forall env, SCk (gon_of w env l) 0.
Proof.
  induction 1 as [|x r Hx Hr IH]; intros env; cbn [gon_of]; [apply SCk_ret_true|].
  apply (SCk_eq _ (0 + 0)); [reflexivity|]. apply SCk_bind_stmt; [apply Hx| |]; intros env1; cbn [fst snd].
  - apply (SCk_eq _ (0 + 0)); [reflexivity|]. apply SCk_bind_cnt; [apply Cnt_keep; auto with keep|intros _].
    apply (SCk_eq _ (0 + 0)); [reflexivity|]. apply SCk_bind_stmt; [apply IH| |]; intros env2; cbn [fst snd andb]; [apply SCk_ret_true|apply NoOk_ret_false].
  - apply NoOk_bind. intros _. apply NoOk_bind. intros b. cbn [andb]. apply NoOk_ret_false.
Qed.

Lemma SCk_if E env brk c t e : (forall env brk, SCk (walk_stmt E env brk t) 0) -> opt_all (fun n => forall env brk, SCk (walk_stmt E env brk n) 0) e ->
  SCk (walk_stmt E env brk (SIf c t e)) 0.
Proof.
  intros Ht He. cbn [walk_stmt].
  apply (SCk_eq _ (0 + 0)); [reflexivity|]. apply SCk_bind_attempt; [apply Cnt_walk_rvalue| |apply NoOk_sfail]. intros cond.
  apply (SCk_eq _ (1 + -1)); [reflexivity|]. apply SCk_bind_cnt; [apply Cnt_mark|intros cl].
  apply (SCk_eq _ (0 + -1)); [reflexivity|]. apply SCk_bind_stmt; [apply Ht| |]; intros env1; cbn [fst snd negb]; [|apply NoOk_sfail].
  apply (SCk_eq _ (1 + -2)); [reflexivity|]. apply SCk_bind_cnt; [apply Cnt_mark|intros ql].
  (* the optional else part: its own count depends on its result *)
  intros s env' s' H. unfold mbind at 1 in H.
  destruct e as [n|].
  - cbn [opt_all] in He. unfold mbind at 1 in H. destruct (walk_stmt E env1 brk n s) as [[[ok env2]| |x] s1] eqn:E1; try discriminate H.
    destruct ok; cbn [fst snd] in H.
    + pose proof (He _ _ _ _ _ E1) as C1. unfold mbind at 1 in H. destruct (mark_branch_point s1) as [[al| |x] s2] eqn:E2; try discriminate H.
      pose proof (Cnt_mark _ _ _ E2) as C2. cbn [ret negb] in H.
      assert (X : SCk (let! ck := attempt (check_condition_type cond) in match ck with None => sfail env2 | Some _ => let! _ := visit_if cond cl ql (Some al) in ret (true, env2) end) (0 + (-3 + 0))).
      { apply SCk_bind_attempt; [apply Cnt_keep; auto with keep| |apply NoOk_sfail]. intros _.
        apply SCk_bind_cnt; [apply (Cnt_visit_if cond cl ql (Some al))|intros _; apply SCk_ret_true]. }
      pose proof (X _ _ _ H). lia.
    + cbn [ret negb] in H. discriminate H.
  - cbn [ret negb] in H.
    assert (X : SCk (let! ck := attempt (check_condition_type cond) in match ck with None => sfail env1 | Some _ => let! _ := visit_if cond cl ql None in ret (true, env1) end) (0 + (-2 + 0))).
    { apply SCk_bind_attempt; [apply Cnt_keep; auto with keep| |apply NoOk_sfail]. intros _.
      apply SCk_bind_cnt; [apply (Cnt_visit_if cond cl ql None)|intros _; apply SCk_ret_true]. }
    pose proof (X _ _ _ H). lia.
Qed.

(* ---- switch ---- *)
Lemma Cnt_connect_cases : forall conds starts d, List.length conds = List.length starts -> Cnt (connect_cases conds starts d) (- Z.of_nat (List.length conds)).
Proof.
  induction conds as [|[c cref] cr IH]; intros [|st sr] d Hl; cbn [connect_cases]; try discriminate Hl.
  - apply Cnt_keep, Keep_ret.
  - cbv zeta. apply (Cnt_eq _ (-1 + - Z.of_nat (List.length cr))); [cbn [List.length]; lia|].
    apply Cnt_bind; [apply Cnt_finalize_at|intros _]. apply IH. cbn in Hl. lia.
Qed.
Lemma Cnt_finalize_bodies : forall bodies, Cnt (finalize_bodies bodies) (- Z.of_nat (List.length bodies)).
Proof.
  induction bodies as [|b r IH]; cbn [finalize_bodies]; [apply Cnt_keep, Keep_ret|].
  apply (Cnt_eq _ (-1 + - Z.of_nat (List.length r))); [cbn [List.length]; lia|]. apply Cnt_bind; [apply Cnt_finalize_at|intros _; exact IH].
Qed.
Lemma Cnt_visit_switch conds bodies dp h x : Cnt (visit_switch conds bodies dp h x) (- (Z.of_nat (List.length conds) + Z.of_nat (List.length bodies) + 2)).
Proof.
  unfold visit_switch. cbv zeta.
  apply (Cnt_eq _ (0 + - (Z.of_nat (List.length conds) + Z.of_nat (List.length bodies) + 2))); [lia|].
  apply Cnt_bind; [destruct dp as [p|]; [destruct (remove_nth _ p) as [[d rest]|]|]; apply Cnt_keep; auto with keep|].
  intros [starts default_start]. destruct (Nat.eqb (List.length conds) (List.length starts)) eqn:El; cbn [negb]; [|apply Cnt_panic].
  apply Nat.eqb_eq in El.
  apply (Cnt_eq _ (- Z.of_nat (List.length conds) + (- Z.of_nat (List.length bodies) + (-1 + -1)))); [lia|].
  apply Cnt_bind; [apply Cnt_connect_cases; exact El|intros _].
  apply Cnt_bind; [apply Cnt_finalize_bodies|intros _]. apply Cnt_bind; [apply Cnt_finalize_at|intros _; apply Cnt_finalize_at].
Qed.

Section SwitchCount.
  Variable E : cenv.

  Lemma conds_count env lhs : forall cases s cs s', conds_of E env lhs cases s = (V cs, s') ->
    (List.length cs <= List.length cases)%nat /\
    (List.length cs = List.length cases -> Z.of_nat (nopen s') = Z.of_nat (nopen s) + Z.of_nat (List.length cases)).
  Proof.
    induction cases as [|[cv b] r IH]; intros s cs s' H.
    - cbn in H. inversion H; subst. cbn. split; [lia|intros _; lia].
    - cbn [conds_of] in H. unfold mbind at 1 in H. rewrite attempt_eq in H.
      assert (Hh : Cnt (let! rhs := walk_rvalue E env cv in let! cond := visit_binary E BoEq lhs rhs in let! lbl := mark_branch_point in ret (cond, lbl)) 1).
      { apply (Cnt_eq _ (0 + (0 + (1 + 0)))); [reflexivity|].
        apply Cnt_bind; [apply Cnt_walk_rvalue|intros rhs]. apply Cnt_bind; [apply Cnt_keep; auto with keep|intros cond].
        apply Cnt_bind; [apply Cnt_mark|intros; apply Cnt_keep, Keep_ret]. }
      match type of H with (match (match ?m s with _ => _ end) with _ => _ end) = _ => destruct (m s) as [[c| |x] s1] eqn:E1 end; try discriminate H.
      + unfold mbind at 1 in H. match type of H with (match ?m s1 with _ => _ end) = _ => destruct (m s1) as [[rest| |x] s2] eqn:E2 end; try discriminate H.
        cbn [ret] in H. inversion H; subst. destruct (IH _ _ _ E2) as [L1 L2]. pose proof (Hh _ _ _ E1) as C1. cbn [List.length]. split; [lia|].
        intros Heq. specialize (L2 ltac:(lia)). lia.
      + unfold mbind at 1 in H. match type of H with (match ?m s1 with _ => _ end) = _ => destruct (m s1) as [[rest| |x] s2] eqn:E2 end; try discriminate H.
        cbn [ret] in H. inversion H; subst. destruct (IH _ _ _ E2) as [L1 L2]. cbn [List.length]. split; [lia|]. intros Heq. exfalso. lia.
  Qed.

  Definition dflag (default : option (nat * list stmt)) (i : nat) : nat :=
    match default with Some (pos, _) => if Nat.eqb pos i then 1 else 0 | None => 0 end.
  Fixpoint dsum (default : option (nat * list stmt)) (i n : nat) : nat :=
    match n with O => dflag default i | S k => dflag default i + dsum default (S i) k end.
  Lemma dsum_zero default i n : (match default with Some (pos, _) => (pos < i)%nat | None => True end) -> dsum default i n = O.
  Proof.
    revert i. induction n as [|k IH]; intros i H; cbn [dsum]; unfold dflag.
    - destruct default as [[pos body]|]; [|reflexivity]. destruct (Nat.eqb_spec pos i); [lia|reflexivity].
    - rewrite IH.
      + destruct default as [[pos body]|]; [|reflexivity]. destruct (Nat.eqb_spec pos i); [lia|reflexivity].
      + destruct default as [[pos body]|]; [lia|exact I].
  Qed.
  Lemma dsum_le1 default i n : (dsum default i n <= match default with Some _ => 1 | None => 0 end)%nat.
  Proof.
    revert i. induction n as [|k IH]; intros i; cbn [dsum].
    - unfold dflag. destruct default as [[pos body]|]; [destruct (Nat.eqb pos i)|]; lia.
    - unfold dflag at 1. destruct default as [[pos body]|] eqn:Ed.
      + destruct (Nat.eqb_spec pos i).
        * rewrite dsum_zero; [lia|]. lia.
        * specialize (IH (S i)). lia.
      + specialize (IH (S i)). lia.
  Qed.

  Variable w : lenv -> stmt -> M sres.
  Variable default : option (nat * list stmt).
  Hypothesis Hd : dflt_all (fun x => forall env, SCk (w env x) 0) default.

  Lemma dpart_count env i s env' ls s' : dpart w default env i s = (V (env', ls), s') ->
    (List.length ls <= dflag default i)%nat /\ (List.length ls = dflag default i -> Z.of_nat (nopen s') = Z.of_nat (nopen s) + Z.of_nat (List.length ls)).
  Proof.
    unfold dpart, dflag. destruct default as [[pos body]|]; [|intros H; inversion H; subst; cbn; split; [lia|intros; lia]].
    destruct (Nat.eqb pos i); [|intros H; inversion H; subst; cbn; split; [lia|intros; lia]].
    intros H. unfold mbind at 1 in H. destruct (gon_of w env body s) as [[[ok env1]| |x] s1] eqn:E1; try discriminate H.
    cbn [fst snd] in H. destruct ok.
    - unfold mbind at 1 in H. destruct (mark_branch_point s1) as [[l| |x] s2] eqn:E2; try discriminate H. cbn [ret] in H. inversion H; subst.
      cbn [List.length]. split; [lia|]. intros _. pose proof (SCk_gon w body Hd env _ _ _ E1). pose proof (Cnt_mark _ _ _ E2). lia.
    - cbn [ret] in H. inversion H; subst. cbn [List.length]. split; [lia|]. intros X; discriminate X.
  Qed.

  Lemma bodies_count : forall cases, Forall (fun c => Forall (fun x => forall env, SCk (w env x) 0) (snd c)) cases ->
    forall env i s ls s', bodies_of w default env i cases s = (V ls, s') ->
    (List.length ls <= List.length cases + dsum default i (List.length cases))%nat /\
    (List.length ls = (List.length cases + dsum default i (List.length cases))%nat -> Z.of_nat (nopen s') = Z.of_nat (nopen s) + Z.of_nat (List.length ls)).
  Proof.
    induction 1 as [|[cv nodes] r Hn Hr IH]; intros env i s ls s' H.
    - cbn [bodies_of] in H. unfold mbind at 1 in H. destruct (dpart w default env i s) as [[[env1 ls1]| |x] s1] eqn:E1; try discriminate H.
      cbn [ret snd] in H. inversion H; subst. cbn [List.length dsum]. destruct (dpart_count _ _ _ _ _ _ E1) as [L1 L2]. split; [lia|]. intros X. apply L2. lia.
    - cbn [bodies_of] in H. unfold mbind at 1 in H. destruct (dpart w default env i s) as [[[env1 ls1]| |x] s1] eqn:E1; try discriminate H.
      cbn [fst snd] in H. destruct (dpart_count _ _ _ _ _ _ E1) as [L1 L2].
      unfold mbind at 1 in H. destruct (gon_of w env1 nodes s1) as [[[ok env2]| |x] s2] eqn:E2; try discriminate H.
      cbn [fst snd] in H, Hn. unfold mbind at 1 in H.
      destruct ok.
      + unfold mbind at 1 in H. destruct (mark_branch_point s2) as [[l| |x] s3] eqn:E3; try discriminate H. cbn [ret] in H.
        unfold mbind at 1 in H. destruct (bodies_of w default env2 (S i) r s3) as [[rest| |x] s4] eqn:E4; try discriminate H.
        cbn [ret] in H. inversion H; subst. destruct (IH _ _ _ _ _ E4) as [L3 L4].
        rewrite !app_length. cbn [List.length dsum]. split; [lia|]. intros X.
        pose proof (SCk_gon w nodes Hn env1 _ _ _ E2). pose proof (Cnt_mark _ _ _ E3). specialize (L2 ltac:(lia)). specialize (L4 ltac:(lia)). lia.
      + cbn [ret] in H. unfold mbind at 1 in H. destruct (bodies_of w default env2 (S i) r s2) as [[rest| |x] s4] eqn:E4; try discriminate H.
        cbn [ret] in H. inversion H; subst. destruct (IH _ _ _ _ _ E4) as [L3 L4].
        rewrite !app_length. cbn [List.length dsum]. split; [lia|]. intros X. exfalso. lia.
  Qed.
End SwitchCount.

Lemma SCk_switch E v cases default :
  Forall (fun c => Forall (fun x => forall env brk, SCk (walk_stmt E env brk x) 0) (snd c)) cases ->
  dflt_all (fun x => forall env brk, SCk (walk_stmt E env brk x) 0) default ->
  forall env brk, SCk (walk_stmt E env brk (SSwitch v cases default)) 0.
Proof.
  intros Hc Hd env brk. rewrite walk_switch_eq.
  apply (SCk_eq _ (0 + 0)); [reflexivity|]. apply SCk_bind_attempt; [apply Cnt_walk_rvalue| |apply NoOk_sfail]. intros lhs.
  intros s env' s' H. unfold mbind at 1 in H.
  destruct (conds_of E env lhs cases s) as [[conds| |x] s1] eqn:E1; try discriminate H. cbv zeta in H.
  destruct (conds_count E env lhs cases _ _ _ E1) as [L1 L2].
  unfold mbind at 1 in H.
  match type of H with (match ?m s1 with _ => _ end) = _ => destruct (m s1) as [[u| |x] s2] eqn:E2 end; try discriminate H.
  assert (K2 : nopen s2 = nopen s1).
  { destruct default as [[pos body]|]; [destruct (Nat.leb pos (List.length cases))|]; inversion E2; reflexivity. }
  unfold mbind at 1 in H. destruct (mark_branch_point s2) as [[h| |x] s3] eqn:E3; try discriminate H. pose proof (Cnt_mark _ _ _ E3) as C3.
  unfold mbind at 1 in H. destruct (mark_branch_point s3) as [[ex| |x] s4] eqn:E4; try discriminate H. pose proof (Cnt_mark _ _ _ E4) as C4.
  unfold mbind at 1 in H.
  destruct (bodies_of (fun env0 x => walk_stmt E env0 (Some ex) x) default env 0 cases s4) as [[bodies| |x] s5] eqn:E5; try discriminate H.
  assert (Hd' : dflt_all (fun x => forall env0, SCk (walk_stmt E env0 (Some ex) x) 0) default).
  { destruct default as [[pos body]|]; [|exact I]. cbn in Hd |- *. eapply Forall_impl; [|exact Hd]. intros x Hx env0. apply Hx. }
  assert (Hc' : Forall (fun c => Forall (fun x => forall env0, SCk (walk_stmt E env0 (Some ex) x) 0) (snd c)) cases).
  { eapply Forall_impl; [|exact Hc]. intros c Hx. eapply Forall_impl; [|exact Hx]. intros x Hy env0. apply Hy. }
  destruct (bodies_count _ default Hd' cases Hc' _ _ _ _ _ E5) as [L3 L4].
  pose proof (dsum_le1 default 0 (List.length cases)) as D1.
  destruct (Nat.eqb (List.length cases) (List.length conds)) eqn:Q1; cbn [andb] in H; [|discriminate H].
  destruct (Nat.eqb _ (List.length bodies)) eqn:Q2; [|discriminate H].
  apply Nat.eqb_eq in Q1. apply Nat.eqb_eq in Q2.
  unfold mbind at 1 in H. destruct (visit_switch conds bodies (option_map fst default) h ex s5) as [[u2| |x] s6] eqn:E6; try discriminate H.
  pose proof (Cnt_visit_switch _ _ _ _ _ _ _ _ E6) as C6. cbn [ret] in H. inversion H; subst.
  specialize (L2 ltac:(lia)). specialize (L4 ltac:(lia)). lia.
Qed.

Theorem SCk_walk_stmt E : forall st env brk, SCk (walk_stmt E env brk st) 0.
Proof.
  apply (stmt_ind' (fun st => forall env brk, SCk (walk_stmt E env brk st) 0)).
  - (* expression statement *) intros e env brk. cbn [walk_stmt].
    apply (SCk_eq _ (0 + 0)); [reflexivity|]. apply SCk_bind_attempt; [apply Cnt_walk_rvalue| |apply NoOk_sfail]. intros v.
    apply (SCk_eq _ (0 + 0)); [reflexivity|]. apply SCk_bind_cnt; [apply Cnt_keep; auto with keep|intros _; apply SCk_ret_true].
  - (* block *) intros ss Hs env brk. cbn [walk_stmt].
    apply (SCk_eq _ (0 + 0)); [reflexivity|].
    apply SCk_bind_stmt; [apply (SCk_nodes (fun env0 x => walk_stmt E env0 brk x)); eapply Forall_impl; [|exact Hs]; intros x Hx env0; apply Hx| |];
      intros env1; cbn [fst]; [apply SCk_ret_true|apply NoOk_ret_false].
  - intros k vars env brk. cbn [walk_stmt]. apply SCk_walk_decls.
  - intros c t e Ht He env brk. apply SCk_if; assumption.
  - intros v cases default Hc Hd env brk. apply SCk_switch; assumption.
  - (* break *) intros labeled env brk. cbn [walk_stmt]. destruct labeled.
    + apply NoOk_SCk, NoOk_bind. intros _. apply NoOk_sfail.
    + destruct brk as [l|]; [|apply NoOk_SCk, NoOk_bind; intros _; apply NoOk_sfail].
      apply (SCk_eq _ (0 + 0)); [reflexivity|]. apply SCk_bind_cnt; [apply Cnt_visit_break|intros _; apply SCk_ret_true].
  - (* return *) intros e env brk. cbn [walk_stmt]. destruct e as [n|].
    + apply (SCk_eq _ (0 + 0)); [reflexivity|]. apply SCk_bind_attempt; [apply Cnt_walk_rvalue| |apply NoOk_sfail]. intros v.
      apply (SCk_eq _ (0 + 0)); [reflexivity|]. apply SCk_bind_cnt; [apply Cnt_visit_return|intros _; apply SCk_ret_true].
    + apply (SCk_eq _ (0 + 0)); [reflexivity|]. apply SCk_bind_cnt; [apply Cnt_keep, Keep_ret|]. intros [v|]; [|apply NoOk_SCk, NoOk_sfail].
      apply (SCk_eq _ (0 + 0)); [reflexivity|]. apply SCk_bind_cnt; [apply Cnt_visit_return|intros _; apply SCk_ret_true].
Qed.

(* ---- the whole translation ---- *)
Lemma Keep_walk_params E : forall params env, Keep (walk_params E env params).
Proof. induction params as [|[name ty] rest IH]; intros env; cbn [walk_params]; keep_auto; try apply IH. Qed.

Theorem SCk_walk_callback E cb : SCk (walk_callback E cb) 0.
Proof.
  destruct cb as [st|f]; cbn [walk_callback]; [apply SCk_walk_stmt|].
  destruct (f_named f); [apply NoOk_SCk, NoOk_bind; intros _; apply NoOk_sfail|].
  apply (SCk_eq _ (0 + 0)); [reflexivity|]. apply SCk_bind_cnt; [destruct (f_return_ty f); apply Cnt_keep; auto with keep|intros _].
  apply (SCk_eq _ (0 + 0)); [reflexivity|]. apply SCk_bind_cnt; [apply Cnt_keep, Keep_walk_params|intros pr].
  destruct (negb (fst pr)); [apply NoOk_SCk, NoOk_sfail|].
  destruct (f_body f) as [e|st].
  - apply (SCk_eq _ (0 + 0)); [reflexivity|]. apply SCk_bind_attempt; [apply Cnt_walk_rvalue| |apply NoOk_sfail]. intros v.
    apply (SCk_eq _ (0 + 0)); [reflexivity|]. apply SCk_bind_cnt; [apply Cnt_keep; auto with keep|intros _; apply SCk_ret_true].
  - apply SCk_walk_stmt.
Qed.

Open Scope nat_scope.
(* one open block, and the last one is open: every other block has its terminator *)
Lemma cnt_cons x l : cnt (x :: l) = (if x then 1 else 0) + cnt l.
Proof. unfold cnt. cbn [filter]. destruct x; reflexivity. Qed.
Lemma cnt_ge_of_true : forall l n, nth_error l n = Some true -> 1 <= cnt l.
Proof.
  induction l as [|a l IH]; intros [|n] H; cbn [nth_error] in H; try discriminate; rewrite cnt_cons.
  - inversion H; subst. lia.
  - specialize (IH n H). lia.
Qed.
Lemma cnt_one_last : forall (l : list bool), cnt l = 1 -> nth_error l (List.length l - 1) = Some true -> forall i, i < List.length l - 1 -> nth_error l i = Some false.
Proof.
  induction l as [|x r IH]; intros Hc Hl i Hi; [cbn in Hi; lia|].
  destruct r as [|y r']; [cbn in Hi; lia|].
  assert (Hlast : nth_error (y :: r') (List.length (y :: r') - 1) = Some true).
  { cbn [List.length] in *. replace (S (S (List.length r')) - 1) with (S (List.length r')) in Hl by lia. cbn [nth_error] in Hl.
    replace (S (List.length r') - 1) with (List.length r') by lia. exact Hl. }
  pose proof (cnt_ge_of_true _ _ Hlast) as Hge. rewrite cnt_cons in Hc.
  destruct x; [lia|]. destruct i as [|i]; [reflexivity|]. cbn [nth_error]. apply IH; [lia|exact Hlast|cbn [List.length] in *; lia].
Qed.

Definition closed_all (bl : list block) : Prop := Forall (fun b => b_term b <> None) bl.

Theorem walk_leaves_one_open E cb env s : wf_callback cb = true -> walk_callback E cb bstate0 = (V (true, env), s) ->
  forall i b, i < nb s - 1 -> nth_error (bs_blocks s) i = Some b -> b_term b <> None.
Proof.
  intros Hwf H i b Hi Hb.
  pose proof (SCk_walk_callback E cb _ _ _ H) as C. change (nopen bstate0) with 1 in C.
  pose proof (walk_callback_good E cb Hwf) as G. rewrite H in G. destruct G as (G1 & (bl & Hl & Hn) & _).
  assert (Hc : cnt (opens s) = 1) by (unfold nopen in C; lia).
  pose proof (cnt_one_last (opens s) Hc) as X. unfold opens in X. rewrite map_length in X. fold (nb s) in X.
  rewrite nth_error_map, Hl in X. cbn [option_map] in X. unfold is_open at 1 in X. rewrite Hn in X.
  specialize (X eq_refl i Hi). rewrite nth_error_map, Hb in X. cbn [option_map] in X. unfold is_open in X.
  destruct (b_term b); [discriminate|discriminate X].
Qed.

Lemma update_nth_nth {A} (l : list A) i f x : nth_error l i = Some x -> nth_error (update_nth l i f) i = Some (f x).
Proof. revert i. induction l as [|y r IH]; intros [|i] H; cbn in *; try discriminate. - inversion H; reflexivity. - apply IH. exact H. Qed.

Lemma finalize_loop_closed : forall fuel reach blocks tv taken bl, finalize_loop fuel reach blocks tv taken = Ok bl ->
  (forall i b, nth_error blocks i = Some b -> b_term b = None -> In i tv) -> closed_all bl.
Proof.
  induction fuel as [|k IH]; intros reach blocks tv taken bl H Hinv; [discriminate H|].
  cbn [finalize_loop] in H. destruct (rev tv) as [|i rest_rev] eqn:Er.
  - inversion H; subst. assert (tv = []) by (rewrite <- (rev_involutive tv), Er; reflexivity). subst tv.
    apply Forall_forall. intros b Hb Hn. apply In_nth_error in Hb. destruct Hb as [j Hj]. exact (Hinv j b Hj Hn).
  - assert (Htv : tv = rev rest_rev ++ [i]) by (rewrite <- (rev_involutive tv), Er; reflexivity).
    destruct (nth_error blocks i) as [b|] eqn:Eb; [|discriminate H].
    assert (Hstep : forall t extra, forall j bj, nth_error (update_nth blocks i (fun b => set_term b t)) j = Some bj -> b_term bj = None -> In j (rev rest_rev ++ extra)).
    { intros t extra j bj Hj Hn. destruct (Nat.eq_dec i j) as [->|Hne].
      - rewrite (update_nth_nth _ _ _ _ Eb) in Hj. inversion Hj; subst. discriminate Hn.
      - rewrite update_nth_other in Hj by exact Hne. specialize (Hinv j bj Hj Hn). rewrite Htv in Hinv. apply in_app_or in Hinv.
        destruct Hinv as [Hin|[Hin|[]]]; [apply in_or_app; left; exact Hin|congruence]. }
    assert (Hgo : forall t rest' tk, finalize_loop k reach (update_nth blocks i (fun b => set_term b t)) rest' tk = Ok bl ->
                  (exists extra, rest' = rev rest_rev ++ extra) -> closed_all bl).
    { intros t rest' tk Hf [extra ->]. eapply IH; [exact Hf|]. apply Hstep. }
    destruct (b_term b) as [[l|c a1 a2|a|]|] eqn:Et; try discriminate H.
    + destruct (b_compl b) as [a|].
      * eapply Hgo; [exact H|exists []; rewrite app_nil_r; reflexivity].
      * destruct (b_stmts b); (eapply Hgo; [exact H|]); [eexists; reflexivity|exists []; rewrite app_nil_r; reflexivity].
    + destruct (b_compl b) as [a|].
      * eapply Hgo; [exact H|exists []; rewrite app_nil_r; reflexivity].
      * destruct (b_stmts b); (eapply Hgo; [exact H|]); [eexists; reflexivity|exists []; rewrite app_nil_r; reflexivity].
Qed.

Lemma finalize_completion_closed blocks start bl : finalize_completion_values blocks start = Ok bl ->
  (forall i b, nth_error blocks i = Some b -> b_term b = None -> i = start) -> closed_all bl.
Proof.
  unfold finalize_completion_values. intros H Hinv. destruct (nth_error blocks start) as [sb|] eqn:Es; [|discriminate H].
  destruct (b_term sb) eqn:Et; [discriminate H|]. destruct (b_compl sb) as [a|].
  - inversion H; subst. apply Forall_forall. intros b Hb Hn. apply In_nth_error in Hb. destruct Hb as [j Hj].
    destruct (Nat.eq_dec start j) as [->|Hne].
    + rewrite (update_nth_nth _ _ _ _ Es) in Hj. inversion Hj; subst. discriminate Hn.
    + rewrite update_nth_other in Hj by exact Hne. apply Hne. symmetry. exact (Hinv j b Hj Hn).
  - destruct (negb (br_targets_ok blocks)); [discriminate H|]. eapply finalize_loop_closed; [exact H|].
    intros i b Hb Hn. left. symmetry. exact (Hinv i b Hb Hn).
Qed.

(* C06, second clause, first half: in every body the model of tir::build_callback produces, every block ends in a terminator *)
Theorem build_every_block_terminated E cb c : wf_callback cb = true -> bu_code (build_callback E cb) = Some c -> closed_all (c_blocks c).
Proof.
  intros Hwf H. unfold build_callback, finish in H.
  destruct (walk_callback E cb bstate0) as [[[ok env]| |x] s] eqn:Ew; try discriminate H. destruct ok; [|discriminate H].
  destruct (finalize_completion_values (bs_blocks s) (List.length (bs_blocks s) - 1)) as [bl|msg|site|] eqn:Ef; try discriminate H.
  cbn in H. inversion H; subst. cbn [c_blocks]. eapply finalize_completion_closed; [exact Ef|].
  intros i b Hb Hn. destruct (Nat.lt_ge_cases i (List.length (bs_blocks s) - 1)) as [Hlt|Hge].
  - exfalso. exact (walk_leaves_one_open E cb env s Hwf Ew i b Hlt Hb Hn).
  - assert (i < List.length (bs_blocks s)) by (apply nth_error_Some; rewrite Hb; discriminate). lia.
Qed.

(* IrTyped.v -- C05 for WHOLE programs, on the generated code: every statement the model of the translator writes is well typed by the declarative
   tables of spec/Typing.v -- an operator is applied only to operand types its table row admits and its result goes to a temporary of the row's
   result type, a copy / property write / element write / call argument is assignable, a cast is a documented cast, a condition is bool.
   The invariant WT is carried through every visitor and walker, whatever the outcome (success, failure, panic). *)
From QV Require Import model.Sem proofs.SemProofs proofs.ScopeProofs proofs.FrameProofs.
From QV Require Import model.Base model.Lang model.Types model.Tir model.Ceval model.Builder model.Passes spec.Typing proofs.TypingProofs proofs.BuilderInv proofs.BuilderSafe proofs.BuilderSafeStmt proofs.BuilderSafeSwitch proofs.TypingSound.
From Coq Require Import Arith Lia.
Open Scope nat_scope.
Open Scope list_scope.

Notation td := operand_tdesc.
Definition MATH_KINDS := [T_BOOL; T_DOUBLE; T_INT; T_UINT; T_STRING].

Definition rv_ok (E : cenv) (rv : rvalue) (ty : tkind) : Prop :=
  match rv with
  | RCopy a => spec_assignable E ty (td a) = true
  | RUnary op a => spec_unary (uclass_of op) (td a) = Some ty
  | RBinary op a b => spec_binary E (opclass_of op) (td a) (td b) = Some ty
  | RStaticCast t a | RVariantCast t a => t = ty /\ spec_castable E t (td a) = true
  | RBuiltin f args =>
      match f with
      | BfConsole _ => ty = T_VOID
      | BfMax | BfMin => exists a b, args = [a; b] /\ common_concrete E (td a) (td b) = Some ty /\ is_kind MATH_KINDS ty = true
      | BfTr => exists a, args = [a] /\ td a = DConstString /\ ty = T_STRING
      end
  | RCallMethod obj m args => ty = mi_ret (mr_info m) /\ List.length (mi_args (mr_info m)) = List.length args /\ spec_args E (mi_args (mr_info m)) (map td args) = true
  | RReadProp obj p => ty = pi_type (pr_info p) /\ pi_readable (pr_info p) = true
  | RWriteProp obj p v => ty = T_VOID /\ pi_writable (pr_info p) = true /\ spec_assignable E (pi_type (pr_info p)) (td v) = true
  | RReadSub obj i => spec_subscript (td obj) (td i) = Some ty
  | RWriteSub obj i v => ty = T_VOID /\ exists e, spec_subscript (td obj) (td i) = Some e /\ spec_assignable E e (td v) = true
  | RMakeList t args => t = ty /\ exists c, ty = TList c /\ spec_array_elem E (map td args) = Some c
  end.

Definition stmt_ok (E : cenv) (locals : list tkind) (st : tstmt) : Prop :=
  match st with
  | TAssign l rv => exists ty, nth_error locals l = Some ty /\ rv_ok E rv ty
  | TExec rv => rv_ok E rv T_VOID
  | TObserve _ _ _ => True
  end.
(* while the translator runs it never writes the unreachable marker (only the final pass of tir::build may) *)
Definition term_ok (t : option term) : Prop := match t with Some (TmBrCond c _ _) => concrete (td c) = Some T_BOOL | Some TmUnreachable => False | _ => True end.
Definition term_ok_final (t : option term) : Prop := match t with Some (TmBrCond c _ _) => concrete (td c) = Some T_BOOL | _ => True end.
Lemma term_ok_weaken t : term_ok t -> term_ok_final t.
Proof. destruct t as [[l|c a b|a|]|]; cbn; auto. Qed.
Definition block_ok (E : cenv) (locals : list tkind) (b : block) : Prop := Forall (stmt_ok E locals) (b_stmts b) /\ term_ok (b_term b).
Definition WT (E : cenv) (s : bstate) : Prop := Forall (block_ok E (bs_locals s)) (bs_blocks s).

Lemma stmt_ok_mono E locals more st : stmt_ok E locals st -> stmt_ok E (locals ++ more) st.
Proof.
  destruct st as [l rv|rv|h l m]; cbn; auto. intros [ty [H1 H2]]. exists ty. split; [|exact H2].
  rewrite nth_error_app1; [exact H1|]. apply nth_error_Some. rewrite H1. discriminate.
Qed.
Lemma block_ok_mono E locals more b : block_ok E locals b -> block_ok E (locals ++ more) b.
Proof. intros [H1 H2]. split; [|exact H2]. eapply Forall_impl; [|exact H1]. intros st. apply stmt_ok_mono. Qed.

Section W.
  Variable E : cenv.
  (* a visitor keeps the invariant whatever happens, and what it returns on success satisfies Q *)
  Definition WQ {A} (m : M A) (Q : A -> Prop) : Prop := forall s, WT E s -> WT E (snd (m s)) /\ (forall a s', m s = (V a, s') -> Q a).
  Definition WI {A} (m : M A) : Prop := WQ m (fun _ => True).

  Lemma WQ_ret {A} (a : A) (Q : A -> Prop) : Q a -> WQ (ret a) Q.
  Proof. intros Hq s W. split; [exact W|]. intros a' s' H. inversion H; subst. exact Hq. Qed.
  Lemma WQ_panic {A} x (Q : A -> Prop) : WQ (@panic A x) Q.
  Proof. intros s W. split; [exact W|]. intros a s' H. discriminate H. Qed.
  Lemma WQ_fail {A} d (Q : A -> Prop) : WQ (@fail A d) Q.
  Proof. intros s W. split; [exact W|]. intros a s' H. discriminate H. Qed.
  Lemma WQ_warn d : WI (warn d).
  Proof. intros s W. split; [exact W|auto]. Qed.
  Lemma WQ_weaken {A} (m : M A) (Q Q' : A -> Prop) : (forall a, Q a -> Q' a) -> WQ m Q -> WQ m Q'.
  Proof. intros Hq Hm s W. destruct (Hm s W) as [H1 H2]. split; [exact H1|]. intros a s' H. apply Hq. eapply H2. exact H. Qed.
  Lemma WQ_bind {A B} (m : M A) (f : A -> M B) (Q1 : A -> Prop) (Q2 : B -> Prop) : WQ m Q1 -> (forall a, Q1 a -> WQ (f a) Q2) -> WQ (mbind m f) Q2.
  Proof.
    intros Hm Hf s W. destruct (Hm s W) as [H1 H2]. unfold mbind. destruct (m s) as [[a| |x] s1] eqn:Em; cbn [snd] in *.
    - apply Hf; [eapply H2; reflexivity|exact H1].
    - split; [exact H1|]. intros b s' H. discriminate H.
    - split; [exact H1|]. intros b s' H. discriminate H.
  Qed.
  Lemma WQ_attempt {A} (m : M A) (Q : A -> Prop) : WQ m Q -> WQ (attempt m) (fun o => match o with Some a => Q a | None => True end).
  Proof.
    intros Hm s W. destruct (Hm s W) as [H1 H2]. unfold attempt. destruct (m s) as [[a| |x] s1] eqn:Em; cbn [snd] in *; (split; [exact H1|]); intros o s' H; inversion H; subst; auto.
    eapply H2. reflexivity.
  Qed.
  Lemma WQ_and {A} (m : M A) (Q1 Q2 : A -> Prop) : WQ m Q1 -> WQ m Q2 -> WQ m (fun a => Q1 a /\ Q2 a).
  Proof. intros H1 H2 s W. destruct (H1 s W) as [A1 B1]. destruct (H2 s W) as [A2 B2]. split; [exact A1|]. intros a s' H. split; eauto. Qed.

  (* ---- state-level facts ---- *)
  Lemma WT_locals_grow s s' more : bs_blocks s' = bs_blocks s -> bs_locals s' = bs_locals s ++ more -> WT E s -> WT E s'.
  Proof. intros Hb Hl W. unfold WT. rewrite Hb, Hl. eapply Forall_impl; [|exact W]. intros b. apply block_ok_mono. Qed.
  Lemma WT_same s s' : bs_blocks s' = bs_blocks s -> bs_locals s' = bs_locals s -> WT E s -> WT E s'.
  Proof. intros Hb Hl. apply (WT_locals_grow s s' []); [exact Hb|rewrite app_nil_r; exact Hl]. Qed.

  Lemma Forall_update_nth {A} (P : A -> Prop) (l : list A) i (f : A -> A) : Forall P l -> (forall x, nth_error l i = Some x -> P x -> P (f x)) -> Forall P (update_nth l i f).
  Proof.
    revert i. induction l as [|y r IH]; intros [|i] H Hf; cbn; auto.
    - inversion H; subst. constructor; [apply Hf; [reflexivity|assumption]|assumption].
    - inversion H; subst. constructor; [assumption|]. apply IH; [assumption|]. intros x Hx. apply Hf. exact Hx.
  Qed.

  Lemma WT_with_block s r site f : WT E s -> (forall b b', f b = inl b' -> block_ok E (bs_locals s) b -> block_ok E (bs_locals s) b') -> WT E (snd (with_block r site f s)).
  Proof.
    intros W Hf. unfold with_block. destruct (nth_error (bs_blocks s) r) as [b|] eqn:Eb; [|exact W].
    destruct (f b) as [b'|msg] eqn:Ef; [|exact W]. cbn. unfold WT. cbn [bs_blocks bs_locals].
    apply Forall_update_nth; [exact W|]. intros x Hx Px. rewrite Eb in Hx. inversion Hx; subst. eapply Hf; eauto.
  Qed.
  Lemma with_block_locals s r site f : bs_locals (snd (with_block r site f s)) = bs_locals s.
  Proof. unfold with_block. destruct (nth_error (bs_blocks s) r); [|reflexivity]. destruct (f b); reflexivity. Qed.

  Lemma push_ok st locals b b' : b_push st b = inl b' -> stmt_ok E locals st -> block_ok E locals b -> block_ok E locals b'.
  Proof.
    unfold b_push. destruct (b_term b) eqn:Et; [discriminate|]. intros H Hs [H1 H2]. inversion H; subst. split; cbn [b_stmts b_term]; [|exact I].
    apply Forall_app. split; [exact H1|constructor; [exact Hs|constructor]].
  Qed.
  Lemma finalize_ok t locals b b' : b_finalize t b = inl b' -> term_ok (Some t) -> block_ok E locals b -> block_ok E locals b'.
  Proof. unfold b_finalize. destruct (b_term b); [discriminate|]. intros H Ht [H1 H2]. inversion H; subst. split; cbn [b_stmts b_term]; assumption. Qed.
  Lemma compl_ok a locals b b' : b_set_compl a b = inl b' -> block_ok E locals b -> block_ok E locals b'.
  Proof. unfold b_set_compl. destruct (b_term b); [discriminate|]. intros H [H1 H2]. inversion H; subst. split; cbn [b_stmts b_term]; [assumption|exact I]. Qed.

  Lemma WT_push_statement_at s r st : WT E s -> stmt_ok E (bs_locals s) st -> WT E (snd (push_statement_at r st s)).
  Proof. intros W Hs. apply WT_with_block; [exact W|]. intros b b' Hb. eapply push_ok; eauto. Qed.
  Lemma WT_push_statement s st : WT E s -> stmt_ok E (bs_locals s) st -> WT E (snd (push_statement st s)).
  Proof.
    intros W Hs. unfold push_statement, mbind, current_ref. destruct (bs_blocks s) eqn:Eb; [exact W|]. rewrite <- Eb.
    apply WT_with_block; [exact W|]. intros b0 b' Hb. eapply push_ok; eauto.
  Qed.
  Lemma WT_finalize_at s r t : WT E s -> term_ok (Some t) -> WT E (snd (finalize_at r t s)).
  Proof. intros W Ht. apply WT_with_block; [exact W|]. intros b b' Hb. eapply finalize_ok; eauto. Qed.
  Lemma push_statement_locals s st : bs_locals (snd (push_statement st s)) = bs_locals s.
  Proof. unfold push_statement, mbind, current_ref. destruct (bs_blocks s) eqn:Eb; [reflexivity|]. apply with_block_locals. Qed.

  Lemma WI_finalize_at r t : term_ok (Some t) -> WI (finalize_at r t).
  Proof. intros Ht s W. split; [apply WT_finalize_at; assumption|auto]. Qed.
  Lemma WI_push_block : WI push_block.
  Proof.
    intros s W. split; [|auto]. unfold WT. cbn. apply Forall_app. split; [exact W|]. constructor; [|constructor]. split; [constructor|exact I].
  Qed.
  Lemma WI_current_ref : WI current_ref.
  Proof. intros s W. unfold current_ref. destruct (bs_blocks s); (split; [exact W|auto]). Qed.
  Lemma WI_mark : WI mark_branch_point.
  Proof. unfold mark_branch_point. eapply WQ_bind; [apply WI_current_ref|intros r _]. eapply WQ_bind; [apply WI_push_block|intros u _]. apply WQ_ret. exact I. Qed.
  Lemma WI_mark_exempt l : WI (mark_exempt l).
  Proof. intros s W. split; [|auto]. eapply WT_same; [| |exact W]; reflexivity. Qed.
  Lemma WI_alloca ty : WI (alloca ty).
  Proof.
    intros s W. split; [|auto]. unfold alloca. destruct (tkind_eqb ty T_VOID); [exact W|]. cbn. eapply (WT_locals_grow s _ [ty]); [reflexivity|reflexivity|exact W].
  Qed.
  Lemma WQ_visit_local_ref l : WQ (visit_local_ref l) (fun a => True).
  Proof. intros s W. unfold visit_local_ref. destruct (nth_error (bs_locals s) l); (split; [exact W|auto]). Qed.

  (* the one place results are written: a fresh temporary of the type the check computed *)
  Lemma WQ_emit_result ty rv : rv_ok E rv ty -> WQ (emit_result ty rv) (fun a => concrete (td a) = Some ty).
  Proof.
    intros Hrv s W. split; [|intros a s' H; eapply emit_result_desc; exact H].
    unfold emit_result, mbind, alloca. destruct (tkind_eqb ty T_VOID) eqn:Ev.
    - apply tkind_eqb_eq in Ev. subst ty.
      assert (W1 : WT E (snd (push_statement (TExec rv) s))) by (apply WT_push_statement; [exact W|exact Hrv]).
      destruct (push_statement (TExec rv) s) as [[u| |x] s1]; exact W1.
    - set (s1 := {| bs_blocks := bs_blocks s; bs_locals := bs_locals s ++ [ty]; bs_nparams := bs_nparams s; bs_diags := bs_diags s; bs_exempt := bs_exempt s |}).
      assert (W1 : WT E s1) by (eapply (WT_locals_grow s s1 [ty]); [reflexivity|reflexivity|exact W]).
      cbn [local_index].
      assert (W2 : WT E (snd (push_statement (TAssign (List.length (bs_locals s)) rv) s1))).
      { apply WT_push_statement; [exact W1|]. exists ty. split; [|exact Hrv]. cbn [bs_locals s1]. rewrite nth_error_app2 by apply le_n. rewrite Nat.sub_diag. reflexivity. }
      destruct (push_statement (TAssign (List.length (bs_locals s)) rv) s1) as [[u| |x] s2]; exact W2.
  Qed.

  (* ---- visitors that only report (no block, no local is touched) ---- *)
  Definition Pure {A} (m : M A) : Prop := forall s, bs_blocks (snd (m s)) = bs_blocks s /\ bs_locals (snd (m s)) = bs_locals s.
  Lemma Pure_ret {A} (a : A) : Pure (ret a). Proof. intros s. split; reflexivity. Qed.
  Lemma Pure_fail {A} d : Pure (@fail A d). Proof. intros s. split; reflexivity. Qed.
  Lemma Pure_panic {A} x : Pure (@panic A x). Proof. intros s. split; reflexivity. Qed.
  Lemma Pure_warn d : Pure (warn d). Proof. intros s. split; reflexivity. Qed.
  Lemma Pure_bind {A B} (m : M A) (f : A -> M B) : Pure m -> (forall a, Pure (f a)) -> Pure (mbind m f).
  Proof.
    intros Hm Hf s. unfold mbind. destruct (Hm s) as [H1 H2]. destruct (m s) as [[a| |x] s1]; cbn [snd] in *; auto.
    destruct (Hf a s1) as [H3 H4]. split; congruence.
  Qed.
  Lemma Pure_attempt {A} (m : M A) : Pure m -> Pure (attempt m).
  Proof. intros Hm s. unfold attempt. specialize (Hm s). destruct (m s) as [[a| |x] s1]; exact Hm. Qed.
  Create HintDb pure.
  Hint Resolve Pure_ret Pure_fail Pure_panic Pure_warn : pure.
  Ltac pure_step :=
    match goal with
    | |- Pure (mbind _ _) => apply Pure_bind; [|intros]
    | |- Pure (attempt _) => apply Pure_attempt
    | |- Pure (match ?x with _ => _ end) => destruct x
    | |- Pure (if ?x then _ else _) => destruct x
    | |- Pure (let _ := _ in _) => cbv zeta
    | |- Pure _ => solve [auto with pure]
    end.
  Ltac pure_auto := repeat pure_step.

  Lemma WQ_pure {A} (m : M A) (Q : A -> Prop) : Pure m -> (forall s a s', m s = (V a, s') -> Q a) -> WQ m Q.
  Proof. intros Hp Hq s W. destruct (Hp s) as [H1 H2]. split; [eapply WT_same; eauto|]. intros a s' H. eapply Hq. exact H. Qed.
  Lemma succeeds_of {A} (m : M A) s a s' : m s = (V a, s') -> succeeds m s = Some a.
  Proof. intros H. unfold succeeds. rewrite H. reflexivity. Qed.

  Lemma Pure_of_terr_op {A} e : Pure (@of_terr_op A e). Proof. unfold of_terr_op. pure_auto. Qed.
  Hint Resolve Pure_of_terr_op : pure.
  Lemma Pure_m_deduce_concrete l r : Pure (m_deduce_concrete E l r). Proof. unfold m_deduce_concrete. pure_auto. Qed.
  Lemma Pure_m_to_concrete t : Pure (m_to_concrete t). Proof. unfold m_to_concrete. pure_auto. Qed.
  Lemma Pure_of_cerr {A} e : Pure (@of_cerr A e). Proof. unfold of_cerr. pure_auto. Qed.
  Hint Resolve Pure_m_deduce_concrete Pure_m_to_concrete Pure_of_cerr : pure.
  Lemma Pure_of_ceval r : Pure (of_ceval r). Proof. unfold of_ceval. pure_auto. Qed.
  Lemma Pure_visit_integer n : Pure (visit_integer n). Proof. unfold visit_integer. pure_auto. Qed.
  Hint Resolve Pure_of_ceval Pure_visit_integer : pure.
  Lemma Pure_deduce_elems : forall rest t, Pure (deduce_elems E t rest).
  Proof. induction rest as [|a r IH]; intros t; cbn [deduce_elems]; pure_auto; try apply IH. Qed.
  Lemma Pure_binary_check op lt rt : Pure (binary_check E op lt rt). Proof. unfold binary_check. pure_auto. Qed.
  Lemma Pure_unary_check op t : Pure (unary_check op t). Proof. unfold unary_check. pure_auto. Qed.
  Lemma Pure_check_object_subscript_type o i : Pure (check_object_subscript_type o i). Proof. unfold check_object_subscript_type. pure_auto. Qed.
  Lemma Pure_check_condition_type a : Pure (check_condition_type a). Proof. unfold check_condition_type. pure_auto. Qed.
  Lemma Pure_of_ref r n : Pure (of_ref r n). Proof. unfold of_ref. pure_auto. Qed.
  Hint Resolve Pure_deduce_elems Pure_binary_check Pure_unary_check Pure_check_object_subscript_type Pure_check_condition_type Pure_of_ref : pure.
  Lemma Pure_process_identifier env ct n : Pure (process_identifier E env ct n). Proof. unfold process_identifier. pure_auto. Qed.
  Lemma Pure_process_namespace_name k n : Pure (process_namespace_name k n). Proof. unfold process_namespace_name. pure_auto. Qed.
  Lemma Pure_process_item_property it n k : Pure (process_item_property E it n k). Proof. unfold process_item_property. pure_auto. Qed.
  Lemma Pure_process_type_annotation p : Pure (process_type_annotation E p). Proof. unfold process_type_annotation. pure_auto. Qed.
  Hint Resolve Pure_process_identifier Pure_process_namespace_name Pure_process_item_property Pure_process_type_annotation : pure.
  Lemma WI_pure {A} (m : M A) : Pure m -> WI m.
  Proof. intros Hp. apply WQ_pure; auto. Qed.

  (* ---- operators ---- *)
  Lemma WQ_emit_unary op a : WQ (emit_unary op a) (fun _ => True).
  Proof.
    rewrite emit_unary_unfold. cbv zeta.
    eapply WQ_bind with (Q1 := fun ty => spec_unary (uclass_of op) (td (ensure_concrete_string a)) = Some ty).
    - apply WQ_pure; [apply Pure_unary_check|]. intros s ty s' H. rewrite <- (unary_check_spec op _ s). apply succeeds_of with (s' := s'). exact H.
    - intros ty Hty. eapply WQ_weaken; [|apply WQ_emit_result; exact Hty]. auto.
  Qed.
  Lemma WI_visit_unary op a : WI (visit_unary op a).
  Proof. unfold visit_unary. destruct a; try apply WQ_emit_unary. apply WI_pure. pure_auto. Qed.

  Lemma WQ_emit_binary op l r : match op with BoLAnd | BoLOr => False | _ => True end ->
    WQ (emit_binary E op l r) (fun res => exists ty, spec_binary E (opclass_of op) (td (ensure_concrete_string l)) (td (ensure_concrete_string r)) = Some ty /\ concrete (td res) = Some ty).
  Proof.
    intros Hop. rewrite emit_binary_unfold. cbv zeta.
    eapply WQ_bind with (Q1 := fun ty => spec_binary E (opclass_of op) (td (ensure_concrete_string l)) (td (ensure_concrete_string r)) = Some ty).
    - apply WQ_pure; [apply Pure_binary_check|]. intros s ty s' H. rewrite <- (binary_check_spec E op _ _ s Hop). apply succeeds_of with (s' := s'). exact H.
    - intros ty Hty. eapply WQ_weaken; [|apply WQ_emit_result; exact Hty]. intros a Ha. exists ty. auto.
  Qed.
  Lemma spec_cmp_bool a b t : spec_binary E OComparison a b = Some t -> t = T_BOOL.
  Proof. cbn [spec_binary]. repeat match goal with |- context [match ?x with _ => _ end] => destruct x end; intros H; inversion H; reflexivity. Qed.

  Definition is_bool (a : operand) : Prop := concrete (td a) = Some T_BOOL.

  Lemma inr_inl_neq {A B} (a : B) (b : A) : @inr A B a = inl b -> False.
  Proof. intros H. discriminate H. Qed.
  Lemma eval_comparison_bool op l r v : eval_comparison op l r = inl v -> exists b, v = CBool b.
  Proof.
    unfold eval_comparison. destruct l, r; intros H;
      match type of H with inr _ = inl _ => exfalso; exact (inr_inl_neq _ _ H) | inl _ = inl _ => apply inl_inv0 in H; rewrite <- H; eexists; reflexivity end.
  Qed.

  (* a non-logical binary node; a comparison yields a bool *)
  Lemma WQ_visit_binary b l r : binop_class b <> KLogical -> WQ (visit_binary E b l r) (fun res => binop_class b = KComparison -> is_bool res).
  Proof.
    intros Hk.
    assert (Hop : match b with BoLAnd | BoLOr => False | _ => True end) by (destruct b; try exact I; exfalso; apply Hk; reflexivity).
    assert (Hdyn : WQ (emit_binary E b l r) (fun res => binop_class b = KComparison -> is_bool res)).
    { eapply WQ_weaken; [|apply WQ_emit_binary; exact Hop]. intros res (ty & H1 & H2) Hc. unfold is_bool. rewrite H2.
      assert (opclass_of b = OComparison) as Ho by (destruct b; try discriminate Hc; reflexivity). rewrite Ho in H1. rewrite (spec_cmp_bool _ _ _ H1). reflexivity. }
    unfold visit_binary. destruct l as [cl| | | |]; try exact Hdyn. destruct r as [cr| | | |]; try exact Hdyn.
    destruct (binop_class b) eqn:Ek; try (apply WQ_pure; [pure_auto|]; intros s a s' H Hc; discriminate Hc).
    apply WQ_pure; [pure_auto|]. intros s a s' H _. unfold of_ceval in H. destruct (eval_comparison b cl cr) as [v|e] eqn:Ev.
    - destruct (eval_comparison_bool _ _ _ _ Ev) as [bb ->]. inversion H; subst. reflexivity.
    - exfalso. destruct e; cbn in H; discriminate H.
  Qed.

  Lemma assignable_bool_bool : spec_assignable E T_BOOL (DConcrete T_BOOL) = true.
  Proof. reflexivity. Qed.

  Lemma WQ_visit_binary_logical is_and lhs lr rhs rr : WQ (visit_binary_logical is_and lhs lr rhs rr) is_bool.
  Proof.
    intros s W. split; [|intros a s' H; unfold is_bool; exact (proj2 (visit_binary_logical_sound E _ _ _ _ _ _ _ _ H))].
    unfold visit_binary_logical.
    destruct (tdesc_eqb (td lhs) (DConcrete T_BOOL)) eqn:El; cbn [andb negb]; [|exact W].
    destruct (tdesc_eqb (td rhs) (DConcrete T_BOOL)) eqn:Er; cbn [andb negb]; [|exact W].
    apply tdesc_eqb_eq in El. apply tdesc_eqb_eq in Er. cbv zeta. unfold mbind at 1. unfold alloca. change (tkind_eqb T_BOOL T_VOID) with false. cbn iota.
    set (s1 := {| bs_blocks := bs_blocks s; bs_locals := bs_locals s ++ [T_BOOL]; bs_nparams := bs_nparams s; bs_diags := bs_diags s; bs_exempt := bs_exempt s |}).
    assert (W1 : WT E s1) by (eapply (WT_locals_grow s s1 [T_BOOL]); [reflexivity|reflexivity|exact W]).
    cbn [local_index].
    assert (Hl : forall st, bs_locals st = bs_locals s1 -> nth_error (bs_locals st) (List.length (bs_locals s)) = Some T_BOOL).
    { intros st ->. cbn [bs_locals s1]. rewrite nth_error_app2 by apply le_n. rewrite Nat.sub_diag. reflexivity. }
    unfold mbind at 1.
    pose proof (WT_push_statement_at s1 lr (TAssign (List.length (bs_locals s)) (RCopy (OConst (CBool (negb is_and))))) W1
                  ltac:(exists T_BOOL; split; [apply Hl; reflexivity|reflexivity])) as W2.
    pose proof (with_block_locals s1 lr "push_statement_at" (b_push (TAssign (List.length (bs_locals s)) (RCopy (OConst (CBool (negb is_and))))))) as L2.
    fold (push_statement_at lr (TAssign (List.length (bs_locals s)) (RCopy (OConst (CBool (negb is_and)))))) in L2.
    destruct (push_statement_at lr (TAssign (List.length (bs_locals s)) (RCopy (OConst (CBool (negb is_and))))) s1) as [[u| |x] s2]; cbn [snd] in *; try exact W2.
    unfold mbind at 1.
    pose proof (WT_finalize_at s2 lr (TmBrCond lhs (if is_and then S lr else S rr) (if is_and then S rr else S lr)) W2 ltac:(cbn; rewrite El; reflexivity)) as W3.
    pose proof (with_block_locals s2 lr "finalize" (b_finalize (TmBrCond lhs (if is_and then S lr else S rr) (if is_and then S rr else S lr)))) as L3.
    fold (finalize_at lr (TmBrCond lhs (if is_and then S lr else S rr) (if is_and then S rr else S lr))) in L3.
    destruct (finalize_at lr (TmBrCond lhs (if is_and then S lr else S rr) (if is_and then S rr else S lr)) s2) as [[u2| |x] s3]; cbn [snd] in *; try exact W3.
    unfold mbind at 1.
    pose proof (WT_push_statement_at s3 rr (TAssign (List.length (bs_locals s)) (RCopy rhs)) W3
                  ltac:(exists T_BOOL; split; [apply Hl; congruence|cbn; rewrite Er; reflexivity])) as W4.
    destruct (push_statement_at rr (TAssign (List.length (bs_locals s)) (RCopy rhs)) s3) as [[u3| |x] s4]; cbn [snd] in *; try exact W4.
    unfold mbind at 1.
    pose proof (WT_finalize_at s4 rr (TmBr (S rr)) W4 I) as W5.
    destruct (finalize_at rr (TmBr (S rr)) s4) as [[u4| |x] s5]; cbn [snd] in *; exact W5.
  Qed.

  (* ---- sequences of block edits under a fixed table of locals ---- *)
  Definition WL (L : list tkind) {A} (m : M A) : Prop := forall s, WT E s -> bs_locals s = L -> WT E (snd (m s)) /\ bs_locals (snd (m s)) = L.
  Lemma WL_ret L {A} (a : A) : WL L (ret a). Proof. intros s W HL. auto. Qed.
  Lemma WL_panic L {A} x : WL L (@panic A x). Proof. intros s W HL. auto. Qed.
  Lemma WL_fail L {A} d : WL L (@fail A d). Proof. intros s W HL. split; [exact W|exact HL]. Qed.
  Lemma WL_bind L {A B} (m : M A) (f : A -> M B) : WL L m -> (forall a, WL L (f a)) -> WL L (mbind m f).
  Proof.
    intros Hm Hf s W HL. destruct (Hm s W HL) as [H1 H2]. unfold mbind. destruct (m s) as [[a| |x] s1]; cbn [snd] in *; auto.
    apply Hf; assumption.
  Qed.
  Lemma WL_push_at L r st : stmt_ok E L st -> WL L (push_statement_at r st).
  Proof. intros Hs s W HL. split; [apply WT_push_statement_at; [exact W|rewrite HL; exact Hs]|unfold push_statement_at; rewrite with_block_locals; exact HL]. Qed.
  Lemma WL_finalize L r t : term_ok (Some t) -> WL L (finalize_at r t).
  Proof. intros Ht s W HL. split; [apply WT_finalize_at; assumption|unfold finalize_at; rewrite with_block_locals; exact HL]. Qed.
  Lemma WL_current_ref L : WL L current_ref.
  Proof. intros s W HL. unfold current_ref. destruct (bs_blocks s); auto. Qed.
  Lemma WL_push_block L : WL L push_block.
  Proof. intros s W HL. split; [exact (proj1 (WI_push_block s W))|exact HL]. Qed.
  Lemma WL_WT L {A} (m : M A) s : WL L m -> WT E s -> bs_locals s = L -> WT E (snd (m s)).
  Proof. intros H W HL. exact (proj1 (H s W HL)). Qed.
  Lemma WI_of_WL {A} (m : M A) : (forall L, WL L m) -> WI m.
  Proof. intros H s W. split; [exact (proj1 (H (bs_locals s) s W eq_refl))|auto]. Qed.

  Lemma common_assignable a b t : common_concrete E a b = Some t -> spec_assignable E t a = true /\ spec_assignable E t b = true.
  Proof.
    unfold common_concrete, common. destruct (tdesc_eqb a b) eqn:Eq.
    - apply tdesc_eqb_eq in Eq. subst b. destruct a as [| | | |k]; cbn; intros H; inversion H; subst; try (split; reflexivity).
      rewrite tkind_eqb_refl. auto.
    - destruct a as [| | | |ka]; destruct b as [| | | |kb]; cbn [concrete lit_below]; try discriminate.
      + (* literal integer, concrete *) destruct kb as [[c|e|p]|n|u]; try discriminate; destruct p; try discriminate; intros H; inversion H; subst; split; reflexivity.
      + destruct kb as [[c|e|p]|n|u]; try discriminate; destruct p; try discriminate; intros H; inversion H; subst; split; reflexivity.
      + destruct kb as [[c|e|p]|n|u]; try discriminate; intros H; inversion H; subst; split; cbn [spec_assignable lit_below]; rewrite ?tkind_eqb_refl; reflexivity.
      + destruct kb as [[c|e|p]|n|u]; try discriminate; intros H; inversion H; subst; split; cbn [spec_assignable lit_below]; rewrite ?tkind_eqb_refl; reflexivity.
      + destruct ka as [[c|e|p]|n|u]; try discriminate; destruct p; try discriminate; intros H; inversion H; subst; split; reflexivity.
      + destruct ka as [[c|e|p]|n|u]; try discriminate; destruct p; try discriminate; intros H; inversion H; subst; split; reflexivity.
      + destruct ka as [[c|e|p]|n|u]; try discriminate; intros H; inversion H; subst; split; cbn [spec_assignable lit_below]; rewrite ?tkind_eqb_refl; reflexivity.
      + destruct ka as [[c|e|p]|n|u]; try discriminate; intros H; inversion H; subst; split; cbn [spec_assignable lit_below]; rewrite ?tkind_eqb_refl; reflexivity.
      + destruct ka as [[c|e|p]|n|u]; try discriminate. destruct kb as [[c'|e'|p']|n'|u']; try discriminate.
        destruct (is_compatible_enum E e e') eqn:Ec; [|discriminate]. intros H. inversion H; subst. cbn [spec_assignable]. rewrite tkind_eqb_refl, Ec.
        split; [reflexivity|apply orb_true_r].
  Qed.

  (* c ? a : b -- the caller has checked that c is bool *)
  Lemma WI_visit_ternary cond cr conseq qr alt ar : is_bool cond -> WI (visit_ternary E cond cr conseq qr alt ar).
  Proof.
    intros Hb. unfold visit_ternary. cbv zeta.
    eapply WQ_bind with (Q1 := fun ty => common_concrete E (td (ensure_concrete_string conseq)) (td (ensure_concrete_string alt)) = Some ty).
    { apply WQ_pure; [apply Pure_m_deduce_concrete|]. intros s ty s' H. rewrite <- (m_deduce_concrete_spec E _ _ s). apply succeeds_of with (s' := s'). exact H. }
    intros ty Hty. destruct (common_assignable _ _ _ Hty) as [A1 A2].
    intros s W. split; [|auto]. unfold mbind at 1. unfold alloca. destruct (tkind_eqb ty T_VOID) eqn:Ev.
    - (* void: no sink *)
      apply (WL_WT (bs_locals s)); [|exact W|reflexivity].
      apply WL_bind; [apply WL_finalize; exact Hb|intros _]. apply WL_bind; [apply WL_ret|intros _]. apply WL_bind; [apply WL_finalize; exact I|intros _].
      apply WL_bind; [apply WL_ret|intros _]. apply WL_bind; [apply WL_finalize; exact I|intros _]. apply WL_ret.
    - set (s1 := {| bs_blocks := bs_blocks s; bs_locals := bs_locals s ++ [ty]; bs_nparams := bs_nparams s; bs_diags := bs_diags s; bs_exempt := bs_exempt s |}).
      assert (W1 : WT E s1) by (eapply (WT_locals_grow s s1 [ty]); [reflexivity|reflexivity|exact W]).
      assert (Hl : nth_error (bs_locals s ++ [ty]) (List.length (bs_locals s)) = Some ty) by (rewrite nth_error_app2 by apply le_n; rewrite Nat.sub_diag; reflexivity).
      apply (WL_WT (bs_locals s ++ [ty])); [|exact W1|reflexivity]. cbn [local_index].
      apply WL_bind; [apply WL_finalize; exact Hb|intros _].
      apply WL_bind; [apply WL_push_at; exists ty; split; [exact Hl|exact A1]|intros _]. apply WL_bind; [apply WL_finalize; exact I|intros _].
      apply WL_bind; [apply WL_push_at; exists ty; split; [exact Hl|exact A2]|intros _]. apply WL_bind; [apply WL_finalize; exact I|intros _]. apply WL_ret.
  Qed.

  Lemma WI_visit_if cond cr qr ar : is_bool cond -> WI (visit_if cond cr qr ar).
  Proof.
    intros Hb. apply WI_of_WL. intros L. unfold visit_if. apply WL_bind; [apply WL_finalize; exact Hb|intros _]. cbv zeta.
    apply WL_bind; [apply WL_finalize; exact I|intros _]. destruct ar; [apply WL_finalize; exact I|apply WL_ret].
  Qed.
  Lemma WI_connect_cases : forall conds starts d, Forall (fun c => is_bool (fst c)) conds -> WI (connect_cases conds starts d).
  Proof.
    intros conds starts d Hc. apply WI_of_WL. intros L. revert starts. induction Hc as [|[c cref] cr Hx Hr IH]; intros [|st sr]; cbn [connect_cases]; try apply WL_ret.
    cbv zeta. apply WL_bind; [apply WL_finalize; exact Hx|intros _; apply IH].
  Qed.
  Lemma WI_finalize_bodies : forall bodies, WI (finalize_bodies bodies).
  Proof. intros bodies. apply WI_of_WL. intros L. induction bodies as [|b r IH]; cbn [finalize_bodies]; [apply WL_ret|]. apply WL_bind; [apply WL_finalize; exact I|intros _; exact IH]. Qed.
  Lemma WI_visit_switch conds bodies dp h x : Forall (fun c => is_bool (fst c)) conds -> WI (visit_switch conds bodies dp h x).
  Proof.
    intros Hc. unfold visit_switch. cbv zeta.
    eapply WQ_bind with (Q1 := fun _ => True); [apply WI_pure; destruct dp as [p|]; [destruct (remove_nth _ p) as [[d rest]|]|]; auto with pure|].
    intros [starts ds] _. destruct (negb _); [apply WQ_panic|].
    eapply WQ_bind; [apply WI_connect_cases; exact Hc|intros _ _]. eapply WQ_bind; [apply WI_finalize_bodies|intros _ _].
    eapply WQ_bind; [apply WI_finalize_at; exact I|intros _ _]. apply WI_finalize_at. exact I.
  Qed.
  Lemma WI_visit_break x : WI (visit_break x).
  Proof. apply WI_of_WL. intros L. unfold visit_break. apply WL_bind; [apply WL_current_ref|intros r]. apply WL_bind; [apply WL_finalize; exact I|intros _; apply WL_push_block]. Qed.
  Lemma WI_visit_return v : WI (visit_return v).
  Proof. apply WI_of_WL. intros L. unfold visit_return. apply WL_bind; [apply WL_current_ref|intros r]. apply WL_bind; [apply WL_finalize; exact I|intros _; apply WL_push_block]. Qed.
  Lemma WI_visit_expression_statement v : WI (visit_expression_statement v).
  Proof.
    intros s W. split; [|auto]. unfold visit_expression_statement, mbind, current_ref. destruct (bs_blocks s) eqn:Eb; [exact W|]. rewrite <- Eb.
    apply WT_with_block; [exact W|]. intros b0 b' Hb. eapply compl_ok. exact Hb.
  Qed.

  (* ---- casts, lists, variables, properties, subscripts, calls ---- *)
  Lemma WI_visit_as value ty : WI (visit_as E value ty).
  Proof.
    unfold visit_as. cbv zeta.
    pose proof (pick_type_cast_spec E ty (td (ensure_concrete_string value))) as Hs. pose proof (is_assignable_spec E ty (td (ensure_concrete_string value))) as Ha.
    unfold is_assignable in Ha.
    destruct (pick_type_cast E ty (td (ensure_concrete_string value))) eqn:Ep; cbn [negb] in Hs.
    - apply WQ_ret. exact I.
    - eapply WQ_weaken; [|apply WQ_emit_result; cbn; symmetry; exact Ha]. auto.
    - eapply WQ_weaken; [|apply WQ_emit_result; cbn; split; [reflexivity|symmetry; exact Hs]]. auto.
    - eapply WQ_weaken; [|apply WQ_emit_result; cbn; split; [reflexivity|symmetry; exact Hs]]. auto.
    - apply WQ_fail.
  Qed.

  Lemma WI_visit_array elements : WI (visit_array E elements).
  Proof.
    unfold visit_array. cbv zeta. destruct (map ensure_concrete_string elements) as [|a r] eqn:Em; [apply WQ_ret; exact I|].
    eapply WQ_bind with (Q1 := fun t => spec_elems E (td a) (map td r) = Some t).
    { apply WQ_pure; [apply Pure_deduce_elems|]. intros s t s' H. eapply deduce_elems_spec. exact H. }
    intros t Ht. eapply WQ_bind with (Q1 := fun c => concrete t = Some c).
    { apply WQ_pure; [apply Pure_m_to_concrete|]. intros s c s' H. rewrite <- (m_to_concrete_spec t s). apply succeeds_of with (s' := s'). exact H. }
    intros c Hc. eapply WQ_weaken; [|apply WQ_emit_result]; [auto|]. cbn. split; [reflexivity|]. exists c. split; [reflexivity|]. rewrite Ht. exact Hc.
  Qed.

  Lemma WI_visit_local_declaration ty : WI (visit_local_declaration ty).
  Proof. unfold visit_local_declaration. eapply WQ_bind; [apply WI_alloca|intros a _]. destruct a; [apply WQ_ret; exact I|apply WQ_fail]. Qed.
  Lemma WI_visit_function_parameter ty : WI (visit_function_parameter ty).
  Proof.
    intros s W. split; [|auto]. unfold visit_function_parameter. destruct (negb _); [exact W|].
    pose proof (proj1 (WI_alloca ty s W)) as W1. destruct (alloca ty s) as [[[l|]| |x] s1]; cbn [snd] in *; try exact W1.
  Qed.
  Lemma WI_visit_local_assignment l rhs : WI (visit_local_assignment E l rhs).
  Proof.
    intros s W. split; [|auto]. unfold visit_local_assignment, mbind at 1, visit_local_ref.
    destruct (nth_error (bs_locals s) l) as [t|] eqn:En; [|exact W]. cbv zeta. rewrite is_assignable_spec.
    destruct (spec_assignable E t (td (ensure_concrete_string rhs))) eqn:Ea; [|exact W].
    unfold mbind.
    pose proof (WT_push_statement s (TAssign l (RCopy (ensure_concrete_string rhs))) W ltac:(exists t; split; [exact En|exact Ea])) as W1.
    destruct (push_statement (TAssign l (RCopy (ensure_concrete_string rhs))) s) as [[u| |x] s1]; exact W1.
  Qed.
  Lemma WI_visit_object_property o p : WI (visit_object_property o p).
  Proof.
    unfold visit_object_property. destruct (pi_readable (pr_info p)) eqn:Er; cbn [negb]; [|apply WQ_fail].
    eapply WQ_weaken; [|apply WQ_emit_result; cbn; split; [reflexivity|exact Er]]. auto.
  Qed.
  Lemma WI_visit_object_property_assignment o p r : WI (visit_object_property_assignment E o p r).
  Proof.
    unfold visit_object_property_assignment. destruct (pi_writable (pr_info p)) eqn:Ew; cbn [negb]; [|apply WQ_fail]. cbv zeta. rewrite is_assignable_spec.
    destruct (spec_assignable E (pi_type (pr_info p)) (td (ensure_concrete_string r))) eqn:Ea; [|apply WQ_fail].
    eapply WQ_weaken; [|apply WQ_emit_result; cbn; auto]. auto.
  Qed.
  Lemma WQ_check_subscript o i : WQ (check_object_subscript_type o i) (fun e => spec_subscript (td o) (td i) = Some e).
  Proof. apply WQ_pure; [apply Pure_check_object_subscript_type|]. intros s e s' H. rewrite <- (subscript_check_spec o i s). apply succeeds_of with (s' := s'). exact H. Qed.
  Lemma WI_visit_object_subscript o i : WI (visit_object_subscript o i).
  Proof. unfold visit_object_subscript. eapply WQ_bind; [apply WQ_check_subscript|intros e He]. eapply WQ_weaken; [|apply WQ_emit_result; exact He]. auto. Qed.
  Lemma WI_visit_object_subscript_assignment o i r : WI (visit_object_subscript_assignment E o i r).
  Proof.
    unfold visit_object_subscript_assignment. eapply WQ_bind; [apply WQ_check_subscript|intros e He]. rewrite is_assignable_spec.
    destruct (spec_assignable E e (td r)) eqn:Ea; [|apply WQ_fail].
    intros s W. split; [|auto]. unfold mbind.
    pose proof (WT_push_statement s (TExec (RWriteSub o i r)) W ltac:(cbn; split; [reflexivity|exists e; auto])) as W1.
    destruct (push_statement (TExec (RWriteSub o i r)) s) as [[u| |x] s1]; exact W1.
  Qed.
  Lemma WI_visit_object_method_call obj cls ms args : WI (visit_object_method_call E obj cls ms args).
  Proof.
    unfold visit_object_method_call. cbv zeta.
    match goal with |- context [find ?f ms] => destruct (find f ms) as [m|] eqn:Ef end; [|apply WQ_fail].
    apply find_some in Ef. destruct Ef as [_ Ef]. apply andb_prop in Ef. destruct Ef as [E1 E2]. apply Nat.eqb_eq in E1. rewrite args_assignable_spec in E2.
    eapply WQ_weaken; [|apply WQ_emit_result; cbn; auto]. auto.
  Qed.
  Lemma WI_visit_builtin_call f args : WI (visit_builtin_call E f args).
  Proof.
    unfold visit_builtin_call. destruct f.
    - match goal with |- context [existsb ?g args] => destruct (existsb g args) end; [apply WQ_fail|].
      eapply WQ_weaken; [|apply WQ_emit_result]; [auto|]. reflexivity.
    - destruct (map ensure_concrete_string args) as [|a [|b [|c r]]]; try apply WQ_fail.
      eapply WQ_bind with (Q1 := fun ty => common_concrete E (td a) (td b) = Some ty).
      { apply WQ_pure; [apply Pure_m_deduce_concrete|]. intros s ty s' H. rewrite <- (m_deduce_concrete_spec E _ _ s). apply succeeds_of with (s' := s'). exact H. }
      intros ty Hty. destruct (tkind_eqb ty T_BOOL || tkind_eqb ty T_DOUBLE || tkind_eqb ty T_INT || tkind_eqb ty T_UINT || tkind_eqb ty T_STRING) eqn:Ek; [|apply WQ_fail].
      eapply WQ_weaken; [|apply WQ_emit_result]; [auto|]. cbn [rv_ok]. exists a, b. split; [reflexivity|]. split; [exact Hty|].
      unfold is_kind, MATH_KINDS. cbn [existsb]. rewrite orb_false_r, <- Ek, !orb_assoc. reflexivity.
    - destruct (map ensure_concrete_string args) as [|a [|b [|c r]]]; try apply WQ_fail.
      eapply WQ_bind with (Q1 := fun ty => common_concrete E (td a) (td b) = Some ty).
      { apply WQ_pure; [apply Pure_m_deduce_concrete|]. intros s ty s' H. rewrite <- (m_deduce_concrete_spec E _ _ s). apply succeeds_of with (s' := s'). exact H. }
      intros ty Hty. destruct (tkind_eqb ty T_BOOL || tkind_eqb ty T_DOUBLE || tkind_eqb ty T_INT || tkind_eqb ty T_UINT || tkind_eqb ty T_STRING) eqn:Ek; [|apply WQ_fail].
      eapply WQ_weaken; [|apply WQ_emit_result]; [auto|]. cbn [rv_ok]. exists a, b. split; [reflexivity|]. split; [exact Hty|].
      unfold is_kind, MATH_KINDS. cbn [existsb]. rewrite orb_false_r, <- Ek, !orb_assoc. reflexivity.
    - destruct args as [|a [|b r]]; try apply WQ_fail. destruct (td a) eqn:Ea; try apply WQ_fail.
      eapply WQ_weaken; [|apply WQ_emit_result]; [auto|]. cbn [rv_ok]. exists a. auto.
  Qed.
  Lemma WI_to_rvalue i : WI (to_rvalue i).
  Proof.
    unfold to_rvalue. destruct i; try apply WQ_fail; try (apply WQ_ret; exact I).
    - apply WQ_visit_local_ref. - apply WI_visit_object_property. - apply WI_visit_object_subscript.
  Qed.

  (* ---- walkers ---- *)
  Lemma WI_bind {A B} (m : M A) (f : A -> M B) : WI m -> (forall a, WI (f a)) -> WI (mbind m f).
  Proof. intros Hm Hf. eapply WQ_bind; [exact Hm|intros a _; apply Hf]. Qed.
  Lemma WI_attempt {A} (m : M A) : WI m -> WI (attempt m).
  Proof. intros Hm. eapply WQ_weaken; [|apply WQ_attempt; exact Hm]. auto. Qed.
  Lemma WI_ret {A} (a : A) : WI (ret a). Proof. apply WQ_ret. exact I. Qed.
  Lemma WI_fail {A} d : WI (@fail A d). Proof. apply WQ_fail. Qed.
  Lemma WI_panic {A} x : WI (@panic A x). Proof. apply WQ_panic. Qed.
  Lemma WI_check_condition a : WI (check_condition_type a). Proof. apply WI_pure, Pure_check_condition_type. Qed.
  Lemma WQ_check_condition a : WQ (check_condition_type a) (fun _ => is_bool a).
  Proof.
    apply WQ_pure; [apply Pure_check_condition_type|]. intros s u s' H. unfold check_condition_type in H.
    destruct (tdesc_eqb (td a) (DConcrete T_BOOL)) eqn:Eq; [|discriminate H]. apply tdesc_eqb_eq in Eq. unfold is_bool. rewrite Eq. reflexivity.
  Qed.
  Lemma WI_visit_binary b l r : binop_class b <> KLogical -> WI (visit_binary E b l r).
  Proof. intros Hk. eapply WQ_weaken; [|apply WQ_visit_binary; exact Hk]. auto. Qed.
  Lemma WI_visit_integer n : WI (visit_integer n). Proof. apply WI_pure, Pure_visit_integer. Qed.
  Lemma WI_process_identifier env ct n : WI (process_identifier E env ct n). Proof. apply WI_pure, Pure_process_identifier. Qed.
  Lemma WI_process_namespace_name k n : WI (process_namespace_name k n). Proof. apply WI_pure, Pure_process_namespace_name. Qed.
  Lemma WI_process_item_property it n k : WI (process_item_property E it n k). Proof. apply WI_pure, Pure_process_item_property. Qed.
  Lemma WI_process_type_annotation p : WI (process_type_annotation E p). Proof. apply WI_pure, Pure_process_type_annotation. Qed.
  Lemma WI_visit_local_ref l : WI (visit_local_ref l). Proof. apply WQ_visit_local_ref. Qed.

  Create HintDb wi.
  Hint Resolve WI_ret WI_fail WI_panic WQ_warn WI_mark WI_mark_exempt WI_alloca WI_visit_local_ref WI_visit_unary WI_visit_as WI_visit_array WI_visit_local_declaration
    WI_visit_function_parameter WI_visit_local_assignment WI_visit_object_property WI_visit_object_property_assignment WI_visit_object_subscript
    WI_visit_object_subscript_assignment WI_visit_object_method_call WI_visit_builtin_call WI_to_rvalue WI_check_condition WI_visit_integer
    WI_process_identifier WI_process_namespace_name WI_process_item_property WI_process_type_annotation WI_visit_break WI_visit_return
    WI_visit_expression_statement : wi.
  Ltac wi_step :=
    match goal with
    | |- WI (mbind _ _) => apply WI_bind; [|intros]
    | |- WI (attempt _) => apply WI_attempt
    | |- WI (match ?x with _ => _ end) => destruct x
    | |- WI (if ?x then _ else _) => destruct x
    | |- WI (let _ := _ in _) => cbv zeta
    | |- WI _ => solve [auto with wi]
    end.
  Ltac wi_auto := repeat wi_step.

  Lemma WI_go (w : expr -> M inter) l : Forall (fun x => WI (w x)) l ->
    WI ((fix go (l : list expr) : M (list operand) :=
           match l with [] => ret [] | x :: r => let! a := (let! i := w x in to_rvalue i) in let! rest := go r in ret (a :: rest) end) l).
  Proof. induction 1 as [|x r Hx Hr IH]; wi_auto; assumption. Qed.

  Theorem WI_walk_expr env : forall e, WI (walk_expr E env e).
  Proof.
    apply expr_ind'; intros; cbn [walk_expr].
    15: { (* binary *) destruct (bop_of op) as [b|]; [|apply WI_fail]. destruct (binop_class b) eqn:Ek.
          1,2,3,5: (apply WI_bind; [wi_auto; assumption|intros lhs]; apply WI_bind; [wi_auto; assumption|intros rhs];
                    apply WI_bind; [apply WI_visit_binary; rewrite Ek; discriminate|intros; apply WI_ret]).
          apply WI_bind; [wi_auto; assumption|intros lhs]. apply WI_bind; [apply WI_mark|intros ll]. apply WI_bind; [wi_auto; assumption|intros rhs].
          apply WI_bind; [apply WI_mark|intros rl]. apply WI_bind; [apply WI_check_condition|intros _]. apply WI_bind; [apply WI_check_condition|intros _].
          apply WI_bind; [eapply WQ_weaken; [|apply WQ_visit_binary_logical]; auto|intros; apply WI_ret]. }
    16: { (* ternary *) apply WI_bind; [wi_auto; assumption|intros cond]. apply WI_bind; [apply WI_mark|intros cl]. apply WI_bind; [wi_auto; assumption|intros conseq].
          apply WI_bind; [apply WI_mark|intros ql]. apply WI_bind; [wi_auto; assumption|intros alt]. apply WI_bind; [apply WI_mark|intros al].
          eapply WQ_bind; [apply WQ_check_condition|intros u0 Hb]. apply WI_bind; [apply WI_visit_ternary; exact Hb|intros; apply WI_ret]. }
    all: wi_auto; try assumption.
    all: try (apply (WI_go (walk_expr E env)); assumption).
  Qed.
  Lemma WI_walk_rvalue env e : WI (walk_rvalue E env e).
  Proof. unfold walk_rvalue. apply WI_bind; [apply WI_walk_expr|intros; apply WI_to_rvalue]. Qed.
  Hint Resolve WI_walk_expr WI_walk_rvalue : wi.

  Lemma WI_sfail env : WI (sfail env). Proof. apply WI_ret. Qed.
  Lemma WI_exempt_new env env' : WI (exempt_new env env').
  Proof. unfold exempt_new. induction (firstn _ env') as [|x r IH]; cbn [fold_right]; wi_auto; exact IH. Qed.
  Hint Resolve WI_sfail WI_exempt_new : wi.
  Lemma WI_walk_decls k : forall vars env, WI (walk_decls E k env vars).
  Proof. induction vars as [|[[name ty] value] rest IH]; intros env; cbn [walk_decls]; wi_auto; try apply IH. Qed.
  Hint Resolve WI_walk_decls : wi.

  Lemma WI_nodes (w : lenv -> stmt -> M sres) l : Forall (fun x => forall env, WI (w env x)) l ->
    forall env, WI ((fix go (env : lenv) (l : list stmt) : M sres :=
                       match l with [] => ret (true, env) | x :: r => let! a := w env x in let! b := go (snd a) r in ret (fst a && fst b, snd b) end) env l).
  Proof. induction 1 as [|x r Hx Hr IH]; intros env; wi_auto; try apply Hx; try apply IH. Qed.
  Lemma WI_gon (w : lenv -> stmt -> M sres) l : Forall (fun x => forall env, WI (w env x)) l -> forall env, WI (gon_of w env l).
  Proof. induction 1 as [|x r Hx Hr IH]; intros env; cbn [gon_of]; wi_auto; try apply Hx; try apply IH. Qed.

  Lemma WQ_conds env lhs : forall cases, WQ (conds_of E env lhs cases) (Forall (fun c => is_bool (fst c))).
  Proof.
    induction cases as [|[cv b] r IH]; cbn [conds_of]; [apply WQ_ret; constructor|].
    eapply WQ_bind with (Q1 := fun o => match o with Some c => is_bool (fst c) | None => True end).
    - apply WQ_attempt. eapply WQ_bind; [apply WI_walk_rvalue|intros rhs _].
      eapply WQ_bind; [apply (WQ_visit_binary BoEq lhs rhs); discriminate|intros cond Hc]. eapply WQ_bind; [apply WI_mark|intros lbl _].
      apply WQ_ret. cbn [fst]. apply Hc. reflexivity.
    - intros c Hc. eapply WQ_bind; [exact IH|intros rest Hr]. apply WQ_ret. destruct c as [x|]; [constructor; assumption|exact Hr].
  Qed.

  Lemma WI_dpart w default env i : dflt_all (fun x => forall env, WI (w env x)) default -> WI (dpart w default env i).
  Proof.
    intros Hd. unfold dpart. destruct default as [[pos body]|]; [|apply WI_ret]. destruct (Nat.eqb pos i); [|apply WI_ret].
    apply WI_bind; [apply WI_gon; exact Hd|intros res]. destruct (fst res); wi_auto.
  Qed.
  Lemma WI_bodies w default : dflt_all (fun x => forall env, WI (w env x)) default ->
    forall cases, Forall (fun c => Forall (fun x => forall env, WI (w env x)) (snd c)) cases -> forall env i, WI (bodies_of w default env i cases).
  Proof.
    intros Hd. induction 1 as [|[cv nodes] r Hn Hr IH]; intros env i; cbn [bodies_of].
    - apply WI_bind; [apply WI_dpart; exact Hd|intros d; apply WI_ret].
    - apply WI_bind; [apply WI_dpart; exact Hd|intros d]. apply WI_bind; [apply WI_gon; exact Hn|intros res].
      apply WI_bind; [destruct (fst res); wi_auto|intros bl]. apply WI_bind; [apply IH|intros rest; apply WI_ret].
  Qed.

  Theorem WI_walk_stmt : forall st env brk, WI (walk_stmt E env brk st).
  Proof.
    apply (stmt_ind' (fun st => forall env brk, WI (walk_stmt E env brk st))).
    - intros e env brk. cbn [walk_stmt]. wi_auto.
    - intros ss Hs env brk. cbn [walk_stmt]. apply WI_bind; [|intros; apply WI_ret].
      apply (WI_nodes (fun env0 x => walk_stmt E env0 brk x)). eapply Forall_impl; [|exact Hs]. intros x Hx env0. apply Hx.
    - intros k vars env brk. cbn [walk_stmt]. apply WI_walk_decls.
    - (* if *) intros c t e Ht He env brk. cbn [walk_stmt].
      apply WI_bind; [wi_auto|intros cv]. destruct cv as [cond|]; [|apply WI_sfail].
      apply WI_bind; [apply WI_mark|intros cl]. apply WI_bind; [apply Ht|intros rt]. destruct (negb (fst rt)); [apply WI_sfail|]. cbv zeta.
      apply WI_bind; [apply WI_mark|intros ql].
      apply WI_bind; [destruct e as [n|]; [apply WI_bind; [apply He|intros r0; destruct (fst r0); wi_auto]|apply WI_ret]|intros ra].
      destruct ra as [[ok env1] al]. destruct (negb ok); [apply WI_sfail|].
      eapply WQ_bind; [apply WQ_attempt, WQ_check_condition|intros ck Hck]. destruct ck as [u|]; [|apply WI_sfail].
      apply WI_bind; [apply WI_visit_if; exact Hck|intros; apply WI_ret].
    - (* switch *) intros v cases default Hc Hd env brk. rewrite walk_switch_eq.
      apply WI_bind; [wi_auto|intros lv]. destruct lv as [lhs|]; [|apply WI_sfail].
      eapply WQ_bind; [apply WQ_conds|intros conds Hconds]. cbv zeta.
      apply WI_bind; [destruct default as [[pos body]|]; [destruct (Nat.leb pos (List.length cases))|]; wi_auto|intros _].
      apply WI_bind; [apply WI_mark|intros h]. apply WI_bind; [apply WI_mark|intros ex].
      apply WI_bind.
      + apply WI_bodies.
        * destruct default as [[pos body]|]; [|exact I]. cbn in Hd |- *. eapply Forall_impl; [|exact Hd]. intros x Hx env0. apply Hx.
        * eapply Forall_impl; [|exact Hc]. intros c0 Hx. eapply Forall_impl; [|exact Hx]. intros x Hy env0. apply Hy.
      + intros bodies. destruct (_ && _); [|apply WI_sfail]. apply WI_bind; [apply WI_visit_switch; exact Hconds|intros; apply WI_ret].
    - intros labeled env brk. cbn [walk_stmt]. wi_auto.
    - intros e env brk. cbn [walk_stmt]. wi_auto.
  Qed.

  Lemma WI_walk_params : forall params env, WI (walk_params E env params).
  Proof. induction params as [|[name ty] rest IH]; intros env; cbn [walk_params]; wi_auto; try apply IH. Qed.
  Theorem WI_walk_callback cb : WI (walk_callback E cb).
  Proof.
    destruct cb as [st|f]; cbn [walk_callback]; [apply WI_walk_stmt|]. wi_auto; try apply WI_walk_params; try apply WI_walk_stmt.
  Qed.
End W.

(* ---- the whole translation: the code of every accepted binding or handler is well typed ---- *)
Definition block_ok_final (E : cenv) (locals : list tkind) (b : block) : Prop := Forall (stmt_ok E locals) (b_stmts b) /\ term_ok_final (b_term b).
Definition code_typed (E : cenv) (c : code) : Prop := Forall (block_ok_final E (c_locals c)) (c_blocks c).
Lemma block_ok_weaken E locals b : block_ok E locals b -> block_ok_final E locals b.
Proof. intros [H1 H2]. split; [exact H1|apply term_ok_weaken; exact H2]. Qed.

Lemma WT_bstate0 E : WT E bstate0.
Proof. unfold WT. cbn. constructor; [|constructor]. split; [constructor|exact I]. Qed.

Lemma block_ok_set_term E locals b t : (match t with TmBrCond _ _ _ => False | _ => True end) -> block_ok_final E locals b -> block_ok_final E locals (set_term b t).
Proof. intros Ht [H1 H2]. split; cbn [set_term b_stmts b_term]; [exact H1|]. destruct t; try exact I. contradiction. Qed.

Lemma finalize_loop_typed E locals : forall fuel reach blocks tv taken bl, finalize_loop fuel reach blocks tv taken = Ok bl ->
  Forall (block_ok_final E locals) blocks -> Forall (block_ok_final E locals) bl.
Proof.
  induction fuel as [|k IH]; intros reach blocks tv taken bl H W; [discriminate H|].
  cbn [finalize_loop] in H. destruct (rev tv) as [|i rest_rev]; [inversion H; subst; exact W|].
  destruct (nth_error blocks i) as [b|] eqn:Eb; [|discriminate H].
  assert (Hup : forall t, (match t with TmBrCond _ _ _ => False | _ => True end) -> Forall (block_ok_final E locals) (update_nth blocks i (fun b => set_term b t))).
  { intros t Ht. apply Forall_update_nth; [exact W|]. intros x _ Px. apply block_ok_set_term; assumption. }
  destruct (b_term b) as [[l|c a1 a2|a|]|]; try discriminate H.
  - destruct (b_compl b) as [a|]; [eapply IH; [exact H|apply Hup; exact I]|].
    destruct (b_stmts b); (eapply IH; [exact H|apply Hup]); match goal with |- context [if ?c then _ else _] => destruct c end; exact I.
  - destruct (b_compl b) as [a|]; [eapply IH; [exact H|apply Hup; exact I]|].
    destruct (b_stmts b); (eapply IH; [exact H|apply Hup]); match goal with |- context [if ?c then _ else _] => destruct c end; exact I.
Qed.

Theorem build_code_typed E cb c : bu_code (build_callback E cb) = Some c -> code_typed E c.
Proof.
  intros H. unfold build_callback, finish in H.
  pose proof (proj1 (WI_walk_callback E cb bstate0 (WT_bstate0 E))) as W0.
  destruct (walk_callback E cb bstate0) as [[[ok env]| |x] s]; try discriminate H. destruct ok; [|discriminate H]. cbn [snd] in W0.
  assert (W : Forall (block_ok_final E (bs_locals s)) (bs_blocks s)) by (eapply Forall_impl; [|exact W0]; intros b; apply block_ok_weaken).
  destruct (finalize_completion_values (bs_blocks s) (List.length (bs_blocks s) - 1)) as [bl|msg|site|] eqn:Ef; try discriminate H.
  cbn in H. inversion H; subst. unfold code_typed. cbn [c_blocks c_locals].
  unfold finalize_completion_values in Ef. destruct (nth_error (bs_blocks s) (List.length (bs_blocks s) - 1)) as [sb|]; [|discriminate Ef].
  destruct (b_term sb); [discriminate Ef|]. destruct (b_compl sb) as [a|].
  - inversion Ef; subst. apply Forall_update_nth; [exact W|]. intros x _ Px. apply block_ok_set_term; [exact I|exact Px].
  - destruct (negb (br_targets_ok (bs_blocks s))); [discriminate Ef|]. eapply finalize_loop_typed; [exact Ef|exact W].
Qed.

(* the translator itself never writes the unreachable marker *)
Theorem walk_writes_no_unreachable E cb : Forall (fun b => b_term b <> Some TmUnreachable) (bs_blocks (snd (walk_callback E cb bstate0))).
Proof.
  pose proof (proj1 (WI_walk_callback E cb bstate0 (WT_bstate0 E))) as W. eapply Forall_impl; [|exact W].
  intros b [_ Ht] Hu. rewrite Hu in Ht. exact Ht.
Qed.

(* OpsTie.v -- the operator tables of the builder model (model/Builder.v uop_of / bop_of) ARE the tables of the source: gen/GenOps.v is
   translated arm by arm from opcode.rs (TryFrom<UnaryOperator>, TryFrom<BinaryOperator>) and qmlast/expr.rs (from_node) on every run *)
From QV Require Import model.Base model.Lang model.Tir gen.GenOps model.Builder.

Lemma bop_of_is_source (o : bop) : bop_of o = gen_bop_of o.
Proof. destruct o; reflexivity. Qed.
Lemma uop_of_is_source (o : uop) : uop_of o = gen_uop_of o.
Proof. destruct o; reflexivity. Qed.

(* every operator has exactly one token, and the tokens are the ones the printers of the correspondence checks write (vlib/prog.py UOPS / BOPS) *)
Lemma bop_tokens_complete (o : bop) : exists t, In (t, o) gen_bop_tokens.
Proof. destruct o; eexists; cbn; repeat (try (left; reflexivity); right). Qed.
Lemma uop_tokens_complete (o : uop) : exists t, In (t, o) gen_uop_tokens.
Proof. destruct o; eexists; cbn; repeat (try (left; reflexivity); right). Qed.
Lemma tokens_distinct : NoDup (map fst gen_bop_tokens) /\ NoDup (map fst gen_uop_tokens).
Proof. split; cbn; repeat (constructor; [cbn; intuition discriminate|]); constructor. Qed.

From Coq Require Import List String Ascii NArith Bool Arith Lia.
From QV Require Import model.Base model.Types spec.Typing proofs.TypingProofs.
From QV Require Import model.Callback.
Import ListNotations.

Lemma upper_range a : is_ascii_upper a = true -> 65 <= nat_of_ascii a <= 90.
Proof. unfold is_ascii_upper. rewrite andb_true_iff, !Nat.leb_le. tauto. Qed.
Lemma lower_range a : is_ascii_lower a = true -> 97 <= nat_of_ascii a <= 122.
Proof. unfold is_ascii_lower. rewrite andb_true_iff, !Nat.leb_le. tauto. Qed.

Lemma lower_of_upper a : is_ascii_upper a = true -> is_ascii_lower (to_lower a) = true /\ to_upper (to_lower a) = a.
Proof.
  intros H. pose proof (upper_range _ H) as R. unfold to_lower. rewrite H.
  assert (N : nat_of_ascii (ascii_of_nat (nat_of_ascii a + 32)) = nat_of_ascii a + 32) by (apply nat_ascii_embedding; lia).
  assert (L : is_ascii_lower (ascii_of_nat (nat_of_ascii a + 32)) = true).
  { unfold is_ascii_lower. rewrite N. apply andb_true_iff. rewrite !Nat.leb_le. lia. }
  split; [exact L|]. unfold to_upper. rewrite L, N. replace (nat_of_ascii a + 32 - 32) with (nat_of_ascii a) by lia. apply ascii_nat_embedding.
Qed.
Lemma upper_of_lower a : is_ascii_lower a = true -> is_ascii_upper (to_upper a) = true /\ to_lower (to_upper a) = a.
Proof.
  intros H. pose proof (lower_range _ H) as R. unfold to_upper. rewrite H.
  assert (N : nat_of_ascii (ascii_of_nat (nat_of_ascii a - 32)) = nat_of_ascii a - 32) by (apply nat_ascii_embedding; lia).
  assert (L : is_ascii_upper (ascii_of_nat (nat_of_ascii a - 32)) = true).
  { unfold is_ascii_upper. rewrite N. apply andb_true_iff. rewrite !Nat.leb_le. lia. }
  split; [exact L|]. unfold to_lower. rewrite L, N. replace (nat_of_ascii a - 32 + 32) with (nat_of_ascii a) by lia. apply ascii_nat_embedding.
Qed.

(* the signal a handler name denotes: the name minus "on" with its first letter lowered -- and only names on<Capital>... denote one *)
Theorem signal_name_spec name s : callback_to_signal_name name = Some s <->
  exists c r, name = String "o" (String "n" (String c r)) /\ is_ascii_upper c = true /\ s = String (to_lower c) r.
Proof.
  split.
  - intros H. destruct name as [|a [|b [|c r]]]; try discriminate; cbn in H.
    + destruct a as [[] [] [] [] [] [] [] []]; discriminate.
    + destruct a as [[] [] [] [] [] [] [] []]; try discriminate; destruct b as [[] [] [] [] [] [] [] []]; discriminate.
    + destruct a as [[] [] [] [] [] [] [] []]; try discriminate; destruct b as [[] [] [] [] [] [] [] []]; try discriminate.
      destruct (is_ascii_upper c) eqn:U; [|discriminate]. injection H as <-. exists c, r. split; [reflexivity|split; [exact U|reflexivity]].
  - intros (c & r & -> & U & ->). cbn. rewrite U. reflexivity.
Qed.

(* one handler name per signal: the mapping is injective ... *)
Theorem signal_name_injective a b s : callback_to_signal_name a = Some s -> callback_to_signal_name b = Some s -> a = b.
Proof.
  intros Ha Hb. apply signal_name_spec in Ha as (c1 & r1 & -> & U1 & ->). apply signal_name_spec in Hb as (c2 & r2 & -> & U2 & E).
  injection E as E1 E2. subst r2. f_equal. f_equal. f_equal.
  destruct (lower_of_upper _ U1) as [_ R1]. destruct (lower_of_upper _ U2) as [_ R2]. congruence.
Qed.

(* ... and every signal whose name starts with a small ASCII letter has its handler name, which denotes exactly that signal *)
Theorem handler_name_denotes_signal c r : is_ascii_lower c = true -> callback_to_signal_name (handler_name (String c r)) = Some (String c r).
Proof.
  intros L. destruct (upper_of_lower _ L) as [U R]. unfold handler_name, callback_to_signal_name. rewrite U. unfold uncapitalized. rewrite U, R. reflexivity.
Qed.

(* a signal name obtained from a handler never starts with a capital: signals named with a capital (or a digit, an underscore, a non-ASCII letter) have no handler *)
Theorem signal_name_starts_small name s : callback_to_signal_name name = Some s -> exists c r, s = String c r /\ is_ascii_lower c = true.
Proof.
  intros H. apply signal_name_spec in H as (c & r & _ & U & ->). exists (to_lower c), r. split; [reflexivity|]. apply lower_of_upper. exact U.
Qed.

(* ---- parameters ---- *)
Lemma concrete_assignable_spec E p a : concrete_assignable E p a = spec_assignable E p (DConcrete a).
Proof. rewrite <- is_assignable_spec. unfold concrete_assignable, is_assignable, pick_type_cast. reflexivity. Qed.

Lemma bad_positions_nil E : forall args params i, List.length params <= List.length args ->
  (bad_positions E i args params = [] <-> forall k, k < List.length params -> concrete_assignable E (nth k params T_VOID) (nth k args T_VOID) = true).
Proof.
  induction args as [|a args IH]; intros params i L.
  - destruct params; [|cbn in L; lia]. cbn. split; [intros _ k Hk; lia|reflexivity].
  - destruct params as [|p params]; cbn.
    + split; [intros _ k Hk; lia|reflexivity].
    + cbn in L. destruct (concrete_assignable E p a) eqn:A.
      * rewrite IH by lia. split.
        -- intros H [|k] Hk; [exact A|]. apply H. lia.
        -- intros H k Hk. apply (H (S k)). lia.
      * split; [discriminate|]. intros H. specialize (H 0 ltac:(lia)). cbn in H. congruence.
Qed.

(* a handler's parameters are accepted exactly when there are no more of them than signal arguments and the k-th signal argument can be assigned to the k-th parameter *)
Theorem verify_params_ok E args params : verify_params E args params = POk <->
  List.length params <= List.length args /\ forall k, k < List.length params -> spec_assignable E (nth k params T_VOID) (DConcrete (nth k args T_VOID)) = true.
Proof.
  unfold verify_params. destruct (Nat.ltb_spec (List.length args) (List.length params)) as [L|L].
  - split; [discriminate|]. intros [H _]. lia.
  - pose proof (bad_positions_nil E args params 0 L) as B.
    destruct (bad_positions E 0 args params) as [|x l] eqn:P.
    + split; [|reflexivity]. intros _. split; [exact L|]. intros k Hk. rewrite <- concrete_assignable_spec. apply B; [reflexivity|exact Hk].
    + split; [discriminate|]. intros [_ H]. assert (X : x :: l = []); [|discriminate]. apply B. intros k Hk. rewrite concrete_assignable_spec. apply H. exact Hk.
Qed.

Theorem verify_params_too_many E args params : verify_params E args params = PTooMany <-> List.length args < List.length params.
Proof.
  unfold verify_params. destruct (Nat.ltb_spec (List.length args) (List.length params)) as [L|L]; [tauto|].
  split; [|lia]. destruct (bad_positions E 0 args params); discriminate.
Qed.

From QV Require Import model.Sem proofs.SemProofs proofs.ScopeProofs proofs.FrameProofs.
From QV Require Import model.Base model.Lang model.Types model.Tir model.Ceval model.Builder proofs.BuilderInv.
From QV Require Import proofs.BuilderSafe proofs.BuilderSafeStmt.
From Coq Require Import Arith Lia.
Open Scope nat_scope.
Open Scope list_scope.

(* ---- lists of labels: strictly increasing from a lower bound; all open and below the current block ---- *)
Fixpoint inc (lo : nat) (ls : list nat) : Prop := match ls with [] => True | l :: r => lo <= l /\ inc (S l) r end.
Definition LOpen (s : bstate) (ls : list nat) : Prop := Forall (fun l => opened s l /\ l + 1 < nb s) ls.

Lemma inc_weaken lo lo' ls : lo' <= lo -> inc lo ls -> inc lo' ls.
Proof. destruct ls; cbn; [auto|]. intros H [H1 H2]. split; [lia|exact H2]. Qed.
Lemma inc_ge lo ls : inc lo ls -> forall x, In x ls -> lo <= x.
Proof.
  revert lo. induction ls as [|l r IH]; intros lo H x Hx; [contradiction|]. destruct H as [H1 H2]. destruct Hx as [->|Hx]; [exact H1|].
  specialize (IH _ H2 x Hx). lia.
Qed.
Lemma inc_app_intro lo m a b : inc lo a -> (forall x, In x a -> x < m) -> lo <= m -> inc m b -> inc lo (a ++ b).
Proof.
  revert lo. induction a as [|x r IH]; intros lo Ha Hlt Hlo Hb; cbn [app].
  - eapply inc_weaken; eassumption.
  - destruct Ha as [H1 H2]. split; [exact H1|]. apply IH; [exact H2|intros y Hy; apply Hlt; now right| |exact Hb].
    specialize (Hlt x (or_introl eq_refl)). lia.
Qed.
Lemma inc_app_l lo a b : inc lo (a ++ b) -> inc lo a.
Proof. revert lo. induction a as [|x r IH]; intros lo H; cbn in *; [exact I|]. destruct H as [H1 H2]. split; [exact H1|apply IH, H2]. Qed.
Lemma inc_app_r lo a b : inc lo (a ++ b) -> inc lo b.
Proof.
  revert lo. induction a as [|x r IH]; intros lo H; cbn [app] in H; [exact H|]. destruct H as [H1 H2]. eapply inc_weaken; [|apply IH, H2]. lia.
Qed.
Lemma inc_app_lt lo a b : inc lo (a ++ b) -> forall x y, In x a -> In y b -> x < y.
Proof.
  revert lo. induction a as [|z r IH]; intros lo H x y Hx Hy; [contradiction|]. cbn [app] in H. destruct H as [H1 H2]. destruct Hx as [->|Hx].
  - pose proof (inc_ge _ _ H2 y (in_or_app _ _ _ (or_intror Hy))). lia.
  - eapply IH; eassumption.
Qed.
Lemma inc_not_in (lo : nat) l r : inc (S l) r -> ~ In l r.
Proof. intros H Hin. pose proof (inc_ge _ _ H l Hin). lia. Qed.

Lemma LOpen_app s a b : LOpen s (a ++ b) <-> LOpen s a /\ LOpen s b.
Proof. unfold LOpen. apply Forall_app. Qed.
Lemma LOpen_keep s s' ls : nb s' = nb s -> (forall l, In l ls -> nth_error (bs_blocks s') l = nth_error (bs_blocks s) l) -> LOpen s ls -> LOpen s' ls.
Proof.
  intros Hn Hk H. unfold LOpen in *. rewrite Forall_forall in *. intros l Hl. destruct (H l Hl) as [O Hlt]. split; [|lia].
  apply (opened_eq s); [apply Hk, Hl|exact O].
Qed.
Lemma LOpen_RegB m s s' ls : RegB m s s' -> (forall l, In l ls -> l + 1 < m) -> LOpen s ls -> LOpen s' ls.
Proof.
  intros R Hm H. unfold LOpen in *. rewrite Forall_forall in *. intros l Hl. destruct (H l Hl) as [O Hlt]. split.
  - eapply RegB_opened; [exact R|apply Hm, Hl|exact O].
  - pose proof (g_len _ _ _ R). lia.
Qed.

Lemma finalize_RegB s r t n : Good s -> opened s r -> r + 1 < nb s -> n <= r + 1 -> tgt_ok t (nb s) r ->
  exists s', finalize_at r t s = (V tt, s') /\ RegB n s s' /\ nb s' = nb s /\ nloc s' = nloc s /\ (forall i, i <> r -> nth_error (bs_blocks s') i = nth_error (bs_blocks s) i).
Proof.
  intros G O Hr Hn Htg. destruct (finalize_spec s r t G O Hr Htg) as (s' & E1 & N1 & G1 & L1 & K1). exists s'. split; [exact E1|].
  split; [|split; [exact N1|split; [unfold nloc; rewrite L1; reflexivity|exact K1]]].
  split; [exact G1|lia| |exists []; rewrite app_nil_r; exact L1]. intros i Hi. apply K1. lia.
Qed.

Lemma connect_cases_safe : forall conds starts d s n lo, Good s -> LOpen s (map snd conds) -> inc lo (map snd conds) -> n <= lo + 1 ->
  Forall (fun st => st < nb s) starts -> d < nb s ->
  match connect_cases conds starts d s with
  | (P _, _) => False
  | (_, s') => RegB n s s' /\ nb s' = nb s /\ nloc s' = nloc s /\ (forall i, ~ In i (map snd conds) -> nth_error (bs_blocks s') i = nth_error (bs_blocks s) i)
  end.
Proof.
  induction conds as [|[c cref] cr IH]; intros starts d s n lo G HO Hi Hn Hst Hd; cbn [connect_cases].
  - cbn. split; [apply RegB_refl, G|auto].
  - destruct starts as [|st sr]; [cbn; split; [apply RegB_refl, G|auto]|].
    cbn [map snd] in HO, Hi. destruct Hi as [Hlo Hi]. inversion HO as [|? ? [Oc Hc] HO']; subst.
    unfold mbind at 1.
    inversion Hst as [|? ? Hst1 Hst2]; subst.
    destruct (finalize_RegB s cref (TmBrCond c st match sr with [] => d | _ :: _ => S cref end) n G Oc Hc ltac:(lia) ltac:(cbn; split; [exact Hst1|destruct sr; lia])) as (s1 & E1 & R1 & N1 & L1 & K1). rewrite E1.
    assert (HO1 : LOpen s1 (map snd cr)).
    { eapply LOpen_keep; [exact N1| |exact HO']. intros l Hl. apply K1. intros ->. exact (inc_not_in lo _ _ Hi Hl). }
    specialize (IH sr d s1 n (S cref) (g_good _ _ _ R1) HO1 Hi ltac:(lia) ltac:(rewrite N1; exact Hst2) ltac:(lia)).
    destruct (connect_cases cr sr d s1) as [[u| |x] s2]; [| |exact IH].
    + destruct IH as (R2 & N2 & L2 & K2). split; [eapply RegB_trans; eassumption|]. split; [lia|]. split; [lia|].
      intros i Hni. cbn [map snd In] in Hni. rewrite K2 by tauto. apply K1. intros ->. apply Hni. now left.
    + destruct IH as (R2 & N2 & L2 & K2). split; [eapply RegB_trans; eassumption|]. split; [lia|]. split; [lia|].
      intros i Hni. cbn [map snd In] in Hni. rewrite K2 by tauto. apply K1. intros ->. apply Hni. now left.
Qed.

Lemma finalize_bodies_safe : forall bodies s n lo, Good s -> LOpen s bodies -> inc lo bodies -> n <= lo + 1 ->
  match finalize_bodies bodies s with
  | (P _, _) => False
  | (_, s') => RegB n s s' /\ nb s' = nb s /\ nloc s' = nloc s /\ (forall i, ~ In i bodies -> nth_error (bs_blocks s') i = nth_error (bs_blocks s) i)
  end.
Proof.
  induction bodies as [|b r IH]; intros s n lo G HO Hi Hn; cbn [finalize_bodies].
  - cbn. split; [apply RegB_refl, G|auto].
  - destruct Hi as [Hlo Hi]. inversion HO as [|? ? [Ob Hb] HO']; subst.
    unfold mbind at 1.
    destruct (finalize_RegB s b (TmBr (S b)) n G Ob Hb ltac:(lia) ltac:(cbn; lia)) as (s1 & E1 & R1 & N1 & L1 & K1). rewrite E1.
    assert (HO1 : LOpen s1 r).
    { eapply LOpen_keep; [exact N1| |exact HO']. intros l Hl. apply K1. intros ->. exact (inc_not_in lo _ _ Hi Hl). }
    specialize (IH s1 n (S b) (g_good _ _ _ R1) HO1 Hi ltac:(lia)).
    destruct (finalize_bodies r s1) as [[u| |x] s2]; [| |exact IH].
    + destruct IH as (R2 & N2 & L2 & K2). split; [eapply RegB_trans; eassumption|]. split; [lia|]. split; [lia|].
      intros i Hni. cbn [In] in Hni. rewrite K2 by tauto. apply K1. intros ->. apply Hni. now left.
    + destruct IH as (R2 & N2 & L2 & K2). split; [eapply RegB_trans; eassumption|]. split; [lia|]. split; [lia|].
      intros i Hni. cbn [In] in Hni. rewrite K2 by tauto. apply K1. intros ->. apply Hni. now left.
Qed.

Lemma remove_nth_some {A} : forall (l : list A) p, p < List.length l -> exists d rest, remove_nth l p = Some (d, rest) /\ List.length rest + 1 = List.length l.
Proof.
  induction l as [|x r IH]; intros [|p] H; cbn in *; try lia.
  - eexists _, _. split; [reflexivity|lia].
  - destruct (IH p ltac:(lia)) as (d & rest & E & Hl). rewrite E. eexists _, _. split; [reflexivity|]. cbn. lia.
Qed.
Lemma remove_nth_Forall {A} (Q : A -> Prop) : forall (l : list A) p d rest, remove_nth l p = Some (d, rest) -> Forall Q l -> Q d /\ Forall Q rest.
Proof.
  induction l as [|x r IH]; intros [|p] d rest H HF; cbn in H; try discriminate.
  - inversion H; subst. inversion HF; subst. auto.
  - destruct (remove_nth r p) as [[y r']|] eqn:E; [|discriminate]. inversion H; subst. inversion HF; subst.
    destruct (IH p d r' E H3) as [Hd Hr]. split; [exact Hd|constructor; assumption].
Qed.
Lemma In_removelast_in {A} (l : list A) y : In y (removelast l) -> In y l.
Proof. induction l as [|x [|z r] IH]; cbn; intros H; [contradiction|contradiction|]. destruct H as [->|H]; [now left|right; apply IH, H]. Qed.
Lemma last_in_or {A} (l : list A) d : last l d = d \/ In (last l d) l.
Proof. induction l as [|x [|z r] IH]; cbn; [now left|right; now left|]. destruct IH as [H|H]; [left; exact H|right; right; exact H]. Qed.
Lemma removelast_length {A} (l : list A) : List.length (removelast l) = List.length l - 1.
Proof. induction l as [|x [|y r] IH]; cbn in *; try lia. Qed.

Lemma visit_switch_safe conds bodies default_pos h x s n lo :
  Good s -> inc lo (map snd conds ++ h :: x :: bodies) -> LOpen s (map snd conds ++ h :: x :: bodies) -> n <= lo + 1 ->
  match default_pos with Some p => p < List.length bodies /\ List.length conds + 1 = List.length bodies | None => List.length conds = List.length bodies end ->
  match visit_switch conds bodies default_pos h x s with (P _, _) => False | (_, s') => RegB n s s' /\ nloc s' = nloc s end.
Proof.
  intros G Hinc HO Hn Hdp. unfold visit_switch. cbv zeta.
  set (starts0 := match bodies with [] => [] | _ :: _ => S x :: map S (removelast bodies) end).
  assert (Hs0 : List.length starts0 = List.length bodies).
  { unfold starts0. destruct bodies as [|b r]; [reflexivity|]. cbn [List.length]. rewrite map_length, removelast_length. cbn [List.length]. lia. }
  assert (Hall : forall l, In l (h :: x :: bodies) -> l + 1 < nb s).
  { intros l Hl. apply LOpen_app in HO. destruct HO as [_ HOr]. unfold LOpen in HOr. rewrite Forall_forall in HOr. exact (proj2 (HOr l Hl)). }
  assert (Hst0 : Forall (fun st => st < nb s) starts0).
  { unfold starts0. destruct bodies as [|b r]; [constructor|]. constructor; [specialize (Hall x ltac:(right; now left)); lia|].
    apply Forall_forall. intros y Hy. apply in_map_iff in Hy. destruct Hy as (z & <- & Hz). apply In_removelast_in in Hz.
    specialize (Hall z ltac:(right; right; exact Hz)). lia. }
  assert (Hlast : S (last bodies x) < nb s).
  { destruct (last_in_or bodies x) as [->|Hin]; [specialize (Hall x ltac:(right; now left)); lia|specialize (Hall _ ltac:(right; right; exact Hin)); lia]. }
  unfold mbind at 1.
  assert (Hsd : exists starts ds, (match default_pos with
                                   | None => ret (starts0, None)
                                   | Some p => match remove_nth starts0 p with Some (d, rest) => ret (rest, Some d) | None => panic "builder.rs visit_switch_statement: case_body_start_refs.remove(p) out of range" end
                                   end) s = (V (starts, ds), s) /\ List.length starts = List.length conds /\ Forall (fun st => st < nb s) starts /\
                                  match ds with Some d => d < nb s | None => True end).
  { destruct default_pos as [p|].
    - destruct Hdp as [Hp Hl]. destruct (remove_nth_some starts0 p ltac:(lia)) as (d & rest & E & Hr). rewrite E. exists rest, (Some d).
      destruct (remove_nth_Forall _ _ _ _ _ E Hst0) as [Hd Hrest]. split; [reflexivity|]. split; [lia|]. split; assumption.
    - exists starts0, None. split; [reflexivity|]. split; [lia|]. split; [exact Hst0|exact I]. }
  destruct Hsd as (starts & ds & Esd & Hls & Hsts & Hds). rewrite Esd.
  rewrite Hls, Nat.eqb_refl. cbn [negb].
  (* the four groups of labels *)
  apply LOpen_app in HO. destruct HO as [HOc HOr]. inversion HOr as [|? ? [Oh Hh] HOr']; subst. inversion HOr' as [|? ? [Ox Hx] HOb]; subst.
  pose proof (inc_app_l _ _ _ Hinc) as Hic. pose proof (inc_app_r _ _ _ Hinc) as Hir. cbn [inc] in Hir. destruct Hir as [Hloh [Hhx Hib]].
  assert (Hch : forall l, In l (map snd conds) -> l < h) by (intros l Hl; eapply inc_app_lt; [exact Hinc|exact Hl|now left]).
  assert (Hcx : forall l, In l (map snd conds) -> l < x) by (intros l Hl; eapply inc_app_lt; [exact Hinc|exact Hl|right; now left]).
  assert (Hcb : forall l b, In l (map snd conds) -> In b bodies -> l < b) by (intros l b Hl Hb; eapply inc_app_lt; [exact Hinc|exact Hl|right; right; exact Hb]).
  assert (Hxb : forall b, In b bodies -> x < b) by (intros b Hb; pose proof (inc_ge _ _ Hib b Hb); lia).
  unfold mbind at 1.
  pose proof (connect_cases_safe conds starts (match ds with Some d => d | None => S (last bodies x) end) s n lo G HOc Hic Hn Hsts ltac:(destruct ds; assumption)) as R1.
  destruct (connect_cases conds starts _ s) as [[u| |e] s1]; [| |exact R1].
  2:{ destruct R1 as (R1 & _ & L1 & _). split; assumption. }
  destruct R1 as (R1 & N1 & L1 & K1). pose proof (g_good _ _ _ R1) as G1.
  assert (HOb1 : LOpen s1 bodies).
  { eapply LOpen_keep; [exact N1| |exact HOb]. intros l Hl. apply K1. intros Hc. specialize (Hcb _ _ Hc Hl). lia. }
  assert (Oh1 : opened s1 h) by (apply (opened_eq s); [apply K1; intros Hc; specialize (Hch _ Hc); lia|exact Oh]).
  assert (Ox1 : opened s1 x) by (apply (opened_eq s); [apply K1; intros Hc; specialize (Hcx _ Hc); lia|exact Ox]).
  unfold mbind at 1.
  pose proof (finalize_bodies_safe bodies s1 n (S x) G1 HOb1 Hib ltac:(lia)) as R2.
  destruct (finalize_bodies bodies s1) as [[u2| |e] s2]; [| |exact R2].
  2:{ destruct R2 as (R2 & _ & L2 & _). split; [eapply RegB_trans; eassumption|lia]. }
  destruct R2 as (R2 & N2 & L2 & K2). pose proof (g_good _ _ _ R2) as G2.
  assert (Oh2 : opened s2 h) by (apply (opened_eq s1); [apply K2; intros Hb; specialize (Hxb _ Hb); lia|exact Oh1]).
  assert (Ox2 : opened s2 x) by (apply (opened_eq s1); [apply K2; intros Hb; specialize (Hxb _ Hb); lia|exact Ox1]).
  unfold mbind at 1.
  destruct (finalize_RegB s2 h (TmBr (S x)) n G2 Oh2 ltac:(lia) ltac:(lia) ltac:(cbn; lia)) as (s3 & E3 & R3 & N3 & L3 & K3). rewrite E3.
  assert (Ox3 : opened s3 x) by (apply (opened_eq s2); [apply K3; lia|exact Ox2]).
  assert (Hlastge : x <= last bodies x) by (destruct (last_in_or bodies x) as [->|Hin]; [apply le_n|specialize (Hxb _ Hin); lia]).
  destruct (finalize_RegB s3 x (TmBr (S (last bodies x))) n (g_good _ _ _ R3) Ox3 ltac:(lia) ltac:(lia) ltac:(cbn; lia)) as (s4 & E4 & R4 & N4 & L4 & K4). rewrite E4.
  split; [eapply RegB_trans; [exact R1|eapply RegB_trans; [exact R2|eapply RegB_trans; eassumption]]|lia].
Qed.

Lemma attempt_eq {A} (m : M A) s : attempt m s = match m s with (V a, s') => (V (Some a), s') | (F, s') => (V None, s') | (P x, s') => (P x, s') end.
Proof. reflexivity. Qed.

Section Switch.
  Variable E : cenv.

  Lemma cond_head_safe env lhs cv s : Good s -> envwf (nloc s) env ->
    match (let! rhs := walk_rvalue E env cv in let! cond := visit_binary E BoEq lhs rhs in let! lbl := mark_branch_point in ret (cond, lbl)) s with
    | (P _, _) => False
    | (F, s1) => RegB (nb s) s s1
    | (V (c, l), s1) => RegB (nb s) s s1 /\ nb s - 1 <= l /\ l + 2 = nb s1 /\ opened s1 l
    end.
  Proof.
    intros G Hw.
    assert (HS : Safe (nloc s) (let! rhs := walk_rvalue E env cv in visit_binary E BoEq lhs rhs)).
    { apply Safe_bind; [unfold walk_rvalue; apply Safe_rv, walk_expr_safe, Hw|intros rhs; apply Safe_visit_binary; discriminate]. }
    pose proof (Safe_run _ _ s HS G (le_n _)) as R1. unfold mbind in *.
    destruct (walk_rvalue E env cv s) as [[rhs| |x] s0]; [| exact R1 | exact R1].
    destruct (visit_binary E BoEq lhs rhs s0) as [[cond| |x] s1]; [| exact R1 | exact R1].
    pose proof (g_good _ _ _ R1) as G1. pose proof (proj1 G1) as P1. pose proof (g_len _ _ _ R1) as N1.
    destruct (mark_RegB s1 G1) as (s2 & E2 & R2 & N2 & M2 & O2 & K2). rewrite E2. cbn.
    split; [eapply RegB_trans; [exact R1|eapply RegB_weaken; [|exact R2]; lia]|]. split; [lia|]. split; [lia|exact O2].
  Qed.

  Lemma conds_safe env lhs : forall (cases : list (expr * list stmt)) s, Good s -> envwf (nloc s) env ->
    match (fix go (l : list (expr * list stmt)) : M (list (operand * nat)) :=
             match l with
             | [] => ret []
             | (cv, _) :: r =>
                 let! c := attempt (let! rhs := walk_rvalue E env cv in let! cond := visit_binary E BoEq lhs rhs in let! lbl := mark_branch_point in ret (cond, lbl)) in
                 let! rest := go r in
                 ret (match c with Some x => x :: rest | None => rest end)
             end) cases s with
    | (P _, _) => False
    | (F, s') => RegB (nb s) s s'
    | (V cs, s') => RegB (nb s) s s' /\ inc (nb s - 1) (map snd cs) /\ LOpen s' (map snd cs)
    end.
  Proof.
    induction cases as [|[cv b] r IH]; intros s G Hw.
    - cbn. split; [apply RegB_refl, G|]. split; [exact I|constructor].
    - unfold mbind at 1. rewrite attempt_eq.
      pose proof (cond_head_safe env lhs cv s G Hw) as H1.
      match type of H1 with match ?m s with _ => _ end => destruct (m s) as [[[c l]| |x] s1] end; [| |exact H1].
      + destruct H1 as (R1 & Hl1 & Hl2 & O1). pose proof (g_good _ _ _ R1) as G1.
        unfold mbind at 1. specialize (IH s1 G1 ltac:(eapply envwf_mono; [exact Hw|eapply RegB_nloc, R1])).
        match type of IH with match ?m s1 with _ => _ end => destruct (m s1) as [[cs| |x] s2] end; [| |exact IH].
        * destruct IH as (R2 & I2 & O2). cbn [ret map snd].
          split; [eapply RegB_trans; [exact R1|eapply RegB_weaken; [|exact R2]; pose proof (g_len _ _ _ R1); lia]|]. split.
          -- cbn [inc]. split; [exact Hl1|]. eapply inc_weaken; [|exact I2]. lia.
          -- constructor; [|exact O2]. split; [eapply RegB_opened; [exact R2|lia|exact O1]|pose proof (g_len _ _ _ R2); lia].
        * eapply RegB_trans; [exact R1|eapply RegB_weaken; [|exact IH]; pose proof (g_len _ _ _ R1); lia].
      + pose proof (g_good _ _ _ H1) as G1.
        unfold mbind at 1. specialize (IH s1 G1 ltac:(eapply envwf_mono; [exact Hw|eapply RegB_nloc, H1])).
        match type of IH with match ?m s1 with _ => _ end => destruct (m s1) as [[cs| |x] s2] end; [| |exact IH].
        * destruct IH as (R2 & I2 & O2). cbn [ret].
          split; [eapply RegB_trans; [exact H1|eapply RegB_weaken; [|exact R2]; pose proof (g_len _ _ _ H1); lia]|]. split; [|exact O2].
          eapply inc_weaken; [|exact I2]. pose proof (g_len _ _ _ H1). lia.
        * eapply RegB_trans; [exact H1|eapply RegB_weaken; [|exact IH]; pose proof (g_len _ _ _ H1); lia].
  Qed.

  Lemma exempt_new_spec env env' s : exists s', exempt_new env env' s = (V tt, s') /\ bs_blocks s' = bs_blocks s /\ bs_locals s' = bs_locals s.
  Proof.
    unfold exempt_new. generalize (firstn (List.length env' - List.length env) env'). intros l. revert s.
    induction l as [|x r IH]; intros s; cbn [fold_right].
    - exists s. auto.
    - unfold mbind at 1. cbn [mark_exempt].
      destruct (IH {| bs_blocks := bs_blocks s; bs_locals := bs_locals s; bs_nparams := bs_nparams s; bs_diags := bs_diags s; bs_exempt := fst (snd x) :: bs_exempt s |}) as (s' & E1 & B1 & L1).
      exists s'. split; [exact E1|]. cbn in B1, L1. auto.
  Qed.

  Lemma SafeS_gon bk (w : lenv -> stmt -> M sres) l : Forall (fun x => forall env, SafeS env bk (w env x)) l ->
    forall env, SafeS env bk ((fix gon (env : lenv) (l : list stmt) {struct l} : M sres :=
                              match l with
                              | [] => ret (true, env)
                              | x :: r => let! a := w env x in let! _ := exempt_new env (snd a) in let! b := gon (snd a) r in ret (fst a && fst b, snd b)
                              end) env l).
  Proof.
    induction 1 as [|x r Hx Hr IH]; intros env st n G Hw Hb Hn.
    - cbn. split; [apply RegB_refl, G|exact Hw].
    - unfold mbind at 1. pose proof (Hx env st n G Hw Hb Hn) as R1. unfold StmtPost in R1.
      destruct (w env x st) as [[[ok1 env1]| |x0] s1]; [| |exact R1]; [|exact R1].
      destruct R1 as [R1 W1]. cbn [snd fst]. unfold mbind at 1.
      destruct (exempt_new_spec env env1 s1) as (s1' & Ee & Be & Le). rewrite Ee.
      assert (Re : RegB n s1 s1') by (apply RegB_same_blocks; [exact (g_good _ _ _ R1)|exact Be|exists []; rewrite app_nil_r; exact Le]).
      assert (W1' : envwf (nloc s1') env1) by (unfold nloc; rewrite Le; exact W1).
      unfold mbind at 1.
      pose proof (IH env1 s1' n (g_good _ _ _ Re) W1' ltac:(pose proof (g_len _ _ _ R1); pose proof (g_len _ _ _ Re); lia) ltac:(pose proof (g_len _ _ _ R1); pose proof (g_len _ _ _ Re); lia)) as R2. unfold StmtPost in R2.
      match type of R2 with match ?m s1' with _ => _ end => destruct (m s1') as [[[ok2 env2]| |x0] s2] end; [| |exact R2].
      + destruct R2 as [R2 W2]. cbn. split; [eapply RegB_trans; [exact R1|eapply RegB_trans; eassumption]|exact W2].
      + eapply RegB_trans; [exact R1|eapply RegB_trans; eassumption].
  Qed.

  Lemma opt_mark_safe (b : bool) s : Good s ->
    exists ls s', (if b then let! lbl := mark_branch_point in ret [lbl] else ret []) s = (V ls, s') /\ RegB (nb s) s s' /\ nloc s' = nloc s /\
                  inc (nb s - 1) ls /\ LOpen s' ls.
  Proof.
    intros G. destruct b.
    - destruct (mark_RegB s G) as (s' & E1 & R1 & N1 & M1 & O1 & K1). exists [nb s - 1], s'. unfold mbind. rewrite E1. cbn [ret].
      split; [reflexivity|]. split; [exact R1|]. split; [exact M1|]. split; [cbn; split; [apply le_n|exact I]|]. constructor; [|constructor].
      split; [exact O1|]. pose proof (proj1 G). lia.
    - exists [], s. split; [reflexivity|]. split; [apply RegB_refl, G|]. split; [reflexivity|]. split; [exact I|constructor].
  Qed.

  Definition gon_of (w : lenv -> stmt -> M sres) : lenv -> list stmt -> M sres :=
    fix gon (env : lenv) (l : list stmt) {struct l} : M sres :=
      match l with
      | [] => ret (true, env)
      | x :: r => let! a := w env x in let! _ := exempt_new env (snd a) in let! b := gon (snd a) r in ret (fst a && fst b, snd b)
      end.

  Lemma body_then_mark bk w body env s : Forall (fun x => forall env, SafeS env bk (w env x)) body -> Good s -> envwf (nloc s) env -> bk <= nb s ->
    match (let! res := gon_of w env body in let! bl := (if fst res then let! lbl := mark_branch_point in ret [lbl] else ret []) in ret (snd res, bl)) s with
    | (P _, _) => False
    | (F, s') => RegB (nb s) s s'
    | (V (env', ls), s') => RegB (nb s) s s' /\ envwf (nloc s') env' /\ inc (nb s - 1) ls /\ LOpen s' ls
    end.
  Proof.
    intros Hb G Hw Hbk. unfold mbind at 1.
    pose proof (SafeS_gon bk w body Hb env s (nb s) G Hw Hbk (le_n _)) as R1. unfold StmtPost in R1. fold (gon_of w) in R1.
    destruct (gon_of w env body s) as [[[ok env1]| |x] s1]; [| |exact R1]; [|exact R1].
    destruct R1 as [R1 W1]. cbn [fst snd]. unfold mbind at 1.
    destruct (opt_mark_safe ok s1 (g_good _ _ _ R1)) as (ls & s2 & E2 & R2 & M2 & I2 & O2). rewrite E2. cbn [ret].
    pose proof (g_len _ _ _ R1) as N1.
    split; [eapply RegB_trans; [exact R1|eapply RegB_weaken; [|exact R2]; lia]|]. split; [rewrite M2; exact W1|]. split; [eapply inc_weaken; [|exact I2]; lia|exact O2].
  Qed.

  Definition dpart (w : lenv -> stmt -> M sres) (default : option (nat * list stmt)) (env : lenv) (i : nat) : M (lenv * list nat) :=
    match default with
    | Some (pos, body) =>
        if Nat.eqb pos i then
          let! res := gon_of w env body in
          if fst res then let! lbl := mark_branch_point in ret (snd res, [lbl]) else ret (snd res, [])
        else ret (env, [])
    | None => ret (env, [])
    end.

  Lemma dpart_safe bk w default env i s : dflt_all (fun x => forall env, SafeS env bk (w env x)) default -> Good s -> envwf (nloc s) env -> bk <= nb s ->
    match dpart w default env i s with
    | (P _, _) => False
    | (F, s') => RegB (nb s) s s'
    | (V (env', ls), s') => RegB (nb s) s s' /\ envwf (nloc s') env' /\ inc (nb s - 1) ls /\ LOpen s' ls
    end.
  Proof.
    intros Hd G Hw Hbk. unfold dpart. destruct default as [[pos body]|].
    2:{ cbn. split; [apply RegB_refl, G|]. split; [exact Hw|]. split; [exact I|constructor]. }
    destruct (Nat.eqb pos i).
    2:{ cbn. split; [apply RegB_refl, G|]. split; [exact Hw|]. split; [exact I|constructor]. }
    cbn [dflt_all] in Hd. unfold mbind at 1.
    pose proof (SafeS_gon bk w body Hd env s (nb s) G Hw Hbk (le_n _)) as R1. unfold StmtPost in R1. fold (gon_of w) in R1.
    destruct (gon_of w env body s) as [[[ok env1]| |x] s1]; [| |exact R1]; [|exact R1].
    destruct R1 as [R1 W1]. cbn [fst snd]. pose proof (g_good _ _ _ R1) as G1. pose proof (g_len _ _ _ R1) as N1.
    destruct ok.
    - unfold mbind at 1. destruct (mark_RegB s1 G1) as (s2 & E2 & R2 & N2 & M2 & O2 & K2). rewrite E2. cbn [ret].
      split; [eapply RegB_trans; [exact R1|eapply RegB_weaken; [|exact R2]; lia]|]. split; [rewrite M2; exact W1|].
      split; [cbn; split; [lia|exact I]|]. constructor; [|constructor]. split; [exact O2|]. pose proof (proj1 G1). lia.
    - cbn. split; [exact R1|]. split; [exact W1|]. split; [exact I|constructor].
  Qed.

  Lemma bodies_safe bk w default : dflt_all (fun x => forall env, SafeS env bk (w env x)) default ->
    forall cases, Forall (fun c => Forall (fun x => forall env, SafeS env bk (w env x)) (snd c)) cases ->
    forall env i s, Good s -> envwf (nloc s) env -> bk <= nb s ->
    match (fix go (env : lenv) (i : nat) (l : list (expr * list stmt)) {struct l} : M (list nat) :=
             let! d := dpart w default env i in
             match l with
             | [] => ret (snd d)
             | (_, nodes) :: r =>
                 let! res := gon_of w (fst d) nodes in
                 let! bl := (if fst res then let! lbl := mark_branch_point in ret [lbl] else ret []) in
                 let! rest := go (snd res) (S i) r in
                 ret (snd d ++ bl ++ rest)
             end) env i cases s with
    | (P _, _) => False
    | (F, s') => RegB (nb s) s s'
    | (V ls, s') => RegB (nb s) s s' /\ inc (nb s - 1) ls /\ LOpen s' ls
    end.
  Proof.
    intros Hd cases Hc. induction Hc as [|[cv nodes] r Hn Hr IH]; intros env i s G Hw Hbk.
    - unfold mbind at 1. pose proof (dpart_safe bk w default env i s Hd G Hw Hbk) as R1.
      destruct (dpart w default env i s) as [[[env1 ls]| |x] s1]; [| |exact R1]; [|exact R1].
      destruct R1 as (R1 & W1 & I1 & O1). cbn. auto.
    - unfold mbind at 1. pose proof (dpart_safe bk w default env i s Hd G Hw Hbk) as R1.
      destruct (dpart w default env i s) as [[[env1 ls1]| |x] s1]; [| |exact R1]; [|exact R1].
      destruct R1 as (R1 & W1 & I1 & O1). cbn [fst snd]. pose proof (g_good _ _ _ R1) as G1. pose proof (g_len _ _ _ R1) as N1.
      unfold mbind at 1. cbn [snd] in Hn.
      pose proof (SafeS_gon bk w nodes Hn env1 s1 (nb s1) G1 W1 ltac:(lia) (le_n _)) as R2. unfold StmtPost in R2. fold (gon_of w) in R2.
      destruct (gon_of w env1 nodes s1) as [[[ok env2]| |x] s2]; [| |exact R2].
      2:{ eapply RegB_trans; [exact R1|eapply RegB_weaken; [|exact R2]; lia]. }
      destruct R2 as [R2 W2]. cbn [fst snd]. pose proof (g_good _ _ _ R2) as G2. pose proof (g_len _ _ _ R2) as N2.
      unfold mbind at 1. destruct (opt_mark_safe ok s2 G2) as (ls2 & s3 & E3 & R3 & M3 & I3 & O3). rewrite E3.
      pose proof (g_good _ _ _ R3) as G3. pose proof (g_len _ _ _ R3) as N3.
      unfold mbind at 1. specialize (IH env2 (S i) s3 G3 ltac:(rewrite M3; exact W2) ltac:(lia)).
      match type of IH with match ?m s3 with _ => _ end => destruct (m s3) as [[ls4| |x] s4] end; [| |exact IH].
      2:{ eapply RegB_trans; [exact R1|]. eapply RegB_trans; [eapply RegB_weaken; [|exact R2]; lia|]. eapply RegB_trans; [eapply RegB_weaken; [|exact R3]; lia|eapply RegB_weaken; [|exact IH]; lia]. }
      destruct IH as (R4 & I4 & O4). pose proof (g_len _ _ _ R4) as N4. cbn [ret].
      assert (R03 : RegB (nb s) s s3).
      { eapply RegB_trans; [exact R1|]. eapply RegB_trans; [eapply RegB_weaken; [|exact R2]; lia|eapply RegB_weaken; [|exact R3]; lia]. }
      split; [eapply RegB_trans; [exact R03|eapply RegB_weaken; [|exact R4]; lia]|].
      (* the label lists: ls1 (until s1), ls2 (until s3), ls4 (until s4) *)
      assert (H1lt : forall x, In x ls1 -> x + 1 < nb s1) by (intros x Hx; unfold LOpen in O1; rewrite Forall_forall in O1; exact (proj2 (O1 x Hx))).
      assert (H2lt : forall x, In x ls2 -> x + 1 < nb s3) by (intros x Hx; unfold LOpen in O3; rewrite Forall_forall in O3; exact (proj2 (O3 x Hx))).
      split.
      + apply inc_app_intro with (m := nb s2 - 1); [exact I1|intros x Hx; specialize (H1lt x Hx); lia|lia|].
        apply inc_app_intro with (m := nb s3 - 1); [exact I3|intros x Hx; specialize (H2lt x Hx); lia|lia|exact I4].
      + apply LOpen_app. split; [|apply LOpen_app; split; [|exact O4]].
        * eapply LOpen_RegB with (m := nb s3); [exact R4|intros l Hl; specialize (H1lt l Hl); lia|].
          eapply LOpen_RegB with (m := nb s2); [exact R3|intros l Hl; specialize (H1lt l Hl); lia|].
          eapply LOpen_RegB with (m := nb s1); [exact R2|intros l Hl; specialize (H1lt l Hl); lia|exact O1].
        * eapply LOpen_RegB with (m := nb s3); [exact R4|intros l Hl; specialize (H2lt l Hl); lia|exact O3].
  Qed.

  Definition conds_of (env : lenv) (lhs : operand) : list (expr * list stmt) -> M (list (operand * nat)) :=
    fix go (l : list (expr * list stmt)) : M (list (operand * nat)) :=
      match l with
      | [] => ret []
      | (cv, _) :: r =>
          let! c := attempt (let! rhs := walk_rvalue E env cv in let! cond := visit_binary E BoEq lhs rhs in let! lbl := mark_branch_point in ret (cond, lbl)) in
          let! rest := go r in
          ret (match c with Some x => x :: rest | None => rest end)
      end.
  Definition bodies_of (w : lenv -> stmt -> M sres) (default : option (nat * list stmt)) : lenv -> nat -> list (expr * list stmt) -> M (list nat) :=
    fix go (env : lenv) (i : nat) (l : list (expr * list stmt)) {struct l} : M (list nat) :=
      let! d := dpart w default env i in
      match l with
      | [] => ret (snd d)
      | (_, nodes) :: r =>
          let! res := gon_of w (fst d) nodes in
          let! bl := (if fst res then let! lbl := mark_branch_point in ret [lbl] else ret []) in
          let! rest := go (snd res) (S i) r in
          ret (snd d ++ bl ++ rest)
      end.

  (* the switch of walk_stmt, written with the named loops (convertible to the inline text of model/Builder.v) *)
  Lemma walk_switch_eq env brk v cases default :
    walk_stmt E env brk (SSwitch v cases default) =
    (let! lv := attempt (walk_rvalue E env v) in
     match lv with
     | None => sfail env
     | Some lhs =>
         let! conds := conds_of env lhs cases in
         let nbodies := List.length cases + match default with Some _ => 1 | None => 0 end in
         let default_pos := option_map fst default in
         let! _ := (match default with
                    | Some (pos, _) => if Nat.leb pos (List.length cases) then ret tt
                                       else panic "typedexpr.rs walk_stmt: body_statements.insert(d.position) out of range"
                    | None => ret tt
                    end) in
         let! head_ref := mark_branch_point in
         let! exit_ref := mark_branch_point in
         let! bodies := bodies_of (fun env0 x => walk_stmt E env0 (Some exit_ref) x) default env 0 cases in
         if Nat.eqb (List.length cases) (List.length conds) && Nat.eqb nbodies (List.length bodies)
         then let! _ := visit_switch conds bodies default_pos head_ref exit_ref in ret (true, env)
         else sfail env
     end).
  Proof. reflexivity. Qed.

  Lemma conds_safe' env lhs cases s : Good s -> envwf (nloc s) env ->
    match conds_of env lhs cases s with
    | (P _, _) => False
    | (F, s') => RegB (nb s) s s'
    | (V cs, s') => RegB (nb s) s s' /\ inc (nb s - 1) (map snd cs) /\ LOpen s' (map snd cs)
    end.
  Proof. apply conds_safe. Qed.
  Lemma bodies_safe' bk w default cases env i s : dflt_all (fun x => forall env, SafeS env bk (w env x)) default ->
    Forall (fun c => Forall (fun x => forall env, SafeS env bk (w env x)) (snd c)) cases -> Good s -> envwf (nloc s) env -> bk <= nb s ->
    match bodies_of w default env i cases s with
    | (P _, _) => False
    | (F, s') => RegB (nb s) s s'
    | (V ls, s') => RegB (nb s) s s' /\ inc (nb s - 1) ls /\ LOpen s' ls
    end.
  Proof. intros Hd Hc G Hw Hbk. apply (bodies_safe bk); assumption. Qed.

  Lemma SafeS_switch v cases default :
    Forall (fun c => Forall (fun x => forall env brk, SafeS env (bound_of brk) (walk_stmt E env brk x)) (snd c)) cases ->
    dflt_all (fun x => forall env brk, SafeS env (bound_of brk) (walk_stmt E env brk x)) default ->
    match default with Some (pos, _) => pos <= List.length cases | None => True end ->
    forall env brk, SafeS env (bound_of brk) (walk_stmt E env brk (SSwitch v cases default)).
  Proof.
    intros Hc Hd Hwf env brk st n G Hw Hbk Hn. rewrite walk_switch_eq.
    unfold mbind at 1. rewrite attempt_eq.
    pose proof (Safe_run (nloc st) (walk_rvalue E env v) st ltac:(unfold walk_rvalue; apply Safe_rv, walk_expr_safe, Hw) G (le_n _)) as R1.
    destruct (walk_rvalue E env v st) as [[lhs| |x] s1]; [| |exact R1].
    2:{ cbn. split; [eapply RegB_weaken; eassumption|]. eapply envwf_mono; [exact Hw|eapply RegB_nloc, R1]. }
    pose proof (g_good _ _ _ R1) as G1. pose proof (proj1 G1) as P1. pose proof (RegB_nloc _ _ _ R1) as LL1. pose proof (g_len _ _ _ R1) as N1.
    assert (W1 : envwf (nloc s1) env) by (eapply envwf_mono; [exact Hw|exact LL1]).
    unfold mbind at 1.
    pose proof (conds_safe' env lhs cases s1 G1 W1) as R2.
    destruct (conds_of env lhs cases s1) as [[conds| |x] s2]; [| |exact R2].
    2:{ eapply RegB_weaken; [exact Hn|eapply RegB_trans; [exact R1|eapply RegB_weaken; [|exact R2]; lia]]. }
    destruct R2 as (R2 & Ic & Oc). pose proof (g_good _ _ _ R2) as G2. pose proof (proj1 G2) as P2. pose proof (g_len _ _ _ R2) as N2. pose proof (RegB_nloc _ _ _ R2) as LL2.
    cbv zeta. unfold mbind at 1.
    assert (Hpos : (match default with
                    | Some (pos, _) => if Nat.leb pos (List.length cases) then ret tt else panic "typedexpr.rs walk_stmt: body_statements.insert(d.position) out of range"
                    | None => ret tt
                    end) s2 = (V tt, s2)).
    { destruct default as [[pos body]|]; [|reflexivity]. apply Nat.leb_le in Hwf. rewrite Hwf. reflexivity. }
    rewrite Hpos.
    unfold mbind at 1. destruct (mark_RegB s2 G2) as (s3 & E3 & R3 & N3 & M3 & Oh3 & K3). rewrite E3. set (h := nb s2 - 1) in *.
    pose proof (g_good _ _ _ R3) as G3.
    unfold mbind at 1. destruct (mark_RegB s3 G3) as (s4 & E4 & R4 & N4 & M4 & Ox4 & K4). rewrite E4. set (x := nb s3 - 1) in *.
    pose proof (g_good _ _ _ R4) as G4.
    assert (W4 : envwf (nloc s4) env) by (eapply envwf_mono; [exact W1|lia]).
    unfold mbind at 1.
    assert (Hd' : dflt_all (fun y => forall env0, SafeS env0 (S (S x)) ((fun env1 y0 => walk_stmt E env1 (Some x) y0) env0 y)) default).
    { destruct default as [[pos body]|]; [|exact I]. cbn [dflt_all] in *. eapply Forall_impl; [|exact Hd]. intros y Hy env0. exact (Hy env0 (Some x)). }
    assert (Hc' : Forall (fun c => Forall (fun y => forall env0, SafeS env0 (S (S x)) ((fun env1 y0 => walk_stmt E env1 (Some x) y0) env0 y)) (snd c)) cases).
    { eapply Forall_impl; [|exact Hc]. intros c Hcc. eapply Forall_impl; [|exact Hcc]. intros y Hy env0. exact (Hy env0 (Some x)). }
    pose proof (bodies_safe' (S (S x)) (fun env1 y0 => walk_stmt E env1 (Some x) y0) default cases env 0 s4 Hd' Hc' G4 W4 ltac:(unfold x; lia)) as R5.
    destruct (bodies_of (fun env1 y0 => walk_stmt E env1 (Some x) y0) default env 0 cases s4) as [[bodies| |e] s5]; [| |exact R5].
    2:{ eapply RegB_weaken; [exact Hn|]. eapply RegB_trans; [exact R1|]. eapply RegB_trans; [eapply RegB_weaken; [|exact R2]; lia|].
        eapply RegB_trans; [eapply RegB_weaken; [|exact R3]; lia|]. eapply RegB_trans; [eapply RegB_weaken; [|exact R4]; lia|eapply RegB_weaken; [|exact R5]; lia]. }
    destruct R5 as (R5 & Ib & Ob). pose proof (g_good _ _ _ R5) as G5. pose proof (g_len _ _ _ R5) as N5.
    assert (R05 : RegB (nb st) st s5).
    { eapply RegB_trans; [exact R1|]. eapply RegB_trans; [eapply RegB_weaken; [|exact R2]; lia|].
      eapply RegB_trans; [eapply RegB_weaken; [|exact R3]; lia|]. eapply RegB_trans; [eapply RegB_weaken; [|exact R4]; lia|eapply RegB_weaken; [|exact R5]; lia]. }
    assert (W5 : envwf (nloc s5) env) by (eapply envwf_mono; [exact W4|eapply RegB_nloc, R5]).
    destruct (Nat.eqb (List.length cases) (List.length conds) && Nat.eqb (List.length cases + match default with Some _ => 1 | None => 0 end) (List.length bodies)) eqn:Elen.
    2:{ cbn. split; [eapply RegB_weaken; [|exact R05]; lia|exact W5]. }
    apply andb_prop in Elen. destruct Elen as [El1 El2]. apply Nat.eqb_eq in El1. apply Nat.eqb_eq in El2.
    unfold mbind at 1.
    assert (Hcl : forall l, In l (map snd conds) -> l + 1 < nb s2) by (intros l Hl; unfold LOpen in Oc; rewrite Forall_forall in Oc; exact (proj2 (Oc l Hl))).
    assert (Hinc : inc (nb s1 - 1) (map snd conds ++ h :: x :: bodies)).
    { apply inc_app_intro with (m := h); [exact Ic|intros l Hl; specialize (Hcl l Hl); unfold h; lia|unfold h; lia|].
      cbn [inc]. split; [apply le_n|]. split; [unfold h, x; lia|]. eapply inc_weaken; [|exact Ib]. unfold x. lia. }
    assert (HO : LOpen s5 (map snd conds ++ h :: x :: bodies)).
    { apply LOpen_app. split.
      - eapply LOpen_RegB with (m := nb s4); [exact R5|intros l Hl; specialize (Hcl l Hl); lia|].
        eapply LOpen_RegB with (m := nb s3); [exact R4|intros l Hl; specialize (Hcl l Hl); lia|].
        eapply LOpen_RegB with (m := nb s2); [exact R3|intros l Hl; specialize (Hcl l Hl); lia|exact Oc].
      - constructor; [|constructor; [|exact Ob]].
        + split; [|unfold h; lia]. eapply RegB_opened; [exact R5|unfold h; lia|]. apply (opened_eq s3); [apply K4; unfold h; lia|exact Oh3].
        + split; [|unfold x; lia]. eapply RegB_opened; [exact R5|unfold x; lia|exact Ox4]. }
    pose proof (visit_switch_safe conds bodies (option_map fst default) h x s5 n (nb s1 - 1) G5 Hinc HO ltac:(lia)) as R6.
    assert (Hdp : match option_map fst default with
                  | Some p => p < List.length bodies /\ List.length conds + 1 = List.length bodies
                  | None => List.length conds = List.length bodies
                  end).
    { destruct default as [[pos body]|]; cbn [option_map fst]; lia. }
    specialize (R6 Hdp).
    destruct (visit_switch conds bodies (option_map fst default) h x s5) as [[u| |e] s6]; [| |exact R6].
    - destruct R6 as [R6 L6]. cbn. split; [eapply RegB_trans; [eapply RegB_weaken; [|exact R05]; lia|exact R6]|]. rewrite L6. exact W5.
    - destruct R6 as [R6 L6]. eapply RegB_trans; [eapply RegB_weaken; [|exact R05]; lia|exact R6].
  Qed.
End Switch.

(* the parser puts the default clause at a position between 0 and the number of cases *)
Fixpoint wfsw (s : stmt) : bool :=
  match s with
  | SBlock ss => forallb wfsw ss
  | SIf _ t e => wfsw t && match e with Some n => wfsw n | None => true end
  | SSwitch _ cases default =>
      forallb (fun c => match c with (_, b) => forallb wfsw b end) cases &&
      match default with Some (pos, body) => Nat.leb pos (List.length cases) && forallb wfsw body | None => true end
  | _ => true
  end.

Theorem walk_stmt_safe E : forall s, wfsw s = true -> forall env brk, SafeS env (bound_of brk) (walk_stmt E env brk s).
Proof.
  apply (stmt_ind' (fun s => wfsw s = true -> forall env brk, SafeS env (bound_of brk) (walk_stmt E env brk s))).
  - intros e _ env brk. apply SafeS_expr.
  - intros ss Hss Hn env brk. cbn [wfsw] in Hn. rewrite forallb_forall in Hn.
    intros st n G Hw Hb Hnn. cbn [walk_stmt]. unfold mbind at 1.
    assert (HF : Forall (fun x => forall env0, SafeS env0 (bound_of brk) (walk_stmt E env0 brk x)) ss).
    { apply Forall_forall. intros x Hx env0. rewrite Forall_forall in Hss. apply Hss; [exact Hx|apply Hn, Hx]. }
    pose proof (SafeS_nodes (bound_of brk) (fun env0 x => walk_stmt E env0 brk x) ss HF env st n G Hw Hb Hnn) as R. unfold StmtPost in R.
    match type of R with match ?m st with _ => _ end => destruct (m st) as [[[ok env']| |x0] s1] end; [| |exact R].
    + destruct R as [R W]. cbn. split; [exact R|]. eapply envwf_mono; [exact Hw|eapply RegB_nloc, R].
    + exact R.
  - intros k vars _ env brk. cbn [walk_stmt]. apply SafeS_decls.
  - intros c t e Ht He Hn env brk. cbn [wfsw] in Hn. apply andb_prop in Hn. destruct Hn as [Hnt Hne].
    apply SafeS_if; [exact (Ht Hnt)|]. intros n0 -> . cbn [opt_all] in He. exact (He Hne).
  - intros v cases default Hc Hd Hn. cbn [wfsw] in Hn. apply andb_prop in Hn. destruct Hn as [Hnc Hnd]. rewrite forallb_forall in Hnc.
    apply SafeS_switch.
    + apply Forall_forall. intros [cv b] Hin. cbn [snd]. rewrite Forall_forall in Hc. specialize (Hc _ Hin). cbn [snd] in Hc.
      specialize (Hnc _ Hin). cbn in Hnc. rewrite forallb_forall in Hnc.
      apply Forall_forall. intros y Hy. rewrite Forall_forall in Hc. apply Hc; [exact Hy|apply Hnc, Hy].
    + destruct default as [[pos body]|]; [|exact I]. cbn [dflt_all] in *. apply andb_prop in Hnd. destruct Hnd as [_ Hb]. rewrite forallb_forall in Hb.
      apply Forall_forall. intros y Hy. rewrite Forall_forall in Hd. apply Hd; [exact Hy|apply Hb, Hy].
    + destruct default as [[pos body]|]; [|exact I]. apply andb_prop in Hnd. destruct Hnd as [Hp _]. apply Nat.leb_le. exact Hp.
  - intros l _ env brk. apply SafeS_break.
  - intros e _ env brk. apply SafeS_return.
Qed.

From QV Require Import model.Passes.

Lemma walk_params_safe E : forall params env s, Good s -> envwf (nloc s) env -> List.length (bs_locals s) = bs_nparams s ->
  match walk_params E env params s with
  | (P _, _) => False
  | (V (ok, env'), s') => RegB (nb s) s s' /\ envwf (nloc s') env'
  | (F, s') => RegB (nb s) s s'
  end.
Proof.
  induction params as [|[name ty] rest IH]; intros env s G Hw Hnp; cbn [walk_params].
  - cbn. split; [apply RegB_refl, G|exact Hw].
  - assert (Hskip : forall d, match (let! _ := attempt (fail (A:=unit) d) in let! r := walk_params E env rest in ret (false, snd r)) s with
                               | (P _, _) => False
                               | (V (ok, env'), s') => RegB (nb s) s s' /\ envwf (nloc s') env'
                               | (F, s') => RegB (nb s) s s'
                               end).
    { intros d. unfold mbind at 1. rewrite attempt_eq. cbn [fail].
      set (s1 := {| bs_blocks := bs_blocks s; bs_locals := bs_locals s; bs_nparams := bs_nparams s; bs_diags := bs_diags s ++ [d]; bs_exempt := bs_exempt s |}).
      assert (R1 : RegB (nb s) s s1) by (apply RegB_same_blocks; [exact G|reflexivity|exists []; rewrite app_nil_r; reflexivity]).
      unfold mbind at 1. specialize (IH env s1 (g_good _ _ _ R1) Hw Hnp).
      destruct (walk_params E env rest s1) as [[[ok env']| |x] s2]; [| |exact IH].
      - destruct IH as [R2 W2]. cbn. split; [eapply RegB_trans; [exact R1|exact R2]|exact W2].
      - eapply RegB_trans; [exact R1|exact IH]. }
    destruct (lenv_get env name); [apply Hskip|]. destruct ty as [path|]; [|apply Hskip].
    unfold mbind at 1. unfold process_type_annotation. destruct (annotated_type E path) as [t|].
    2:{ cbn. apply RegB_same_blocks; [exact G|reflexivity|exists []; rewrite app_nil_r; reflexivity]. }
    cbn [ret]. unfold mbind at 1. unfold visit_function_parameter. rewrite Hnp, Nat.eqb_refl. cbn [negb].
    unfold alloca. destruct (tkind_eqb t T_VOID).
    + cbn. apply RegB_same_blocks; [exact G|reflexivity|exists []; rewrite app_nil_r; reflexivity].
    + cbn [local_index bs_blocks bs_locals bs_nparams bs_diags bs_exempt].
      set (s1 := {| bs_blocks := bs_blocks s; bs_locals := bs_locals s ++ [t]; bs_nparams := List.length (bs_locals s ++ [t]); bs_diags := bs_diags s; bs_exempt := bs_exempt s |}).
      assert (R1 : RegB (nb s) s s1) by (apply RegB_same_blocks; [exact G|reflexivity|exists [t]; reflexivity]).
      assert (W1 : envwf (nloc s1) ((name, (List.length (bs_locals s), DLet)) :: env)).
      { intros y l k Hy. cbn [lenv_get] in Hy. unfold nloc, s1. cbn. rewrite app_length. cbn.
        destruct (String.eqb name y); [inversion Hy; subst; lia|]. specialize (Hw y l k Hy). unfold nloc in Hw. lia. }
      specialize (IH ((name, (List.length (bs_locals s), DLet)) :: env) s1 (g_good _ _ _ R1) W1 eq_refl).
      destruct (walk_params E ((name, (List.length (bs_locals s), DLet)) :: env) rest s1) as [[[ok env']| |x] s2]; [| |exact IH].
      * destruct IH as [R2 W2]. split; [eapply RegB_trans; [exact R1|exact R2]|exact W2].
      * eapply RegB_trans; [exact R1|exact IH].
Qed.

Definition wf_callback (cb : callback) : bool :=
  match cb with
  | CStmt s => wfsw s
  | CFunc f => match f_body f with FStmt s => wfsw s | FExpr _ => true end
  end.

(* the whole translation of a binding or a handler, from the initial builder state: no assert, index or unwrap of typedexpr.rs / builder.rs fires *)
Theorem walk_callback_never_panics E cb : wf_callback cb = true ->
  match walk_callback E cb bstate0 with (P _, _) => False | _ => True end.
Proof.
  intros Hwf.
  assert (G0 : Good bstate0).
  { split; [apply le_n|]. split; [exists block0; split; reflexivity|].
    intros i b t Hi Hb. destruct i as [|[|i]]; cbn in Hi; try discriminate. inversion Hi; subst. discriminate. }
  assert (W0 : envwf (nloc bstate0) []) by (intros x l k Hx; discriminate).
  destruct cb as [s|f]; cbn [walk_callback wf_callback] in *.
  - pose proof (walk_stmt_safe E s Hwf [] None bstate0 (nb bstate0) G0 W0 (Nat.le_0_l _) (le_n _)) as H. unfold StmtPost in H.
    destruct (walk_stmt E [] None s bstate0) as [[[ok env']| |x] s1]; auto.
  - destruct (f_named f).
    + cbn. exact I.
    + unfold mbind at 1.
      assert (Hwarn : exists s1, (if f_return_ty f then warn XReturnTypeIgnored else ret tt) bstate0 = (V tt, s1) /\ bs_blocks s1 = bs_blocks bstate0 /\ bs_locals s1 = bs_locals bstate0 /\ bs_nparams s1 = bs_nparams bstate0).
      { destruct (f_return_ty f); eexists; (split; [reflexivity|cbn; auto]). }
      destruct Hwarn as (s1 & E1 & B1 & L1 & P1). rewrite E1.
      assert (G1 : Good s1) by (eapply Good_same_blocks; [exact B1|exact G0]).
      assert (W1 : envwf (nloc s1) []) by (intros x l k Hx; discriminate).
      unfold mbind at 1.
      pose proof (walk_params_safe E (f_params f) [] s1 G1 W1 ltac:(rewrite L1, P1; reflexivity)) as R2.
      destruct (walk_params E [] (f_params f) s1) as [[[ok env1]| |x] s2]; [| exact I |exact R2].
      destruct R2 as [R2 W2]. cbn [fst snd]. destruct ok; cbn [negb]; [|cbn; exact I].
      pose proof (g_good _ _ _ R2) as G2.
      destruct (f_body f) as [e|s].
      * unfold mbind at 1. rewrite attempt_eq.
        pose proof (Safe_run (nloc s2) (walk_rvalue E env1 e) s2 ltac:(unfold walk_rvalue; apply Safe_rv, walk_expr_safe, W2) G2 (le_n _)) as R3.
        destruct (walk_rvalue E env1 e s2) as [[v| |x] s3]; [| cbn; exact I |exact R3].
        unfold mbind at 1.
        pose proof (Safe_set_completion (nloc s3) v s3 (nb s3) (g_good _ _ _ R3) (le_n _) (le_n _)) as R4.
        destruct (visit_expression_statement v s3) as [[u| |x] s4]; [cbn; exact I|exact I|exact R4].
      * pose proof (walk_stmt_safe E s Hwf env1 None s2 (nb s2) G2 W2 (Nat.le_0_l _) (le_n _)) as H. unfold StmtPost in H.
        destruct (walk_stmt E env1 None s s2) as [[[ok env']| |x] s3]; auto.
Qed.

(* ... and it ends in a state whose current block is open and in which every jump written targets an existing block *)
Theorem walk_callback_good E cb : wf_callback cb = true ->
  match walk_callback E cb bstate0 with (P _, _) => False | (_, s') => Good s' end.
Proof.
  intros Hwf.
  assert (G0 : Good bstate0).
  { split; [apply le_n|]. split; [exists block0; split; reflexivity|].
    intros i b t Hi Hb. destruct i as [|[|i]]; cbn in Hi; try discriminate. inversion Hi; subst. discriminate. }
  assert (W0 : envwf (nloc bstate0) []) by (intros x l k Hx; discriminate).
  destruct cb as [s|f]; cbn [walk_callback wf_callback] in *.
  - pose proof (walk_stmt_safe E s Hwf [] None bstate0 (nb bstate0) G0 W0 (Nat.le_0_l _) (le_n _)) as H. unfold StmtPost in H.
    destruct (walk_stmt E [] None s bstate0) as [[[ok env']| |x] s1]; [exact (g_good _ _ _ (proj1 H))|exact (g_good _ _ _ H)|exact H].
  - destruct (f_named f).
    + cbn. eapply Good_same_blocks; [|exact G0]. reflexivity.
    + unfold mbind at 1.
      assert (Hwarn : exists s1, (if f_return_ty f then warn XReturnTypeIgnored else ret tt) bstate0 = (V tt, s1) /\ bs_blocks s1 = bs_blocks bstate0 /\ bs_locals s1 = bs_locals bstate0 /\ bs_nparams s1 = bs_nparams bstate0).
      { destruct (f_return_ty f); eexists; (split; [reflexivity|cbn; auto]). }
      destruct Hwarn as (s1 & E1 & B1 & L1 & P1). rewrite E1.
      assert (G1 : Good s1) by (eapply Good_same_blocks; [exact B1|exact G0]).
      assert (W1 : envwf (nloc s1) []) by (intros x l k Hx; discriminate).
      unfold mbind at 1.
      pose proof (walk_params_safe E (f_params f) [] s1 G1 W1 ltac:(rewrite L1, P1; reflexivity)) as R2.
      destruct (walk_params E [] (f_params f) s1) as [[[ok env1]| |x] s2]; [| exact (g_good _ _ _ R2) |exact R2].
      destruct R2 as [R2 W2]. cbn [fst snd]. pose proof (g_good _ _ _ R2) as G2. destruct ok; cbn [negb]; [|cbn; exact G2].
      destruct (f_body f) as [e|s].
      * unfold mbind at 1. rewrite attempt_eq.
        pose proof (Safe_run (nloc s2) (walk_rvalue E env1 e) s2 ltac:(unfold walk_rvalue; apply Safe_rv, walk_expr_safe, W2) G2 (le_n _)) as R3.
        destruct (walk_rvalue E env1 e s2) as [[v| |x] s3]; [| cbn; exact (g_good _ _ _ R3) |exact R3].
        unfold mbind at 1.
        pose proof (Safe_set_completion (nloc s3) v s3 (nb s3) (g_good _ _ _ R3) (le_n _) (le_n _)) as R4.
        destruct (visit_expression_statement v s3) as [[u| |x] s4]; [cbn; exact (g_good _ _ _ R4)|exact (g_good _ _ _ R4)|exact R4].
      * pose proof (walk_stmt_safe E s Hwf env1 None s2 (nb s2) G2 W2 (Nat.le_0_l _) (le_n _)) as H. unfold StmtPost in H.
        destruct (walk_stmt E env1 None s s2) as [[[ok env']| |x] s3]; [exact (g_good _ _ _ (proj1 H))|exact (g_good _ _ _ H)|exact H].
Qed.

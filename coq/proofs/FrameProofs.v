(* FrameProofs.v -- what evaluation and execution may change (model/Sem.v): expressions change no property of any object; statements only
   append to the trace.  Used by C01 (an evaluation function has no effect on the objects), C02 (re-evaluation is harmless) and C13 (effects
   accumulate in execution order). *)
From QV Require Import model.Base model.Lang model.Sem proofs.SemProofs proofs.ScopeProofs.
From Coq Require Import Arith Lia List.
Open Scope nat_scope. Open Scope list_scope.

Section ExprInd.
  Variable Q : expr -> Prop.
  Hypothesis HIdent : forall x, Q (EIdent x).
  Hypothesis HThis : Q EThis.
  Hypothesis HInt : forall n, Q (EInt n).
  Hypothesis HFloat : forall b, Q (EFloat b).
  Hypothesis HStr : forall s, Q (EStr s).
  Hypothesis HBool : forall b, Q (EBool b).
  Hypothesis HNull : Q ENull.
  Hypothesis HArray : forall es, Forall Q es -> Q (EArray es).
  Hypothesis HFunction : Q EFunction.
  Hypothesis HMember : forall o p, Q o -> Q (EMember o p).
  Hypothesis HSubscript : forall o i, Q o -> Q i -> Q (ESubscript o i).
  Hypothesis HCall : forall f args, Q f -> Forall Q args -> Q (ECall f args).
  Hypothesis HAssign : forall l r, Q l -> Q r -> Q (EAssign l r).
  Hypothesis HUnary : forall op a, Q a -> Q (EUnary op a).
  Hypothesis HBinary : forall op l r, Q l -> Q r -> Q (EBinary op l r).
  Hypothesis HAs : forall v ty, Q v -> Q (EAs v ty).
  Hypothesis HTernary : forall c a b, Q c -> Q a -> Q b -> Q (ETernary c a b).
  Fixpoint expr_ind' (x : expr) : Q x :=
    let go := fix go (l : list expr) : Forall Q l := match l with [] => Forall_nil Q | y :: r => Forall_cons y (expr_ind' y) (go r) end in
    match x with
    | EIdent n => HIdent n | EThis => HThis | EInt n => HInt n | EFloat b => HFloat b | EStr s => HStr s | EBool b => HBool b | ENull => HNull
    | EArray es => HArray es (go es) | EFunction => HFunction
    | EMember o p => HMember o p (expr_ind' o)
    | ESubscript o i => HSubscript o i (expr_ind' o) (expr_ind' i)
    | ECall f args => HCall f args (expr_ind' f) (go args)
    | EAssign l r => HAssign l r (expr_ind' l) (expr_ind' r)
    | EUnary op a => HUnary op a (expr_ind' a)
    | EBinary op l r => HBinary op l r (expr_ind' l) (expr_ind' r)
    | EAs v ty => HAs v ty (expr_ind' v)
    | ETernary c a b => HTernary c a b (expr_ind' c) (expr_ind' a) (expr_ind' b)
    end.
End ExprInd.

(* the world after is the world before: same objects with the same property values; the trace only grows *)
Definition Fr (st st' : state) : Prop := objs st' = objs st /\ exists t, trace st' = t ++ trace st.
Lemma Fr_refl st : Fr st st. Proof. split; [reflexivity|exists []; reflexivity]. Qed.
Lemma Fr_trans a b c : Fr a b -> Fr b c -> Fr a c.
Proof. intros [H1 [t1 T1]] [H2 [t2 T2]]. split; [congruence|]. exists (t2 ++ t1). rewrite T2, T1, app_assoc. reflexivity. Qed.

(* [discriminate] would normalise Z arithmetic on variables: only the syntactically obvious cases *)
Ltac disc H := try (match type of H with Stuck _ = Def _ => discriminate H | Undef = Def _ => discriminate H end).
Lemma Def_inj_snd {A} (a b : A) (s s' : state) : Def (a, s) = Def (b, s') -> s = s'.
Proof. intros H. inversion H. reflexivity. Qed.
Ltac brkf H :=
  repeat (match type of H with
          | context [rbind ?m _] => let E := fresh "E" in destruct m as [?| |] eqn:E; cbn [rbind] in H; disc H
          | context [match ?x with _ => _ end] => let E := fresh "E" in destruct x eqn:E; disc H
          | context [if ?x then _ else _] => let E := fresh "E" in destruct x eqn:E; disc H
          end).

Lemma call_method_frame st o m args v st' : call_method st o m args = Def (v, st') -> Fr st st'.
Proof.
  unfold call_method. intros H. brkf H.
  all: inversion H; subst; split; [reflexivity|]; cbn [trace]; eexists [_]; reflexivity.
Qed.

Section Frame.
  Variable names : list string.
  Variable this : nat.
  Definition QF (x : expr) : Prop := forall st e v st', eval names this st e x = Def (v, st') -> Fr st st'.

  Lemma args_frame e args : Forall QF args -> forall s vs s',
    (fix go (l : list expr) (s : state) : res (list val * state) :=
       match l with [] => Def ([], s) | a :: r => let? (v, s1) := eval names this s e a in let? (vs, s2) := go r s1 in Def (v :: vs, s2) end) args s = Def (vs, s') -> Fr s s'.
  Proof.
    induction 1 as [|a r Ha Hr IH]; intros s vs s' H.
    - inversion H. apply Fr_refl.
    - destruct (eval names this s e a) as [[v s1]| |] eqn:Ea; cbn [rbind] in H; try discriminate.
      match type of H with context [rbind ?m _] => destruct m as [[vs2 s2]| |] eqn:Eg; cbn [rbind] in H; try discriminate end.
      inversion H; subst. eapply Fr_trans; [eapply Ha; exact Ea|eapply IH; exact Eg].
  Qed.
End Frame.

Ltac learn names this :=
  repeat match goal with
         | Hf : Forall _ (_ :: _) |- _ => let x := fresh "Hx" in let y := fresh "Hy" in apply Forall_cons_iff in Hf; destruct Hf as [x y]
         | IH : QF names this ?a, E : eval names this ?s ?e ?a = Def (_, ?s1) |- _ => pose proof (IH _ _ _ _ E); clear E
         | E : call_method ?s _ _ _ = Def (_, ?s1) |- _ => pose proof (call_method_frame _ _ _ _ _ _ E); clear E
         | Hf : Forall (QF names this) ?args, E : _ ?args ?s = Def (_, _) |- _ => pose proof (args_frame names this _ _ Hf _ _ _ E); clear E
         end.
Ltac chain := repeat (first [assumption | apply Fr_refl | eapply Fr_trans; [eassumption|]]).

(* evaluating an expression changes no property of any object; it may only add method calls to the trace *)
Definition Q2 names this (x : expr) : Prop := QF names this x /\ match x with EMember o _ => QF names this o | _ => True end.
Theorem eval_frame2 names this : forall x, Q2 names this x.
Proof.
  apply expr_ind'; intros;
    repeat match goal with
           | Hq : Q2 _ _ _ |- _ => destruct Hq as [? ?]
           | Hq : Forall (Q2 _ _) _ |- _ => apply (Forall_impl (QF names this) (fun x (h : Q2 names this x) => proj1 h)) in Hq
           end;
    (split; [|try exact I; try assumption]);
    intros st0 e0 v0 st0' HE; cbn [eval] in HE; disc HE.
  all: brkf HE; cbv beta iota in *; learn names this; try (apply Def_inj_snd in HE; subst); learn names this; chain.
Qed.
Theorem eval_frame names this x st e v st' : eval names this st e x = Def (v, st') -> objs st' = objs st /\ exists t, trace st' = t ++ trace st.
Proof. intros H. exact (proj1 (eval_frame2 names this x) st e v st' H). Qed.

(* ---- statements: the trace only grows ---- *)
Definition Gr (st st' : state) : Prop := exists t, trace st' = t ++ trace st.
Lemma Gr_refl st : Gr st st. Proof. exists []. reflexivity. Qed.
Lemma Gr_trans a b c : Gr a b -> Gr b c -> Gr a c.
Proof. intros [t1 T1] [t2 T2]. exists (t2 ++ t1). rewrite T2, T1, app_assoc. reflexivity. Qed.
Lemma Fr_Gr a b : Fr a b -> Gr a b. Proof. intros [_ H]. exact H. Qed.
Lemma write_prop_Gr st o p v st' : write_prop st o p v = Def st' -> Gr st st'.
Proof. intros H. destruct (write_prop_trace' _ _ _ _ _ H) as [w T]. exists [ESet o p w]. exact T. Qed.

Section GrowS.
  Variable names : list string.
  Variable this : nat.
  Definition PG (s : stmt) : Prop := forall st e o st' e', exec names this st e s = Def (o, st', e') -> Gr st st'.

  Lemma run_seq_Gr l : Forall PG l -> forall st e o st' e', run_seq (exec names this) l st e = Def (o, st', e') -> Gr st st'.
  Proof.
    induction 1 as [|x r Hx Hr IH]; intros st e o st' e' H; cbn [run_seq] in H.
    - inversion H. apply Gr_refl.
    - destruct (exec names this st e x) as [[[o1 s1] e1]| |] eqn:Ex; cbn [rbind] in H; try discriminate.
      pose proof (Hx _ _ _ _ _ Ex) as H1. destruct o1.
      + eapply Gr_trans; [exact H1|]. eapply IH. exact H.
      + inversion H; subst. exact H1.
      + inversion H; subst. exact H1.
  Qed.

  Lemma at_default_Gr default found i started st e o b st' e' :
    dflt_all PG default -> at_default (exec names this) default found i started st e = Def (o, b, st', e') -> Gr st st'.
  Proof.
    intros Hd H. unfold at_default in H. destruct default as [[pos db]|]; [|inversion H; apply Gr_refl].
    destruct (Nat.eqb pos i); [|inversion H; apply Gr_refl].
    destruct (started || match found with None => true | Some _ => false end); [|inversion H; apply Gr_refl].
    destruct (run_seq (exec names this) db st e) as [[[o1 s1] e1]| |] eqn:Er; cbn [rbind] in H; try discriminate.
    inversion H; subst. eapply run_seq_Gr; [exact Hd|exact Er].
  Qed.

  Lemma run_clauses_Gr default found l : dflt_all PG default -> Forall (fun c => Forall PG (snd c)) l ->
    forall i started st e o st' e', run_clauses (exec names this) default found l i started st e = Def (o, st', e') -> Gr st st'.
  Proof.
    intros Hd Hl. induction Hl as [|[c b] r Hb Hr IH]; intros i started st e o st' e' H; cbn [run_clauses] in H.
    - destruct (at_default (exec names this) default found i started st e) as [[[[o0 b0] s0] e0]| |] eqn:Ea; cbn [rbind] in H; try discriminate.
      pose proof (at_default_Gr _ _ _ _ _ _ _ _ _ _ Hd Ea) as H0. destruct o0; inversion H; subst; exact H0.
    - destruct (at_default (exec names this) default found i started st e) as [[[[o0 b0] s0] e0]| |] eqn:Ea; cbn [rbind] in H; try discriminate.
      pose proof (at_default_Gr _ _ _ _ _ _ _ _ _ _ Hd Ea) as H0.
      destruct o0; [|inversion H; subst; exact H0|inversion H; subst; exact H0].
      destruct (b0 || match found with Some j => Nat.eqb j i | None => false end).
      + destruct (run_seq (exec names this) b s0 e0) as [[[o1 s1] e1]| |] eqn:Er; cbn [rbind] in H; try discriminate.
        pose proof (run_seq_Gr _ Hb _ _ _ _ _ Er) as H1. cbn [snd] in *.
        destruct o1; [|inversion H; subst; eapply Gr_trans; eassumption|inversion H; subst; eapply Gr_trans; eassumption].
        eapply Gr_trans; [exact H0|]. eapply Gr_trans; [exact H1|]. eapply IH. exact H.
      + eapply Gr_trans; [exact H0|]. eapply IH. exact H.
  Qed.

  Lemma args_Gr e args : forall s vs s',
    (fix go (l : list expr) (s0 : state) : res (list val * state) :=
       match l with [] => Def ([], s0) | a :: r => let? (v, s1) := eval names this s0 e a in let? (vs, s2) := go r s1 in Def (v :: vs, s2) end) args s = Def (vs, s') -> Gr s s'.
  Proof.
    induction args as [|a r IH]; intros s vs s' H.
    - inversion H. apply Gr_refl.
    - destruct (eval names this s e a) as [[v s1]| |] eqn:Ea; cbn [rbind] in H; try discriminate.
      match type of H with context [rbind ?m _] => destruct m as [[vs2 s2]| |] eqn:Eg; cbn [rbind] in H; try discriminate end.
      inversion H; subst. eapply Gr_trans; [apply Fr_Gr; eapply eval_frame; exact Ea|eapply IH; exact Eg].
  Qed.
End GrowS.

Lemma Def_inj_state3 {A B} (a b : A) (x y : B) (s s' : state) : Def (a, s, x) = Def (b, s', y) -> s = s'.
Proof. intros H. inversion H. reflexivity. Qed.

Ltac learnG names this :=
  repeat match goal with
         | E : eval names this ?s ?e ?a = Def (_, ?s1) |- _ => pose proof (Fr_Gr _ _ (eval_frame names this _ _ _ _ _ E)); clear E
         | E : write_prop ?s _ _ _ = Def ?s1 |- _ => pose proof (write_prop_Gr _ _ _ _ _ E); clear E
         | E : _ ?args ?s = Def (_, ?s1) |- _ => pose proof (args_Gr names this _ _ _ _ _ E); clear E
         end.
Ltac chainG := repeat (first [assumption | apply Gr_refl | eapply Gr_trans; [eassumption|]]).

Lemma exec_expr_Gr names this x : PG names this (SExpr x).
Proof.
  intros st e o st' e' H. cbn [exec] in H. brkf H; learnG names this; apply Def_inj_state3 in H; subst; chainG.
  all: try (eapply Gr_trans; [eassumption|]); try (eexists [_]; reflexivity).
Qed.

(* whatever a statement does, the effects recorded before it stay where they are: the trace only grows *)
Theorem exec_trace_grows names this : forall s, PG names this s.
Proof.
  apply stmt_ind'.
  - intros x. apply exec_expr_Gr.
  - intros ss Hss st e o st' e' H. cbn [exec] in H.
    destruct (run_seq (exec names this) ss st e) as [[[o1 s1] e1]| |] eqn:Er; cbn [rbind] in H; try discriminate.
    inversion H; subst. eapply run_seq_Gr; eassumption.
  - intros k vars st e o st' e' H. cbn [exec] in H. revert st e H.
    induction vars as [|[[x ty] [init|]] r IH]; intros st e H.
    + inversion H. apply Gr_refl.
    + destruct (eval names this st e init) as [[v s1]| |] eqn:Ev; cbn [rbind] in H; try discriminate.
      match type of H with context [rbind ?m _] => destruct m as [w| |] eqn:Ec; cbn [rbind] in H; try discriminate end.
      eapply Gr_trans; [apply Fr_Gr; eapply eval_frame; exact Ev|]. eapply IH. exact H.
    + eapply IH. exact H.
  - intros c t e Ht He st env o st' e' H. cbn [exec] in H.
    destruct (eval names this st env c) as [[v s1]| |] eqn:Ev; cbn [rbind] in H; try discriminate.
    pose proof (Fr_Gr _ _ (eval_frame names this _ _ _ _ _ Ev)) as H0.
    destruct v as [[|]| | | | | | | |]; try discriminate.
    + destruct (exec names this s1 env t) as [[[o1 s2] e1]| |] eqn:Et; cbn [rbind] in H; try discriminate.
      inversion H; subst. eapply Gr_trans; [exact H0|]. eapply Ht. exact Et.
    + destruct e as [n|].
      * destruct (exec names this s1 env n) as [[[o1 s2] e1]| |] eqn:Et; cbn [rbind] in H; try discriminate.
        inversion H; subst. eapply Gr_trans; [exact H0|]. eapply He. exact Et.
      * inversion H; subst. exact H0.
  - intros v cases default Hc Hd st e o st' e' H. cbn [exec] in H.
    destruct (eval names this st e v) as [[dv s1]| |] eqn:Ev; cbn [rbind] in H; try discriminate.
    pose proof (Fr_Gr _ _ (eval_frame names this _ _ _ _ _ Ev)) as H0.
    match type of H with context [rbind ?m _] => destruct m as [[found s2]| |] eqn:Ef; cbn [rbind] in H; try discriminate end.
    assert (H1 : Gr s1 s2).
    { clear H Hc Hd H0 Ev. revert Ef. generalize 0%nat. generalize s1. induction cases as [|[c b] r IH]; intros s0 i Ef.
      - inversion Ef. apply Gr_refl.
      - destruct (eval names this s0 e c) as [[cv s3]| |] eqn:Ec; cbn [rbind] in Ef; try discriminate.
        pose proof (Fr_Gr _ _ (eval_frame names this _ _ _ _ _ Ec)) as Hc.
        match type of Ef with context [rbind ?m _] => destruct m as [m0| |] eqn:Em; cbn [rbind] in Ef; try discriminate end.
        destruct m0 as [[|]| | | | | | | |]; try discriminate.
        + inversion Ef; subst. exact Hc.
        + eapply Gr_trans; [exact Hc|]. eapply IH. exact Ef. }
    destruct (run_clauses (exec names this) default found cases 0 false s2 e) as [[[o1 s3] e3]| |] eqn:Er; cbn [rbind] in H; try discriminate.
    inversion H; subst. eapply Gr_trans; [exact H0|]. eapply Gr_trans; [exact H1|]. eapply run_clauses_Gr; eassumption.
  - intros l st e o st' e' H. inversion H. apply Gr_refl.
  - intros [x|] st e o st' e' H; cbn [exec] in H.
    + destruct (eval names this st e x) as [[v s1]| |] eqn:Ev; cbn [rbind] in H; try discriminate. inversion H; subst.
      apply Fr_Gr. eapply eval_frame. exact Ev.
    + inversion H. apply Gr_refl.
Qed.

(* effects accumulate in execution order: what the first statement of a block does is recorded first (deepest in the trace), what the
   following statements do comes on top of it, and nothing recorded is ever removed or reordered *)
Theorem block_effects_in_source_order names this s rest st e o st' e' :
  exec names this st e (SBlock (s :: rest)) = Def (o, st', e') ->
  exists o1 st1 e1 t1 t2, exec names this st e s = Def (o1, st1, e1) /\ trace st1 = t1 ++ trace st /\ trace st' = t2 ++ t1 ++ trace st.
Proof.
  intros H. cbn [exec run_seq] in H.
  destruct (exec names this st e s) as [[[o1 s1] e1]| |] eqn:Es; cbn [rbind] in H; try discriminate.
  destruct (exec_trace_grows names this s _ _ _ _ _ Es) as [t1 T1].
  exists o1, s1, e1, t1.
  destruct o1.
  - destruct (run_seq (exec names this) rest s1 e1) as [[[o2 s2] e2]| |] eqn:Er; cbn [rbind] in H; try discriminate.
    assert (G : Gr s1 s2) by (eapply run_seq_Gr; [apply Forall_forall; intros x _; apply exec_trace_grows|exact Er]).
    destruct G as [t2 T2]. exists t2. inversion H; subst. repeat split; [exact T1|]. rewrite T2, T1. reflexivity.
  - exists []. inversion H; subst. repeat split; exact T1.
  - exists []. inversion H; subst. repeat split; exact T1.
Qed.

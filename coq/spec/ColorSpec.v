(* ColorSpec.v -- SPECIFICATION for C19: Qt's reading of colour strings.  Independent of model/Color.v except for
   the shared notion of '#'-prefix; uses the independent keyword table spec/SvgColors.v. *)
From QV Require Import model.Base spec.SvgColors.
Open Scope N_scope.

Definition strip_hash_spec (s : string) : option string :=
  match s with
  | String c r => if Ascii.eqb c "#"%char then Some r else None
  | EmptyString => None
  end.

(* ---------- specification: Qt's reading of hex colours, on digit values ---------- *)
Definition dbl (d : N) := d * 16 + d.
Definition byte2 (h l : N) := h * 16 + l.
(* result as (alpha, red, green, blue); opaque colours carry alpha 255 in the .ui *)
Definition qt_hex (ds : list N) : option (N * N * N * N) :=
  match ds with
  | [r; g; b] => Some (255, dbl r, dbl g, dbl b)
  | [a; r; g; b] => Some (dbl a, dbl r, dbl g, dbl b)
  | [r1; r0; g1; g0; b1; b0] => Some (255, byte2 r1 r0, byte2 g1 g0, byte2 b1 b0)
  | [a1; a0; r1; r0; g1; g0; b1; b0] => Some (byte2 a1 a0, byte2 r1 r0, byte2 g1 g0, byte2 b1 b0)
  | _ => None
  end.

(* hex digit value by the character classes of the ASCII table (independent of [hexval]) *)
Definition spec_digit (c : ascii) : option N :=
  let n := N_of_ascii c in
  if (48 <=? n) && (n <=? 57) then Some (n - 48)           (* '0'..'9' *)
  else if (65 <=? n) && (n <=? 70) then Some (n - 65 + 10) (* 'A'..'F' *)
  else if (97 <=? n) && (n <=? 102) then Some (n - 97 + 10) (* 'a'..'f' *)
  else None.
Fixpoint spec_digits (s : string) : option (list N) :=
  match s with
  | EmptyString => Some []
  | String c r => match spec_digit c, spec_digits r with
                  | Some d, Some ds => Some (d :: ds)
                  | _, _ => None
                  end
  end.

Definition spec_color (s : string) : option (N * N * N * N) :=
  match strip_hash_spec s with
  | Some hex =>
      match spec_digits hex with Some ds => qt_hex ds | None => None end
  | None =>
      let l := to_ascii_lowercase s in
      if String.eqb l "transparent" then Some (0, 0, 0, 0)
      else match assoc l svg_spec with
           | Some (r, g, b) => Some (255, r, g, b)
           | None => None
           end
  end.



(* Typing.v -- SPECIFICATION for C05: the typing rules of docs/language.md (DESIGN.md Appendix E) at operator level.
   Written over type descriptors only (no reference to operands, constants, the builder or its order of checks). *)
From QV Require Import model.Base model.Types.

(* literal classes sit below the concrete types they can become *)
Definition lit_below (d : tdesc) (t : tkind) : bool :=
  match d, t with
  | DConstInteger, TJust (NPrim PInt) | DConstInteger, TJust (NPrim PUint) => true
  | DConstString, TJust (NPrim PQString) => true
  | DNullPointer, TPointer _ => true
  | DEmptyList, TList _ => true
  | _, _ => false
  end.

(* the one common type of two operands: equal; or one is a literal class below the other; or two enums of which one
   aliases the other (the left one is kept).  No other pair has a common type -- in particular int/uint, int/double,
   C* / D* even if C <: D. *)
Definition common (E : cenv) (a b : tdesc) : option tdesc :=
  if tdesc_eqb a b then Some a
  else match a, b with
       | DConcrete ta, DConcrete tb =>
           match ta, tb with
           | TJust (NEnum x), TJust (NEnum y) => if is_compatible_enum E x y then Some a else None
           | _, _ => None
           end
       | DConcrete ta, _ => if lit_below b ta then Some a else None
       | _, DConcrete tb => if lit_below a tb then Some b else None
       | _, _ => None
       end.

(* a literal class on its own defaults to int / QString; null and [] have no type of their own *)
Definition concrete (d : tdesc) : option tkind :=
  match d with
  | DConcrete t => Some t
  | DConstInteger => Some T_INT
  | DConstString => Some T_STRING
  | DNullPointer | DEmptyList => None
  end.

Definition common_concrete (E : cenv) (a b : tdesc) : option tkind :=
  match common E a b with Some c => concrete c | None => None end.

Inductive opclass := OArith (is_add : bool) | OBitwise | OShift | OComparison | OLogical.

Definition is_kind (l : list tkind) (t : tkind) : bool := existsb (tkind_eqb t) l.
Definition is_enum (t : tkind) : bool := match t with TJust (NEnum _) => true | _ => false end.
Definition is_ptr (t : tkind) : bool := match t with TPointer _ => true | _ => false end.

(* result type of `a op b`, None = ill-typed *)
Definition spec_binary (E : cenv) (k : opclass) (a b : tdesc) : option tkind :=
  match k with
  | OArith is_add =>
      match common_concrete E a b with
      | Some c => if is_kind [T_INT; T_UINT; T_DOUBLE] c || (is_add && tkind_eqb c T_STRING) then Some c else None
      | None => None
      end
  | OBitwise =>
      match common_concrete E a b with
      | Some c => if is_kind [T_BOOL; T_INT; T_UINT] c || is_enum c then Some c else None
      | None => None
      end
  | OShift =>
      match concrete a with
      | Some l => if is_kind [T_INT; T_UINT] l && (tdesc_eqb b DConstInteger || tdesc_eqb b (DConcrete T_INT) || tdesc_eqb b (DConcrete T_UINT))
                  then Some l else None
      | None => None
      end
  | OComparison =>
      match common_concrete E a b with
      | Some c => if is_kind [T_BOOL; T_INT; T_UINT; T_DOUBLE; T_STRING] c || is_enum c || is_ptr c then Some T_BOOL else None
      | None => None
      end
  | OLogical => if tdesc_eqb a (DConcrete T_BOOL) && tdesc_eqb b (DConcrete T_BOOL) then Some T_BOOL else None
  end.

Inductive uclass := UArithC | UBitC | ULogC.
Definition spec_unary (k : uclass) (a : tdesc) : option tkind :=
  match k with
  | UArithC => match concrete a with Some t => if is_kind [T_INT; T_UINT; T_DOUBLE] t then Some t else None | None => None end
  | UBitC => match concrete a with Some t => if is_kind [T_INT; T_UINT] t || is_enum t then Some t else None | None => None end
  | ULogC => if tdesc_eqb a (DConcrete T_BOOL) then Some T_BOOL else None
  end.

(* `c ? a : b`: condition bool; branches have a common concrete type (void ? void is allowed, the result is void) *)
Definition spec_ternary (E : cenv) (c a b : tdesc) : option tkind :=
  if tdesc_eqb c (DConcrete T_BOOL) then common_concrete E a b else None.

(* `l[i]` (read, and the target of an element write): l is a list, i an integer (a literal, int or uint) -- the result is the element type *)
Definition spec_index (ix : tdesc) : bool :=
  match ix with DConstInteger => true | DConcrete t => tkind_eqb t T_INT || tkind_eqb t T_UINT | _ => false end.
Definition spec_subscript (obj ix : tdesc) : option tkind :=
  match concrete obj with Some (TList e) => if spec_index ix then Some e else None | _ => None end.

(* assignability: same type, a literal class below it, enum alias, or pointer upcast -- nothing else *)
Definition spec_assignable (E : cenv) (target : tkind) (a : tdesc) : bool :=
  match a with
  | DConcrete t =>
      tkind_eqb target t
      || match target, t with
         | TJust (NEnum x), TJust (NEnum y) => is_compatible_enum E x y
         | TPointer (NClass base), TPointer (NClass derived) => is_derived_from E derived base
         | _, _ => false
         end
  | _ => lit_below a target
  end.

(* `e as T`: identity / implicit (assignable), numeric <-> numeric, enum -> int/uint, bool -> int/uint, anything -> void,
   QVariant -> T, integer literal -> double; everything else is invalid *)
Definition spec_castable (E : cenv) (target : tkind) (a : tdesc) : bool :=
  spec_assignable E target a
  || tkind_eqb target T_VOID
  || match a with
     | DConcrete t =>
         (is_kind [T_INT; T_UINT; T_DOUBLE] target && is_kind [T_INT; T_UINT; T_DOUBLE] t)
         || (is_kind [T_INT; T_UINT] target && (is_enum t || tkind_eqb t T_BOOL))
         || (tkind_eqb t T_VARIANT && negb (match target, t with TPointer (NClass _), TPointer (NClass _) => true | TJust (NEnum _), TJust (NEnum _) => true | _, _ => false end))
     | DConstInteger => tkind_eqb target T_DOUBLE
     | _ => false
     end.

(* LayoutSpecCase.v -- the C12 specification assembled into the same case shape as model/Layout.v's [layout_case]
   (uses the model's record types only as data carriers).  Used by the search leg: implementation vs specification. *)
From QV Require Import model.Base gen.GenTables model.Layout spec.LayoutSpec.
Open Scope Z_scope.

Definition spec_count (v : option Z) : Z :=
  match v with Some c => if (0 <? c) && (c <=? MAX_COUNT) then c else MAX_COUNT | None => MAX_COUNT end.

Definition spec_layout_case (k : lkind) (ltr : bool) (columns rows : option Z) (kids : list attach)
  : list (list Z) * list (option Z * option Z * option Z * option Z) :=
  let fmt d a := map (fun x => match x with Some v => v | None => d end) a in
  match k with
  | LGrid | LForm =>
      let F := match k with LForm => SLeftToRight 2 | _ => if ltr then SLeftToRight (spec_count columns) else STopToBottom (spec_count rows) end in
      let ps := spec_positions MAX_INDEX F (0, 0) (map (fun a => (a_row a, a_col a)) kids) in
      let pk := combine ps kids in
      let arr (byrow : bool) (g : attach -> option Z) :=
        match k with LForm => [] | _ => spec_arr (map (fun pa => ((if byrow then fst (fst pa) else snd (fst pa)), g (snd pa))) pk) end in
      ([fmt 0 (arr false a_cmw); fmt 1 (arr false a_cst); fmt 0 (arr true a_rmh); fmt 1 (arr true a_rst); []],
       map (fun pa => (Some (fst (fst pa)), Some (snd (fst pa)), a_rowspan (snd pa), a_colspan (snd pa))) pk)
  | LVBox | LHBox =>
      let st := spec_arr (map (fun ia => (Z.of_nat (fst ia), match k with LVBox => a_rst (snd ia) | _ => a_cst (snd ia) end))
                              (combine (seq 0 (List.length kids)) kids)) in
      ([[]; []; []; []; fmt 1 st], map (fun a => (None, None, a_rowspan a, a_colspan a)) kids)
  end.

(* LayoutSpec.v -- SPECIFICATION for C12: the documented flow rule and the per-row / per-column arrays. *)
From QV Require Import model.Base.
Open Scope Z_scope.

Inductive sflow := SLeftToRight (columns : Z) | STopToBottom (rows : Z).

(* the cell after (r, c): fill left-to-right wrapping at the column count (top-to-bottom wrapping at the row count) *)
Definition succ_cell (f : sflow) (rc : Z * Z) : Z * Z :=
  let '(r, c) := rc in
  match f with
  | SLeftToRight n => if c + 1 <? n then (r, c + 1) else (r + 1, 0)
  | STopToBottom n => if r + 1 <? n then (r + 1, c) else (0, c + 1)
  end.

(* an explicit row and/or column repositions the cursor: a lone row starts that row (that row of the current column
   when flowing top-to-bottom), a lone column moves within the current row (starts that column when flowing top-to-bottom) *)
Definition place (f : sflow) (cursor : Z * Z) (row col : option Z) : Z * Z :=
  match row, col with
  | Some r, Some c => (r, c)
  | Some r, None => (r, match f with SLeftToRight _ => 0 | STopToBottom _ => snd cursor end)
  | None, Some c => (match f with SLeftToRight _ => fst cursor | STopToBottom _ => 0 end, c)
  | None, None => cursor
  end.

(* out-of-range explicit indices are ignored (and diagnosed) *)
Definition in_range (max_index : Z) (v : option Z) : option Z :=
  match v with Some x => if (0 <=? x) && (x <=? max_index) then Some x else None | None => None end.

Definition max_row (max_index : Z) (f : sflow) := match f with SLeftToRight _ => max_index | STopToBottom n => n - 1 end.
Definition max_col (max_index : Z) (f : sflow) := match f with SLeftToRight n => n - 1 | STopToBottom _ => max_index end.

Fixpoint spec_positions (max_index : Z) (f : sflow) (cursor : Z * Z) (rcs : list (option Z * option Z)) : list (Z * Z) :=
  match rcs with
  | [] => []
  | (row, col) :: rest =>
      let p := place f cursor (in_range (max_row max_index f) row) (in_range (max_col max_index f) col) in
      p :: spec_positions max_index f (succ_cell f p) rest
  end.

(* closed form between two repositionings: the k-th automatically placed child after cell (r, c) *)
Definition auto_cell (f : sflow) (rc : Z * Z) (k : Z) : Z * Z :=
  let '(r, c) := rc in
  match f with
  | SLeftToRight n => (r + (c + k) / n, (c + k) mod n)
  | STopToBottom n => ((r + k) mod n, c + (r + k) / n)
  end.

(* a per-index array: entry i holds the first value attached at index i; its length reaches the largest index used *)
Fixpoint first_at (ivs : list (Z * option Z)) (i : Z) : option Z :=
  match ivs with
  | [] => None
  | (j, Some v) :: r => if j =? i then Some v else first_at r i
  | (_, None) :: r => first_at r i
  end.
Fixpoint arr_len (ivs : list (Z * option Z)) : Z :=
  match ivs with
  | [] => 0
  | (j, Some _) :: r => Z.max (j + 1) (arr_len r)
  | (_, None) :: r => arr_len r
  end.
Definition spec_arr (ivs : list (Z * option Z)) : list (option Z) :=
  map (fun i => first_at ivs (Z.of_nat i)) (seq 0 (Z.to_nat (arr_len ivs))).
(* every later, different value at an index already set is a conflict *)
Fixpoint spec_conflicts (seen ivs : list (Z * option Z)) : list Z (* the previously set value reported *) :=
  match ivs with
  | [] => []
  | (j, Some v) :: r =>
      match first_at seen j with
      | Some v0 => if v0 =? v then spec_conflicts seen r else v0 :: spec_conflicts seen r
      | None => spec_conflicts (seen ++ [(j, Some v)]) r
      end
  | (_, None) :: r => spec_conflicts seen r
  end.

(* TypingCase.v -- the verdict of the C05 specification (spec/Typing.v) on the single-operator programs of the
   exhaustive operator table: 1 = well typed, 0 = ill typed, 2 = not judged (shape outside the table, or the
   acceptance depends on constant VALUES).  Operand types are taken from the model's walk of the operand expressions. *)
From QV Require Import model.Base model.Lang model.Types model.Tir model.Ceval model.Builder spec.Typing.
Open Scope Z_scope.

Definition operand_of (E : cenv) (e : expr) : option operand :=
  match walk_rvalue E [] e bstate0 with (V a, _) => Some a | _ => None end.
Definition is_const (a : operand) : bool := match a with OConst _ => true | _ => false end.
Definition opclass_of_bop (b : binop) : opclass :=
  match b with
  | BoAdd => OArith true | BoSub | BoMul | BoDiv | BoRem => OArith false
  | BoAnd | BoXor | BoOr => OBitwise | BoShr | BoShl => OShift | BoLAnd | BoLOr => OLogical | _ => OComparison
  end.
Definition td (a : operand) : tdesc := operand_tdesc (ensure_concrete_string a).
Definition verdict (o : option tkind) : Z := match o with Some _ => 1 | None => 0 end.

Definition spec_verdict (E : cenv) (cb : callback) : Z :=
  match cb with
  | CStmt (SExpr (EBinary op l r)) =>
      match bop_of op, operand_of E l, operand_of E r with
      | None, _, _ => 0                                   (* unsupported operator *)
      | Some b, Some x, Some y =>
          match opclass_of_bop b with
          | OLogical => verdict (spec_binary E OLogical (operand_tdesc x) (operand_tdesc y))
          | k => if is_const x && is_const y
                 then (match spec_binary E k (operand_tdesc x) (operand_tdesc y) with
                       | None => (match x, y with OConst CNull, OConst CNull => 2 | _, _ => 0 end)
                       | Some _ => 2 end)                 (* typed: acceptance then depends on the values *)
                 else verdict (spec_binary E k (td x) (td y))
          end
      | _, _, _ => 2
      end
  | CStmt (SExpr (EUnary op a)) =>
      match uop_of op, operand_of E a with
      | None, _ => 0
      | Some u, Some x =>
          let k := match u with UoArithMinus | UoArithPlus => UArithC | UoBitNot => UBitC | UoLogNot => ULogC end in
          if is_const x then (match spec_unary k (operand_tdesc x) with None => 0 | Some _ => 2 end) else verdict (spec_unary k (td x))
      | _, _ => 2
      end
  | CStmt (SExpr (EAs v path)) =>
      match operand_of E v, annotated_type E path with
      | Some x, Some t => if spec_castable E t (td x) then 1 else 0
      | Some _, None => 0
      | _, _ => 2
      end
  | CStmt (SExpr (ETernary c a b)) =>
      match operand_of E c, operand_of E a, operand_of E b with
      | Some x, Some y, Some z => verdict (spec_ternary E (operand_tdesc x) (td y) (td z))
      | _, _, _ => 2
      end
  | CStmt (SBlock [SDecl DLet [(_, Some path, Some v)]]) =>
      match operand_of E v, annotated_type E path with
      | Some x, Some t => if tkind_eqb t T_VOID then 0 else if spec_assignable E t (td x) then 1 else 0
      | Some _, None => 0
      | _, _ => 2
      end
  | CStmt (SBlock [SExpr (EAssign (EMember (EIdent o) pname) v)]) =>
      match operand_of E v, assoc o (ce_objects E) with
      | Some x, Some c =>
          match get_property E c pname with
          | Some (_, p) => if pi_writable p && spec_assignable E (pi_type p) (td x) then 1 else 0
          | None => 0
          end
      | _, _ => 2
      end
  | CStmt (SBlock [SExpr (ECall (EMember (EIdent o) mname) [v])]) =>
      match operand_of E v, assoc o (ce_objects E) with
      | Some x, Some c =>
          match get_methods E c mname with
          | Some (_, ms) => if existsb (fun m => match mi_args m with [t] => spec_assignable E t (td x) | _ => false end) ms then 1 else 0
          | None => 0
          end
      | _, _ => 2
      end
  | CStmt (SExpr (ESubscript o ix)) =>
      match operand_of E o, operand_of E ix with
      | Some x, Some y => verdict (spec_subscript (operand_tdesc x) (operand_tdesc y))
      | _, _ => 2
      end
  (* `let l = <list>; l[ix] = v`: the declared variable has the concrete type of its initialiser *)
  | CStmt (SBlock [SDecl DLet [(_, None, Some lv)]; SExpr (EAssign (ESubscript (EIdent _) ix) v)]) =>
      match operand_of E lv, operand_of E ix, operand_of E v with
      | Some l, Some y, Some z =>
          match concrete (operand_tdesc l) with
          | Some t => match spec_subscript (DConcrete t) (operand_tdesc y) with
                      | Some e => if spec_assignable E e (operand_tdesc z) then 1 else 0
                      | None => 0
                      end
          | None => 0
          end
      | _, _, _ => 2
      end
  | _ => 2
  end.

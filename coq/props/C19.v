(* C19 -- Colour strings are read the way Qt reads them.  ONLY property theorems here. *)
From QV Require Import model.Base spec.SvgColors model.Color spec.ColorSpec proofs.ColorProofs.
Open Scope N_scope.

(* Full statement: for EVERY byte string, the (alpha, red, green, blue) the pipeline embeds -- or the rejection --
   is what Qt's reading prescribes: #rgb/#argb/#rrggbb/#aarrggbb on the digit values (alpha first, short digits
   doubled, opaque => alpha 255), SVG 1.1 keywords (independent table spec/SvgColors.v) case-insensitively,
   'transparent', everything else rejected. *)
Theorem C19_color_refines : forall s : string, model_color s = spec_color s.
Proof. exact color_refines. Qed.
Print Assumptions C19_color_refines.

Theorem C19_hex : forall hex : string,
  parse_hex_result hex = match spec_digits hex with Some ds => qt_hex ds | None => None end.
Proof. exact hex_refines. Qed.
Print Assumptions C19_hex.

Theorem C19_table_agrees : forall k : string, lookup_named k = assoc k svg_spec.
Proof. exact table_agrees. Qed.
Print Assumptions C19_table_agrees.

Theorem C19_case : forall s t : string,
  strip_hash s = None -> strip_hash t = None ->
  to_ascii_lowercase s = to_ascii_lowercase t -> model_color s = model_color t.
Proof. exact named_case_insensitive. Qed.
Print Assumptions C19_case.

Theorem C19_hex_case : forall hex : string, all_hex hex = true ->
  parse_hex_result (to_ascii_lowercase hex) = parse_hex_result hex /\
  parse_hex_result (to_ascii_uppercase hex) = parse_hex_result hex.
Proof. exact hex_case_insensitive. Qed.
Print Assumptions C19_hex_case.

Theorem C19_alpha : forall (s : string) (a r g b : N), model_color s = Some (a, r, g, b) -> a <> 255 ->
  (exists hex, strip_hash s = Some hex /\ (String.length hex = 4%nat \/ String.length hex = 8%nat))
  \/ to_ascii_lowercase s = "transparent"%string.
Proof. exact opaque_alpha. Qed.
Print Assumptions C19_alpha.

(* non-vacuity: concrete inputs in each class *)
Example C19_ex_argb : model_color "#8fa3" = Some (136, 255, 170, 51).
Proof. vm_compute. reflexivity. Qed.
Example C19_ex_named : model_color "DarkSlateGrey" = Some (255, 47, 79, 79).
Proof. vm_compute. reflexivity. Qed.
Example C19_ex_reject : model_color "#12345" = None /\ model_color "rgb(1,2,3)" = None /\ model_color "#12g" = None.
Proof. vm_compute. repeat split. Qed.

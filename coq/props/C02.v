(* C02 -- Dynamic bindings stay current when any property they read changes.  ONLY property theorems here.
   The theorem is about an abstract world (keys = (object, property)): it isolates the two facts the generated code must have --
   FRAME (an evaluation depends only on the keys it reads) and COVERAGE (after evaluating, the binding is connected to every key it
   read: static connections of setup<Binding>() plus the observer slots re-connected inside eval<Binding>()) -- and proves that they
   suffice for every history, including re-pointing and nulling of intermediate pointers (which only change the read set).
   That the real output has the two facts is NOT proved; it is tested by executing real headers on histories (vlib/c02.py). *)
From QV Require Import model.Base model.Lang model.Types model.Tir model.Passes model.Signals proofs.SignalsProofs proofs.PropdepProofs.

Theorem C02_stays_current : forall (key value : Type) (key_eqb : key -> key -> bool),
  (forall a b, key_eqb a b = true <-> a = b) ->
  forall (eval : (key -> value) -> value) (reads connected : (key -> value) -> list key),
  (forall w w', (forall k, In k (reads w) -> w' k = w k) -> eval w' = eval w /\ reads w' = reads w /\ connected w' = connected w) ->
  (forall w k, In k (reads w) -> In k (connected w)) ->
  forall w history, target _ _ (run _ _ key_eqb eval connected w history) = eval (now _ _ (run _ _ key_eqb eval connected w history)).
Proof. exact stays_current. Qed.
Print Assumptions C02_stays_current.

Theorem C02_run_world : forall (key value : Type) (key_eqb : key -> key -> bool) (eval : (key -> value) -> value) (connected : (key -> value) -> list key) w history,
  now _ _ (run _ _ key_eqb eval connected w history) = fold_left (fun w0 c => update _ _ key_eqb w0 (fst c) (snd c)) history w.
Proof. exact run_world. Qed.
Print Assumptions C02_run_world.

(* COVERAGE at the level of the IR, for the model of tir/propdep.rs (model/Passes.v, whose output is compared token by token with the
   implementation's on every run of C05/C06/C07): after the dependency analysis, in EVERY block -- hence on every path -- every read of
   a non-constant property through a pointer is covered: by a static dependency on the object the operand is (or is known to hold), or
   by an observation of that local with that property's notify signal inserted IMMEDIATELY before the read *)
Theorem C02_dependency_complete_ir : forall E c c' ds, analyze_code_property_dependency E c = Ok (c', ds) ->
  Forall (block_covered E c' (c_nobs c) (length (c_locals c))) (c_blocks c').
Proof. intros E c c' ds H. exact (proj1 (dependency_complete E c c' ds H)). Qed.
Print Assumptions C02_dependency_complete_ir.

(* second sentence of the property, at the level of the IR: the 'unobservable property' diagnostic (an error: the binding is not generated)
   is raised EXACTLY when some block reads, through a pointer, a non-constant property that has no notify signal -- never missed on any
   path, never raised for a binding all of whose reads can be observed *)
Theorem C02_unobservable_reads_are_diagnosed : forall E c c' ds, analyze_code_property_dependency E c = Ok (c', ds) ->
  (In PUnobservable ds <-> exists b st, In b (c_blocks c) /\ In st (b_stmts b) /\ unobservable_read E st = true).
Proof. exact unobservable_diagnosed. Qed.
Print Assumptions C02_unobservable_reads_are_diagnosed.

(* the executable checker run on the IMPLEMENTATION's own IR dumps (vlib/c02.py, IR leg) decides exactly the coverage predicate, with signals
   identified by class, name and argument types (what the C++ connect is written from) *)
Theorem C02_ir_checker_sound : forall E c, code_covered_b E c = true <->
  Forall (fun b => covered_sig E (c_sdeps c) 0 (c_nobs c) (repeat None (length (c_locals c))) None (b_stmts b)) (c_blocks c).
Proof. exact code_covered_b_sound. Qed.
Print Assumptions C02_ir_checker_sound.
Theorem C02_coverage_implies_checker : forall E deps lo hi l known prev, covered E deps lo hi known prev l -> covered_b E deps lo hi known prev l = true.
Proof. intros E deps lo hi l known prev H. apply covered_b_sound, covered_covered_sig, H. Qed.
Print Assumptions C02_coverage_implies_checker.

(* coverage is necessary: a binding not connected to a key it reads goes stale *)
Theorem C02_stale_without_coverage_refuted :
  exists (eval : (nat -> nat) -> nat) (connected : (nat -> nat) -> list nat) (w : nat -> nat) (h : list (nat * nat)),
    target _ _ (run nat nat Nat.eqb eval connected w h) <> eval (now _ _ (run nat nat Nat.eqb eval connected w h)).
Proof. exact stale_without_coverage_refuted. Qed.
Print Assumptions C02_stale_without_coverage_refuted.

(* non-vacuity: target = w(w 0) with key 0 holding a "pointer": connected to key 0 statically and to the pointed key by an observer *)
Example C02_ex :
  let eval := fun w : nat -> nat => w (w 0) in
  let conn := fun w : nat -> nat => [0; w 0] in
  target _ _ (run nat nat Nat.eqb eval conn (fun k => k + 1) [(1, 7); (0, 2); (1, 9); (3, 4); (0, 3)]) = 4.
Proof. vm_compute. reflexivity. Qed.

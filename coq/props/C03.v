(* C03 -- Values embedded in the .ui equal the value of their source expression.  ONLY property theorems here. *)
From Coq Require Import Lia.
From QV Require Import model.Base model.Lang model.Types model.Tir model.Floats model.Ceval model.Literal proofs.CevalProofs proofs.LiteralProofs.
Open Scope Z_scope.

(* constant folding (checked i64 arithmetic) returns the EXACT integer result or rejects; it never returns another value.
   Division/modulo by zero and 64-bit overflow are rejected; the only over-rejection is MIN % -1 *)
Theorem C03_fold_arith : forall op a b, i64 a -> i64 b ->
  match op with BoAdd | BoSub | BoMul | BoDiv | BoRem => True | _ => False end ->
  match eval_binary_arith op (CInt a) (CInt b) with
  | inl v => exists r, spec_arith op a b = Some r /\ v = CInt r /\ i64 r
  | inr e => e = CeOverflow /\ (match spec_arith op a b with Some r => ~ i64 r | None => True end \/ (op = BoRem /\ a = I64_MIN /\ b = -1))
  end.
Proof. exact fold_arith_exact. Qed.
Print Assumptions C03_fold_arith.

(* a << b is accepted exactly when a * 2^b is representable and then equals it (after the repair of F5);
   negative or huge shift counts are rejected *)
Theorem C03_fold_shl : forall a b, i64 a -> i64 b ->
  match eval_shift BoShl (CInt a) (CInt b) with
  | inl v => 0 <= b < 64 /\ v = CInt (a * 2 ^ b) /\ i64 (a * 2 ^ b)
  | inr CeConversion => b < 0 \/ 4294967295 < b
  | inr CeOverflow => 64 <= b \/ (0 <= b < 64 /\ ~ i64 (a * 2 ^ b))
  | inr _ => False
  end.
Proof. exact fold_shl_exact. Qed.
Print Assumptions C03_fold_shl.

Theorem C03_fold_shr : forall a b, i64 a -> i64 b ->
  match eval_shift BoShr (CInt a) (CInt b) with
  | inl v => 0 <= b < 64 /\ v = CInt (a / 2 ^ b)
  | inr CeConversion => b < 0 \/ 4294967295 < b
  | inr CeOverflow => 64 <= b
  | inr _ => False
  end.
Proof. exact fold_shr_exact. Qed.
Print Assumptions C03_fold_shr.

Theorem C03_fold_neg : forall a, i64 a ->
  match eval_unary_arith true (CInt a) with
  | inl v => v = CInt (- a) /\ i64 (- a)
  | inr e => e = CeOverflow /\ a = I64_MIN
  end.
Proof. exact fold_neg_exact. Qed.
Print Assumptions C03_fold_neg.

Theorem C03_fold_compare : forall op a b,
  match op with BoEq | BoNe | BoLt | BoLe | BoGt | BoGe => True | _ => False end ->
  eval_comparison op (CInt a) (CInt b) =
  inl (CBool (match op with BoEq => a =? b | BoNe => negb (a =? b) | BoLt => a <? b | BoLe => a <=? b | BoGt => b <? a | _ => b <=? a end)).
Proof. exact fold_compare_exact. Qed.
Print Assumptions C03_fold_compare.

(* integer literals: what from_str_radix accepts is the mathematical value of the digit string in that radix *)
Theorem C03_integer_literal : forall s radix v, 0 < radix -> u64_from_str_radix s radix = Some v ->
  exists ds, all_digits radix (match s with 43%N :: r => r | _ => s end) = Some ds /\ ds <> [] /\ v = mv radix ds.
Proof. exact integer_literal_value. Qed.
Print Assumptions C03_integer_literal.

Theorem C03_number_classification : forall s n, parse_number_str s = Some n ->
  match n with
  | NumInt _ => strip_radix_prefix s <> None \/ existsb (fun c => (c =? 101)%N || (c =? 46)%N) s = false
  | NumFloat _ => strip_radix_prefix s = None /\ existsb (fun c => (c =? 101)%N || (c =? 46)%N) s = true
  end.
Proof. exact number_classification. Qed.
Print Assumptions C03_number_classification.

(* string escapes: exactly the ES single-character escapes (and \0) are decoded, to the ES value; \xHH is 16*H1+H0;
   code point escapes are accepted exactly for Unicode scalar values *)
Theorem C03_single_escape : forall c, unescape_tail [c] = es_single c.
Proof. exact single_escape_spec. Qed.
Print Assumptions C03_single_escape.
Theorem C03_hex_escape : forall a b da db, digit_val 16 a = Some da -> digit_val 16 b = Some db ->
  unescape_tail [120%N; a; b] = Some (Z.to_N (da * 16 + db)).
Proof. exact hex_escape_spec. Qed.
Print Assumptions C03_hex_escape.
Theorem C03_scalar_value : forall v, char_from_u32 v = Some (Z.to_N v) <-> (v <= 1114111 /\ ~ (55296 <= v <= 57343)).
Proof. exact scalar_value_spec. Qed.
Print Assumptions C03_scalar_value.

(* F5 after the repair *)
Example C03_f5_repaired : eval_shift BoShl (CInt 1) (CInt 63) = inr CeOverflow /\ eval_shift BoShl (CInt 3) (CInt 62) = inr CeOverflow
  /\ eval_shift BoShl (CInt (-1)) (CInt 63) = inl (CInt I64_MIN) /\ eval_shift BoShl (CInt 1) (CInt 62) = inl (CInt 4611686018427387904).
Proof. vm_compute. repeat split. Qed.

(* C03 -- Values embedded in the .ui equal the value of their source expression.  ONLY property theorems here. *)
From Coq Require Import Lia.
From QV Require Import model.Base model.Lang model.Types model.Tir model.Floats model.Ceval model.Literal proofs.CevalProofs proofs.LiteralProofs gen.GenOps model.Builder proofs.OpsTie.
Open Scope Z_scope.

(* constant folding (checked i64 arithmetic) returns the EXACT integer result or rejects; it never returns another value.
   Division/modulo by zero and 64-bit overflow are rejected; the only over-rejection is MIN % -1 *)
Theorem C03_fold_arith : forall op a b, i64 a -> i64 b ->
  match op with BoAdd | BoSub | BoMul | BoDiv | BoRem => True | _ => False end ->
  match eval_binary_arith op (CInt a) (CInt b) with
  | inl v => exists r, spec_arith op a b = Some r /\ v = CInt r /\ i64 r
  | inr e => e = CeOverflow /\ (match spec_arith op a b with Some r => ~ i64 r | None => True end \/ (op = BoRem /\ a = I64_MIN /\ b = -1))
  end.
Proof. exact fold_arith_exact. Qed.
Print Assumptions C03_fold_arith.

(* a << b is accepted exactly when a * 2^b is representable and then equals it (after the repair of F5);
   negative or huge shift counts are rejected *)
Theorem C03_fold_shl : forall a b, i64 a -> i64 b ->
  match eval_shift BoShl (CInt a) (CInt b) with
  | inl v => 0 <= b < 64 /\ v = CInt (a * 2 ^ b) /\ i64 (a * 2 ^ b)
  | inr CeConversion => b < 0 \/ 4294967295 < b
  | inr CeOverflow => 64 <= b \/ (0 <= b < 64 /\ ~ i64 (a * 2 ^ b))
  | inr _ => False
  end.
Proof. exact fold_shl_exact. Qed.
Print Assumptions C03_fold_shl.

Theorem C03_fold_shr : forall a b, i64 a -> i64 b ->
  match eval_shift BoShr (CInt a) (CInt b) with
  | inl v => 0 <= b < 64 /\ v = CInt (a / 2 ^ b)
  | inr CeConversion => b < 0 \/ 4294967295 < b
  | inr CeOverflow => 64 <= b
  | inr _ => False
  end.
Proof. exact fold_shr_exact. Qed.
Print Assumptions C03_fold_shr.

Theorem C03_fold_neg : forall a, i64 a ->
  match eval_unary_arith true (CInt a) with
  | inl v => v = CInt (- a) /\ i64 (- a)
  | inr e => e = CeOverflow /\ a = I64_MIN
  end.
Proof. exact fold_neg_exact. Qed.
Print Assumptions C03_fold_neg.

Theorem C03_fold_compare : forall op a b,
  match op with BoEq | BoNe | BoLt | BoLe | BoGt | BoGe => True | _ => False end ->
  eval_comparison op (CInt a) (CInt b) =
  inl (CBool (match op with BoEq => a =? b | BoNe => negb (a =? b) | BoLt => a <? b | BoLe => a <=? b | BoGt => b <? a | _ => b <=? a end)).
Proof. exact fold_compare_exact. Qed.
Print Assumptions C03_fold_compare.

(* integer literals: what from_str_radix accepts is the mathematical value of the digit string in that radix *)
Theorem C03_integer_literal : forall s radix v, 0 < radix -> u64_from_str_radix s radix = Some v ->
  exists ds, all_digits radix (match s with 43%N :: r => r | _ => s end) = Some ds /\ ds <> [] /\ v = mv radix ds.
Proof. exact integer_literal_value. Qed.
Print Assumptions C03_integer_literal.

Theorem C03_number_classification : forall s n, parse_number_str s = Some n ->
  match n with
  | NumInt _ => strip_radix_prefix s <> None \/ existsb (fun c => (c =? 101)%N || (c =? 46)%N) s = false
  | NumFloat _ => strip_radix_prefix s = None /\ existsb (fun c => (c =? 101)%N || (c =? 46)%N) s = true
  end.
Proof. exact number_classification. Qed.
Print Assumptions C03_number_classification.

(* string escapes: exactly the ES single-character escapes (and \0) are decoded, to the ES value; \xHH is 16*H1+H0;
   code point escapes are accepted exactly for Unicode scalar values *)
Theorem C03_single_escape : forall c, unescape_tail [c] = es_single c.
Proof. exact single_escape_spec. Qed.
Print Assumptions C03_single_escape.
Theorem C03_hex_escape : forall a b da db, digit_val 16 a = Some da -> digit_val 16 b = Some db ->
  unescape_tail [120%N; a; b] = Some (Z.to_N (da * 16 + db)).
Proof. exact hex_escape_spec. Qed.
Print Assumptions C03_hex_escape.
Theorem C03_scalar_value : forall v, char_from_u32 v = Some (Z.to_N v) <-> (v <= 1114111 /\ ~ (55296 <= v <= 57343)).
Proof. exact scalar_value_spec. Qed.
Print Assumptions C03_scalar_value.

(* the operators: the model lowers every source operator exactly as opcode.rs does (gen/GenOps.v is translated from it arm by arm on every run), ... *)
Theorem C03_operators_lowered_as_in_the_source : (forall o, bop_of o = gen_bop_of o) /\ (forall o, uop_of o = gen_uop_of o).
Proof. split; [exact bop_of_is_source|exact uop_of_is_source]. Qed.
Print Assumptions C03_operators_lowered_as_in_the_source.
(* ... the source refuses exactly the operators that have no checked 64-bit meaning here (>>> ** ?? instanceof in; typeof void delete), and no two operators
   of different ECMAScript meaning share a lowering: only the strict comparisons join their loose twins (equal on operands of one type, the only ones accepted) *)
Theorem C03_refused_operators : (forall o, gen_bop_of o = None <-> In o [BUShr; BExp; BNullish; BInstanceof; BIn])
  /\ (forall o, gen_uop_of o = None <-> In o [UTypeof; UVoid; UDelete]).
Proof.
  split; intros o; (split; [destruct o; cbn; intros H; try discriminate H; intuition|intros H; cbn in H; intuition; subst; reflexivity]).
Qed.
Print Assumptions C03_refused_operators.
Theorem C03_lowering_conflates_only_strict_twins : forall o o' b, gen_bop_of o = Some b -> gen_bop_of o' = Some b ->
  o = o' \/ (In o [BEq; BSEq] /\ In o' [BEq; BSEq]) \/ (In o [BNe; BSNe] /\ In o' [BNe; BSNe]).
Proof.
  intros o o' b H H'. destruct o; cbn in H; try discriminate H; injection H as <-; destruct o'; cbn in H'; try discriminate H'; cbn; intuition.
Qed.
Print Assumptions C03_lowering_conflates_only_strict_twins.
Theorem C03_unary_lowering_injective : forall o o' u, gen_uop_of o = Some u -> gen_uop_of o' = Some u -> o = o'.
Proof. intros o o' u H H'. destruct o; cbn in H; try discriminate H; injection H as <-; destruct o'; cbn in H'; try discriminate H'; reflexivity. Qed.
Print Assumptions C03_unary_lowering_injective.

(* F5 after the repair *)
Example C03_f5_repaired : eval_shift BoShl (CInt 1) (CInt 63) = inr CeOverflow /\ eval_shift BoShl (CInt 3) (CInt 62) = inr CeOverflow
  /\ eval_shift BoShl (CInt (-1)) (CInt 63) = inl (CInt I64_MIN) /\ eval_shift BoShl (CInt 1) (CInt 62) = inl (CInt 4611686018427387904).
Proof. vm_compute. repeat split. Qed.

(* C11 -- The object tree and child order of the QML document are preserved.  ONLY property theorems here. *)
From QV Require Import model.Base model.ObjTree proofs.ObjTreeProofs.
Open Scope nat_scope.

(* FULL statement, for every document whose objects are placed where their kind is accepted: the form is the root widget, its
   sub-elements enumerate every object of the document exactly once and in document order (a static separator has no
   element of its own: it is an <addaction name="separator"/> of its parent), and no placement diagnostic is raised *)
Theorem C11_every_object_once_in_order : forall k nm acts ch, forallb (well_placed false) ch = true ->
  ui_names (fst (form_of (ON k nm acts ch))) = nm :: flat_map pre_order_no_sep ch /\ snd (form_of (ON k nm acts ch)) = [].
Proof. exact form_names_preorder. Qed.
Print Assumptions C11_every_object_once_in_order.

(* nesting: the element of a widget contains the elements of its children, in order, and nothing else; likewise a layout *)
Theorem C11_widget_children_in_order : forall seps k nm acts ch,
  match k with KWidget | KMenu => True | _ => False end ->
  fst (ui_of seps false (ON k nm acts ch)) =
    [UWidget nm (widget_actions seps acts ch) (flat_map (fun c => fst (ui_of seps false c)) ch)].
Proof. exact children_in_order. Qed.
Print Assumptions C11_widget_children_in_order.
Theorem C11_layout_items_in_order : forall seps nm acts ch il,
  fst (ui_of seps il (ON KLayout nm acts ch)) = [ULayout nm (flat_map (fun c => fst (ui_of seps true c)) ch)].
Proof. exact layout_items_in_order. Qed.
Print Assumptions C11_layout_items_in_order.

(* actions: declaration order without an explicit list; the explicit list exactly as written *)
Theorem C11_addactions_in_order : forall seps ch,
  widget_actions seps None ch =
  flat_map (fun c => match okind_of c with KAction | KMenu => [Some (oname c)] | KSeparator => [None] | _ => [] end) ch.
Proof. exact addactions_in_order. Qed.
Print Assumptions C11_addactions_in_order.
Theorem C11_explicit_actions_as_written : forall seps l ch,
  ~ (exists a, In a l /\ In a seps) -> widget_actions seps (Some l) ch = map Some l.
Proof. exact explicit_actions_as_written. Qed.
Print Assumptions C11_explicit_actions_as_written.

(* per-subtree versions *)
Theorem C11_subtree_names : forall n seps il, well_placed il n = true -> flat_map ui_names (fst (ui_of seps il n)) = pre_order_no_sep n.
Proof. exact ui_names_preorder. Qed.
Print Assumptions C11_subtree_names.
Theorem C11_well_placed_no_error : forall n seps il, well_placed il n = true -> snd (ui_of seps il n) = [].
Proof. exact well_placed_no_error. Qed.
Print Assumptions C11_well_placed_no_error.

(* the flat vector of objtree.rs (post-order, child index lists, root last) represents the document tree faithfully: node i carries
   the object's kind and name, and its child indices denote the children in document order *)
Theorem C11_flat_vector_represents_tree : forall root,
  map fname (flatten_tree root) = post_order root /\ represents (flatten_tree root) (length (flatten_tree root) - 1) root.
Proof. exact flatten_tree_spec. Qed.
Print Assumptions C11_flat_vector_represents_tree.

(* non-vacuity: a form with a layout, a nested widget, a menu, an action, a separator and a spacer *)
Example C11_ex :
  let t := ON KWidget 0 None [ON KLayout 1 None [ON KWidget 2 None [ON KAction 3 None []; ON KSeparator 4 None []; ON KMenu 5 None []];
                                                 ON KSpacer 6 None []; ON KLayout 7 None [ON KWidget 8 None []]]] in
  forallb (well_placed false) (ochildren t) = true /\
  fst (form_of t) = UWidget 0 [] [ULayout 1 [UWidget 2 [Some 3; None; Some 5] [UAction 3; UWidget 5 [] []]; USpacer 6; ULayout 7 [UWidget 8 [] []]]].
Proof. vm_compute. split; reflexivity. Qed.

(* C18 -- QML components in directories resolve as custom widgets, in any order.  ONLY property theorems here. *)
From Coq Require Import Lia.
From QV Require Import model.Base model.Modules proofs.ModulesProofs.
Open Scope nat_scope.

(* the directories registered are EXACTLY the import-reachability closure of the sources' directories *)
Theorem C18_discovery_exact : forall g srcs v, discover g srcs = Some v -> forall x, In x v <-> reach g srcs x.
Proof. exact discover_exact. Qed.
Print Assumptions C18_discovery_exact.

(* hence the same for every order (and multiplicity) of the source arguments *)
Theorem C18_discovery_order_independent : forall g s1 s2 v1 v2, (forall y, In y s1 <-> In y s2) ->
  discover g s1 = Some v1 -> discover g s2 = Some v2 -> forall x, In x v1 <-> In x v2.
Proof. exact discover_order_independent. Qed.
Print Assumptions C18_discovery_order_independent.

(* a directory is registered once however many files import it *)
Theorem C18_discovery_registers_each_directory_once : forall g srcs v, discover g srcs = Some v -> NoDup v.
Proof. exact discover_nodup. Qed.
Print Assumptions C18_discovery_registers_each_directory_once.

(* what is discovered for sources s1 and s2 named together is exactly what is discovered for each alone: no source's
   components depend on the other sources of the same command line *)
Theorem C18_discovery_of_sources_named_together : forall g s1 s2 v1 v2 v, discover g s1 = Some v1 -> discover g s2 = Some v2 ->
  discover g (s1 ++ s2) = Some v -> forall x, In x v <-> In x v1 \/ In x v2.
Proof. exact discover_union. Qed.
Print Assumptions C18_discovery_of_sources_named_together.

(* discovery terminates on every layout, mutually importing directories included: the work-list never runs out of fuel *)
Theorem C18_discovery_terminates : forall g srcs, wf g -> (forall s, In s srcs -> s < length g) -> discover g srcs <> None.
Proof. exact discover_terminates. Qed.
Print Assumptions C18_discovery_terminates.

(* each custom class instantiated in a document is listed exactly once (when its super class resolves) *)
Theorem C18_customwidgets_once : forall hs objs, NoDup (custom_widgets hs objs)
  /\ (forall c, In c (custom_widgets hs objs) <-> (exists o, In o objs /\ snd o = true /\ fst o = c) /\ hs c = true).
Proof. exact custom_widgets_once. Qed.
Print Assumptions C18_customwidgets_once.

(* non-vacuity: two directories importing each other, a third one unreachable *)
Example C18_ex : discover [[0; 1]; [1; 0]; [2]] [0] = Some [1; 0] /\ wf [[0; 1]; [1; 0]; [2]]
  /\ custom_widgets (fun _ => true) [(7, true); (3, false); (7, true); (5, true)] = [7; 5].
Proof.
  split; [vm_compute; reflexivity|]. split; [|vm_compute; reflexivity].
  intros d x H. destruct d as [|[|[|d]]]; cbn in H; repeat (destruct H as [<-|H]; [cbn; lia|]); try contradiction; destruct d; contradiction.
Qed.

(* C08 -- Determinism: identical inputs give byte-identical outputs.  ONLY property theorems here.
   The binding maps of the implementation are hash maps with a random seed per map; in model/Uigen.v a map is a list in an
   arbitrary order.  The theorem: whatever the orders, the outputs are equal and the diagnostics are the same multiset. *)
From Coq Require Import Permutation.
From QV Require Import model.Base gen.GenUigen model.Uigen proofs.UigenProofs.
Open Scope string_scope.

Theorem C08_order_irrelevant : forall m o o', same_object o o' -> distinct_names o ->
  r_form (run m o) = r_form (run m o') /\ r_attached (run m o) = r_attached (run m o') /\
  r_bindings (run m o) = r_bindings (run m o') /\ r_callbacks (run m o) = r_callbacks (run m o') /\
  r_header (run m o) = r_header (run m o') /\ Permutation (r_diags (run m o)) (r_diags (run m o')).
Proof. exact order_irrelevant. Qed.
Print Assumptions C08_order_irrelevant.

Theorem C08_doc_order_irrelevant : forall m d d', Forall2 same_object d d' -> Forall distinct_names d ->
  Forall2 (fun r r' => r_form r = r_form r' /\ r_attached r = r_attached r' /\ r_bindings r = r_bindings r' /\ r_callbacks r = r_callbacks r' /\
                       r_header r = r_header r' /\ Permutation (r_diags r) (r_diags r')) (run_doc m d) (run_doc m d').
Proof. exact doc_order_irrelevant. Qed.
Print Assumptions C08_doc_order_irrelevant.

(* the members of a grouped value (font { ... }, horizontalHeader { ... }) are held in a hash map too: any order of the members of any
   grouped value gives equal outputs and permuted diagnostics *)
Theorem C08_members_order_irrelevant : forall m o ps ps', Forall2 pequiv_d ps ps' ->
  let r := run m (with_props o ps) in let r' := run m (with_props o ps') in
  r_form r = r_form r' /\ r_attached r = r_attached r' /\ r_bindings r = r_bindings r' /\ r_callbacks r = r_callbacks r' /\
  r_header r = r_header r' /\ Permutation (r_diags r) (r_diags r').
Proof. exact members_order_irrelevant. Qed.
Print Assumptions C08_members_order_irrelevant.

(* the key lemma: a list sorted by distinct keys is determined by its elements *)
Theorem C08_sorted_output_unique : forall (A : Type) (key : A -> string) l l',
  Permutation l l' -> NoDup (map key l) -> sort_by key l = sort_by key l'.
Proof. exact @sort_perm_unique. Qed.
Print Assumptions C08_sorted_output_unique.

(* nothing survives from one document (object) to the next *)
Theorem C08_history_free : forall m d1 d2, run_doc m (d1 ++ d2)%list = (run_doc m d1 ++ run_doc m d2)%list.
Proof. exact doc_history_free. Qed.
Print Assumptions C08_history_free.

Example C08_ex :
  let L := fun n c => {| l_name := n; l_writable := true; l_readable := true; l_const := c; l_conv_ok := true; l_ret_ok := true |} in
  let ps := [PExpr (L "text" true); PExpr (L "toolTip" false); PExpr (L "enabled" false); PExpr (L "alpha" true)] in
  let o := fun ps => {| o_kind := OWidget false false false; o_ctx := CtxOther; o_props := ps; o_callbacks := ["b"; "a"]; o_attached := [] |} in
  same_object (o ps) (o (rev ps)) /\ distinct_names (o ps) /\ run Generate (o ps) = run Generate (o (rev ps)).
Proof.
  cbv zeta. split; [|split].
  - repeat split; try reflexivity; try apply Permutation_rev.
  - repeat split; cbn; repeat constructor; cbn; intuition discriminate.
  - vm_compute. reflexivity.
Qed.

(* C15 -- generate-ui writes only where it should, atomically, and only when needed.  ONLY property theorems here.
   The theorems are about the paths the command computes and the sequence of file operations it requests (model/FsModel.v);
   POSIX rename atomicity and the tempfile crate are trusted.  The real command is run on the same path shapes and option
   combinations, re-run, straced and killed by the check. *)
From QV Require Import model.Base model.FsModel proofs.FsProofs.
Open Scope string_scope.

(* with --output-directory, both outputs of every accepted source are strictly below that directory *)
Theorem C15_confined : forall lc d srcs src tn, sources_accepted (Some d) srcs = true -> In src srcs ->
  below d (fst (out_paths lc (Some d) src tn)) /\ below d (snd (out_paths lc (Some d) src tn)).
Proof. exact outputs_confined. Qed.
Print Assumptions C15_confined.

(* absolute or parent-escaping source paths are refused when an output directory is given *)
Theorem C15_unsafe_source_refused : forall d srcs src,
  In src srcs -> (exists c, In c src /\ (c = ParentDir \/ c = RootDir)) -> sources_accepted (Some d) srcs = false.
Proof. exact unsafe_source_refused. Qed.
Print Assumptions C15_unsafe_source_refused.

(* next to the source: x.ui and uisupport_x.h from the type name by the file name rule *)
Theorem C15_names : forall lc dir stem tn,
  out_paths lc None (dir ++ [Normal stem])%list tn = ((dir ++ [Normal (ui_name lc tn)])%list, (dir ++ [Normal (support_name lc tn)])%list).
Proof. exact output_names. Qed.
Print Assumptions C15_names.

(* re-running on unchanged inputs requests no file operation at all *)
Theorem C15_rerun_is_silent : forall outs s t, fresh s t -> NoDup (map fst outs) ->
  forall t', fresh (exec_all s (run_ops s t outs)) t' -> run_ops (exec_all s (run_ops s t outs)) t' outs = [].
Proof. exact rerun_is_silent. Qed.
Print Assumptions C15_rerun_is_silent.

(* a run killed at ANY point leaves every output path with its complete old or its complete new content *)
Theorem C15_atomic : forall outs s t n, fresh s t -> NoDup (map fst outs) ->
  forall p d, In (p, d) outs ->
  lookup (files (exec_all s (firstn n (run_ops s t outs)))) p = lookup (files s) p \/ lookup (files (exec_all s (firstn n (run_ops s t outs)))) p = Some d.
Proof. exact run_atomic. Qed.
Print Assumptions C15_atomic.

(* ... and never touches a path that is not an output *)
Theorem C15_only_outputs_touched : forall outs s t n q, fresh s t -> ~ In q (map fst outs) ->
  lookup (files (exec_all s (firstn n (run_ops s t outs)))) q = lookup (files s) q.
Proof. exact run_prefix_other. Qed.
Print Assumptions C15_only_outputs_touched.

Example C15_ex :
  out_paths true (Some [Normal "out"]) [CurDir; Normal "sub"; Normal "MyDialog.qml"] "MyDialog"
  = ([Normal "out"; CurDir; Normal "sub"; Normal "mydialog.ui"], [Normal "out"; CurDir; Normal "sub"; Normal "uisupport_mydialog.h"])
  /\ sources_accepted (Some [Normal "out"]) [[ParentDir; Normal "a.qml"]] = false
  /\ sources_accepted (Some [Normal "out"]) [[RootDir; Normal "a.qml"]] = false
  /\ sources_accepted None [[ParentDir; Normal "a.qml"]] = true.
Proof. vm_compute. repeat split; reflexivity. Qed.

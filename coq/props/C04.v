(* C04 -- Every binding is embedded, generated, or diagnosed; errors write nothing.  ONLY property theorems here.
   The theorems are about model/Uigen.v (the routing of every binding of an object to the pass that owns it); the model is
   compared with the real outputs binding by binding on every run.  The "errors write nothing" half is a fact about
   src/main.rs and the file system: the loop over the source arguments is model/Driver.v (theorems at the end of this file), the writing of one
   source's outputs is modelled under C15; both are compared with the real command. *)
From Coq Require Import Permutation.
From QV Require Import model.Base gen.GenUigen model.Uigen proofs.UigenProofs model.Driver proofs.DriverProofs model.FsModel proofs.FsProofs model.DriverFs proofs.DriverFsProofs.
Open Scope string_scope.

(* the outputs consist exactly of what the per-binding fate functions say: nothing else is written, nothing is lost *)
Theorem C04_form_is_the_placed_bindings : forall m o, Permutation (r_form (run m o)) (flat_map (fate_form o) (o_props o)).
Proof. exact run_form_fates. Qed.
Print Assumptions C04_form_is_the_placed_bindings.
Theorem C04_header_is_the_dynamic_bindings : forall o, Permutation (r_bindings (run Generate o)) (flat_map (fate_header o) (o_props o)).
Proof. exact run_bindings_fates. Qed.
Print Assumptions C04_header_is_the_dynamic_bindings.
Theorem C04_diagnostics_are_the_binding_diagnostics : forall o,
  Permutation (r_diags (run Generate o)) (flat_map (fate_diags o) (o_props o) ++ attached_diags o)%list.
Proof. exact run_diags_fates. Qed.
Print Assumptions C04_diagnostics_are_the_binding_diagnostics.

(* FULL statement, accepted documents: every scalar binding is in exactly one place *)
Theorem C04_accepted_no_binding_diag : forall o p, accepted (run Generate o) = true -> In p (o_props o) -> fate_diags o p = [].
Proof. exact accepted_no_binding_diag. Qed.
Print Assumptions C04_accepted_no_binding_diag.
Theorem C04_scalar_exactly_one : forall o l, fate_diags o (PExpr l) = [] ->
  (fate_form o (PExpr l) = [{| f_name := l_name l; f_members := [] |}] /\ fate_header o (PExpr l) = [])
  \/ (fate_form o (PExpr l) = [] /\ fate_header o (PExpr l) = [{| h_name := l_name l; h_members := [] |}]).
Proof. exact scalar_exactly_one. Qed.
Print Assumptions C04_scalar_exactly_one.

(* grouped values: constant members in the form; when one member is dynamic the header sets every member *)
Theorem C04_gadget_members_placed : forall o n w r ms,
  (role_of o n = RSerial \/ role_of o n = RValue) -> fate_diags o (PGadget n w r GSupported ms) = [] ->
  fate_form o (PGadget n w r GSupported ms) = [{| f_name := n; f_members := sort_by (fun s => s) (map l_name (filter l_const ms)) |}]
  /\ (forallb l_const ms = true -> fate_header o (PGadget n w r GSupported ms) = [])
  /\ (forallb l_const ms = false -> exists hm, fate_header o (PGadget n w r GSupported ms) = [{| h_name := n; h_members := hm |}]
                                               /\ Permutation hm (map l_name ms)).
Proof. exact gadget_members_placed. Qed.
Print Assumptions C04_gadget_members_placed.

(* never in neither: whatever the kind of binding, the object and the property, a binding that is in neither output is diagnosed *)
Theorem C04_never_in_neither : forall o p, carries_value p -> fate_form o p = [] -> fate_header o p = [] -> fate_diags o p <> [].
Proof. exact never_in_neither. Qed.
Print Assumptions C04_never_in_neither.

(* non-vacuity: a label with a constant text, a dynamic tool tip, a read-only property and a partly dynamic font *)
Example C04_ex :
  let L := fun n w c cv rt => {| l_name := n; l_writable := w; l_readable := true; l_const := c; l_conv_ok := cv; l_ret_ok := rt |} in
  let o := {| o_kind := OWidget false false false; o_ctx := CtxVBox;
              o_props := [PExpr (L "text" true true true true); PExpr (L "toolTip" true false true true);
                          PGadget "font" true true GSupported [L "bold" true false true true; L "pointSize" true true true true]];
              o_callbacks := ["clicked"]; o_attached := [] |} in
  accepted (run Generate o) = true /\
  r_form (run Generate o) = [{| f_name := "font"; f_members := ["pointSize"] |}; {| f_name := "text"; f_members := [] |}] /\
  r_bindings (run Generate o) = [{| h_name := "font"; h_members := ["bold"; "pointSize"] |}; {| h_name := "toolTip"; h_members := [] |}] /\
  accepted (run Generate {| o_kind := OWidget false false false; o_ctx := CtxVBox; o_props := [PExpr (L "hasSelectedText" false true true true)];
                            o_callbacks := []; o_attached := [] |}) = false.
Proof. vm_compute. repeat split; reflexivity. Qed.

(* ---- errors make the command fail and write nothing (src/main.rs generate_ui: `for p in sources { generate_ui_file(..)? }`), for EVERY list of sources ----
   the exit status is 0 exactly when no source has errors; what is written are the outputs of the sources in front of the first one with errors -- so an error in
   any position fails the command, and nothing of the faulty source (nor of a later one) is created or modified *)
Theorem C04_exit_status_zero_iff_no_source_has_errors : forall (out : Type) (vs : list (verdict out)),
  snd (run_sources out vs) = negb (List.existsb (is_error out) vs).
Proof. exact exit_status_spec. Qed.
Print Assumptions C04_exit_status_zero_iff_no_source_has_errors.
Theorem C04_an_error_in_any_source_fails_the_command : forall (out : Type) (a b : list (verdict out)), snd (run_sources out (a ++ HasErrors :: b)) = false.
Proof. exact any_error_fails. Qed.
Print Assumptions C04_an_error_in_any_source_fails_the_command.
Theorem C04_nothing_is_written_from_the_faulty_source_on : forall (out : Type) (a b : list (verdict out)),
  fst (run_sources out (a ++ HasErrors :: b)) = outputs_before_first_error out a.
Proof. exact nothing_written_from_the_error_on. Qed.
Print Assumptions C04_nothing_is_written_from_the_faulty_source_on.
Theorem C04_accepted_sources_are_all_written : forall (out : Type) (os : list out), run_sources out (List.map Translated os) = (os, true).
Proof. exact all_translated_all_written. Qed.
Print Assumptions C04_accepted_sources_are_all_written.

(* ... on the file system (the loop feeding the writer of model/FsModel.v): when a source has errors then, at EVERY moment of the run, every path that is not an output
   of a source in front of it -- the .ui and the header of the faulty source among them -- holds what it held before the command started *)
Theorem C04_errors_write_nothing_on_disk : forall s t a b n q, fresh s t ->
  ~ In q (map fst (outs_of (outputs_before_first_error _ a))) ->
  lookup (files (exec_all s (firstn n (command_ops s t (a ++ HasErrors :: b))))) q = lookup (files s) q.
Proof. exact faulty_source_writes_nothing. Qed.
Print Assumptions C04_errors_write_nothing_on_disk.

(* C14 -- The dynamic-binding mode changes only the support code and its diagnostics.  ONLY property theorems here. *)
From Coq Require Import Permutation.
From QV Require Import model.Base gen.GenUigen model.Uigen proofs.UigenProofs.
Open Scope string_scope.

(* the form is the same under the three modes *)
Theorem C14_form_mode_free : forall m m' d,
  map r_form (run_doc m d) = map r_form (run_doc m' d) /\ map r_attached (run_doc m d) = map r_attached (run_doc m' d).
Proof. exact doc_form_mode_free. Qed.
Print Assumptions C14_form_mode_free.

(* accepted in reject mode exactly when accepted in generate mode with a header holding no binding and no callback *)
Theorem C14_reject_iff : forall d,
  doc_accepted (run_doc Reject d) = true <->
  doc_accepted (run_doc Generate d) = true /\ Forall (fun r => r_bindings r = [] /\ r_callbacks r = []) (run_doc Generate d).
Proof. exact doc_reject_iff. Qed.
Print Assumptions C14_reject_iff.

(* every error of the omit mode is an error of the generate mode (and of the reject mode) *)
Theorem C14_omit_subset : forall o,
  incl (r_diags (run Omit o)) (r_diags (run Generate o)) /\ incl (r_diags (run Omit o)) (r_diags (run Reject o)).
Proof. exact omit_diags_subset. Qed.
Print Assumptions C14_omit_subset.

(* a support header in generate mode only, and no binding or callback code otherwise *)
Theorem C14_header_only_in_generate : forall m o, r_header (run m o) = true <-> m = Generate.
Proof. exact header_only_in_generate. Qed.
Print Assumptions C14_header_only_in_generate.
Theorem C14_no_code_outside_generate : forall m o, m <> Generate -> r_bindings (run m o) = [] /\ r_callbacks (run m o) = [].
Proof. exact omit_reject_no_code. Qed.
Print Assumptions C14_no_code_outside_generate.

Example C14_ex :
  let L := fun n c => {| l_name := n; l_writable := true; l_readable := true; l_const := c; l_conv_ok := true; l_ret_ok := true |} in
  let o := {| o_kind := OWidget false false false; o_ctx := CtxOther; o_props := [PExpr (L "text" true); PExpr (L "toolTip" false)];
              o_callbacks := []; o_attached := [] |} in
  accepted (run Generate o) = true /\ accepted (run Reject o) = false /\ accepted (run Omit o) = true /\ r_form (run Reject o) = r_form (run Generate o).
Proof. vm_compute. repeat split; reflexivity. Qed.

(* C01 -- Generated binding code computes the value of its source expression.  ONLY property theorems here.
   FULL statement (NOT proved, open): for every class environment, accepted program p with code c = build p, and world w, if
   Sem.run_binding w p = Def v then the C++ text printed for c, executed in w, returns v.  The property is decided per generated
   program and world by executing the real output (vlib/c01.py); the theorems below fix the reference semantics the executions
   are compared with -- the points the property statement singles out. *)
From QV Require Import model.Base model.Lang model.Types model.Tir model.Floats model.Ceval model.Builder model.Sem proofs.SemProofs proofs.ScopeProofs proofs.FrameProofs.
From Coq Require Import Floats.SpecFloat.
Open Scope Z_scope.

(* int arithmetic: the exact mathematical result, in range -- or undefined (32-bit overflow is never a value) *)
Theorem C01_partial_int_arith_exact : forall op x y v, in_int x = true -> in_int y = true ->
  match op with BAdd | BSub | BMul | BDiv | BRem | BShl => True | _ => False end ->
  arith op (VI x) (VI y) = Def v ->
  exists z, v = VI z /\ in_int z = true /\
    z = match op with BAdd => x + y | BSub => x - y | BMul => x * y | BDiv => Z.quot x y | BRem => Z.rem x y | _ => x * 2 ^ y end.
Proof. exact int_arith_exact. Qed.
Print Assumptions C01_partial_int_arith_exact.

Theorem C01_partial_uint_arith_wraps : forall op x y v, 0 <= x < UINT_MOD -> 0 <= y < UINT_MOD ->
  match op with BAdd | BSub | BMul => True | _ => False end ->
  arith op (VU x) (VU y) = Def v -> v = VU ((match op with BAdd => x + y | BSub => x - y | _ => x * y end) mod UINT_MOD).
Proof. exact uint_arith_wraps. Qed.
Print Assumptions C01_partial_uint_arith_wraps.

Theorem C01_partial_undefined_cases : forall x,
  arith BDiv (VI x) (VI 0) = Undef /\ arith BRem (VI x) (VI 0) = Undef /\ arith BRem (VI INT_MIN) (VI (-1)) = Undef
  /\ arith BShl (VI x) (VI 32) = Undef /\ arith BShr (VI x) (VI (-1)) = Undef /\ arith BDiv (VU x) (VU 0) = Undef.
Proof. exact undefined_cases. Qed.
Print Assumptions C01_partial_undefined_cases.

(* laziness of && || ?: *)
Theorem C01_partial_and_short_circuit : forall names this st e a b st1, eval names this st e a = Def (VB false, st1) ->
  eval names this st e (EBinary BLAnd a b) = Def (VB false, st1).
Proof. exact and_short_circuit. Qed.
Print Assumptions C01_partial_and_short_circuit.
Theorem C01_partial_or_short_circuit : forall names this st e a b st1, eval names this st e a = Def (VB true, st1) ->
  eval names this st e (EBinary BLOr a b) = Def (VB true, st1).
Proof. exact or_short_circuit. Qed.
Print Assumptions C01_partial_or_short_circuit.
Theorem C01_partial_ternary_lazy : forall names this st e c a b st1, eval names this st e c = Def (VB true, st1) ->
  eval names this st e (ETernary c a b) = eval names this st1 e a.
Proof. exact ternary_lazy. Qed.
Print Assumptions C01_partial_ternary_lazy.

(* sub-expressions folded at translation time denote what they would denote at run time *)
Theorem C01_partial_fold_agrees_on_literals : forall op bop x y r,
  (op = BoAdd /\ bop = BAdd) \/ (op = BoSub /\ bop = BSub) \/ (op = BoMul /\ bop = BMul) ->
  eval_binary_arith op (CInt x) (CInt y) = inl (CInt r) -> arith bop (VL x) (VL y) = Def (VL r).
Proof. exact fold_agrees_on_literals. Qed.
Print Assumptions C01_partial_fold_agrees_on_literals.

(* ... for the five arithmetic and the three bitwise operators *)
Theorem C01_partial_fold_agrees_arith : forall op bop x y r,
  (op = BoAdd /\ bop = BAdd) \/ (op = BoSub /\ bop = BSub) \/ (op = BoMul /\ bop = BMul) \/ (op = BoDiv /\ bop = BDiv) \/ (op = BoRem /\ bop = BRem) ->
  eval_binary_arith op (CInt x) (CInt y) = inl (CInt r) -> arith bop (VL x) (VL y) = Def (VL r).
Proof. exact fold_agrees_on_literals_all. Qed.
Print Assumptions C01_partial_fold_agrees_arith.
Theorem C01_partial_fold_agrees_bitwise : forall op bop x y r,
  (op = BoAnd /\ bop = BAnd) \/ (op = BoOr /\ bop = BOr) \/ (op = BoXor /\ bop = BXor) ->
  eval_binary_bitwise op (CInt x) (CInt y) = inl (CInt r) -> arith bop (VL x) (VL y) = Def (VL r).
Proof. exact fold_bitwise_agrees_on_literals. Qed.
Print Assumptions C01_partial_fold_agrees_bitwise.

(* the value of an expression is computed without changing any property of any object (method calls are the only trace it leaves): the
   reference semantics of an evaluation function is a function of the world it is run in *)
Theorem C01_partial_evaluation_changes_no_property : forall names this x st e v st',
  eval names this st e x = Def (v, st') -> objs st' = objs st /\ exists t, trace st' = t ++ trace st.
Proof. exact eval_frame. Qed.
Print Assumptions C01_partial_evaluation_changes_no_property.

(* definedness: null dereference and reads of never-assigned variables have no value *)
Theorem C01_partial_null_deref_undefined : forall names this st e o p st1,
  eval names this st e o = Def (VP None, st1) -> eval names this st e (EMember o p) = Undef.
Proof. exact null_deref_undefined. Qed.
Print Assumptions C01_partial_null_deref_undefined.

(* let / const scoping.  In the reference semantics: after any statement that is not itself a declaration (a block, an if, a switch
   with all its clauses, whatever they declare) exactly the variables visible before are visible again, in the same order -- every
   name denotes the variable it denoted before.  In the model of the translator (typedexpr.rs walk_stmt, tied to the code by the
   IR correspondence of C05/C06): the name table after such a statement is the name table before it.  Finding F21 was the code
   violating the second statement for switch clauses. *)
Theorem C01_partial_semantics_scope : forall names this s st e o st' e',
  match s with SDecl _ _ => False | _ => True end ->
  exec names this st e s = Def (o, st', e') -> map fst e' = map fst e.
Proof. exact exec_scope_restored. Qed.
Print Assumptions C01_partial_semantics_scope.
Theorem C01_partial_translator_scope : forall s E env brk, scoped s = true ->
  forall st r st', walk_stmt E env brk s st = (V r, st') -> snd r = env.
Proof. intros s E env brk H. exact (walk_stmt_no_leak s E env brk H). Qed.
Print Assumptions C01_partial_translator_scope.
(* both are about something: a clause-level declaration shadowing an outer variable, read after the switch *)
Example C01_scope_ex :
  let w := {| objs := [{| o_b := true; o_i := 0; o_u := 3; o_s := []; o_next := None; o_m1 := 0; o_m2 := 0; o_d := 0%N |}]; trace := [] |} in
  run_binding [] 0 w "i"
    (CStmt (SBlock [SDecl DLet [("x"%string, None, Some (EInt 1))];
                    SSwitch (EMember EThis "i") [(EInt 0, [SDecl DLet [("x"%string, None, Some (EInt 2))]; SBreak false])] None;
                    SReturn (Some (EIdent "x"))])) = Def (VI 1).
Proof. vm_compute. reflexivity. Qed.

(* non-vacuity: a switch whose default stands in the middle, with fall-through and a break under a nested if *)
Example C01_ex :
  let w := {| objs := [{| o_b := true; o_i := 7; o_u := 3; o_s := []; o_next := None; o_m1 := 0; o_m2 := 0; o_d := 0%N |}]; trace := [] |} in
  let body x := CStmt (SBlock [SDecl DLet [("r"%string, None, Some (EInt 0))];
     SSwitch (EInt x) [(EInt 1, [SExpr (EAssign (EIdent "r") (EInt 1))]); (EInt 2, [SExpr (EAssign (EIdent "r") (EInt 2)); SBreak false])]
             (Some (1%nat, [SIf (EMember EThis "b") (SBlock [SExpr (EAssign (EIdent "r") (EBinary BRem (EUnary UMinus (EMember EThis "i")) (EInt 4))); SBreak false]) None]));
     SReturn (Some (EIdent "r"))]) in
  run_binding [] 0 w "i" (body 1%N) = Def (VI (-3)) /\ run_binding [] 0 w "i" (body 2%N) = Def (VI 2) /\ run_binding [] 0 w "i" (body 9%N) = Def (VI (-3)).
Proof. vm_compute. repeat split; reflexivity. Qed.

(* double arithmetic (IEEE-754 binary64 through Coq's SpecFloat): + - * / are total -- never undefined, whatever the operands (division by zero
   gives an infinity or a NaN) -- and a NaN is unordered: equal to nothing, itself included, so `x != x` is exactly the NaN test *)
Theorem C01_partial_double_arith_total : forall op x y, match op with BAdd | BSub | BMul | BDiv => True | _ => False end ->
  exists z, arith op (VD x) (VD y) = Def (VD z).
Proof. intros op x y H. destruct op; try contradiction; eexists; reflexivity. Qed.
Print Assumptions C01_partial_double_arith_total.

Theorem C01_partial_nan_is_unordered : forall x y, sf_of_bits x = S754_nan ->
  compare BEq (VD x) (VD y) = Def (VB false) /\ compare BNe (VD x) (VD y) = Def (VB true) /\
  compare BLt (VD x) (VD y) = Def (VB false) /\ compare BLe (VD x) (VD y) = Def (VB false) /\
  compare BGt (VD x) (VD y) = Def (VB false) /\ compare BGe (VD x) (VD y) = Def (VB false) /\
  compare BNe (VD x) (VD x) = Def (VB true).
Proof.
  intros x y Hx. cbn [compare]. unfold f_eqb, f_ltb, f_leb, SFeqb, SFltb, SFleb. rewrite Hx. cbn [SFcompare].
  destruct (sf_of_bits y); repeat split; reflexivity.
Qed.
Print Assumptions C01_partial_nan_is_unordered.

(* 0.0 / 0.0 is such a NaN, and the cast of a double to int truncates toward zero and is undefined outside the int range *)
Example C01_partial_double_examples :
  sf_of_bits (f_div 0%N 0%N) = S754_nan /\ f_trunc 4613712683822510899%N = Some 2 /\ f_trunc (f_neg 4613712683822510899%N) = Some (-2) /\
  f_of_Z 4294967295 = 4751297606873776128%N /\ f_trunc NAN_BITS = None.
Proof. vm_compute. repeat split; reflexivity. Qed.

(* C01 -- Generated binding code computes the value of its source expression.  ONLY property theorems here.
   FULL statement (NOT proved, open): for every class environment, accepted program p with code c = build p, and world w, if
   Sem.run_binding w p = Def v then the C++ text printed for c, executed in w, returns v.  The property is decided per generated
   program and world by executing the real output (vlib/c01.py); the theorems below fix the reference semantics the executions
   are compared with -- the points the property statement singles out. *)
From QV Require Import model.Base model.Lang model.Types model.Tir model.Ceval model.Sem proofs.SemProofs.
Open Scope Z_scope.

(* int arithmetic: the exact mathematical result, in range -- or undefined (32-bit overflow is never a value) *)
Theorem C01_partial_int_arith_exact : forall op x y v, in_int x = true -> in_int y = true ->
  match op with BAdd | BSub | BMul | BDiv | BRem | BShl => True | _ => False end ->
  arith op (VI x) (VI y) = Def v ->
  exists z, v = VI z /\ in_int z = true /\
    z = match op with BAdd => x + y | BSub => x - y | BMul => x * y | BDiv => Z.quot x y | BRem => Z.rem x y | _ => x * 2 ^ y end.
Proof. exact int_arith_exact. Qed.
Print Assumptions C01_partial_int_arith_exact.

Theorem C01_partial_uint_arith_wraps : forall op x y v, 0 <= x < UINT_MOD -> 0 <= y < UINT_MOD ->
  match op with BAdd | BSub | BMul => True | _ => False end ->
  arith op (VU x) (VU y) = Def v -> v = VU ((match op with BAdd => x + y | BSub => x - y | _ => x * y end) mod UINT_MOD).
Proof. exact uint_arith_wraps. Qed.
Print Assumptions C01_partial_uint_arith_wraps.

Theorem C01_partial_undefined_cases : forall x,
  arith BDiv (VI x) (VI 0) = Undef /\ arith BRem (VI x) (VI 0) = Undef /\ arith BRem (VI INT_MIN) (VI (-1)) = Undef
  /\ arith BShl (VI x) (VI 32) = Undef /\ arith BShr (VI x) (VI (-1)) = Undef /\ arith BDiv (VU x) (VU 0) = Undef.
Proof. exact undefined_cases. Qed.
Print Assumptions C01_partial_undefined_cases.

(* laziness of && || ?: *)
Theorem C01_partial_and_short_circuit : forall names this st e a b st1, eval names this st e a = Def (VB false, st1) ->
  eval names this st e (EBinary BLAnd a b) = Def (VB false, st1).
Proof. exact and_short_circuit. Qed.
Print Assumptions C01_partial_and_short_circuit.
Theorem C01_partial_or_short_circuit : forall names this st e a b st1, eval names this st e a = Def (VB true, st1) ->
  eval names this st e (EBinary BLOr a b) = Def (VB true, st1).
Proof. exact or_short_circuit. Qed.
Print Assumptions C01_partial_or_short_circuit.
Theorem C01_partial_ternary_lazy : forall names this st e c a b st1, eval names this st e c = Def (VB true, st1) ->
  eval names this st e (ETernary c a b) = eval names this st1 e a.
Proof. exact ternary_lazy. Qed.
Print Assumptions C01_partial_ternary_lazy.

(* sub-expressions folded at translation time denote what they would denote at run time *)
Theorem C01_partial_fold_agrees_on_literals : forall op bop x y r,
  (op = BoAdd /\ bop = BAdd) \/ (op = BoSub /\ bop = BSub) \/ (op = BoMul /\ bop = BMul) ->
  eval_binary_arith op (CInt x) (CInt y) = inl (CInt r) -> arith bop (VL x) (VL y) = Def (VL r).
Proof. exact fold_agrees_on_literals. Qed.
Print Assumptions C01_partial_fold_agrees_on_literals.

(* definedness: null dereference and reads of never-assigned variables have no value *)
Theorem C01_partial_null_deref_undefined : forall names this st e o p st1,
  eval names this st e o = Def (VP None, st1) -> eval names this st e (EMember o p) = Undef.
Proof. exact null_deref_undefined. Qed.
Print Assumptions C01_partial_null_deref_undefined.

(* non-vacuity: a switch whose default stands in the middle, with fall-through and a break under a nested if *)
Example C01_ex :
  let w := {| objs := [{| o_b := true; o_i := 7; o_u := 3; o_s := []; o_next := None |}]; trace := [] |} in
  let body x := CStmt (SBlock [SDecl DLet [("r"%string, None, Some (EInt 0))];
     SSwitch (EInt x) [(EInt 1, [SExpr (EAssign (EIdent "r") (EInt 1))]); (EInt 2, [SExpr (EAssign (EIdent "r") (EInt 2)); SBreak false])]
             (Some (1%nat, [SIf (EMember EThis "b") (SBlock [SExpr (EAssign (EIdent "r") (EBinary BRem (EUnary UMinus (EMember EThis "i")) (EInt 4))); SBreak false]) None]));
     SReturn (Some (EIdent "r"))]) in
  run_binding [] 0 w "i" (body 1%N) = Def (VI (-3)) /\ run_binding [] 0 w "i" (body 2%N) = Def (VI 2) /\ run_binding [] 0 w "i" (body 9%N) = Def (VI (-3)).
Proof. vm_compute. repeat split; reflexivity. Qed.

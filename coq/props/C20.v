(* C20 -- Preview-mode error recovery is local to the faulty object.  ONLY property theorems here.
   What "the object loses at most its own values" erases is fixed here, not left to the harness: the faulted object's element
   attributes other than class and name, its <property>/<attribute>/<addaction>/model <item> children, the attributes of its <item>
   wrapper, its entry in the parent's <addaction> list, the per-index arrays of the parent layout; for a layout additionally the
   cells of its direct children.  Cells of the object's SIBLINGS are not erased. *)
From Coq Require Import Permutation.
From QV Require Import model.Base gen.GenUigen model.Uigen model.ObjTree model.Layout model.Recovery proofs.RecoveryProofs.
Open Scope string_scope.

(* an unknown / ill-typed / unsupported binding: the preview is EXACTLY the preview of the document without it, the error is
   reported and no other error is lost *)
Theorem C20_binding_fault_local : forall o rs1 n rs2,
  NoDup (map rname (rs1 ++ RFault n :: rs2)%list) ->
  fst (preview (with_raw o (rs1 ++ RFault n :: rs2)%list)) = fst (preview (with_raw o (rs1 ++ rs2)%list))
  /\ In (RBuildFailed n) (snd (preview (with_raw o (rs1 ++ RFault n :: rs2)%list)))
  /\ (forall d, In d (snd (preview (with_raw o (rs1 ++ rs2)%list))) -> In d (snd (preview (with_raw o (rs1 ++ RFault n :: rs2)%list)))).
Proof. exact fault_dropped_alone. Qed.
Print Assumptions C20_binding_fault_local.

(* a duplicated binding: the object loses its own property values, and only those *)
Theorem C20_duplicate_loses_only_own : forall o n, first_dup [] (map rname (ro_raw o)) = Some n ->
  let e := fst (elaborate o) in
  o_props e = [] /\ o_kind e = ro_kind o /\ o_ctx e = ro_ctx o /\ o_callbacks e = ro_callbacks o
  /\ o_attached e = map (fun x => (fst x, [snd x])) (fst (dedup_first [] (ro_attached o)))
  /\ In (RDuplicated n) (snd (elaborate o)).
Proof. exact duplicate_loses_only_own. Qed.
Print Assumptions C20_duplicate_loses_only_own.

(* a duplicated ATTACHED binding (after the repair of F15): skipped alone -- the preview is exactly the preview of the document
   without the duplicate, so neither the object nor its siblings move *)
Theorem C20_attached_duplicate_local : forall o l1 d l2, In (akey d) (map akey l1) ->
  fst (preview (with_attached o (l1 ++ d :: l2)%list)) = fst (preview (with_attached o (l1 ++ l2)%list))
  /\ In (RDuplicated (akey d)) (snd (preview (with_attached o (l1 ++ d :: l2)%list))).
Proof. exact attached_duplicate_local. Qed.
Print Assumptions C20_attached_duplicate_local.

(* an unknown or invalid object type: exactly that subtree is absent, wherever it stands *)
Theorem C20_subtree_absent : forall k nm acts ch1 k' nm' acts' sub ch2,
  resolve (RN true k nm acts (ch1 ++ RN false k' nm' acts' sub :: ch2)%list) = resolve (RN true k nm acts (ch1 ++ ch2)%list).
Proof. exact subtree_absent. Qed.
Print Assumptions C20_subtree_absent.
Theorem C20_unresolved_subtrees_absent : forall n, resolve n = resolve (prune n).
Proof. exact resolve_prune. Qed.
Print Assumptions C20_unresolved_subtrees_absent.

(* a form exists whenever the root object resolves (and only then: the mechanism returns no form otherwise) *)
Theorem C20_form_exists : forall root, resolves root = true -> preview_form root <> None.
Proof. exact form_exists. Qed.
Print Assumptions C20_form_exists.

(* F15 (repaired): losing the attached map of a child as a whole moves the cells of its following siblings -- this is what a
   duplicated attached binding did before the repair, and why it must not drop the other attached bindings of the object *)
Theorem C20_attached_loss_moves_siblings_refuted :
  exists (f : flow) (a b : attach),
    option_map (fun l => nth 1 l (None, None, None, None)) (cells f [a; b])
    <> option_map (fun l => nth 1 l (None, None, None, None)) (cells f [no_attach; b]).
Proof. exact attached_loss_moves_siblings_refuted. Qed.
Print Assumptions C20_attached_loss_moves_siblings_refuted.

Example C20_ex :
  let L := fun n => {| l_name := n; l_writable := true; l_readable := true; l_const := true; l_conv_ok := true; l_ret_ok := true |} in
  let o := {| ro_kind := OWidget false false false; ro_ctx := CtxOther; ro_raw := [RGood (PExpr (L "text")); RFault "fooBar"; RGood (PExpr (L "toolTip"))];
              ro_callbacks := []; ro_attached := [] |} in
  NoDup (map rname (ro_raw o)) /\ map f_name (r_form (fst (preview o))) = ["text"; "toolTip"] /\ snd (preview o) = [RBuildFailed "fooBar"].
Proof. cbv zeta. split; [repeat constructor; cbn; intuition discriminate|]. vm_compute. split; reflexivity. Qed.

(* C10 -- Object names are unique and every reference resolves.  ONLY property theorems here. *)
From QV Require Import model.Base model.Names proofs.NamesProofs.

(* FULL statement, for every object tree (any mix of ids and anonymous objects, any class names, ids shaped like
   generated names): if the ids are pairwise distinct then naming succeeds (the search for a free name always
   terminates -- no panic, no fuel exhaustion), every name is distinct from every other, ids are used verbatim, and a
   generated name is the class-derived prefix followed by a decimal counter, different from every id. *)
Theorem C10_unique : forall nodes, NoDup (ids_of nodes) ->
  exists names, name_nodes nodes = Ok names /\ List.length names = List.length nodes /\ NoDup names /\
    (forall k c i, nth_error nodes k = Some (c, Some i) -> nth_error names k = Some i) /\
    (forall k c, nth_error nodes k = Some (c, None) -> exists nm n, nth_error names k = Some nm /\ ~ In nm (ids_of nodes) /\
                                                                  nm = concat_number_suffix (variable_name_for_type c) n).
Proof. exact names_unique. Qed.
Print Assumptions C10_unique.

(* every reference resolves: a reference is spelled with the id of the object it means, and in the list of declared names that
   spelling belongs to exactly one object -- the one carrying the id, hence of its class -- however ids and generated names mix *)
Theorem C10_reference_denotes_exactly_one_object : forall nodes names, NoDup (ids_of nodes) -> name_nodes nodes = Ok names ->
  forall k c i, nth_error nodes k = Some (c, Some i) -> forall k', nth_error names k' = Some i <-> k' = k.
Proof.
  intros nodes names N E k c i Hk k'. destruct (names_unique nodes N) as [names' [E' [L [ND [Hid _]]]]].
  rewrite E in E'. injection E' as <-. pose proof (Hid k c i Hk) as H2. split.
  - intros H. apply (proj1 (NoDup_nth_error names) ND); [apply nth_error_Some; rewrite H; discriminate|congruence].
  - intros ->. exact H2.
Qed.
Print Assumptions C10_reference_denotes_exactly_one_object.

(* duplicate ids are rejected: a 'duplicated object id' diagnostic is produced exactly when ids are not pairwise distinct *)
Theorem C10_dup_id_rejected : forall nodes, dup_ids [] nodes = [] <-> NoDup (ids_of nodes).
Proof. exact dup_ids_spec. Qed.
Print Assumptions C10_dup_id_rejected.

(* the generator used for function names in the support header as well: always succeeds, never repeats a name *)
Theorem C10_generate : forall g p reserved,
  exists id g', generate_with_reserved g p reserved = Ok (id, g') /\
    ~ In id reserved /\ ~ In id (used_names g) /\ used_names g' = id :: used_names g /\ exists n, id = concat_number_suffix p n.
Proof.
  intros g p reserved. destruct (generate_total g p reserved) as [id [g' E]]. exists id, g'. split; [exact E|].
  exact (generate_fresh _ _ _ _ _ E).
Qed.
Print Assumptions C10_generate.

Theorem C10_suffix_injective : forall p a b, concat_number_suffix p a = concat_number_suffix p b -> a = b.
Proof. exact concat_inj. Qed.
Print Assumptions C10_suffix_injective.

(* non-vacuity, and the F4 input after the repair *)
Example C10_ex_f4 : name_nodes [("QLabel", None); ("QLabel", None); ("Label1", None); ("QLabel", Some "label3"); ("QLabel", None); ("QLabel", None); ("QWidget", None)]%string
  = Ok ["label"; "label1"; "label11"; "label3"; "label2"; "label4"; "widget"]%string.
Proof. vm_compute. reflexivity. Qed.

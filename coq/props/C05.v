(* C05 -- Static typing discipline.  ONLY property theorems here.  The declarative rules are spec/Typing.v
   (docs/language.md, DESIGN.md Appendix E); the theorems say that every typing DECISION of the builder is the table's. *)
From QV Require Import model.Base model.Lang model.Types model.Tir model.Ceval model.Builder spec.Typing proofs.TypingProofs proofs.BuilderInv proofs.BuilderSafe proofs.TypingSound proofs.IrTyped model.Passes gen.GenE0 model.Callback proofs.CallbackProofs.

(* The FULL statement -- a whole program is accepted iff it is well typed in the declarative system -- is a theorem for
   the direction "ill-typed is never accepted" on the expression fragment of literals, local variables, objects named by
   id, `this`, property reads `o.p`, subscripts `o[i]`, casts `e as T`, unary, binary (incl. && ||) and conditional operators,
   list expressions, method calls, Math.max / Math.min, qsTr, console.*, and assignments to `let` variables, writable properties
   and list elements, in any nesting (C05_accepted_expressions_are_typed, by induction over expressions through the builder's
   state monad; at the end of this file), including bare names of readable properties of the object the binding belongs to and enum
   variants written Class.Variant / Class.Enum.Variant.  For calls of implicit this-methods and function literals, and for statements
   as derivations, what is proved is that each typing DECISION the builder takes coincides with the table; the
   check then decides whole programs one by one (exhaustive operator table, generated programs, single-edit mutants)
   through the model/code correspondence and the specification's verdict. *)

(* every binary operator on run-time operands: accepted exactly when the table assigns a type, which is the result type *)
Theorem C05_binary : forall E op lt rt s,
  match op with BoLAnd | BoLOr => False | _ => True end ->
  succeeds (binary_check E op lt rt) s = spec_binary E (opclass_of op) lt rt.
Proof. exact binary_check_spec. Qed.
Print Assumptions C05_binary.
Theorem C05_binary_is_the_check : forall E op l r,
  emit_binary E op l r =
  (let l' := ensure_concrete_string l in let r' := ensure_concrete_string r in
   let! ty := binary_check E op (operand_tdesc l') (operand_tdesc r') in emit_result ty (RBinary op l' r')).
Proof. exact emit_binary_unfold. Qed.
Print Assumptions C05_binary_is_the_check.

Theorem C05_unary : forall op t s, succeeds (unary_check op t) s = spec_unary (uclass_of op) t.
Proof. exact unary_check_spec. Qed.
Print Assumptions C05_unary.
Theorem C05_unary_is_the_check : forall op a,
  emit_unary op a = (let a' := ensure_concrete_string a in let! ty := unary_check op (operand_tdesc a') in emit_result ty (RUnary op a')).
Proof. exact emit_unary_unfold. Qed.
Print Assumptions C05_unary_is_the_check.

(* `l[i]`, read or written: accepted exactly when l is a list and i an integer (literal, int, uint); the result is the element type *)
Theorem C05_subscript : forall obj ix s, succeeds (check_object_subscript_type obj ix) s = spec_subscript (operand_tdesc obj) (operand_tdesc ix).
Proof. exact subscript_check_spec. Qed.
Print Assumptions C05_subscript.
Theorem C05_subscript_is_the_check : forall E obj ix rhs,
  visit_object_subscript obj ix = (let! elem := check_object_subscript_type obj ix in emit_result elem (RReadSub obj ix)) /\
  visit_object_subscript_assignment E obj ix rhs =
    (let! elem := check_object_subscript_type obj ix in
     if is_assignable E elem (operand_tdesc rhs) then let! _ := push_statement (TExec (RWriteSub obj ix rhs)) in ret OVoid else fail XIncompatibleTypes).
Proof. intros. split; reflexivity. Qed.

(* assignment (locals, properties, subscripts, call arguments, declarations): no implicit conversion other than a literal
   class becoming its concrete type, enum aliases and object upcast *)
Theorem C05_assignable : forall E t a, is_assignable E t a = spec_assignable E t a.
Proof. exact is_assignable_spec. Qed.
Print Assumptions C05_assignable.

Theorem C05_cast : forall E t a, negb (match pick_type_cast E t a with CInvalid => true | _ => false end) = spec_castable E t a.
Proof. exact pick_type_cast_spec. Qed.
Print Assumptions C05_cast.

(* the constant-folding path admits operand types exactly when the run-time path does (except null == null) *)
Theorem C05_const_dyn_agree : forall E op l r, no_qstring l -> no_qstring r ->
  match op with BoLAnd | BoLOr => False | _ => True end ->
  match fold_binary op l r with
  | inl v => (exists t, spec_binary E (opclass_of op) (const_tdesc l) (const_tdesc r) = Some t /\ concrete (const_tdesc v) = Some t)
             \/ (l = CNull /\ r = CNull)
  | inr e => is_type_error e = true -> spec_binary E (opclass_of op) (const_tdesc l) (const_tdesc r) = None
  end.
Proof. exact const_dyn_agree. Qed.
Print Assumptions C05_const_dyn_agree.

Theorem C05_common_type : forall E a b,
  match deduce_concrete_type E a b with inl t => common_concrete E a b = Some t | inr _ => common_concrete E a b = None end.
Proof. exact deduce_concrete_common. Qed.
Print Assumptions C05_common_type.

(* Whole expressions.  `Typed E G e d` (proofs/TypingSound.v) is the declarative typing relation: its rules are the tables
   spec_unary / spec_binary / common_concrete of spec/Typing.v, one rule per node kind, with the folder's one documented
   exception (null == null); o.p needs a readable property p of the class of o (or of an ancestor), o[i] a list and an integer index,
   e as T one of the documented casts; [e1, ...] one common element type; o.m(args) the first method of that name whose parameters
   accept the arguments; x = e a `let` variable and an assignable value, o.p = e a writable property (on an object, or on a gadget
   held in a variable), x[i] = e a list variable.  Every expression of the fragment `frag` (all expression forms except function
   literals, calls of implicit this-methods, and names that resolve to nothing or to a bare type / namespace) that the translator accepts -- in any state reached from the one the typing context is read from -- has a
   derivation whose type descriptor is the descriptor of the operand the translator returns. *)
Theorem C05_accepted_expressions_are_typed : forall E env s0, envwf (List.length (bs_locals s0)) env ->
  forall e, frag E env e = true -> forall s a s', Rel s0 s -> walk_rvalue E env e s = (V a, s') ->
  Typed E (ctx_of env s0) e (operand_tdesc a).
Proof. intros E env s0 Hw e Hf s a s' HR H. exact (rvalue_typed E env s0 Hw e Hf s a s' HR H). Qed.
Print Assumptions C05_accepted_expressions_are_typed.

(* the contrapositive a user relies on: an expression with no typing derivation is never accepted *)
Theorem C05_ill_typed_expressions_are_rejected : forall E env s0 e,
  envwf (List.length (bs_locals s0)) env -> frag E env e = true ->
  (forall d, ~ Typed E (ctx_of env s0) e d) -> forall a s', walk_rvalue E env e s0 <> (V a, s').
Proof. exact ill_typed_expression_is_rejected. Qed.
Print Assumptions C05_ill_typed_expressions_are_rejected.

(* non-vacuity: (1 + 2) * x > 0 ? x : -x over an int local is in the fragment and accepted with type int; 1 + true is in the
   fragment and rejected *)
Example C05_typed_example :
  envwf (List.length (bs_locals ex_state)) ex_env /\ frag ex_E ex_env ex_expr = true /\
  (exists a s', walk_rvalue ex_E ex_env ex_expr ex_state = (V a, s') /\ operand_tdesc a = DConcrete T_INT) /\
  frag ex_E ex_env (EBinary BAdd (EInt 1) (EBool true)) = true /\
  fst (walk_rvalue ex_E ex_env (EBinary BAdd (EInt 1) (EBool true)) ex_state) = F.
Proof. exact typed_example. Qed.

(* ... and over the class environment E0 of the correspondence checks: a.i + (a.next.nums[0] as int) is in the fragment and accepted with type
   int; a.nums[a.d] (a double as index) is in the fragment and rejected *)
Example C05_typed_example_members :
  let e1 := EBinary BAdd (EMember (EIdent "a") "i") (EAs (ESubscript (EMember (EMember (EIdent "a") "next") "nums") (EInt 0)) ["int"%string]) in
  let e2 := ESubscript (EMember (EIdent "a") "nums") (EMember (EIdent "a") "d") in
  frag E0 [] e1 = true /\ (exists a s', walk_rvalue E0 [] e1 bstate0 = (V a, s') /\ operand_tdesc a = DConcrete T_INT) /\
  frag E0 [] e2 = true /\ fst (walk_rvalue E0 [] e2 bstate0) = F.
Proof. cbv zeta. split; [reflexivity|]. split; [eexists; eexists; split; [vm_compute; reflexivity|reflexivity]|]. split; reflexivity. Qed.

(* ... calls, list expressions and assignments: a.compute(Math.max(a.i, 3)) : int, [a.s, "h", qsTr("i")] : list of QString, a.i = b.i : void are in
   the fragment and accepted; a.compute(a.s) (a QString for an int parameter) is in the fragment and rejected *)
Example C05_typed_example_calls :
  let e4 := ECall (EMember (EIdent "a") "compute") [ECall (EMember (EIdent "Math") "max") [EMember (EIdent "a") "i"; EInt 3]] in
  let e5 := EArray [EMember (EIdent "a") "s"; EStr [104%N]; ECall (EIdent "qsTr") [EStr [105%N]]] in
  let e6 := EAssign (EMember (EIdent "a") "i") (EMember (EIdent "b") "i") in
  let e7 := ECall (EMember (EIdent "a") "compute") [EMember (EIdent "a") "s"] in
  map (fun e => (frag E0 [] e, match walk_rvalue E0 [] e bstate0 with (V a, _) => Some (operand_tdesc a) | _ => None end)) [e4; e5; e6; e7] =
  [(true, Some (DConcrete T_INT)); (true, Some (DConcrete (TList T_STRING))); (true, Some (DConcrete T_VOID)); (true, None)].
Proof. vm_compute. reflexivity. Qed.

(* WHOLE PROGRAMS, on the generated code.  `code_typed E c` (proofs/IrTyped.v) says of every statement of every block of c: a unary / binary operator is
   applied to operand types for which the table spec_unary / spec_binary has a row, and its result is stored in a temporary of the row's result type;
   a copy, a property write, an element write and every call argument is assignable (spec_assignable: same type, a literal class below it, enum
   alias, pointer upcast -- nothing else); a cast is one of the documented casts (spec_castable); a subscript has a list and an integer index; a list
   expression has one common element type; Math.max / Math.min have one common operand type among bool, double, int, uint, QString; qsTr takes a string
   literal; and every conditional branch tests a bool.  For EVERY class environment and EVERY binding or handler -- any nesting of statements and
   expressions, no restriction to a fragment -- the code the model of tir::build / build_callback produces is typed in this sense: an ill-typed
   operation never reaches the generated code.  (The proof carries the invariant through every visitor and walker of the translator, whatever
   their outcome.) *)
Theorem C05_generated_code_is_typed : forall E cb c, bu_code (build_callback E cb) = Some c -> code_typed E c.
Proof. exact build_code_typed. Qed.
Print Assumptions C05_generated_code_is_typed.

(* the judgement is not vacuous: it refuses int + double, an int stored in a QString temporary, a branch on an int *)
Example C05_code_typed_refuses :
  ~ stmt_ok {| ce_classes := []; ce_enums := []; ce_objects := []; ce_this := None |} [T_INT; T_DOUBLE; T_INT] (TAssign 2 (RBinary BoAdd (OLocal 0 T_INT) (OLocal 1 T_DOUBLE))) /\
  ~ stmt_ok {| ce_classes := []; ce_enums := []; ce_objects := []; ce_this := None |} [T_INT; T_STRING] (TAssign 1 (RCopy (OLocal 0 T_INT))) /\
  ~ term_ok_final (Some (TmBrCond (OLocal 0 T_INT) 1 2)) /\
  stmt_ok {| ce_classes := []; ce_enums := []; ce_objects := []; ce_this := None |} [T_INT; T_INT; T_INT] (TAssign 2 (RBinary BoAdd (OLocal 0 T_INT) (OLocal 1 T_INT))).
Proof.
  split; [|split; [|split]].
  - intros [ty [_ H]]. cbn in H. discriminate H.
  - intros [ty [H1 H2]]. cbn in H1. inversion H1; subst. cbn in H2. discriminate H2.
  - cbn. discriminate.
  - exists T_INT. split; reflexivity.
Qed.

(* ... enum variants and implicit this-properties: a.e == VObj.ModeB : bool and i + 1 : int (i a property of the root object) *)
Example C05_typed_example_names :
  map (fun e => (frag E0 [] e, match walk_rvalue E0 [] e bstate0 with (V a, _) => Some (operand_tdesc a) | _ => None end))
      [EBinary BEq (EMember (EIdent "a") "e") (EMember (EIdent "VObj") "ModeB"); EBinary BAdd (EIdent "i") (EInt 1)] =
  [(true, Some (DConcrete T_BOOL)); (true, Some (DConcrete T_INT))].
Proof. vm_compute. reflexivity. Qed.

(* callback parameters vs signal signature (uigen/objcode.rs verify_callback_parameter_type; model/Callback.v): a handler's declared parameter list is accepted exactly
   when it is no longer than the signal's argument list and each argument is assignable, by the table above, to the parameter at its position *)
Theorem C05_callback_parameters_fit_the_signal : forall E args params, verify_params E args params = POk <->
  (List.length params <= List.length args)%nat /\
  forall k, (k < List.length params)%nat -> spec_assignable E (nth k params T_VOID) (DConcrete (nth k args T_VOID)) = true.
Proof. exact verify_params_ok. Qed.
Print Assumptions C05_callback_parameters_fit_the_signal.

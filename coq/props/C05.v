(* C05 -- Static typing discipline.  ONLY property theorems here.  The declarative rules are spec/Typing.v
   (docs/language.md, DESIGN.md Appendix E); the theorems say that every typing DECISION of the builder is the table's. *)
From QV Require Import model.Base model.Lang model.Types model.Tir model.Ceval model.Builder spec.Typing proofs.TypingProofs.

(* The FULL statement -- a whole program is accepted iff it is well typed in the declarative system -- is not yet a
   theorem (it needs the induction over programs through the builder's state monad, an open T2 obligation, DESIGN.md
   5 C05).  What is proved below is that each typing DECISION the builder takes coincides with the table; the check
   then decides whole programs one by one (exhaustive operator table, generated programs, single-edit mutants) through
   the model/code correspondence and the specification's verdict. *)

(* every binary operator on run-time operands: accepted exactly when the table assigns a type, which is the result type *)
Theorem C05_binary : forall E op lt rt s,
  match op with BoLAnd | BoLOr => False | _ => True end ->
  succeeds (binary_check E op lt rt) s = spec_binary E (opclass_of op) lt rt.
Proof. exact binary_check_spec. Qed.
Print Assumptions C05_binary.
Theorem C05_binary_is_the_check : forall E op l r,
  emit_binary E op l r =
  (let l' := ensure_concrete_string l in let r' := ensure_concrete_string r in
   let! ty := binary_check E op (operand_tdesc l') (operand_tdesc r') in emit_result ty (RBinary op l' r')).
Proof. exact emit_binary_unfold. Qed.
Print Assumptions C05_binary_is_the_check.

Theorem C05_unary : forall op t s, succeeds (unary_check op t) s = spec_unary (uclass_of op) t.
Proof. exact unary_check_spec. Qed.
Print Assumptions C05_unary.
Theorem C05_unary_is_the_check : forall op a,
  emit_unary op a = (let a' := ensure_concrete_string a in let! ty := unary_check op (operand_tdesc a') in emit_result ty (RUnary op a')).
Proof. exact emit_unary_unfold. Qed.
Print Assumptions C05_unary_is_the_check.

(* assignment (locals, properties, subscripts, call arguments, declarations): no implicit conversion other than a literal
   class becoming its concrete type, enum aliases and object upcast *)
Theorem C05_assignable : forall E t a, is_assignable E t a = spec_assignable E t a.
Proof. exact is_assignable_spec. Qed.
Print Assumptions C05_assignable.

Theorem C05_cast : forall E t a, negb (match pick_type_cast E t a with CInvalid => true | _ => false end) = spec_castable E t a.
Proof. exact pick_type_cast_spec. Qed.
Print Assumptions C05_cast.

(* the constant-folding path admits operand types exactly when the run-time path does (except null == null) *)
Theorem C05_const_dyn_agree : forall E op l r, no_qstring l -> no_qstring r ->
  match op with BoLAnd | BoLOr => False | _ => True end ->
  match fold_binary op l r with
  | inl v => (exists t, spec_binary E (opclass_of op) (const_tdesc l) (const_tdesc r) = Some t /\ concrete (const_tdesc v) = Some t)
             \/ (l = CNull /\ r = CNull)
  | inr e => is_type_error e = true -> spec_binary E (opclass_of op) (const_tdesc l) (const_tdesc r) = None
  end.
Proof. exact const_dyn_agree. Qed.
Print Assumptions C05_const_dyn_agree.

Theorem C05_common_type : forall E a b,
  match deduce_concrete_type E a b with inl t => common_concrete E a b = Some t | inr _ => common_concrete E a b = None end.
Proof. exact deduce_concrete_common. Qed.
Print Assumptions C05_common_type.

(* C16 -- The support header is self-consistent, valid C++ over the documented Qt API.  ONLY property theorems here.
   "Valid C++" is decided by g++ on every emitted header (the check); the theorems cover the self-consistency clauses. *)
From QV Require Import model.Base model.Names model.Lang model.Types model.Tir model.Passes model.Header proofs.HeaderProofs proofs.PropdepProofs.
Open Scope nat_scope.

(* names: the suffixes of all bindings, gadget members and callbacks of a document come from ONE generator and are pairwise
   distinct, whatever the object ids and property names (colliding prefixes included) *)
Theorem C16_suffixes_distinct : forall ps l, function_suffixes ps = Ok l -> NoDup l.
Proof. exact suffixes_distinct. Qed.
Print Assumptions C16_suffixes_distinct.
Theorem C16_suffixes_total : forall ps, exists l, function_suffixes ps = Ok l /\ length l = length ps.
Proof. exact suffixes_total. Qed.
Print Assumptions C16_suffixes_total.
(* hence every member function (setupX / updateX / evalX) is defined exactly once *)
Theorem C16_function_names_distinct : forall l, NoDup l -> NoDup (flat_map function_names l).
Proof. exact function_names_distinct. Qed.
Print Assumptions C16_function_names_distinct.

(* index and guard: each binding has its own index; its guard word lies inside the array; the array is never zero-sized; two
   bindings never share a guard bit *)
Theorem C16_indices_distinct : forall n, NoDup (binding_indices n) /\ length (binding_indices n) = n /\ (forall i, In i (binding_indices n) <-> i < n).
Proof. exact indices_distinct. Qed.
Print Assumptions C16_indices_distinct.
Theorem C16_guard_covers : forall n i, i < n -> guard_word i < guard_words n /\ guard_bit i < 32.
Proof. exact guard_covers. Qed.
Print Assumptions C16_guard_covers.
Theorem C16_guard_nonempty : forall n, 0 < n -> 0 < guard_words n.
Proof. exact guard_nonempty. Qed.
Print Assumptions C16_guard_nonempty.
Theorem C16_guard_bits_distinct : forall i j, guard_word i = guard_word j -> guard_bit i = guard_bit j -> i = j.
Proof. exact guard_bits_distinct. Qed.
Print Assumptions C16_guard_bits_distinct.

(* observer arrays: the observations inserted by the dependency analysis use exactly the slots c_nobs(before) .. c_nobs(after)-1, each
   once -- so an array of property_observer_count entries is large enough for every observed[k] of the function *)
Theorem C16_observer_slots : forall E c c' ds, analyze_code_property_dependency E c = Ok (c', ds) ->
  Forall (fun b => no_observe (b_stmts b)) (c_blocks c) ->
  flat_map (fun b => observe_handles (b_stmts b)) (c_blocks c') = seq (c_nobs c) (c_nobs c' - c_nobs c).
Proof. intros E c c' ds H. exact (proj2 (dependency_complete E c c' ds H)). Qed.
Print Assumptions C16_observer_slots.

(* string literals (after the repair of F9): for EVERY source string, what a C++17 lexer reads from the written literal is that
   string *)
Theorem C16_literal_denotes_source : forall s, Forall valid_scalar s -> read_literal (spell s) = Some s.
Proof. exact literal_denotes_source. Qed.
Print Assumptions C16_literal_denotes_source.
(* the previous spelling (Rust's Debug formatting) refuted: not C++ for control characters, another string for NUL + digit *)
Theorem C16_rust_debug_refuted :
  read_literal (rust_debug [1%N]) = None /\ read_literal (rust_debug [0%N; 49%N]) = Some [1%N] /\ read_literal (rust_debug [127%N]) = None.
Proof. exact rust_debug_refuted. Qed.
Print Assumptions C16_rust_debug_refuted.

Example C16_ex : function_suffixes ["NAB"; "NAB"; "NAb"; "NAB1"]%string = Ok ["NAB"; "NAB1"; "NAb"; "NAB11"]%string
  /\ guard_words 33 = 2 /\ guard_words 32 = 1 /\ guard_words 0 = 0
  /\ spell [34; 1; 0; 49; 233; 128512]%N = [92; 34; 92; 48; 48; 49; 92; 48; 48; 48; 49; 92; 117; 48; 48; 101; 57; 92; 85; 48; 48; 48; 49; 102; 54; 48; 48]%N.
Proof. vm_compute. repeat split; reflexivity. Qed.

(* C13 -- Signal callbacks are wired to the right signal and do what the source says.  ONLY property theorems here.
   FULL statement (NOT proved, open): for every accepted handler, signal argument values and world, emitting the signal performs the
   effects Sem.run_handler prescribes, in that order, and nothing else.  Decided per generated handler by executing the real output
   (vlib/c13.py); the theorems fix the reference semantics. *)
From QV Require Import model.Base model.Lang model.Sem proofs.SemProofs proofs.ScopeProofs proofs.FrameProofs model.Overload proofs.OverloadProofs model.Types spec.Typing model.Callback proofs.CallbackProofs.
Open Scope Z_scope.

(* effects are recorded in source order: the write of the first statement precedes the write of the second in the trace (most
   recent first), and nothing else is recorded *)
Theorem C13_partial_effects_in_source_order : forall names this st o1 i1 o2 i2 n1 n2 st',
  object_named names o1 = Some i1 -> object_named names o2 = Some i2 ->
  run_handler names this st (CStmt (SBlock [SExpr (EAssign (EMember (EIdent o1) "i") (EInt n1)); SExpr (EAssign (EMember (EIdent o2) "i") (EInt n2))])) [] = Def st' ->
  exists w1 w2, trace st' = ESet i2 "i" w2 :: ESet i1 "i" w1 :: trace st.
Proof. exact two_writes_in_order. Qed.
Print Assumptions C13_partial_effects_in_source_order.

(* the declared parameters are bound to the LEADING signal arguments, whatever else the signal carries *)
Theorem C13_partial_parameters_are_leading_arguments : forall names this st x ty a rest,
  run_handler names this st (CFunc {| f_named := false; f_return_ty := false; f_params := [(x, ty)]; f_body := FStmt (SExpr (EAssign (EMember EThis "i") (EIdent x))) |}) (VI a :: rest)
  = write_prop_res st this a.
Proof. exact parameter_is_first_argument. Qed.
Print Assumptions C13_partial_parameters_are_leading_arguments.

(* ... and in general: a handler function starts with exactly its declared parameters as variables, the k-th one holding the k-th argument of
   the emission, whatever further arguments the signal carries; its body runs in that environment *)
Theorem C13_partial_parameters_general : forall ps args k,
  NoDup (map fst ps) -> (length ps <= length args)%nat -> (k < length ps)%nat ->
  lookup (handler_env ps args) (fst (nth k ps (""%string, None))) = Some (Some (nth k args VVoid)).
Proof. exact parameters_are_leading_arguments. Qed.
Print Assumptions C13_partial_parameters_general.
Theorem C13_partial_handler_runs_in_parameter_env : forall names this st f args,
  run_handler names this st (CFunc f) args =
  match f_body f with
  | FStmt s => match exec names this st (handler_env (f_params f) args) s with Def (_, st1, _) => Def st1 | Undef => Undef | Stuck w => Stuck w end
  | FExpr x => match eval names this st (handler_env (f_params f) args) x with Def (_, st1) => Def st1 | Undef => Undef | Stuck w => Stuck w end
  end.
Proof. exact run_handler_env. Qed.
Print Assumptions C13_partial_handler_runs_in_parameter_env.

(* effects accumulate in execution order, for EVERY statement: the trace only grows (nothing recorded is removed or reordered), and in a
   block what the first statement does lies below what the following statements do *)
Theorem C13_partial_trace_only_grows : forall names this s st e o st' e',
  exec names this st e s = Def (o, st', e') -> exists t, trace st' = t ++ trace st.
Proof. exact exec_trace_grows. Qed.
Print Assumptions C13_partial_trace_only_grows.
Theorem C13_partial_block_effects_in_source_order : forall names this s rest st e o st' e',
  exec names this st e (SBlock (s :: rest)) = Def (o, st', e') ->
  exists o1 st1 e1 t1 t2, exec names this st e s = Def (o1, st1, e1) /\ trace st1 = t1 ++ trace st /\ trace st' = t2 ++ t1 ++ trace st.
Proof. exact block_effects_in_source_order. Qed.
Print Assumptions C13_partial_block_effects_in_source_order.

(* an early return stops the handler: nothing after it is performed *)
Theorem C13_partial_return_stops : forall names this st s, run_handler names this st (CStmt (SBlock [SReturn None; s])) [] = Def st.
Proof. exact return_stops. Qed.
Print Assumptions C13_partial_return_stops.

(* ---- which signal a handler is connected to (uigen/objcode.rs uniquify_methods), for EVERY set of metatype entries of one name ----
   connected only to an unambiguous signal: every entry found for the name is a signal with the same return type whose arguments are the
   leading arguments of the connected entry, which therefore carries the most arguments *)
Theorem C13_connected_signal_is_the_declared_one : forall ms args, callback_verdict ms = VConnect args ->
  exists m, In m ms /\ m_args m = args /\ m_kind m = 0%N /\
    forall x, In x ms -> m_kind x = 0%N /\ m_ret x = m_ret m /\ prefixb (m_args x) args = true.
Proof. exact connect_means_unambiguous_signal. Qed.
Print Assumptions C13_connected_signal_is_the_declared_one.
Theorem C13_connected_variant_carries_most_arguments : forall ms m, uniquify ms = Some m -> forall x, In x ms -> (arity x <= arity m)%nat.
Proof. exact uniquify_most_arguments. Qed.
Print Assumptions C13_connected_variant_carries_most_arguments.
(* handlers on ambiguous overloads are rejected: two entries neither of which extends the other leave no answer, however many entries there are ... *)
Theorem C13_ambiguous_overloads_are_rejected : forall ms x y, In x ms -> In y ms -> ~ comparable x y -> uniquify ms = None.
Proof. exact uniquify_rejects_ambiguous. Qed.
Print Assumptions C13_ambiguous_overloads_are_rejected.
(* ... and nothing else is refused as ambiguous: pairwise default-argument variants always collapse *)
Theorem C13_default_argument_variants_collapse : forall ms, ms <> [] -> (forall x y, In x ms -> In y ms -> comparable x y) -> uniquify ms <> None.
Proof. exact uniquify_complete. Qed.
Print Assumptions C13_default_argument_variants_collapse.

(* ---- which signal a handler NAME denotes (qtname.rs callback_to_signal_name), for every byte string ----
   exactly the names on<Capital><rest> denote a signal, namely <small><rest>; two handler names never denote the same signal, and every signal whose name
   starts with a small ASCII letter has its handler name *)
Theorem C13_handler_name_denotes_one_signal : forall name s, callback_to_signal_name name = Some s <->
  exists c r, name = String "o" (String "n" (String c r)) /\ is_ascii_upper c = true /\ s = String (to_lower c) r.
Proof. exact signal_name_spec. Qed.
Print Assumptions C13_handler_name_denotes_one_signal.
Theorem C13_handler_names_are_injective : forall a b s, callback_to_signal_name a = Some s -> callback_to_signal_name b = Some s -> a = b.
Proof. exact signal_name_injective. Qed.
Print Assumptions C13_handler_names_are_injective.
Theorem C13_every_small_signal_has_its_handler : forall c r, is_ascii_lower c = true -> callback_to_signal_name (handler_name (String c r)) = Some (String c r).
Proof. exact handler_name_denotes_signal. Qed.
Print Assumptions C13_every_small_signal_has_its_handler.

(* ---- the declared parameters (uigen/objcode.rs verify_callback_parameter_type), for every class environment, argument list and parameter list ----
   accepted exactly when there are no more parameters than signal arguments and the k-th argument is assignable (spec/Typing.v: same type, enum/flag alias,
   pointer to a derived class) to the k-th parameter -- the declared parameters are bound to the LEADING arguments and to nothing that does not fit *)
Theorem C13_parameters_accepted_iff_leading_arguments_fit : forall E args params, verify_params E args params = POk <->
  (List.length params <= List.length args)%nat /\
  forall k, (k < List.length params)%nat -> spec_assignable E (nth k params T_VOID) (DConcrete (nth k args T_VOID)) = true.
Proof. exact verify_params_ok. Qed.
Print Assumptions C13_parameters_accepted_iff_leading_arguments_fit.
Theorem C13_too_many_parameters_are_refused : forall E args params, verify_params E args params = PTooMany <-> (List.length args < List.length params)%nat.
Proof. exact verify_params_too_many. Qed.
Print Assumptions C13_too_many_parameters_are_refused.

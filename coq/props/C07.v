(* C07 -- Totality.  ONLY property theorems here.  The general statement over the whole pipeline is NOT a theorem:
   tree-sitter, the CST->AST layer and the renderer are outside any Gallina model (see DESIGN.md section 8). *)
From QV Require Import model.Base model.Lang model.Types model.Tir model.Builder model.Passes model.TirCase gen.GenE0 proofs.InterpProofs proofs.BuilderSafe proofs.BuilderSafeStmt proofs.BuilderSafeSwitch proofs.BuilderCfg.

(* the constant interpreter terminates on EVERY code body, well-formed or not *)
Theorem C07_interp_total : forall E c, evaluate_code E c <> OutOfFuel.
Proof. exact evaluate_code_total. Qed.
Print Assumptions C07_interp_total.

(* the EXPRESSION layer of the translator (model of typedexpr.rs walk_expr driving tir/builder.rs, tied to the code by the Ok / Err / Panic
   prediction of this check) never panics: for every class environment, every expression -- any nesting of ?:, &&, ||, calls, subscripts,
   assignments, casts -- and every builder state whose current block is open and in which the locals named by the environment exist.  It
   stays inside its region of the block list (blocks below the current one are untouched) and leaves the current block open: the region
   invariant of the block numbering.  Every assert / index / unwrap of builder.rs reached from an expression is thereby shown unreachable. *)
Theorem C07_expressions_never_panic : forall E env L e s,
  (forall x l k, lenv_get env x = Some (l, k) -> l < L)%nat -> Good s -> (L <= List.length (bs_locals s))%nat ->
  match walk_expr E env e s with (P _, _) => False | (_, s') => RegB (nb s) s s' end.
Proof.
  intros E env L e s Hw G HL. pose proof (walk_expr_safe E env L Hw e s (nb s) G HL (le_n _)) as H.
  destruct (walk_expr E env e s) as [[a| |x] s']; tauto.
Qed.
Print Assumptions C07_expressions_never_panic.
(* ... and so do statements -- blocks, declarations, if / else, switch with case labels of any shape, default anywhere, fall-through and
   break, return, expression statements, in any nesting -- provided a default clause sits at a position between 0 and the number of cases
   (what the parser produces) and the label a `break` may jump to lies below the current block.  The environment handed on names existing
   locals only. *)
Theorem C07_statements_never_panic : forall E s, wfsw s = true -> forall env brk st,
  Good st -> envwf (nloc st) env -> bound_of brk <= nb st ->
  match walk_stmt E env brk s st with
  | (P _, _) => False
  | (V (ok, env'), st') => RegB (nb st) st st' /\ envwf (nloc st') env'
  | (F, st') => RegB (nb st) st st'
  end.
Proof. intros E s Hs env brk st G Hw Hb. exact (walk_stmt_safe E s Hs env brk st (nb st) G Hw Hb (le_n _)). Qed.
Print Assumptions C07_statements_never_panic.
(* the whole translation of a binding or a handler (typedexpr.rs walk / walk_callback with the CodeBuilder visitor), from the initial builder
   state: for EVERY class environment and EVERY callback no assert, index or unwrap of typedexpr.rs / tir/builder.rs fires *)
Theorem C07_translator_never_panics : forall E cb, wf_callback cb = true ->
  match walk_callback E cb bstate0 with (P _, _) => False | _ => True end.
Proof. exact walk_callback_never_panics. Qed.
Print Assumptions C07_translator_never_panics.
(* ... and neither does what follows it in tir::build / build_callback (finalize_completion_values: its asserts, its index and its work-list,
   modelled with explicit fuel): the MODEL OF tir::build NEVER PANICS and never runs out of fuel, for every class environment and every
   binding or handler.  Behind it: the translation ends with the current block open, every jump written targets an existing block and no
   unconditional jump targets its own block; each block is then patched at most once *)
Theorem C07_build_never_panics : forall E cb, wf_callback cb = true -> bu_panic (build_callback E cb) = None.
Proof. exact build_never_panics. Qed.
Print Assumptions C07_build_never_panics.
(* the hypothesis is about something: a switch whose default stands in the middle, with a multi-block case label and a nested if *)
Example C07_wf_example : wf_callback (CStmt (SSwitch (EInt 1)
    [(EInt 1, [SExpr (EInt 1)]); (ETernary (EBool true) (EInt 2) (EInt 3), [SIf (EBool true) (SBlock [SBreak false]) None])]
    (Some (1%nat, [SReturn None])))) = true.
Proof. reflexivity. Qed.
(* the initial builder state is such a state *)
Example C07_initial_state_good : Good bstate0.
Proof.
  split; [apply le_n|]. split; [exists block0; split; reflexivity|].
  intros i b t Hi Hb. destruct i as [|[|i]]; cbn in Hi; try discriminate. inversion Hi; subst. discriminate.
Qed.

(* the inputs of the repaired findings F14 (interpreter reached unreachable!()) and F18 (empty switch) on the model of
   the repaired code: no Panic anywhere in build + finalize + interpret + dependency analysis *)
Definition f14_binding : callback := CStmt (SBlock [SSwitch (EInt 1) [] (Some (0, [SDecl DLet [("y", None, Some (EInt 2))]]))]).
Definition f18_handler : callback := CStmt (SBlock [SSwitch (EInt 1) [] None]).
Example C07_repaired_inputs : hd 9%Z (tir_case E0 f14_binding) = 1%Z /\ hd 9%Z (tir_case E0 f18_handler) = 1%Z /\
  ~ In 2%Z (firstn 1 (tir_case E0 f14_binding)).
Proof. vm_compute. repeat split. intros [H|[]]. discriminate. Qed.

(* C07 -- Totality.  ONLY property theorems here.  The general statement over the whole pipeline is NOT a theorem:
   tree-sitter, the CST->AST layer and the renderer are outside any Gallina model (see DESIGN.md section 8). *)
From QV Require Import model.Base model.Lang model.Types model.Tir model.Builder model.Passes model.TirCase gen.GenE0 proofs.InterpProofs.

(* the constant interpreter terminates on EVERY code body, well-formed or not *)
Theorem C07_interp_total : forall E c, evaluate_code E c <> OutOfFuel.
Proof. exact evaluate_code_total. Qed.
Print Assumptions C07_interp_total.

(* the inputs of the repaired findings F14 (interpreter reached unreachable!()) and F18 (empty switch) on the model of
   the repaired code: no Panic anywhere in build + finalize + interpret + dependency analysis *)
Definition f14_binding : callback := CStmt (SBlock [SSwitch (EInt 1) [] (Some (0, [SDecl DLet [("y", None, Some (EInt 2))]]))]).
Definition f18_handler : callback := CStmt (SBlock [SSwitch (EInt 1) [] None]).
Example C07_repaired_inputs : hd 9%Z (tir_case E0 f14_binding) = 1%Z /\ hd 9%Z (tir_case E0 f18_handler) = 1%Z /\
  ~ In 2%Z (firstn 1 (tir_case E0 f14_binding)).
Proof. vm_compute. repeat split. intros [H|[]]. discriminate. Qed.

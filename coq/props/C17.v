(* C17 -- Type lookups agree with the class graph and always terminate.  ONLY property theorems here. *)
From Coq Require Import Relations.
From QV Require Import model.Base model.ClassGraph proofs.ClassGraphProofs.

(* every query terminates: the explicit fuel [fuel_bound g] always suffices, on every finite class graph
   (diamonds, cycles, self-inheritance, dangling names, non-class names) *)
Theorem C17_terminates : forall g c b n,
  derives_pedantic g c b <> FFuel /\ common_base_class g c b <> FFuel /\
  get_property g c n <> FFuel /\ get_public_method g c n <> FFuel /\ get_type g c n <> FFuel /\ get_enum_by_variant g c n <> FFuel.
Proof.
  intros g c b n. split; [apply derives_total|]. split; [apply common_base_total|].
  repeat split; apply find_total; intros x.
  - apply declares_prop_total.
  - apply declares_method_total.
  - unfold declares_enum. destruct (cls g x); [destruct (last_enum_named _ _ _)|]; discriminate.
  - unfold declares_variant. destruct (cls g x); [destruct (last_enum_with_variant _ _ _)|]; discriminate.
Qed.
Print Assumptions C17_terminates.

(* FULL statement ('derives from' holds exactly for reflexive-transitive public inheritance, on every graph) *)
Definition C17_derives_full : Prop :=
  forall g c b, is_derived_from g c b = FSome true <-> greach g c b.
(* ... is REFUTED on the faithful model by a dangling name listed before a valid base (finding F13) *)
Theorem C17_derives_refuted : ~ C17_derives_full.
Proof.
  intros H. destruct derives_complete_refuted as [R [E _]]. apply (H f13_graph 0 1) in R. rewrite R in E. discriminate.
Qed.
Print Assumptions C17_derives_refuted.

(* proved: exact whenever no class reachable from c lists an unresolvable super-class name (the F13 class);
   and 'true' answers are right on every graph *)
Theorem C17_derives_exact : forall g c b, ~ has_dangling g c ->
  (is_derived_from g c b = FSome true <-> greach g c b) /\ (is_derived_from g c b = FSome false <-> ~ greach g c b).
Proof. exact derives_exact. Qed.
Print Assumptions C17_derives_exact.

Theorem C17_derives_sound : forall g c b, is_derived_from g c b = FSome true -> greach g c b.
Proof. exact derives_true_sound. Qed.
Print Assumptions C17_derives_sound.

(* a property / method / nested enum / variant is found exactly when the class or a public ancestor declares it;
   the class's own declaration takes precedence *)
Theorem C17_lookup_sound : forall g A (f : nat -> fm A) c a,
  find_self_and_bases (resolve g) (supers g) f (fuel_bound g) c = FSome a -> exists d, greach g c d /\ f d = FSome a.
Proof. exact find_sound. Qed.
Print Assumptions C17_lookup_sound.

Theorem C17_lookup_exact : forall g A (f : nat -> fm A) c,
  ~ has_dangling g c -> (forall x, f x = FErr -> has_dangling g x) -> (forall x, f x <> FFuel) ->
  (find_self_and_bases (resolve g) (supers g) f (fuel_bound g) c = FNone <-> forall d, greach g c d -> f d = FNone).
Proof. exact find_exact. Qed.
Print Assumptions C17_lookup_exact.

(* the property sentence for properties, spelled out *)
Theorem C17_property_lookup : forall g c p, ~ has_dangling g c ->
  (get_property g c p = FNone <-> forall d cd, greach g c d -> cls g d = Some cd -> ~ In p (c_props cd)) /\
  (forall d, get_property g c p = FSome d -> greach g c d /\ exists cd, cls g d = Some cd /\ In p (c_props cd)) /\
  (forall cd, cls g c = Some cd -> In p (c_props cd) -> get_property g c p = FSome c) /\
  get_property g c p <> FErr /\ get_property g c p <> FFuel.
Proof. exact get_property_exact. Qed.
Print Assumptions C17_property_lookup.

Theorem C17_lookup_none_complete : forall g A (f : nat -> fm A) c,
  find_self_and_bases (resolve g) (supers g) f (fuel_bound g) c = FNone -> forall d, greach g c d -> f d = FNone.
Proof. exact find_none_complete. Qed.
Print Assumptions C17_lookup_none_complete.

Theorem C17_own_first : forall g A (f : nat -> fm A) c a, f c = FSome a ->
  find_self_and_bases (resolve g) (supers g) f (fuel_bound g) c = FSome a.
Proof. exact find_own_first. Qed.
Print Assumptions C17_own_first.

Theorem C17_common_base : forall g a b x,
  (common_base_class g a b = FSome x -> greach g a x /\ greach g b x) /\
  (common_base_class g a b = FNone -> forall y, greach g a y -> ~ greach g b y).
Proof. intros. split; [apply common_base_sound|apply common_base_none_complete]. Qed.
Print Assumptions C17_common_base.

Theorem C17_variant : forall g c v d en, get_enum_by_variant g c v = FSome (d, en) ->
  greach g c d /\ exists cd e, cls g d = Some cd /\ In e (c_enums cd) /\ e_name e = en /\ e_scoped e = false /\ In v (e_variants e).
Proof. exact variant_sound. Qed.
Print Assumptions C17_variant.

Theorem C17_method_table : forall n d,
  table_lookup n (method_table d) =
  by_name n (filter m_public (map (set_kind KSignal) (c_signals d) ++ map (set_kind KSlot) (c_slots d) ++ map (set_kind KMethod) (c_methods d))).
Proof. exact method_lookup_spec. Qed.
Print Assumptions C17_method_table.

(* C09 -- The .ui is well-formed, grammar-conformant XML that preserves strings.  ONLY property theorems here.
   The theorems cover the text channel (escaping, character legality, read-back); the element structure of real outputs
   is validated per document by the check (expat + the form grammar table), not by a theorem. *)
From QV Require Import model.Base model.Lang model.Xml proofs.XmlProofs.
Open Scope N_scope.

(* FULL statement: every string made of characters XML 1.0 can carry is read back by an XML processor exactly as
   written in the source -- for the text writer of uigen after the repair of F6 (CR is written as &#13;) *)
Theorem C09_roundtrip : forall s : text, forallb xml_char s = true -> read_back (escape_text s) = Some s.
Proof. exact escape_text_roundtrip. Qed.
Print Assumptions C09_roundtrip.

(* quick-xml's own escape (used for attribute values and, before the repair, for text): round trip for strings without CR;
   with CR it is refuted -- the finding F6 *)
Theorem C09_escape_roundtrip : forall s : text, forallb xml_char s = true -> ~ In 13 s -> read_back (escape s) = Some s.
Proof. exact escape_roundtrip. Qed.
Print Assumptions C09_escape_roundtrip.
Theorem C09_escape_cr_refuted : read_back (escape [97; 13; 98]) = Some [97; 10; 98].
Proof. exact escape_cr_refuted. Qed.

(* every character written is an XML Char exactly when every source character is; a string with any other character
   cannot be carried at all (the document would be ill-formed) -- which is why such strings are now diagnosed (F17) *)
Theorem C09_wellformed_chars : forall s : text, forallb xml_char (escape_text s) = forallb xml_char s.
Proof. exact escape_text_chars. Qed.
Print Assumptions C09_wellformed_chars.
Theorem C09_non_xml_char_ill_formed : forall s : text, forallb xml_char s = false -> read_back (escape_text s) = None.
Proof. exact non_xml_char_ill_formed. Qed.
Print Assumptions C09_non_xml_char_ill_formed.

(* attribute values that carry a source string (icon theme names): the same round trip, for the attribute writer after the repair of F23
   (tab / LF / CR as character references); quick-xml's own attribute escaping loses them (attribute-value normalisation) *)
Theorem C09_attribute_roundtrip : forall s : text, forallb xml_char s = true -> attr_read_back (escape_attr s) = Some s.
Proof. exact escape_attr_roundtrip. Qed.
Print Assumptions C09_attribute_roundtrip.
Theorem C09_attribute_escape_refuted : attr_read_back (escape [97; 9; 98]) = Some [97; 32; 98] /\ attr_read_back (escape [13; 10]) = Some [32].
Proof. exact escape_in_attr_refuted. Qed.

Example C09_ex : read_back (escape_text [60; 38; 62; 34; 39; 13; 10; 9; 233; 128512]) = Some [60; 38; 62; 34; 39; 13; 10; 9; 233; 128512].
Proof. vm_compute. reflexivity. Qed.

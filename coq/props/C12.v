(* C12 -- Layout items land in the documented cells; per-row/column settings follow.  ONLY property theorems here. *)
From Coq Require Import Lia.
From QV Require Import model.Base gen.GenTables model.Layout spec.LayoutSpec proofs.LayoutProofs.
Open Scope Z_scope.

(* every child of a grid or form layout receives the cell given by the flow rule (spec/LayoutSpec.v), for every
   sequence of children, both flows, all counts > 0 *)
Theorem C12_flow : forall f, 0 < count_of f -> forall kids,
  positions f counter0 kids = spec_positions MAX_INDEX (to_sflow f) (0, 0) (map (fun a => (a_row a, a_col a)) kids).
Proof. intros f Hn kids. apply (positions_spec f Hn kids counter0). apply counter0_ok, Hn. Qed.
Print Assumptions C12_flow.

(* between two repositionings the rule has the closed form (r + (c+k)/n, (c+k) mod n) (transposed for top-to-bottom) *)
Theorem C12_auto_closed_form : forall F rc,
  (match F with SLeftToRight n => 0 < n /\ 0 <= snd rc < n | STopToBottom n => 0 < n /\ 0 <= fst rc < n end) ->
  forall m k, 0 <= k ->
  spec_positions MAX_INDEX F (auto_cell F rc k) (repeat (None, None) m) = map (fun i => auto_cell F rc (k + Z.of_nat i)) (seq 0 m).
Proof. exact auto_positions. Qed.
Print Assumptions C12_auto_closed_form.

(* the grid pass never panics (no negative index is ever cast to usize), items carry the flow-rule cells and the
   explicit spans, and each per-index array holds the first value attached at that index *)
Theorem C12_grid : forall f kids, 0 < count_of f ->
  let ps := positions f counter0 kids in
  exists ds, process_grid f kids =
    Ok ({| column_minimum_width := spec_arr (ivs_of GRID_COL_MIN_WIDTH_INDEX a_cmw ps kids);
           column_stretch := spec_arr (ivs_of GRID_COL_STRETCH_INDEX a_cst ps kids);
           row_minimum_height := spec_arr (ivs_of GRID_ROW_MIN_HEIGHT_INDEX a_rmh ps kids);
           row_stretch := spec_arr (ivs_of GRID_ROW_STRETCH_INDEX a_rst ps kids);
           stretch := [] |},
        map (fun pa => mk_item (Some (fst pa)) (snd pa)) (combine ps kids), ds).
Proof. exact process_grid_spec. Qed.
Print Assumptions C12_grid.

(* FULL statement: row-wise settings at the index of the child's row, column-wise ones at the index of its column *)
Definition by_row (r c : Z) := r.
Definition by_col (r c : Z) := c.
Definition C12_arrays_full : Prop := forall f kids, 0 < count_of f ->
  let ps := positions f counter0 kids in
  exists at_ items ds, process_grid f kids = Ok (at_, items, ds) /\
    column_minimum_width at_ = spec_arr (ivs_of by_col a_cmw ps kids) /\
    column_stretch at_ = spec_arr (ivs_of by_col a_cst ps kids) /\
    row_minimum_height at_ = spec_arr (ivs_of by_row a_rmh ps kids) /\
    row_stretch at_ = spec_arr (ivs_of by_row a_rst ps kids).

(* ... REFUTED on the faithful model: rowMinimumHeight is recorded at the COLUMN index (finding F1) *)
Theorem C12_arrays_refuted : ~ C12_arrays_full.
Proof.
  intros H. destruct (H (LeftToRight 2) f1_kids ltac:(cbn; lia)) as [at_ [items [ds [E [_ [_ [R _]]]]]]].
  destruct f1_witness as [at' [items' [ds' [E' [R' [_ S']]]]]].
  rewrite E' in E. inversion E; subst. unfold by_row in R. rewrite S' in R. rewrite R in R'. discriminate.
Qed.
Print Assumptions C12_arrays_refuted.

(* proved: three of the four arrays always, and rowMinimumHeight whenever every child carrying it sits on the diagonal *)
Theorem C12_arrays_except : forall f kids, 0 < count_of f ->
  let ps := positions f counter0 kids in
  (forall p a, In (p, a) (combine ps kids) -> a_rmh a <> None -> fst p = snd p) ->
  exists at_ items ds, process_grid f kids = Ok (at_, items, ds) /\
    column_minimum_width at_ = spec_arr (ivs_of by_col a_cmw ps kids) /\
    column_stretch at_ = spec_arr (ivs_of by_col a_cst ps kids) /\
    row_minimum_height at_ = spec_arr (ivs_of by_row a_rmh ps kids) /\
    row_stretch at_ = spec_arr (ivs_of by_row a_rst ps kids).
Proof.
  intros f kids Hn ps Hdiag. destruct (process_grid_spec f kids Hn) as [ds E]. fold ps in E.
  eexists _, _, _. split; [exact E|]. cbn [column_minimum_width column_stretch row_minimum_height row_stretch].
  repeat split; try reflexivity.
  apply ivs_of_ext. intros p a Hin Hv. unfold GRID_ROW_MIN_HEIGHT_INDEX, by_row. symmetry. apply (Hdiag p a Hin Hv).
Qed.
Print Assumptions C12_arrays_except.

Theorem C12_three_arrays : forall f kids, 0 < count_of f ->
  let ps := positions f counter0 kids in
  exists at_ items ds, process_grid f kids = Ok (at_, items, ds) /\
    column_minimum_width at_ = spec_arr (ivs_of by_col a_cmw ps kids) /\
    column_stretch at_ = spec_arr (ivs_of by_col a_cst ps kids) /\
    row_stretch at_ = spec_arr (ivs_of by_row a_rst ps kids).
Proof.
  intros f kids Hn ps. destruct (process_grid_spec f kids Hn) as [ds E]. fold ps in E.
  eexists _, _, _. split; [exact E|]. repeat split; reflexivity.
Qed.
Print Assumptions C12_three_arrays.

Theorem C12_form : forall kids,
  let ps := positions (LeftToRight 2) counter0 kids in
  exists ds, process_form kids = (lattrs0, map (fun pa => mk_item (Some (fst pa)) (snd pa)) (combine ps kids), ds).
Proof. exact form_positions. Qed.
Print Assumptions C12_form.

(* box layouts record stretch at the child's position; never panic *)
Theorem C12_box : forall vertical kids,
  exists ds, process_box vertical kids =
    Ok ({| column_minimum_width := []; column_stretch := []; row_minimum_height := []; row_stretch := [];
           stretch := spec_arr (map (fun ia => (Z.of_nat (fst ia), if vertical then a_rst (snd ia) else a_cst (snd ia)))
                                    (combine (seq 0 (List.length kids)) kids)) |},
        map (mk_item None) kids, ds).
Proof. exact process_box_spec. Qed.
Print Assumptions C12_box.

(* conflicting values are diagnosed (one 'mismatched' diagnostic per later, different value), the first value wins *)
Theorem C12_conflict_diagnosed : forall ivs, Forall (fun iv => 0 <= fst iv) ivs ->
  insert_all [] ivs [] = Ok (spec_arr ivs, map DMismatch (spec_conflicts [] ivs)).
Proof. exact insert_all_array. Qed.
Print Assumptions C12_conflict_diagnosed.

Theorem C12_range_diagnosed : forall fld x mx,
  (x < 0 -> parse_index fld (Some x) mx = (None, [DNegative fld])) /\
  (mx < x -> 0 <= x -> parse_index fld (Some x) mx = (None, [DTooLarge fld])) /\
  (0 <= x <= mx -> parse_index fld (Some x) mx = (Some x, [])).
Proof. exact parse_index_diagnosed. Qed.
Print Assumptions C12_range_diagnosed.

(* non-vacuity: the documented examples of the repository's own unit tests *)
Example C12_ex_ltr : map fst (map (fun rc => counter_next (LeftToRight 2) counter0 (fst rc) (snd rc)) [(None, None)]) = [(0, 0)].
Proof. reflexivity. Qed.
Example C12_ex_positions :
  positions (LeftToRight 2) counter0 [att None None None; att None None None; att None None None; att (Some 2) None None;
                                     att None None None; att None (Some 1) None; att (Some 4) (Some 1) None]
  = [(0, 0); (0, 1); (1, 0); (2, 0); (2, 1); (3, 1); (4, 1)].
Proof. vm_compute. reflexivity. Qed.

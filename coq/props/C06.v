(* C06 -- Generated function bodies have sound control flow and define before use.  ONLY property theorems here. *)
From QV Require Import model.Base model.Lang model.Types model.Tir model.CfgCheck model.Builder model.Passes model.TirCase gen.GenE0 proofs.CfgProofs proofs.BuilderInv proofs.BuilderSafe proofs.BuilderSafeSwitch proofs.BuilderCfg proofs.BuilderOpenCount spec.Typing proofs.ReturnType proofs.IrTyped proofs.Unreachable.
Open Scope nat_scope.

(* FULL statement (over ALL programs and class environments): every accepted binding or callback is translated to a
   body that passes the checker.  It is kept visible here; it is NOT yet proved in general (the region-invariant proof
   over the whole builder is the open T2 obligation) -- the check evaluates [cfg_ok] on every generated program instead. *)
Definition C06_builder_ok_full : Prop :=
  forall E cb c, bu_code (build_callback E cb) = Some c -> bu_panic (build_callback E cb) = None ->
    resolve_return_type E c <> None -> cfg_ok c (bu_exempt (build_callback E cb)) = true.

(* the checker is sound for the all-paths statement of the property: every path from the entry stays inside existing
   labels, every block on it ends in a jump or a return, and every local read on it (other than parameters and `let`s
   declared without initialiser) was assigned earlier on that path *)
Theorem C06_checker_sound : forall c exempt, cfg_ok c exempt = true -> CfgSound c exempt.
Proof. exact cfg_ok_sound. Qed.
Print Assumptions C06_checker_sound.

(* a value-returning body returns a value on every reachable return: reachable returns are all void or all non-void *)
Theorem C06_returns : forall c exempt, cfg_ok c exempt = true ->
  forall p q bp bq a a', path (c_blocks c) p -> path (c_blocks c) q ->
    nth_error (c_blocks c) (last_block p) = Some bp -> nth_error (c_blocks c) (last_block q) = Some bq ->
    b_term bp = Some (TmReturn a) -> b_term bq = Some (TmReturn a') -> (a = OVoid <-> a' = OVoid).
Proof. exact cfg_ok_returns. Qed.
Print Assumptions C06_returns.

(* the inputs of finding F2/F14 (join block followed by a declaration; clause body entered only by the switch head)
   and F18 (empty switch) on the model of the REPAIRED code: accepted, and the checker passes *)
Definition f2_prog : callback :=
  CStmt (SBlock [SIf (EMember (EIdent "a") "b") (SBlock [SExpr (ECall (EMember (EIdent "a") "act") [EInt 1])])
                     (Some (SBlock [SExpr (ECall (EMember (EIdent "b") "act") [EInt 2])]));
                 SDecl DLet [("y", None, Some (EInt 2))]]).
Definition f2b_prog : callback := CStmt (SBlock [SDecl DLet [("x", None, Some (ETernary (EMember (EIdent "a") "b") (EInt 1) (EInt 2)))]]).
Definition f14_prog : callback := CStmt (SBlock [SSwitch (EInt 1) [] (Some (0, [SDecl DLet [("y", None, Some (EInt 2))]]))]).
Definition f18_prog : callback := CStmt (SBlock [SSwitch (EInt 1) [] None]).
Example C06_repaired_inputs :
  cfg_case E0 f2_prog = 1%Z /\ cfg_case E0 f2b_prog = 1%Z /\ cfg_case E0 f14_prog = 1%Z /\ cfg_case E0 f18_prog = 1%Z.
Proof. vm_compute. repeat split. Qed.

(* what the translator (model of typedexpr.rs + tir/builder.rs, any callback, any class environment, from ANY builder state, whether the
   walk succeeds, fails or panics) never does: renumber or retype a local, remove a block, touch a block that already has its terminator --
   so a jump, once written, keeps its meaning and a label keeps denoting the same block -- or drop a diagnostic *)
Theorem C06_builder_frame : forall E cb s,
  let s' := snd (walk_callback E cb s) in
  (exists more, bs_locals s' = bs_locals s ++ more) /\
  List.length (bs_blocks s) <= List.length (bs_blocks s') /\
  (forall i b, nth_error (bs_blocks s) i = Some b -> b_term b <> None -> nth_error (bs_blocks s') i = Some b) /\
  (exists more, bs_diags s' = bs_diags s ++ more).
Proof. exact builder_frame. Qed.
Print Assumptions C06_builder_frame.

(* the first clause of the property, for ALL programs: in every function body the model of tir::build produces (any class environment, any
   binding or handler) every `br` / `br_cond` terminator names an existing block, and no `br` names its own block *)
Theorem C06_jump_targets_exist : forall E cb c, wf_callback cb = true -> bu_code (build_callback E cb) = Some c ->
  forall i b t, nth_error (c_blocks c) i = Some b -> b_term b = Some t ->
    match t with TmBr l => l < List.length (c_blocks c) /\ l <> i | TmBrCond _ x y => x < List.length (c_blocks c) /\ y < List.length (c_blocks c) | _ => True end.
Proof. intros E cb c Hwf H. exact (build_jump_targets_exist E cb c Hwf H). Qed.
Print Assumptions C06_jump_targets_exist.

(* the second clause, first half ("control never runs off the end"), for ALL programs: in every function body the model of tir::build
   produces EVERY block -- reachable or not -- has its terminator.  The proof counts open blocks through the whole translator
   (proofs/BuilderOpenCount.v): each construct closes exactly the labels it marked (ternary 3, && || 2, if 2 or 3, switch one per
   case label and per body plus head and exit; break and return close the current block and open a new one), so a walk that reports
   success leaves the count at 1; the current block is open (Good), hence it is the only open one, and finalize_completion_values
   closes it.  What stays per-program (cfg_ok, evaluated by the check): that no REACHABLE block ends in the unreachable marker. *)
Theorem C06_every_block_terminated : forall E cb c, wf_callback cb = true -> bu_code (build_callback E cb) = Some c ->
  forall i b, nth_error (c_blocks c) i = Some b -> b_term b <> None.
Proof.
  intros E cb c Hwf H i b Hb. pose proof (build_every_block_terminated E cb c Hwf H) as X. unfold closed_all in X.
  rewrite Forall_forall in X. apply X. eapply nth_error_In. exact Hb.
Qed.
Print Assumptions C06_every_block_terminated.

(* ... and before the final pass: a walk that reports success leaves every block but the current one terminated *)
Theorem C06_walk_leaves_one_open_block : forall E cb env s, wf_callback cb = true -> walk_callback E cb bstate0 = (V (true, env), s) ->
  forall i b, i < List.length (bs_blocks s) - 1 -> nth_error (bs_blocks s) i = Some b -> b_term b <> None.
Proof. exact walk_leaves_one_open. Qed.
Print Assumptions C06_walk_leaves_one_open_block.

(* the third clause at the level of the return statements, for EVERY body (any code, reachable or not): when the body is given a return type
   (resolve_return_type of tir/core.rs -- a body without one is rejected with "cannot deduce return type"), every `return` of the body carries a
   value assignable to that type.  So a value-returning body contains no bare `return`, and a void body returns no value.  Together with
   C06_every_block_terminated: every block of an accepted value body ends in a jump, a typed return, or the unreachable marker. *)
Theorem C06_every_return_fits_the_return_type : forall E c d t, resolve_return_type E c = Some d -> concrete d = Some t ->
  Forall (fun a => spec_assignable E t (operand_tdesc a) = true) (return_operands c).
Proof. exact return_type_sound. Qed.
Print Assumptions C06_every_return_fits_the_return_type.

Theorem C06_value_body_has_no_bare_return : forall E c d t, resolve_return_type E c = Some d -> concrete d = Some t -> t <> T_VOID ->
  forall b, In b (c_blocks c) -> b_term b <> Some (TmReturn OVoid).
Proof. exact value_body_has_no_bare_return. Qed.
Print Assumptions C06_value_body_has_no_bare_return.

Example C06_return_type_examples :
  let blk t := {| b_stmts := []; b_compl := None; b_term := Some t |} in
  let E := {| ce_classes := []; ce_enums := []; ce_objects := []; ce_this := None |} in
  let code bl := {| c_blocks := bl; c_locals := [T_INT]; c_nparams := 0; c_sdeps := []; c_nobs := 0 |} in
  resolve_return_type E (code [blk (TmReturn (OLocal 0 T_INT)); blk (TmReturn (OConst (CInt 3)))]) = Some (DConcrete T_INT) /\
  resolve_return_type E (code [blk (TmReturn (OLocal 0 T_INT)); blk (TmReturn OVoid)]) = None /\
  resolve_return_type E (code [blk (TmBr 1); blk (TmReturn OVoid)]) = Some (DConcrete T_VOID).
Proof. vm_compute. repeat split; reflexivity. Qed.

(* the second clause, second half ("control never runs into the unreachable marker"), for ALL programs: in the code tir::build returns, a block that ends in
   the unreachable marker is not the entry block and is the target of no jump of any block -- so no path from the entry ends in it.  The translator itself
   never writes the marker (part of the invariant of proofs/IrTyped.v); the final pass writes it only to blocks no conditional jump targets, and every
   unconditional jump into such a block is itself replaced by a return or a marker (invariant of the work-list loop, proofs/Unreachable.v). *)
Theorem C06_unreachable_marker_is_isolated : forall E cb c, bu_code (build_callback E cb) = Some c ->
  forall i b, nth_error (c_blocks c) i = Some b -> b_term b = Some TmUnreachable ->
    i <> 0 /\ forall j bj, nth_error (c_blocks c) j = Some bj -> ~ In i (succs bj).
Proof.
  intros E cb c H. unfold build_callback, finish in H.
  pose proof (walk_writes_no_unreachable E cb) as Hno.
  destruct (walk_callback E cb bstate0) as [[[ok env]| |x] s]; try discriminate H. destruct ok; [|discriminate H]. cbn [snd] in Hno.
  destruct (finalize_completion_values (bs_blocks s) (List.length (bs_blocks s) - 1)) as [bl|msg|site|] eqn:Ef; try discriminate H.
  cbn in H. inversion H; subst. cbn [c_blocks]. exact (finalize_unreachable_isolated _ _ _ Ef Hno).
Qed.
Print Assumptions C06_unreachable_marker_is_isolated.

Theorem C06_no_path_ends_in_the_unreachable_marker : forall E cb c, bu_code (build_callback E cb) = Some c ->
  forall p b, path (c_blocks c) p -> nth_error (c_blocks c) (last_block p) = Some b -> b_term b <> Some TmUnreachable.
Proof.
  intros E cb c H p b Hp Hb Hu. destruct (C06_unreachable_marker_is_isolated E cb c H _ _ Hb Hu) as [H0 Hpred].
  inversion Hp as [Hq|q i bi s Hq Hi Hs Heq].
  - rewrite <- Hq in H0. apply H0. reflexivity.
  - rewrite <- Heq in Hpred. unfold last_block in Hpred. replace (q ++ [i; s]) with ((q ++ [i]) ++ [s]) in Hpred by (rewrite <- app_assoc; reflexivity).
    rewrite last_last in Hpred. exact (Hpred i bi Hi Hs).
Qed.
Print Assumptions C06_no_path_ends_in_the_unreachable_marker.

(* non-vacuity of the checker: it rejects a body whose reachable block ends in the unreachable marker, one that reads
   an unassigned temporary, and one that jumps out of range *)
Example C06_checker_rejects :
  cfg_ok {| c_blocks := [{| b_stmts := []; b_compl := None; b_term := Some (TmBr 1) |};
                         {| b_stmts := [TExec (RCopy OVoid)]; b_compl := None; b_term := Some TmUnreachable |}];
            c_locals := []; c_nparams := 0; c_sdeps := []; c_nobs := 0 |} [] = false /\
  cfg_ok {| c_blocks := [{| b_stmts := []; b_compl := None; b_term := Some (TmBrCond (OConst (CBool true)) 1 2) |};
                         {| b_stmts := [TAssign 0 (RCopy (OConst (CInt 1)))]; b_compl := None; b_term := Some (TmBr 2) |};
                         {| b_stmts := []; b_compl := None; b_term := Some (TmReturn (OLocal 0 T_INT)) |}];
            c_locals := [T_INT]; c_nparams := 0; c_sdeps := []; c_nobs := 0 |} [] = false /\
  cfg_ok {| c_blocks := [{| b_stmts := []; b_compl := None; b_term := Some (TmBr 7) |}];
            c_locals := []; c_nparams := 0; c_sdeps := []; c_nobs := 0 |} [] = false.
Proof. vm_compute. repeat split. Qed.

From Coq Require Import Permutation.
From QV Require Import model.Base gen.GenUigen model.Uigen proofs.UigenProofs props.C08.
Open Scope string_scope.
Check (C08_order_irrelevant : forall m o o', same_object o o' -> distinct_names o ->
  r_form (run m o) = r_form (run m o') /\ r_attached (run m o) = r_attached (run m o') /\
  r_bindings (run m o) = r_bindings (run m o') /\ r_callbacks (run m o) = r_callbacks (run m o') /\
  r_header (run m o) = r_header (run m o') /\ Permutation (r_diags (run m o)) (r_diags (run m o'))).
Check (C08_doc_order_irrelevant : forall m d d', Forall2 same_object d d' -> Forall distinct_names d ->
  Forall2 (fun r r' => r_form r = r_form r' /\ r_attached r = r_attached r' /\ r_bindings r = r_bindings r' /\ r_callbacks r = r_callbacks r' /\
                       r_header r = r_header r' /\ Permutation (r_diags r) (r_diags r')) (run_doc m d) (run_doc m d')).
Check (C08_members_order_irrelevant : forall m o ps ps', Forall2 pequiv_d ps ps' ->
  let r := run m (with_props o ps) in let r' := run m (with_props o ps') in
  r_form r = r_form r' /\ r_attached r = r_attached r' /\ r_bindings r = r_bindings r' /\ r_callbacks r = r_callbacks r' /\
  r_header r = r_header r' /\ Permutation (r_diags r) (r_diags r')).
Check (C08_sorted_output_unique : forall (A : Type) (key : A -> string) l l',
  Permutation l l' -> NoDup (map key l) -> sort_by key l = sort_by key l').
Check (C08_history_free : forall m d1 d2, run_doc m (d1 ++ d2)%list = (run_doc m d1 ++ run_doc m d2)%list).

From QV Require Import model.Base model.Names proofs.NamesProofs props.C10.
Check (C10_unique : forall nodes, NoDup (ids_of nodes) ->
  exists names, name_nodes nodes = Ok names /\ List.length names = List.length nodes /\ NoDup names /\
    (forall k c i, nth_error nodes k = Some (c, Some i) -> nth_error names k = Some i) /\
    (forall k c, nth_error nodes k = Some (c, None) -> exists nm n, nth_error names k = Some nm /\ ~ In nm (ids_of nodes) /\
                                                                  nm = concat_number_suffix (variable_name_for_type c) n)).
Check (C10_reference_denotes_exactly_one_object : forall nodes names, NoDup (ids_of nodes) -> name_nodes nodes = Ok names ->
  forall k c i, nth_error nodes k = Some (c, Some i) -> forall k', nth_error names k' = Some i <-> k' = k).
Check (C10_dup_id_rejected : forall nodes, dup_ids [] nodes = [] <-> NoDup (ids_of nodes)).
Check (C10_generate : forall g p reserved,
  exists id g', generate_with_reserved g p reserved = Ok (id, g') /\
    ~ In id reserved /\ ~ In id (used_names g) /\ used_names g' = id :: used_names g /\ exists n, id = concat_number_suffix p n).
Check (C10_suffix_injective : forall p a b, concat_number_suffix p a = concat_number_suffix p b -> a = b).
Check (eq_refl : concat_number_suffix "label" 12 = "label12"%string).
Check (eq_refl : concat_number_suffix "label" 0 = "label"%string).

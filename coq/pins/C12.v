From QV Require Import model.Base gen.GenTables model.Layout spec.LayoutSpec proofs.LayoutProofs props.C12.
Open Scope Z_scope.
Check (C12_flow : forall f, 0 < count_of f -> forall kids,
  positions f counter0 kids = spec_positions MAX_INDEX (to_sflow f) (0, 0) (map (fun a => (a_row a, a_col a)) kids)).
Check (C12_auto_closed_form : forall F rc,
  (match F with SLeftToRight n => 0 < n /\ 0 <= snd rc < n | STopToBottom n => 0 < n /\ 0 <= fst rc < n end) ->
  forall m k, 0 <= k ->
  spec_positions MAX_INDEX F (auto_cell F rc k) (repeat (None, None) m) = map (fun i => auto_cell F rc (k + Z.of_nat i)) (seq 0 m)).
Check (C12_grid : forall f kids, 0 < count_of f ->
  let ps := positions f counter0 kids in
  exists ds, process_grid f kids =
    Ok ({| column_minimum_width := spec_arr (ivs_of GRID_COL_MIN_WIDTH_INDEX a_cmw ps kids);
           column_stretch := spec_arr (ivs_of GRID_COL_STRETCH_INDEX a_cst ps kids);
           row_minimum_height := spec_arr (ivs_of GRID_ROW_MIN_HEIGHT_INDEX a_rmh ps kids);
           row_stretch := spec_arr (ivs_of GRID_ROW_STRETCH_INDEX a_rst ps kids);
           stretch := [] |},
        map (fun pa => mk_item (Some (fst pa)) (snd pa)) (combine ps kids), ds)).
Check (C12_arrays_refuted : ~ (forall f kids, 0 < count_of f ->
  let ps := positions f counter0 kids in
  exists at_ items ds, process_grid f kids = Ok (at_, items, ds) /\
    column_minimum_width at_ = spec_arr (ivs_of (fun r c => c) a_cmw ps kids) /\
    column_stretch at_ = spec_arr (ivs_of (fun r c => c) a_cst ps kids) /\
    row_minimum_height at_ = spec_arr (ivs_of (fun r c => r) a_rmh ps kids) /\
    row_stretch at_ = spec_arr (ivs_of (fun r c => r) a_rst ps kids))).
Check (C12_arrays_except : forall f kids, 0 < count_of f ->
  let ps := positions f counter0 kids in
  (forall p a, In (p, a) (combine ps kids) -> a_rmh a <> None -> fst p = snd p) ->
  exists at_ items ds, process_grid f kids = Ok (at_, items, ds) /\
    column_minimum_width at_ = spec_arr (ivs_of (fun r c => c) a_cmw ps kids) /\
    column_stretch at_ = spec_arr (ivs_of (fun r c => c) a_cst ps kids) /\
    row_minimum_height at_ = spec_arr (ivs_of (fun r c => r) a_rmh ps kids) /\
    row_stretch at_ = spec_arr (ivs_of (fun r c => r) a_rst ps kids)).
Check (C12_three_arrays : forall f kids, 0 < count_of f ->
  let ps := positions f counter0 kids in
  exists at_ items ds, process_grid f kids = Ok (at_, items, ds) /\
    column_minimum_width at_ = spec_arr (ivs_of (fun r c => c) a_cmw ps kids) /\
    column_stretch at_ = spec_arr (ivs_of (fun r c => c) a_cst ps kids) /\
    row_stretch at_ = spec_arr (ivs_of (fun r c => r) a_rst ps kids)).
Check (C12_form : forall kids,
  let ps := positions (LeftToRight 2) counter0 kids in
  exists ds, process_form kids = (lattrs0, map (fun pa => mk_item (Some (fst pa)) (snd pa)) (combine ps kids), ds)).
Check (C12_box : forall vertical kids,
  exists ds, process_box vertical kids =
    Ok ({| column_minimum_width := []; column_stretch := []; row_minimum_height := []; row_stretch := [];
           stretch := spec_arr (map (fun ia => (Z.of_nat (fst ia), if vertical then a_rst (snd ia) else a_cst (snd ia)))
                                    (combine (seq 0 (List.length kids)) kids)) |},
        map (mk_item None) kids, ds)).
Check (C12_conflict_diagnosed : forall ivs, Forall (fun iv => 0 <= fst iv) ivs ->
  insert_all [] ivs [] = Ok (spec_arr ivs, map DMismatch (spec_conflicts [] ivs))).
Check (C12_range_diagnosed : forall fld x mx,
  (x < 0 -> parse_index fld (Some x) mx = (None, [DNegative fld])) /\
  (mx < x -> 0 <= x -> parse_index fld (Some x) mx = (None, [DTooLarge fld])) /\
  (0 <= x <= mx -> parse_index fld (Some x) mx = (Some x, []))).
(* specification pinned by evaluation *)
Check (eq_refl : spec_positions 65535 (SLeftToRight 3) (0,0) [(None,None);(None,None);(None,None);(None,None);(Some 2,None);(None,None)]
                 = [(0,0);(0,1);(0,2);(1,0);(2,0);(2,1)]).
Check (eq_refl : spec_positions 65535 (STopToBottom 2) (0,0) [(None,None);(None,None);(None,None);(None,Some 3);(Some 1,None)]
                 = [(0,0);(1,0);(0,1);(0,3);(1,3)]).
Check (eq_refl : spec_arr [(1, Some 7); (0, None); (1, Some 9); (3, Some 4)] = [None; Some 7; None; Some 4]).

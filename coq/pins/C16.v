From QV Require Import model.Base model.Names model.Lang model.Types model.Tir model.Passes model.Header proofs.HeaderProofs proofs.PropdepProofs props.C16.
Open Scope nat_scope.
Check (C16_suffixes_distinct : forall ps l, function_suffixes ps = Ok l -> NoDup l).
Check (C16_suffixes_total : forall ps, exists l, function_suffixes ps = Ok l /\ length l = length ps).
Check (C16_function_names_distinct : forall l, NoDup l -> NoDup (flat_map function_names l)).
Check (C16_indices_distinct : forall n, NoDup (binding_indices n) /\ length (binding_indices n) = n /\ (forall i, In i (binding_indices n) <-> i < n)).
Check (C16_guard_covers : forall n i, i < n -> guard_word i < guard_words n /\ guard_bit i < 32).
Check (C16_guard_nonempty : forall n, 0 < n -> 0 < guard_words n).
Check (C16_guard_bits_distinct : forall i j, guard_word i = guard_word j -> guard_bit i = guard_bit j -> i = j).
Check (C16_observer_slots : forall E c c' ds, analyze_code_property_dependency E c = Ok (c', ds) ->
  Forall (fun b => no_observe (b_stmts b)) (c_blocks c) ->
  flat_map (fun b => observe_handles (b_stmts b)) (c_blocks c') = seq (c_nobs c) (c_nobs c' - c_nobs c)).
Check (C16_literal_denotes_source : forall s, Forall valid_scalar s -> read_literal (spell s) = Some s).
Check (C16_rust_debug_refuted : read_literal (rust_debug [1%N]) = None /\ read_literal (rust_debug [0%N; 49%N]) = Some [1%N] /\ read_literal (rust_debug [127%N]) = None).
Check (eq_refl : read_literal [92; 110; 97; 92; 49; 48; 49; 92; 117; 48; 48; 101; 57]%N = Some [10; 97; 65; 233]%N).
Check (eq_refl : read_literal [92; 117; 48; 48; 48; 49]%N = None).
Check (eq_refl : read_literal [92; 113]%N = None).
Check (eq_refl : read_literal [34]%N = None).

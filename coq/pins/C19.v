(* Pinned statements of C19: compiled on every run, so that a weakened theorem in props/C19.v is noticed. *)
From QV Require Import model.Base spec.SvgColors model.Color spec.ColorSpec proofs.ColorProofs props.C19.
Open Scope N_scope.
Check (C19_color_refines : forall s : string, model_color s = spec_color s).
Check (C19_hex : forall hex : string,
  parse_hex_result hex = match spec_digits hex with Some ds => qt_hex ds | None => None end).
Check (C19_table_agrees : forall k : string, lookup_named k = assoc k svg_spec).
Check (C19_case : forall s t : string, strip_hash s = None -> strip_hash t = None ->
  to_ascii_lowercase s = to_ascii_lowercase t -> model_color s = model_color t).
Check (C19_hex_case : forall hex : string, all_hex hex = true ->
  parse_hex_result (to_ascii_lowercase hex) = parse_hex_result hex /\
  parse_hex_result (to_ascii_uppercase hex) = parse_hex_result hex).
Check (C19_alpha : forall (s : string) (a r g b : N), model_color s = Some (a, r, g, b) -> a <> 255 ->
  (exists hex, strip_hash s = Some hex /\ (String.length hex = 4%nat \/ String.length hex = 8%nat))
  \/ to_ascii_lowercase s = "transparent"%string).
(* the specification itself is pinned too: a changed spec_color / qt_hex must be a visible diff here *)
Check (eq_refl : qt_hex [1;2;3] = Some (255, 17, 34, 51)).
Check (eq_refl : qt_hex [8;1;2;3] = Some (136, 17, 34, 51)).
Check (eq_refl : qt_hex [1;2;3;4;5;6] = Some (255, 18, 52, 86)).
Check (eq_refl : qt_hex [10;11;1;2;3;4;5;6] = Some (171, 18, 52, 86)).
Check (eq_refl : spec_color "transparent" = Some (0, 0, 0, 0)).
Check (eq_refl : List.length svg_spec = 147%nat).

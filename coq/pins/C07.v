From QV Require Import model.Base model.Lang model.Types model.Tir model.Builder model.Passes model.TirCase gen.GenE0 proofs.InterpProofs proofs.BuilderSafe proofs.BuilderSafeStmt proofs.BuilderSafeSwitch proofs.BuilderCfg props.C07.
Check (C07_interp_total : forall E c, evaluate_code E c <> OutOfFuel).
Check (C07_repaired_inputs).
Check (C07_expressions_never_panic : forall E env L e s,
  (forall x l k, lenv_get env x = Some (l, k) -> l < L)%nat -> Good s -> (L <= List.length (bs_locals s))%nat ->
  match walk_expr E env e s with (P _, _) => False | (_, s') => RegB (nb s) s s' end).
Check (C07_initial_state_good : Good bstate0).
Check (C07_statements_never_panic : forall E s, wfsw s = true -> forall env brk st,
  Good st -> envwf (nloc st) env -> bound_of brk <= nb st ->
  match walk_stmt E env brk s st with
  | (P _, _) => False
  | (V (ok, env'), st') => RegB (nb st) st st' /\ envwf (nloc st') env'
  | (F, st') => RegB (nb st) st st'
  end).
Check (C07_translator_never_panics : forall E cb, wf_callback cb = true ->
  match walk_callback E cb bstate0 with (P _, _) => False | _ => True end).
Check (eq_refl : wfsw (SSwitch (EInt 1) [] (Some (1%nat, []))) = false).
Check (C07_build_never_panics : forall E cb, wf_callback cb = true -> bu_panic (build_callback E cb) = None).

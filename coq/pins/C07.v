From QV Require Import model.Base model.Lang model.Types model.Tir model.Builder model.Passes model.TirCase gen.GenE0 proofs.InterpProofs props.C07.
Check (C07_interp_total : forall E c, evaluate_code E c <> OutOfFuel).
Check (C07_repaired_inputs).

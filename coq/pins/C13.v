From QV Require Import model.Base model.Lang model.Sem proofs.SemProofs proofs.ScopeProofs proofs.FrameProofs model.Overload proofs.OverloadProofs model.Types spec.Typing model.Callback proofs.CallbackProofs props.C13.
Open Scope Z_scope.
Check (C13_partial_effects_in_source_order : forall names this st o1 i1 o2 i2 n1 n2 st',
  object_named names o1 = Some i1 -> object_named names o2 = Some i2 ->
  run_handler names this st (CStmt (SBlock [SExpr (EAssign (EMember (EIdent o1) "i") (EInt n1)); SExpr (EAssign (EMember (EIdent o2) "i") (EInt n2))])) [] = Def st' ->
  exists w1 w2, trace st' = ESet i2 "i" w2 :: ESet i1 "i" w1 :: trace st).
Check (C13_partial_parameters_are_leading_arguments : forall names this st x ty a rest,
  run_handler names this st (CFunc {| f_named := false; f_return_ty := false; f_params := [(x, ty)]; f_body := FStmt (SExpr (EAssign (EMember EThis "i") (EIdent x))) |}) (VI a :: rest)
  = write_prop_res st this a).
Check (C13_partial_return_stops : forall names this st s, run_handler names this st (CStmt (SBlock [SReturn None; s])) [] = Def st).
Check (C13_partial_parameters_general : forall ps args k,
  NoDup (map fst ps) -> (length ps <= length args)%nat -> (k < length ps)%nat ->
  lookup (handler_env ps args) (fst (nth k ps (""%string, None))) = Some (Some (nth k args VVoid))).
Check (eq_refl : handler_env [("x"%string, None); ("y"%string, None)] [VI 1; VI 2; VI 3] = [("y"%string, Some (VI 2)); ("x"%string, Some (VI 1))]).
Check (C13_partial_trace_only_grows : forall names this s st e o st' e',
  exec names this st e s = Def (o, st', e') -> exists t, trace st' = t ++ trace st).
Check (C13_partial_block_effects_in_source_order : forall names this s rest st e o st' e',
  exec names this st e (SBlock (s :: rest)) = Def (o, st', e') ->
  exists o1 st1 e1 t1 t2, exec names this st e s = Def (o1, st1, e1) /\ trace st1 = t1 ++ trace st /\ trace st' = t2 ++ t1 ++ trace st).
Check (C13_connected_signal_is_the_declared_one : forall ms args, callback_verdict ms = VConnect args ->
  exists m, In m ms /\ m_args m = args /\ m_kind m = 0%N /\
    forall x, In x ms -> m_kind x = 0%N /\ m_ret x = m_ret m /\ prefixb (m_args x) args = true).
Check (C13_connected_variant_carries_most_arguments : forall ms m, uniquify ms = Some m -> forall x, In x ms -> (arity x <= arity m)%nat).
Check (C13_ambiguous_overloads_are_rejected : forall ms x y, In x ms -> In y ms -> ~ comparable x y -> uniquify ms = None).
Check (C13_default_argument_variants_collapse : forall ms, ms <> [] -> (forall x y, In x ms -> In y ms -> comparable x y) -> uniquify ms <> None).
Check (eq_refl : comparable = fun x y => extends x y = true \/ extends y x = true).
Check (eq_refl : extends = fun known m => (N.eqb (m_kind known) (m_kind m) && String.eqb (m_ret known) (m_ret m) && prefixb (m_args known) (m_args m))%bool).
Check (eq_refl : uniquify [ {| m_kind := 0; m_ret := "void"; m_args := [] |}; {| m_kind := 0; m_ret := "void"; m_args := ["int"] |}; {| m_kind := 0; m_ret := "void"; m_args := ["QString"] |} ]%string = None).
Check (eq_refl : callback_verdict [ {| m_kind := 0; m_ret := "void"; m_args := ["int"] |}; {| m_kind := 0; m_ret := "void"; m_args := [] |}; {| m_kind := 0; m_ret := "void"; m_args := ["int"; "bool"] |} ]%string = VConnect ["int"; "bool"]%string).
Check (C13_handler_name_denotes_one_signal : forall name s, callback_to_signal_name name = Some s <->
  exists c r, name = String "o" (String "n" (String c r)) /\ is_ascii_upper c = true /\ s = String (to_lower c) r).
Check (C13_handler_names_are_injective : forall a b s, callback_to_signal_name a = Some s -> callback_to_signal_name b = Some s -> a = b).
Check (C13_every_small_signal_has_its_handler : forall c r, is_ascii_lower c = true -> callback_to_signal_name (handler_name (String c r)) = Some (String c r)).
Check (C13_parameters_accepted_iff_leading_arguments_fit : forall E args params, verify_params E args params = POk <->
  (List.length params <= List.length args)%nat /\
  forall k, (k < List.length params)%nat -> spec_assignable E (nth k params T_VOID) (DConcrete (nth k args T_VOID)) = true).
Check (C13_too_many_parameters_are_refused : forall E args params, verify_params E args params = PTooMany <-> (List.length args < List.length params)%nat).
Check (eq_refl : callback_to_signal_name "onClicked" = Some "clicked"%string).
Check (eq_refl : callback_to_signal_name "onclicked" = None).
Check (eq_refl : is_ascii_upper = fun a => (Nat.leb 65 (nat_of_ascii a) && Nat.leb (nat_of_ascii a) 90)%bool).
Check (eq_refl : to_lower = fun a => if is_ascii_upper a then ascii_of_nat (nat_of_ascii a + 32) else a).

From QV Require Import model.Base model.Lang model.Sem proofs.SemProofs proofs.ScopeProofs proofs.FrameProofs props.C13.
Open Scope Z_scope.
Check (C13_partial_effects_in_source_order : forall names this st o1 i1 o2 i2 n1 n2 st',
  object_named names o1 = Some i1 -> object_named names o2 = Some i2 ->
  run_handler names this st (CStmt (SBlock [SExpr (EAssign (EMember (EIdent o1) "i") (EInt n1)); SExpr (EAssign (EMember (EIdent o2) "i") (EInt n2))])) [] = Def st' ->
  exists w1 w2, trace st' = ESet i2 "i" w2 :: ESet i1 "i" w1 :: trace st).
Check (C13_partial_parameters_are_leading_arguments : forall names this st x ty a rest,
  run_handler names this st (CFunc {| f_named := false; f_return_ty := false; f_params := [(x, ty)]; f_body := FStmt (SExpr (EAssign (EMember EThis "i") (EIdent x))) |}) (VI a :: rest)
  = write_prop_res st this a).
Check (C13_partial_return_stops : forall names this st s, run_handler names this st (CStmt (SBlock [SReturn None; s])) [] = Def st).
Check (C13_partial_parameters_general : forall ps args k,
  NoDup (map fst ps) -> (length ps <= length args)%nat -> (k < length ps)%nat ->
  lookup (handler_env ps args) (fst (nth k ps (""%string, None))) = Some (Some (nth k args VVoid))).
Check (eq_refl : handler_env [("x"%string, None); ("y"%string, None)] [VI 1; VI 2; VI 3] = [("y"%string, Some (VI 2)); ("x"%string, Some (VI 1))]).
Check (C13_partial_trace_only_grows : forall names this s st e o st' e',
  exec names this st e s = Def (o, st', e') -> exists t, trace st' = t ++ trace st).
Check (C13_partial_block_effects_in_source_order : forall names this s rest st e o st' e',
  exec names this st e (SBlock (s :: rest)) = Def (o, st', e') ->
  exists o1 st1 e1 t1 t2, exec names this st e s = Def (o1, st1, e1) /\ trace st1 = t1 ++ trace st /\ trace st' = t2 ++ t1 ++ trace st).

From QV Require Import model.Base model.FsModel proofs.FsProofs props.C15.
Open Scope string_scope.
Check (C15_confined : forall lc d srcs src tn, sources_accepted (Some d) srcs = true -> In src srcs ->
  below d (fst (out_paths lc (Some d) src tn)) /\ below d (snd (out_paths lc (Some d) src tn))).
Check (C15_unsafe_source_refused : forall d srcs src,
  In src srcs -> (exists c, In c src /\ (c = ParentDir \/ c = RootDir)) -> sources_accepted (Some d) srcs = false).
Check (C15_names : forall lc dir stem tn,
  out_paths lc None (dir ++ [Normal stem])%list tn = ((dir ++ [Normal (ui_name lc tn)])%list, (dir ++ [Normal (support_name lc tn)])%list)).
Check (C15_rerun_is_silent : forall outs s t, fresh s t -> NoDup (map fst outs) ->
  forall t', fresh (exec_all s (run_ops s t outs)) t' -> run_ops (exec_all s (run_ops s t outs)) t' outs = []).
Check (C15_atomic : forall outs s t n, fresh s t -> NoDup (map fst outs) ->
  forall p d, In (p, d) outs ->
  lookup (files (exec_all s (firstn n (run_ops s t outs)))) p = lookup (files s) p \/ lookup (files (exec_all s (firstn n (run_ops s t outs)))) p = Some d).
Check (C15_only_outputs_touched : forall outs s t n q, fresh s t -> ~ In q (map fst outs) ->
  lookup (files (exec_all s (firstn n (run_ops s t outs)))) q = lookup (files s) q).
Check (eq_refl : with_file_name [Normal "a"; Normal "B.qml"] "b.ui" = [Normal "a"; Normal "b.ui"]).
Check (eq_refl : join [Normal "o"] [RootDir; Normal "x"] = [RootDir; Normal "x"]).
Check (eq_refl : lower "MyType_9.UI" = "mytype_9.ui").

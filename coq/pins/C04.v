From Coq Require Import Permutation.
From QV Require Import model.Base gen.GenUigen model.Uigen proofs.UigenProofs model.Driver proofs.DriverProofs model.FsModel proofs.FsProofs model.DriverFs proofs.DriverFsProofs props.C04.
Open Scope string_scope.
Check (C04_form_is_the_placed_bindings : forall m o, Permutation (r_form (run m o)) (flat_map (fate_form o) (o_props o))).
Check (C04_header_is_the_dynamic_bindings : forall o, Permutation (r_bindings (run Generate o)) (flat_map (fate_header o) (o_props o))).
Check (C04_diagnostics_are_the_binding_diagnostics : forall o,
  Permutation (r_diags (run Generate o)) (flat_map (fate_diags o) (o_props o) ++ attached_diags o)%list).
Check (C04_accepted_no_binding_diag : forall o p, accepted (run Generate o) = true -> In p (o_props o) -> fate_diags o p = []).
Check (C04_scalar_exactly_one : forall o l, fate_diags o (PExpr l) = [] ->
  (fate_form o (PExpr l) = [{| f_name := l_name l; f_members := [] |}] /\ fate_header o (PExpr l) = [])
  \/ (fate_form o (PExpr l) = [] /\ fate_header o (PExpr l) = [{| h_name := l_name l; h_members := [] |}])).
Check (C04_gadget_members_placed : forall o n w r ms,
  (role_of o n = RSerial \/ role_of o n = RValue) -> fate_diags o (PGadget n w r GSupported ms) = [] ->
  fate_form o (PGadget n w r GSupported ms) = [{| f_name := n; f_members := sort_by (fun s => s) (map l_name (filter l_const ms)) |}]
  /\ (forallb l_const ms = true -> fate_header o (PGadget n w r GSupported ms) = [])
  /\ (forallb l_const ms = false -> exists hm, fate_header o (PGadget n w r GSupported ms) = [{| h_name := n; h_members := hm |}]
                                               /\ Permutation hm (map l_name ms))).
Check (C04_never_in_neither : forall o p, carries_value p -> fate_form o p = [] -> fate_header o p = [] -> fate_diags o p <> []).
(* the specification side pinned by evaluation: which role the name lists give *)
Check (eq_refl : role_of {| o_kind := OWidget false false false; o_ctx := CtxOther; o_props := []; o_callbacks := []; o_attached := [] |} "actions" = RSpecialEval).
Check (eq_refl : role_of {| o_kind := OWidget false true false; o_ctx := CtxOther; o_props := []; o_callbacks := []; o_attached := [] |} "model" = RUnvisited).
Check (eq_refl : role_of {| o_kind := OWidget true false false; o_ctx := CtxOther; o_props := []; o_callbacks := []; o_attached := [] |} "model" = RSpecialEval).
Check (eq_refl : role_of {| o_kind := OWidget false false false; o_ctx := CtxOther; o_props := []; o_callbacks := []; o_attached := [] |} "text" = RSerial).
Check (eq_refl : role_of {| o_kind := OLayout true; o_ctx := CtxOther; o_props := []; o_callbacks := []; o_attached := [] |} "columns" = RSpecialEval).
Check (eq_refl : attached_consumed CtxVBox ALayout "row" = false).
Check (eq_refl : attached_consumed CtxGrid ALayout "row" = true).
Check (C04_exit_status_zero_iff_no_source_has_errors : forall (out : Type) (vs : list (verdict out)),
  snd (run_sources out vs) = negb (List.existsb (is_error out) vs)).
Check (C04_an_error_in_any_source_fails_the_command : forall (out : Type) (a b : list (verdict out)), snd (run_sources out (a ++ HasErrors :: b)) = false).
Check (C04_nothing_is_written_from_the_faulty_source_on : forall (out : Type) (a b : list (verdict out)),
  fst (run_sources out (a ++ HasErrors :: b)) = outputs_before_first_error out a).
Check (C04_accepted_sources_are_all_written : forall (out : Type) (os : list out), run_sources out (List.map Translated os) = (os, true)).
Check (eq_refl : run_sources nat [Translated 1; HasErrors; Translated 2] = ([1], false)).
Check (eq_refl : is_error nat = fun v => match v with HasErrors => true | _ => false end).
Check (C04_errors_write_nothing_on_disk : forall s t a b n q, fresh s t ->
  ~ In q (map fst (outs_of (outputs_before_first_error _ a))) ->
  lookup (files (exec_all s (firstn n (command_ops s t (a ++ HasErrors :: b))))) q = lookup (files s) q).
Check (eq_refl : command_ops = fun s t vs => run_ops s t (outs_of (fst (run_sources _ vs)))).
Check (eq_refl : outs_of = fun w => concat w).

From QV Require Import model.Base model.Lang model.Types model.Tir model.Ceval model.Builder spec.Typing proofs.TypingProofs proofs.BuilderInv proofs.BuilderSafe proofs.TypingSound proofs.IrTyped model.Passes model.Callback proofs.CallbackProofs props.C05.
Check (C05_binary : forall E op lt rt s,
  match op with BoLAnd | BoLOr => False | _ => True end ->
  succeeds (binary_check E op lt rt) s = spec_binary E (opclass_of op) lt rt).
Check (C05_binary_is_the_check).
Check (C05_unary : forall op t s, succeeds (unary_check op t) s = spec_unary (uclass_of op) t).
Check (C05_unary_is_the_check).
Check (C05_assignable : forall E t a, is_assignable E t a = spec_assignable E t a).
Check (C05_cast : forall E t a, negb (match pick_type_cast E t a with CInvalid => true | _ => false end) = spec_castable E t a).
Check (C05_const_dyn_agree).
Check (C05_common_type).
(* the specification tables, pinned by evaluation on the documented corner cases *)
Check (eq_refl : spec_binary {| ce_classes := []; ce_enums := []; ce_objects := []; ce_this := None |} (OArith true) (DConcrete T_INT) (DConcrete T_DOUBLE) = None).
Check (eq_refl : spec_binary {| ce_classes := []; ce_enums := []; ce_objects := []; ce_this := None |} (OArith true) (DConcrete T_STRING) DConstString = Some T_STRING).
Check (eq_refl : spec_binary {| ce_classes := []; ce_enums := []; ce_objects := []; ce_this := None |} (OArith false) (DConcrete T_STRING) DConstString = None).
Check (eq_refl : spec_binary {| ce_classes := []; ce_enums := []; ce_objects := []; ce_this := None |} OComparison (DConcrete T_UINT) DConstInteger = Some T_BOOL).
Check (eq_refl : spec_binary {| ce_classes := []; ce_enums := []; ce_objects := []; ce_this := None |} OBitwise (DConcrete T_DOUBLE) (DConcrete T_DOUBLE) = None).
Check (eq_refl : spec_assignable {| ce_classes := []; ce_enums := []; ce_objects := []; ce_this := None |} T_DOUBLE DConstInteger = false).
Check (eq_refl : spec_castable {| ce_classes := []; ce_enums := []; ce_objects := []; ce_this := None |} T_DOUBLE DConstInteger = true).
Check (C05_accepted_expressions_are_typed : forall E env s0, envwf (List.length (bs_locals s0)) env ->
  forall e, frag E env e = true -> forall s a s', Rel s0 s -> walk_rvalue E env e s = (V a, s') ->
  Typed E (ctx_of env s0) e (operand_tdesc a)).
Check (C05_ill_typed_expressions_are_rejected : forall E env s0 e,
  envwf (List.length (bs_locals s0)) env -> frag E env e = true ->
  (forall d, ~ Typed E (ctx_of env s0) e d) -> forall a s', walk_rvalue E env e s0 <> (V a, s')).
Check (C05_typed_example).
(* the typing relation and the fragment are pinned by evaluation: a local identifier is in the fragment, a member access is not *)
Check (eq_refl : frag {| ce_classes := []; ce_enums := []; ce_objects := []; ce_this := None |} [("x"%string, (0, DLet))] (EUnary UMinus (EIdent "x")) = true).
Check (eq_refl : frag {| ce_classes := []; ce_enums := []; ce_objects := []; ce_this := None |} [("x"%string, (0, DLet))] (EMember (EIdent "x") "p") = true).
Check (eq_refl : frag {| ce_classes := []; ce_enums := []; ce_objects := []; ce_this := None |} [("x"%string, (0, DLet))] (ECall (EIdent "x") []) = false).
Check (eq_refl : frag {| ce_classes := []; ce_enums := []; ce_objects := []; ce_this := None |} [("x"%string, (0, DLet))] (EAssign (EIdent "x") (EArray [EInt 1])) = true).
Check (eq_refl : frag {| ce_classes := []; ce_enums := []; ce_objects := []; ce_this := None |} [] EFunction = false).
Check (C05_typed_example_calls).
Check (TyAssignLocal : forall E G x t r dr, G x = Some (t, DLet) -> Typed E G r dr -> spec_assignable E t (ecsd dr) = true -> Typed E G (EAssign (EIdent x) r) (DConcrete T_VOID)).
Check (TyMethodCall : forall E G o m args dobj ty cls dc ms das mi d, Typed E G o dobj -> concrete dobj = Some ty -> class_of_type ty = Some cls -> get_property E cls m = None ->
    get_methods E cls m = Some (dc, ms) -> Forall2 (Typed E G) args das ->
    find (fun mi => Nat.eqb (List.length (mi_args mi)) (List.length das) && spec_args E (mi_args mi) (map ecsd das)) ms = Some mi ->
    concrete d = Some (mi_ret mi) -> Typed E G (ECall (EMember o m) args) d).
Check (TyArray : forall E G es ds c d, es <> [] -> Forall2 (Typed E G) es ds -> spec_array_elem E (map ecsd ds) = Some c -> concrete d = Some (TList c) -> Typed E G (EArray es) d).
Check (eq_refl : frag {| ce_classes := []; ce_enums := []; ce_objects := []; ce_this := None |} [] (EIdent "Math") = false).
Check (C05_typed_example_names).
Check (TyThisProp : forall E G x tc tn pr d, G x = None -> ctx_get_ref E x = Some (RfObjectProperty tc tn pr) -> pi_readable (pr_info pr) = true ->
    concrete d = Some (pi_type (pr_info pr)) -> Typed E G (EIdent x) d).
Check (TyEnumVariant : forall E G o name ty e, TypePath E G o ty -> type_get_ref E ty name = Some (RfEnumVariant e) -> Typed E G (EMember o name) (DConcrete (TJust (NEnum e)))).
Check (C05_typed_example_members).
Check (TyMember : forall E G o p dobj ty cls dc pi d, Typed E G o dobj -> concrete dobj = Some ty -> class_of_type ty = Some cls -> get_property E cls p = Some (dc, pi) ->
    pi_readable pi = true -> concrete d = Some (pi_type pi) -> Typed E G (EMember o p) d).
Check (TyAs : forall E G v path dv t d, Typed E G v dv -> annotated_type E path = Some t -> spec_castable E t (ecsd dv) = true -> concrete d = Some t -> Typed E G (EAs v path) d).
Check (TySubscript : forall E G o ix dobj di e d, Typed E G o dobj -> Typed E G ix di -> spec_subscript dobj di = Some e -> concrete d = Some e -> Typed E G (ESubscript o ix) d).
Check (TyObject : forall E G x c, G x = None -> assoc x (ce_objects E) = Some c -> Typed E G (EIdent x) (DConcrete (TPointer (NClass c)))).
Check (TyLogical : forall E G op b l r, bop_of op = Some b -> binop_class b = KLogical -> Typed E G l (DConcrete T_BOOL) -> Typed E G r (DConcrete T_BOOL) ->
    Typed E G (EBinary op l r) (DConcrete T_BOOL)).
Check (TyTernary : forall E G c a b da db t d, Typed E G c (DConcrete T_BOOL) -> Typed E G a da -> Typed E G b db -> common_concrete E da db = Some t ->
    concrete d = Some t -> Typed E G (ETernary c a b) d).
Check (TyBinary : forall E G op b l r dl dr t d, bop_of op = Some b -> binop_class b <> KLogical -> Typed E G l dl -> Typed E G r dr ->
    spec_binary E (opclass_of b) dl dr = Some t -> concrete d = Some t -> Typed E G (EBinary op l r) d).
Check (TyUnary : forall E G op u a da t d, uop_of op = Some u -> Typed E G a da -> spec_unary (uclass_of u) da = Some t -> concrete d = Some t -> Typed E G (EUnary op a) d).
Check (C05_subscript : forall obj ix s, succeeds (check_object_subscript_type obj ix) s = spec_subscript (operand_tdesc obj) (operand_tdesc ix)).
Check (C05_subscript_is_the_check).
Check (eq_refl : spec_subscript (DConcrete (TList T_INT)) (DConcrete T_DOUBLE) = None).
Check (eq_refl : spec_subscript (DConcrete (TList T_INT)) DConstInteger = Some T_INT).
Check (eq_refl : spec_subscript (DConcrete T_STRING) DConstInteger = None).
Check (C05_generated_code_is_typed : forall E cb c, bu_code (build_callback E cb) = Some c -> code_typed E c).
Check (C05_code_typed_refuses).
Check (eq_refl : code_typed = fun E c => Forall (block_ok_final E (c_locals c)) (c_blocks c)).
Check (eq_refl : block_ok_final = fun E locals b => Forall (stmt_ok E locals) (b_stmts b) /\ term_ok_final (b_term b)).
Check (eq_refl : stmt_ok = fun E locals st => match st with TAssign l rv => exists ty, nth_error locals l = Some ty /\ rv_ok E rv ty | TExec rv => rv_ok E rv T_VOID | TObserve _ _ _ => True end).
Check (eq_refl : term_ok_final = fun t => match t with Some (TmBrCond c _ _) => concrete (operand_tdesc c) = Some T_BOOL | _ => True end).
Check (eq_refl : (fun E a b ty => rv_ok E (RBinary BoMul a b) ty) = fun E a b ty => spec_binary E (OArith false) (operand_tdesc a) (operand_tdesc b) = Some ty).
Check (eq_refl : (fun E a ty => rv_ok E (RCopy a) ty) = fun E a ty => spec_assignable E ty (operand_tdesc a) = true).
Check (C05_callback_parameters_fit_the_signal : forall E args params, verify_params E args params = POk <->
  (List.length params <= List.length args)%nat /\
  forall k, (k < List.length params)%nat -> spec_assignable E (nth k params T_VOID) (DConcrete (nth k args T_VOID)) = true).
Check (eq_refl : verify_params = fun E args params => if Nat.ltb (List.length args) (List.length params) then PTooMany
  else match bad_positions E 0 args params with [] => POk | l => PIncompatible l end).

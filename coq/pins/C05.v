From QV Require Import model.Base model.Lang model.Types model.Tir model.Ceval model.Builder spec.Typing proofs.TypingProofs props.C05.
Check (C05_binary : forall E op lt rt s,
  match op with BoLAnd | BoLOr => False | _ => True end ->
  succeeds (binary_check E op lt rt) s = spec_binary E (opclass_of op) lt rt).
Check (C05_binary_is_the_check).
Check (C05_unary : forall op t s, succeeds (unary_check op t) s = spec_unary (uclass_of op) t).
Check (C05_unary_is_the_check).
Check (C05_assignable : forall E t a, is_assignable E t a = spec_assignable E t a).
Check (C05_cast : forall E t a, negb (match pick_type_cast E t a with CInvalid => true | _ => false end) = spec_castable E t a).
Check (C05_const_dyn_agree).
Check (C05_common_type).
(* the specification tables, pinned by evaluation on the documented corner cases *)
Check (eq_refl : spec_binary {| ce_classes := []; ce_enums := []; ce_objects := []; ce_this := None |} (OArith true) (DConcrete T_INT) (DConcrete T_DOUBLE) = None).
Check (eq_refl : spec_binary {| ce_classes := []; ce_enums := []; ce_objects := []; ce_this := None |} (OArith true) (DConcrete T_STRING) DConstString = Some T_STRING).
Check (eq_refl : spec_binary {| ce_classes := []; ce_enums := []; ce_objects := []; ce_this := None |} (OArith false) (DConcrete T_STRING) DConstString = None).
Check (eq_refl : spec_binary {| ce_classes := []; ce_enums := []; ce_objects := []; ce_this := None |} OComparison (DConcrete T_UINT) DConstInteger = Some T_BOOL).
Check (eq_refl : spec_binary {| ce_classes := []; ce_enums := []; ce_objects := []; ce_this := None |} OBitwise (DConcrete T_DOUBLE) (DConcrete T_DOUBLE) = None).
Check (eq_refl : spec_assignable {| ce_classes := []; ce_enums := []; ce_objects := []; ce_this := None |} T_DOUBLE DConstInteger = false).
Check (eq_refl : spec_castable {| ce_classes := []; ce_enums := []; ce_objects := []; ce_this := None |} T_DOUBLE DConstInteger = true).

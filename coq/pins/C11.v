From QV Require Import model.Base model.ObjTree proofs.ObjTreeProofs props.C11.
Open Scope nat_scope.
Check (C11_every_object_once_in_order : forall k nm acts ch, forallb (well_placed false) ch = true ->
  ui_names (fst (form_of (ON k nm acts ch))) = nm :: flat_map pre_order_no_sep ch /\ snd (form_of (ON k nm acts ch)) = []).
Check (C11_widget_children_in_order : forall seps k nm acts ch,
  match k with KWidget | KMenu => True | _ => False end ->
  fst (ui_of seps false (ON k nm acts ch)) =
    [UWidget nm (widget_actions seps acts ch) (flat_map (fun c => fst (ui_of seps false c)) ch)]).
Check (C11_layout_items_in_order : forall seps nm acts ch il,
  fst (ui_of seps il (ON KLayout nm acts ch)) = [ULayout nm (flat_map (fun c => fst (ui_of seps true c)) ch)]).
Check (C11_addactions_in_order : forall seps ch,
  widget_actions seps None ch =
  flat_map (fun c => match okind_of c with KAction | KMenu => [Some (oname c)] | KSeparator => [None] | _ => [] end) ch).
Check (C11_explicit_actions_as_written : forall seps l ch,
  ~ (exists a, In a l /\ In a seps) -> widget_actions seps (Some l) ch = map Some l).
Check (C11_subtree_names : forall n seps il, well_placed il n = true -> flat_map ui_names (fst (ui_of seps il n)) = pre_order_no_sep n).
Check (C11_well_placed_no_error : forall n seps il, well_placed il n = true -> snd (ui_of seps il n) = []).
Check (C11_flat_vector_represents_tree : forall root,
  map fname (flatten_tree root) = post_order root /\ represents (flatten_tree root) (length (flatten_tree root) - 1) root).
Check (eq_refl : flatten_tree (ON KWidget 0 None [ON KLayout 1 None [ON KWidget 2 None []]; ON KAction 3 None []]) = [(KWidget, 2, []); (KLayout, 1, [0]); (KAction, 3, []); (KWidget, 0, [1; 2])]).
Check (eq_refl : pre_order_no_sep (ON KWidget 0 None [ON KAction 1 None []; ON KSeparator 2 None []; ON KLayout 3 None [ON KSpacer 4 None []]]) = [0; 1; 3; 4]).
Check (eq_refl : ui_names (UWidget 0 [None] [UAction 1; ULayout 3 [USpacer 4]]) = [0; 1; 3; 4]).
Check (eq_refl : well_placed false (ON KSpacer 1 None []) = false).
Check (eq_refl : well_placed true (ON KAction 1 None []) = false).
Check (eq_refl : well_placed false (ON KAction 1 None [ON KWidget 2 None []]) = false).

From Coq Require Import Relations.
From QV Require Import model.Base model.ClassGraph proofs.ClassGraphProofs props.C17.
Check (C17_terminates : forall g c b n,
  derives_pedantic g c b <> FFuel /\ common_base_class g c b <> FFuel /\
  get_property g c n <> FFuel /\ get_public_method g c n <> FFuel /\ get_type g c n <> FFuel /\ get_enum_by_variant g c n <> FFuel).
Check (C17_derives_refuted : ~ (forall g c b, is_derived_from g c b = FSome true <-> greach g c b)).
Check (C17_derives_exact : forall g c b, ~ has_dangling g c ->
  (is_derived_from g c b = FSome true <-> greach g c b) /\ (is_derived_from g c b = FSome false <-> ~ greach g c b)).
Check (C17_derives_sound : forall g c b, is_derived_from g c b = FSome true -> greach g c b).
Check (C17_lookup_sound : forall g A (f : nat -> fm A) c a,
  find_self_and_bases (resolve g) (supers g) f (fuel_bound g) c = FSome a -> exists d, greach g c d /\ f d = FSome a).
Check (C17_lookup_exact : forall g A (f : nat -> fm A) c,
  ~ has_dangling g c -> (forall x, f x = FErr -> has_dangling g x) -> (forall x, f x <> FFuel) ->
  (find_self_and_bases (resolve g) (supers g) f (fuel_bound g) c = FNone <-> forall d, greach g c d -> f d = FNone)).
Check (C17_property_lookup : forall g c p, ~ has_dangling g c ->
  (get_property g c p = FNone <-> forall d cd, greach g c d -> cls g d = Some cd -> ~ In p (c_props cd)) /\
  (forall d, get_property g c p = FSome d -> greach g c d /\ exists cd, cls g d = Some cd /\ In p (c_props cd)) /\
  (forall cd, cls g c = Some cd -> In p (c_props cd) -> get_property g c p = FSome c) /\
  get_property g c p <> FErr /\ get_property g c p <> FFuel).
Check (C17_lookup_none_complete : forall g A (f : nat -> fm A) c,
  find_self_and_bases (resolve g) (supers g) f (fuel_bound g) c = FNone -> forall d, greach g c d -> f d = FNone).
Check (C17_own_first : forall g A (f : nat -> fm A) c a, f c = FSome a ->
  find_self_and_bases (resolve g) (supers g) f (fuel_bound g) c = FSome a).
Check (C17_common_base : forall g a b x,
  (common_base_class g a b = FSome x -> greach g a x /\ greach g b x) /\
  (common_base_class g a b = FNone -> forall y, greach g a y -> ~ greach g b y)).
Check (C17_variant : forall g c v d en, get_enum_by_variant g c v = FSome (d, en) ->
  greach g c d /\ exists cd e, cls g d = Some cd /\ In e (c_enums cd) /\ e_name e = en /\ e_scoped e = false /\ In v (e_variants e)).
Check (C17_method_table : forall n d,
  table_lookup n (method_table d) =
  by_name n (filter m_public (map (set_kind KSignal) (c_signals d) ++ map (set_kind KSlot) (c_slots d) ++ map (set_kind KMethod) (c_methods d)))).
(* the specification vocabulary is pinned by unfolding it once *)
Check (eq_refl : greach = fun g => clos_refl_trans nat (fun x y => exists n, In n (supers g x) /\ resolve g n = Some y)).
Check (eq_refl : has_dangling = fun g c => exists d m, greach g c d /\ In m (supers g d) /\ resolve g m = None).

From Coq Require Import Permutation.
From QV Require Import model.Base gen.GenUigen model.Uigen model.ObjTree model.Layout model.Recovery proofs.RecoveryProofs props.C20.
Open Scope string_scope.
Check (C20_binding_fault_local : forall o rs1 n rs2,
  NoDup (map rname (rs1 ++ RFault n :: rs2)%list) ->
  fst (preview (with_raw o (rs1 ++ RFault n :: rs2)%list)) = fst (preview (with_raw o (rs1 ++ rs2)%list))
  /\ In (RBuildFailed n) (snd (preview (with_raw o (rs1 ++ RFault n :: rs2)%list)))
  /\ (forall d, In d (snd (preview (with_raw o (rs1 ++ rs2)%list))) -> In d (snd (preview (with_raw o (rs1 ++ RFault n :: rs2)%list))))).
Check (C20_duplicate_loses_only_own : forall o n, first_dup [] (map rname (ro_raw o)) = Some n ->
  let e := fst (elaborate o) in
  o_props e = [] /\ o_kind e = ro_kind o /\ o_ctx e = ro_ctx o /\ o_callbacks e = ro_callbacks o
  /\ o_attached e = map (fun x => (fst x, [snd x])) (fst (dedup_first [] (ro_attached o)))
  /\ In (RDuplicated n) (snd (elaborate o))).
Check (C20_attached_duplicate_local : forall o l1 d l2, In (akey d) (map akey l1) ->
  fst (preview (with_attached o (l1 ++ d :: l2)%list)) = fst (preview (with_attached o (l1 ++ l2)%list))
  /\ In (RDuplicated (akey d)) (snd (preview (with_attached o (l1 ++ d :: l2)%list)))).
Check (C20_subtree_absent : forall k nm acts ch1 k' nm' acts' sub ch2,
  resolve (RN true k nm acts (ch1 ++ RN false k' nm' acts' sub :: ch2)%list) = resolve (RN true k nm acts (ch1 ++ ch2)%list)).
Check (C20_unresolved_subtrees_absent : forall n, resolve n = resolve (prune n)).
Check (C20_form_exists : forall root, resolves root = true -> preview_form root <> None).
Check (C20_attached_loss_moves_siblings_refuted : exists (f : flow) (a b : attach),
    option_map (fun l => nth 1 l (None, None, None, None)) (cells f [a; b])
    <> option_map (fun l => nth 1 l (None, None, None, None)) (cells f [no_attach; b])).
Check (eq_refl : first_dup [] ["a"; "b"; "a"] = Some "a").
Check (eq_refl : first_dup [] ["a"; "b"] = None).

From QV Require Import model.Base model.Lang model.Xml proofs.XmlProofs props.C09.
Open Scope N_scope.
Check (C09_roundtrip : forall s : text, forallb xml_char s = true -> read_back (escape_text s) = Some s).
Check (C09_escape_roundtrip : forall s : text, forallb xml_char s = true -> ~ In 13 s -> read_back (escape s) = Some s).
Check (C09_escape_cr_refuted : read_back (escape [97; 13; 98]) = Some [97; 10; 98]).
Check (C09_wellformed_chars : forall s : text, forallb xml_char (escape_text s) = forallb xml_char s).
Check (C09_non_xml_char_ill_formed : forall s : text, forallb xml_char s = false -> read_back (escape_text s) = None).
Check (C09_attribute_roundtrip : forall s : text, forallb xml_char s = true -> attr_read_back (escape_attr s) = Some s).
Check (C09_attribute_escape_refuted : attr_read_back (escape [97; 9; 98]) = Some [97; 32; 98] /\ attr_read_back (escape [13; 10]) = Some [32]).
Check (eq_refl : attr_read_back [97; 13; 10; 98; 9; 99; 38; 35; 57; 59] = Some [97; 32; 98; 32; 99; 9]).
Check (eq_refl : attr_read_back [97; 34] = None).
(* the specification side pinned by evaluation: XML Char, EOL normalisation, references *)
Check (eq_refl : map xml_char [0; 1; 8; 9; 10; 11; 12; 13; 31; 32; 55295; 55296; 57343; 57344; 65533; 65534; 65535; 65536; 1114111; 1114112]
               = [false; false; false; true; true; false; false; true; false; true; true; false; false; true; true; false; false; true; true; false]).
Check (eq_refl : read_back [97; 13; 10; 98; 13; 99] = Some [97; 10; 98; 10; 99]).
Check (eq_refl : read_back [38; 35; 49; 51; 59; 38; 108; 116; 59] = Some [13; 60]).
Check (eq_refl : read_back [38; 35; 49; 59] = None).

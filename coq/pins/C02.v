From QV Require Import model.Base model.Lang model.Types model.Tir model.Passes model.Signals proofs.SignalsProofs proofs.PropdepProofs props.C02.
Check (C02_stays_current : forall (key value : Type) (key_eqb : key -> key -> bool),
  (forall a b, key_eqb a b = true <-> a = b) ->
  forall (eval : (key -> value) -> value) (reads connected : (key -> value) -> list key),
  (forall w w', (forall k, In k (reads w) -> w' k = w k) -> eval w' = eval w /\ reads w' = reads w /\ connected w' = connected w) ->
  (forall w k, In k (reads w) -> In k (connected w)) ->
  forall w history, target _ _ (run _ _ key_eqb eval connected w history) = eval (now _ _ (run _ _ key_eqb eval connected w history))).
Check (C02_run_world : forall (key value : Type) (key_eqb : key -> key -> bool) (eval : (key -> value) -> value) (connected : (key -> value) -> list key) w history,
  now _ _ (run _ _ key_eqb eval connected w history) = fold_left (fun w0 c => update _ _ key_eqb w0 (fst c) (snd c)) history w).
Check (C02_dependency_complete_ir : forall E c c' ds, analyze_code_property_dependency E c = Ok (c', ds) ->
  Forall (block_covered E c' (c_nobs c) (length (c_locals c))) (c_blocks c')).
Check (C02_unobservable_reads_are_diagnosed : forall E c c' ds, analyze_code_property_dependency E c = Ok (c', ds) ->
  (In PUnobservable ds <-> exists b st, In b (c_blocks c) /\ In st (b_stmts b) /\ unobservable_read E st = true)).
Check (C02_stale_without_coverage_refuted : exists (eval : (nat -> nat) -> nat) (connected : (nat -> nat) -> list nat) (w : nat -> nat) (h : list (nat * nat)),
    target _ _ (run nat nat Nat.eqb eval connected w h) <> eval (now _ _ (run nat nat Nat.eqb eval connected w h))).
Check (C02_ir_checker_sound : forall E c, code_covered_b E c = true <->
  Forall (fun b => covered_sig E (c_sdeps c) 0 (c_nobs c) (repeat None (length (c_locals c))) None (b_stmts b)) (c_blocks c)).
Check (C02_coverage_implies_checker : forall E deps lo hi l known prev, covered E deps lo hi known prev l -> covered_b E deps lo hi known prev l = true).

From QV Require Import model.Base model.Lang model.Types model.Tir model.Floats model.Ceval model.Builder model.Sem proofs.SemProofs proofs.ScopeProofs proofs.FrameProofs props.C01.
Open Scope Z_scope.
Check (C01_partial_int_arith_exact : forall op x y v, in_int x = true -> in_int y = true ->
  match op with BAdd | BSub | BMul | BDiv | BRem | BShl => True | _ => False end ->
  arith op (VI x) (VI y) = Def v ->
  exists z, v = VI z /\ in_int z = true /\
    z = match op with BAdd => x + y | BSub => x - y | BMul => x * y | BDiv => Z.quot x y | BRem => Z.rem x y | _ => x * 2 ^ y end).
Check (C01_partial_uint_arith_wraps : forall op x y v, 0 <= x < UINT_MOD -> 0 <= y < UINT_MOD ->
  match op with BAdd | BSub | BMul => True | _ => False end ->
  arith op (VU x) (VU y) = Def v -> v = VU ((match op with BAdd => x + y | BSub => x - y | _ => x * y end) mod UINT_MOD)).
Check (C01_partial_undefined_cases : forall x,
  arith BDiv (VI x) (VI 0) = Undef /\ arith BRem (VI x) (VI 0) = Undef /\ arith BRem (VI INT_MIN) (VI (-1)) = Undef
  /\ arith BShl (VI x) (VI 32) = Undef /\ arith BShr (VI x) (VI (-1)) = Undef /\ arith BDiv (VU x) (VU 0) = Undef).
Check (C01_partial_and_short_circuit : forall names this st e a b st1, eval names this st e a = Def (VB false, st1) ->
  eval names this st e (EBinary BLAnd a b) = Def (VB false, st1)).
Check (C01_partial_or_short_circuit : forall names this st e a b st1, eval names this st e a = Def (VB true, st1) ->
  eval names this st e (EBinary BLOr a b) = Def (VB true, st1)).
Check (C01_partial_ternary_lazy : forall names this st e c a b st1, eval names this st e c = Def (VB true, st1) ->
  eval names this st e (ETernary c a b) = eval names this st1 e a).
Check (C01_partial_fold_agrees_on_literals : forall op bop x y r,
  (op = BoAdd /\ bop = BAdd) \/ (op = BoSub /\ bop = BSub) \/ (op = BoMul /\ bop = BMul) ->
  eval_binary_arith op (CInt x) (CInt y) = inl (CInt r) -> arith bop (VL x) (VL y) = Def (VL r)).
Check (C01_partial_null_deref_undefined : forall names this st e o p st1,
  eval names this st e o = Def (VP None, st1) -> eval names this st e (EMember o p) = Undef).
Check (C01_partial_semantics_scope : forall names this s st e o st' e',
  match s with SDecl _ _ => False | _ => True end ->
  exec names this st e s = Def (o, st', e') -> map fst e' = map fst e).
Check (C01_partial_translator_scope : forall s E env brk, scoped s = true ->
  forall st r st', walk_stmt E env brk s st = (V r, st') -> snd r = env).
Check (eq_refl : scoped (SSwitch (EInt 1) [(EInt 1, [SDecl DLet [("x"%string, None, Some (EInt 2))]])] None) = true).
Check (C01_partial_fold_agrees_arith : forall op bop x y r,
  (op = BoAdd /\ bop = BAdd) \/ (op = BoSub /\ bop = BSub) \/ (op = BoMul /\ bop = BMul) \/ (op = BoDiv /\ bop = BDiv) \/ (op = BoRem /\ bop = BRem) ->
  eval_binary_arith op (CInt x) (CInt y) = inl (CInt r) -> arith bop (VL x) (VL y) = Def (VL r)).
Check (C01_partial_fold_agrees_bitwise : forall op bop x y r,
  (op = BoAnd /\ bop = BAnd) \/ (op = BoOr /\ bop = BOr) \/ (op = BoXor /\ bop = BXor) ->
  eval_binary_bitwise op (CInt x) (CInt y) = inl (CInt r) -> arith bop (VL x) (VL y) = Def (VL r)).
Check (C01_partial_evaluation_changes_no_property : forall names this x st e v st',
  eval names this st e x = Def (v, st') -> objs st' = objs st /\ exists t, trace st' = t ++ trace st).
Check (eq_refl : arith BRem (VI (-7)) (VI 4) = Def (VI (-3))).
Check (eq_refl : arith BDiv (VI (-7)) (VL 2) = Def (VI (-3))).
Check (eq_refl : arith BShr (VI (-8)) (VL 1) = Def (VI (-4))).
Check (eq_refl : arith BSub (VU 0) (VL 1) = Def (VU 4294967295)).
Check (eq_refl : arith BAdd (VI 2147483647) (VL 1) = Undef).
From Coq Require Import Floats.SpecFloat.
Check (C01_partial_double_arith_total : forall op x y, match op with BAdd | BSub | BMul | BDiv => True | _ => False end -> exists z, arith op (VD x) (VD y) = Def (VD z)).
Check (C01_partial_nan_is_unordered : forall x y, sf_of_bits x = S754_nan ->
  compare BEq (VD x) (VD y) = Def (VB false) /\ compare BNe (VD x) (VD y) = Def (VB true) /\
  compare BLt (VD x) (VD y) = Def (VB false) /\ compare BLe (VD x) (VD y) = Def (VB false) /\
  compare BGt (VD x) (VD y) = Def (VB false) /\ compare BGe (VD x) (VD y) = Def (VB false) /\
  compare BNe (VD x) (VD x) = Def (VB true)).
Check (C01_partial_double_examples).

From QV Require Import model.Base model.Modules proofs.ModulesProofs props.C18.
Open Scope nat_scope.
Check (C18_discovery_exact : forall g srcs v, discover g srcs = Some v -> forall x, In x v <-> reach g srcs x).
Check (C18_discovery_order_independent : forall g s1 s2 v1 v2, (forall y, In y s1 <-> In y s2) ->
  discover g s1 = Some v1 -> discover g s2 = Some v2 -> forall x, In x v1 <-> In x v2).
Check (C18_discovery_registers_each_directory_once : forall g srcs v, discover g srcs = Some v -> NoDup v).
Check (C18_discovery_of_sources_named_together : forall g s1 s2 v1 v2 v, discover g s1 = Some v1 -> discover g s2 = Some v2 ->
  discover g (s1 ++ s2) = Some v -> forall x, In x v <-> In x v1 \/ In x v2).
Check (C18_discovery_terminates : forall g srcs, wf g -> (forall s, In s srcs -> s < length g) -> discover g srcs <> None).
Check (C18_customwidgets_once : forall hs objs, NoDup (custom_widgets hs objs)
  /\ (forall c, In c (custom_widgets hs objs) <-> (exists o, In o objs /\ snd o = true /\ fst o = c) /\ hs c = true)).
Check (eq_refl : unique [3; 1; 3; 2; 1] = [3; 1; 2]).

From Coq Require Import Permutation.
From QV Require Import model.Base gen.GenUigen model.Uigen proofs.UigenProofs props.C14.
Open Scope string_scope.
Check (C14_form_mode_free : forall m m' d,
  map r_form (run_doc m d) = map r_form (run_doc m' d) /\ map r_attached (run_doc m d) = map r_attached (run_doc m' d)).
Check (C14_reject_iff : forall d,
  doc_accepted (run_doc Reject d) = true <->
  doc_accepted (run_doc Generate d) = true /\ Forall (fun r => r_bindings r = [] /\ r_callbacks r = []) (run_doc Generate d)).
Check (C14_omit_subset : forall o,
  incl (r_diags (run Omit o)) (r_diags (run Generate o)) /\ incl (r_diags (run Omit o)) (r_diags (run Reject o))).
Check (C14_header_only_in_generate : forall m o, r_header (run m o) = true <-> m = Generate).
Check (C14_no_code_outside_generate : forall m o, m <> Generate -> r_bindings (run m o) = [] /\ r_callbacks (run m o) = []).

From Coq Require Import Lia.
From QV Require Import model.Base model.Lang model.Types model.Tir model.Floats model.Ceval model.Literal proofs.CevalProofs proofs.LiteralProofs gen.GenOps model.Builder proofs.OpsTie props.C03.
Open Scope Z_scope.
Check (C03_fold_arith : forall op a b, i64 a -> i64 b ->
  match op with BoAdd | BoSub | BoMul | BoDiv | BoRem => True | _ => False end ->
  match eval_binary_arith op (CInt a) (CInt b) with
  | inl v => exists r, spec_arith op a b = Some r /\ v = CInt r /\ i64 r
  | inr e => e = CeOverflow /\ (match spec_arith op a b with Some r => ~ i64 r | None => True end \/ (op = BoRem /\ a = I64_MIN /\ b = -1))
  end).
Check (C03_fold_shl : forall a b, i64 a -> i64 b ->
  match eval_shift BoShl (CInt a) (CInt b) with
  | inl v => 0 <= b < 64 /\ v = CInt (a * 2 ^ b) /\ i64 (a * 2 ^ b)
  | inr CeConversion => b < 0 \/ 4294967295 < b
  | inr CeOverflow => 64 <= b \/ (0 <= b < 64 /\ ~ i64 (a * 2 ^ b))
  | inr _ => False
  end).
Check (C03_fold_shr : forall a b, i64 a -> i64 b ->
  match eval_shift BoShr (CInt a) (CInt b) with
  | inl v => 0 <= b < 64 /\ v = CInt (a / 2 ^ b)
  | inr CeConversion => b < 0 \/ 4294967295 < b
  | inr CeOverflow => 64 <= b
  | inr _ => False
  end).
Check (C03_fold_neg : forall a, i64 a ->
  match eval_unary_arith true (CInt a) with
  | inl v => v = CInt (- a) /\ i64 (- a)
  | inr e => e = CeOverflow /\ a = I64_MIN
  end).
Check (C03_fold_compare).
Check (C03_integer_literal : forall s radix v, 0 < radix -> u64_from_str_radix s radix = Some v ->
  exists ds, all_digits radix (match s with 43%N :: r => r | _ => s end) = Some ds /\ ds <> [] /\ v = mv radix ds).
Check (C03_number_classification).
Check (C03_single_escape : forall c, unescape_tail [c] = es_single c).
Check (C03_hex_escape : forall a b da db, digit_val 16 a = Some da -> digit_val 16 b = Some db ->
  unescape_tail [120%N; a; b] = Some (Z.to_N (da * 16 + db))).
Check (C03_scalar_value : forall v, char_from_u32 v = Some (Z.to_N v) <-> (v <= 1114111 /\ ~ (55296 <= v <= 57343))).
Check (C03_f5_repaired).
Check (eq_refl : spec_arith BoDiv (-7) 2 = Some (-3)).
Check (eq_refl : spec_arith BoRem (-7) 2 = Some (-1)).
Check (eq_refl : es_single_escape = [(39, 39); (34, 34); (92, 92); (98, 8); (102, 12); (110, 10); (114, 13); (116, 9); (118, 11); (48, 0)]%N).
Check (C03_operators_lowered_as_in_the_source : (forall o, bop_of o = gen_bop_of o) /\ (forall o, uop_of o = gen_uop_of o)).
Check (C03_refused_operators : (forall o, gen_bop_of o = None <-> In o [BUShr; BExp; BNullish; BInstanceof; BIn])
  /\ (forall o, gen_uop_of o = None <-> In o [UTypeof; UVoid; UDelete])).
Check (C03_lowering_conflates_only_strict_twins : forall o o' b, gen_bop_of o = Some b -> gen_bop_of o' = Some b ->
  o = o' \/ (In o [BEq; BSEq] /\ In o' [BEq; BSEq]) \/ (In o [BNe; BSNe] /\ In o' [BNe; BSNe])).
Check (C03_unary_lowering_injective : forall o o' u, gen_uop_of o = Some u -> gen_uop_of o' = Some u -> o = o').
(* the tokens the printers of the correspondence checks write (vlib/prog.py UOPS / BOPS) are the tokens the source reads, operator by operator *)
Check (eq_refl : gen_bop_tokens = [("&&", BLAnd); ("||", BLOr); (">>", BShr); (">>>", BUShr); ("<<", BShl); ("&", BAnd); ("^", BXor); ("|", BOr); ("+", BAdd); ("-", BSub);
  ("*", BMul); ("/", BDiv); ("%", BRem); ("**", BExp); ("==", BEq); ("===", BSEq); ("!=", BNe); ("!==", BSNe); ("<", BLt); ("<=", BLe); (">", BGt); (">=", BGe);
  ("??", BNullish); ("instanceof", BInstanceof); ("in", BIn)]%string).
Check (eq_refl : gen_uop_tokens = [("!", UNot); ("~", UBitNot); ("-", UMinus); ("+", UPlus); ("typeof", UTypeof); ("void", UVoid); ("delete", UDelete)]%string).
Check (tokens_distinct : NoDup (map fst gen_bop_tokens) /\ NoDup (map fst gen_uop_tokens)).

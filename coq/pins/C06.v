From QV Require Import model.Base model.Lang model.Types model.Tir model.CfgCheck model.Builder model.Passes model.TirCase gen.GenE0 proofs.CfgProofs proofs.BuilderSafeSwitch proofs.BuilderCfg proofs.BuilderOpenCount spec.Typing proofs.ReturnType proofs.IrTyped proofs.Unreachable props.C06.
Open Scope nat_scope.
Check (C06_checker_sound : forall c exempt, cfg_ok c exempt = true ->
  forall p, path (c_blocks c) p ->
    exists b, nth_error (c_blocks c) (last_block p) = Some b /\
      term_is_exit_or_jump b = true /\ (forall s, In s (succs b) -> s < List.length (c_blocks c)) /\
      (forall k s l, nth_error (b_stmts b) k = Some s -> In l (stmt_reads s) ->
         In l (seq 0 (c_nparams c) ++ exempt) \/ In l (assigned_before (c_blocks c) p) \/ In l (flat_map stmt_defs (firstn k (b_stmts b)))) /\
      (forall l, In l (term_reads (b_term b)) ->
         In l (seq 0 (c_nparams c) ++ exempt) \/ In l (assigned_before (c_blocks c) p) \/ In l (block_defs b))).
Check (C06_returns : forall c exempt, cfg_ok c exempt = true ->
  forall p q bp bq a a', path (c_blocks c) p -> path (c_blocks c) q ->
    nth_error (c_blocks c) (last_block p) = Some bp -> nth_error (c_blocks c) (last_block q) = Some bq ->
    b_term bp = Some (TmReturn a) -> b_term bq = Some (TmReturn a') -> (a = OVoid <-> a' = OVoid)).
Check (C06_repaired_inputs :
  cfg_case E0 f2_prog = 1%Z /\ cfg_case E0 f2b_prog = 1%Z /\ cfg_case E0 f14_prog = 1%Z /\ cfg_case E0 f18_prog = 1%Z).
Check (C06_checker_rejects).
Check (C06_builder_frame : forall E cb s,
  let s' := snd (walk_callback E cb s) in
  (exists more, bs_locals s' = bs_locals s ++ more) /\
  List.length (bs_blocks s) <= List.length (bs_blocks s') /\
  (forall i b, nth_error (bs_blocks s) i = Some b -> b_term b <> None -> nth_error (bs_blocks s') i = Some b) /\
  (exists more, bs_diags s' = bs_diags s ++ more)).
Check (C06_jump_targets_exist : forall E cb c, wf_callback cb = true -> bu_code (build_callback E cb) = Some c ->
  forall i b t, nth_error (c_blocks c) i = Some b -> b_term b = Some t ->
    match t with TmBr l => l < List.length (c_blocks c) /\ l <> i | TmBrCond _ x y => x < List.length (c_blocks c) /\ y < List.length (c_blocks c) | _ => True end).
Check (C06_every_block_terminated : forall E cb c, wf_callback cb = true -> bu_code (build_callback E cb) = Some c ->
  forall i b, nth_error (c_blocks c) i = Some b -> b_term b <> None).
Check (C06_walk_leaves_one_open_block : forall E cb env s, wf_callback cb = true -> walk_callback E cb bstate0 = (V (true, env), s) ->
  forall i b, i < List.length (bs_blocks s) - 1 -> nth_error (bs_blocks s) i = Some b -> b_term b <> None).
Check (C06_every_return_fits_the_return_type : forall E c d t, resolve_return_type E c = Some d -> concrete d = Some t ->
  Forall (fun a => spec_assignable E t (operand_tdesc a) = true) (return_operands c)).
Check (C06_value_body_has_no_bare_return : forall E c d t, resolve_return_type E c = Some d -> concrete d = Some t -> t <> T_VOID ->
  forall b, In b (c_blocks c) -> b_term b <> Some (TmReturn OVoid)).
Check (C06_return_type_examples).
Check (C06_unreachable_marker_is_isolated : forall E cb c, bu_code (build_callback E cb) = Some c ->
  forall i b, nth_error (c_blocks c) i = Some b -> b_term b = Some TmUnreachable ->
    i <> 0 /\ forall j bj, nth_error (c_blocks c) j = Some bj -> ~ In i (succs bj)).
Check (C06_no_path_ends_in_the_unreachable_marker : forall E cb c, bu_code (build_callback E cb) = Some c ->
  forall p b, path (c_blocks c) p -> nth_error (c_blocks c) (last_block p) = Some b -> b_term b <> Some TmUnreachable).

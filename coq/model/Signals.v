(* Signals.v -- the argument why dynamic bindings stay current, over an abstract world:
   a world maps (object, property) keys to values; a binding has an evaluation function and, in every world, a read set (the keys it
   reads when evaluated there) and a connected set (static connections made in setup<Binding>() plus the connections its observer
   slots hold after the last evaluation).  A change of key k with its notify signal re-evaluates exactly the bindings connected to k
   (uigen/binding.rs: QObject::connect(sender, signal, root, update)). *)
From QV Require Import model.Base.
Open Scope list_scope.

Section Binding.
  Variable key value : Type.
  Variable key_eqb : key -> key -> bool.
  Notation world := (key -> value).

  Variable eval : world -> value.               (* eval<Binding>() *)
  Variable reads : world -> list key.           (* the property reads performed by eval in that world *)
  Variable connected : world -> list key.       (* what the binding is subscribed to after evaluating in that world *)

  Definition update (w : world) (k : key) (v : value) : world := fun k' => if key_eqb k' k then v else w k'.
  Definition kmem (k : key) (l : list key) : bool := existsb (key_eqb k) l.

  (* the state: the world, the world in which the binding was last evaluated, and the target's value *)
  Record bstate := { now : world; last : world; target : value }.
  Definition setup (w : world) : bstate := {| now := w; last := w; target := eval w |}.
  (* a property change with its notify signal: the binding is re-evaluated iff it is connected to that key *)
  Definition step (s : bstate) (c : key * value) : bstate :=
    let w' := update (now s) (fst c) (snd c) in
    if kmem (fst c) (connected (last s)) then {| now := w'; last := w'; target := eval w' |}
    else {| now := w'; last := last s; target := target s |}.
  Definition run (w : world) (history : list (key * value)) : bstate := fold_left step history (setup w).
End Binding.

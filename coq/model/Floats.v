(* Floats.v -- binary64 values as bit patterns, arithmetic through Coq.Floats.SpecFloat (pure Gallina, prec 53 /
   emax 1024): the meaning of Rust's f64 `+ - * /`, unary minus and comparisons used by tir/ceval.rs.
   `%` (fmod) is not provided by SpecFloat and is not modelled. NaNs are canonicalised (payloads not modelled). *)
From QV Require Import model.Base.
From Coq Require Import Floats.SpecFloat.
Open Scope Z_scope.

Definition prec := 53.
Definition emax := 1024.
Definition NAN_BITS : N := 9221120237041090560%N.   (* 0x7ff8000000000000 *)

Definition sf_of_bits (b : N) : spec_float :=
  let s := N.testbit b 63 in
  let e := Z.of_N (N.land (N.shiftr b 52) 2047) in
  let m := Z.of_N (N.land b 4503599627370495) in
  if e =? 0 then (match m with Zpos p => S754_finite s p (-1074) | _ => S754_zero s end)
  else if e =? 2047 then (if m =? 0 then S754_infinity s else S754_nan)
  else match m + 4503599627370496 with Zpos p => S754_finite s p (e - 1075) | _ => S754_nan end.

Definition bits_of_sf (f : spec_float) : N :=
  let sign (s : bool) := if s then 9223372036854775808%N else 0%N in
  match f with
  | S754_zero s => sign s
  | S754_infinity s => (sign s + 9218868437227405312)%N
  | S754_nan => NAN_BITS
  | S754_finite s m e =>
      let mz := Zpos m in
      if mz <? 4503599627370496 then (sign s + Z.to_N mz)%N
      else (sign s + N.shiftl (Z.to_N (e + 1075)) 52 + Z.to_N (mz - 4503599627370496))%N
  end.

Definition canon (b : N) : N := bits_of_sf (sf_of_bits b).   (* collapses NaN payloads *)

Definition f_neg (a : N) : N := bits_of_sf (SFopp (sf_of_bits a)).
Definition f_add (a b : N) : N := bits_of_sf (SFadd prec emax (sf_of_bits a) (sf_of_bits b)).
Definition f_sub (a b : N) : N := bits_of_sf (SFsub prec emax (sf_of_bits a) (sf_of_bits b)).
Definition f_mul (a b : N) : N := bits_of_sf (SFmul prec emax (sf_of_bits a) (sf_of_bits b)).
Definition f_div (a b : N) : N := bits_of_sf (SFdiv prec emax (sf_of_bits a) (sf_of_bits b)).
Definition f_eqb (a b : N) : bool := SFeqb (sf_of_bits a) (sf_of_bits b).
Definition f_ltb (a b : N) : bool := SFltb (sf_of_bits a) (sf_of_bits b).
Definition f_leb (a b : N) : bool := SFleb (sf_of_bits a) (sf_of_bits b).

(* Rust's `%` on f64 = C fmod: x - trunc(x / y) * y, computed exactly; the result carries the sign of x *)
Definition f_rem (a b : N) : N :=
  let x := sf_of_bits a in
  let y := sf_of_bits b in
  match x, y with
  | S754_nan, _ | _, S754_nan => NAN_BITS
  | S754_infinity _, _ => NAN_BITS
  | _, S754_zero _ => NAN_BITS
  | S754_zero _, _ => bits_of_sf x
  | S754_finite _ _ _, S754_infinity _ => bits_of_sf x
  | S754_finite sx mx ex, S754_finite _ my ey =>
      let e := Z.min ex ey in
      let X := Zpos mx * 2 ^ (ex - e) in
      let Y := Zpos my * 2 ^ (ey - e) in
      let r := Z.rem X Y in
      if r =? 0 then bits_of_sf (S754_zero sx)
      else bits_of_sf (binary_normalize prec emax (if sx then - r else r) e sx)
  end.

(* conversions used by `as double` / `as int` (static_cast): an integer of at most 53 significant bits -- every int and uint -- converts exactly;
   a double converts to an integer by truncation toward zero, and has no integer value when it is a NaN or infinite *)
Definition f_of_Z (z : Z) : N := bits_of_sf (binary_normalize prec emax z 0 false).
Definition f_trunc (a : N) : option Z :=
  match sf_of_bits a with
  | S754_zero _ => Some 0
  | S754_finite s m e => let v := if 0 <=? e then Zpos m * 2 ^ e else Zpos m / 2 ^ (- e) in Some (if s then - v else v)
  | _ => None
  end.

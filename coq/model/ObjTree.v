(* ObjTree.v -- model of the element-kind dispatch of lib/src/uigen/object.rs (UiObject::build, Widget::build,
   collect_action_like_children) and lib/src/uigen/layout.rs (LayoutItemContent::build), and of the post-order
   flattening of lib/src/objtree.rs.  Objects carry the kind their class derives (decided by the class graph, C17). *)
From QV Require Import model.Base.
From Coq Require Import Arith.
Open Scope nat_scope.

Inductive okind := KWidget | KLayout | KSpacer | KAction | KSeparator (* QAction { separator: true } only *) | KMenu | KOther.
(* acts: the explicit `actions: [a, b]` list of a widget, as object names, when given *)
Inductive onode := ON (k : okind) (name : nat) (acts : option (list nat)) (children : list onode).

Inductive uiel :=
| UWidget (name : nat) (addactions : list (option nat)) (children : list uiel)   (* None = <addaction name="separator"/> *)
| ULayout (name : nat) (items : list uiel)                                        (* each child inside its own <item> *)
| USpacer (name : nat)
| UAction (name : nat).

Inductive placement_error := PENotActionLayoutWidget (name : nat) | PENotLayoutSpacerWidget (name : nat) | PEHasChildren (name : nat).

Definition okind_of (n : onode) := match n with ON k _ _ _ => k end.
Definition oname (n : onode) := match n with ON _ nm _ _ => nm end.
Definition ochildren (n : onode) := match n with ON _ _ _ c => c end.

(* collect_action_like_children *)
Definition action_like (n : onode) : list (option nat) :=
  match okind_of n with
  | KAction | KMenu => [Some (oname n)]
  | KSeparator => [None]
  | _ => []
  end.

(* the names of the objects that are static separators, in document order *)
Fixpoint separators (n : onode) : list nat :=
  match n with ON k nm _ ch => (match k with KSeparator => [nm] | _ => [] end) ++ flat_map separators ch end.

(* Widget::build: an explicit actions list is used as written (a referenced separator becomes a separator entry);
   otherwise the action-like children in order *)
Definition widget_actions (seps : list nat) (acts : option (list nat)) (ch : list onode) : list (option nat) :=
  match acts with
  | Some l => map (fun a => if existsb (Nat.eqb a) seps then None else Some a) l
  | None => flat_map action_like ch
  end.

(* the element(s) an object contributes below a widget / below a layout, with the diagnostics for misplaced kinds *)
Fixpoint ui_of (seps : list nat) (in_layout : bool) (n : onode) : list uiel * list placement_error :=
  match n with
  | ON k nm acts ch =>
      let as_widget :=
        let rs := map (ui_of seps false) ch in
        ([UWidget nm (widget_actions seps acts ch) (flat_map fst rs)], flat_map snd rs) in
      let as_layout :=
        let rs := map (ui_of seps true) ch in
        ([ULayout nm (flat_map fst rs)], flat_map snd rs) in
      let confine := match ch with [] => [] | _ => [PEHasChildren nm] end in
      if in_layout then
        match k with
        | KLayout => as_layout
        | KSpacer => ([USpacer nm], confine)
        | KWidget | KMenu => as_widget
        | _ => (fst as_widget, PENotLayoutSpacerWidget nm :: snd as_widget)
        end
      else
        match k with
        | KAction => ([UAction nm], confine)
        | KSeparator => ([], confine)
        | KLayout => as_layout
        | KMenu | KWidget => as_widget
        | _ => (fst as_widget, PENotActionLayoutWidget nm :: snd as_widget)
        end
  end.

(* the form: the root is always built as a widget *)
Definition form_of (root : onode) : uiel * list placement_error :=
  match root with
  | ON _ nm acts ch =>
      let seps := separators root in
      let rs := map (ui_of seps false) ch in (UWidget nm (widget_actions seps acts ch) (flat_map fst rs), flat_map snd rs)
  end.

(* names in document (pre-)order *)
Fixpoint pre_order (n : onode) : list nat := match n with ON _ nm _ ch => nm :: flat_map pre_order ch end.
Fixpoint pre_order_no_sep (n : onode) : list nat :=
  match n with ON k nm _ ch => (match k with KSeparator => [] | _ => [nm] end) ++ flat_map pre_order_no_sep ch end.
Fixpoint ui_names (e : uiel) : list nat :=
  match e with
  | UWidget nm _ ch => nm :: flat_map ui_names ch
  | ULayout nm items => nm :: flat_map ui_names items
  | USpacer nm => [nm]
  | UAction nm => [nm]
  end.

(* ---- objtree.rs: post-order flattening with child index lists ---- *)
Notation fnode := (okind * nat * list nat)%type.
Fixpoint flatten (n : onode) (acc : list fnode) : list fnode * nat :=
  match n with
  | ON k nm _ ch =>
      let '(acc', idxs) := (fix go (cs : list onode) (a : list fnode) : list fnode * list nat :=
                              match cs with
                              | [] => (a, [])
                              | c :: r => let '(a1, i) := flatten c a in let '(a2, ix) := go r a1 in (a2, i :: ix)
                              end) ch acc in
      (acc' ++ [(k, nm, idxs)], List.length acc')
  end.
Definition flatten_tree (root : onode) : list fnode := fst (flatten root []).
Fixpoint post_order (n : onode) : list nat := match n with ON _ nm _ ch => flat_map post_order ch ++ [nm] end.

(* Xml.v -- model of how text reaches the .ui: quick_xml::escape::escape (the five markup characters) as used by
   BytesText::new / attribute values, and -- as the SPECIFICATION side -- what an XML 1.0 processor reads back from
   character data: end-of-line normalisation, the predefined entities and numeric character references. *)
From QV Require Import model.Base model.Lang.
Open Scope N_scope.

(* quick_xml::escape::escape: the five markup characters lt gt amp apos quot *)
Definition escape_char (c : N) : list N :=
  if c =? 60 then [38; 108; 116; 59]                    (* &lt; *)
  else if c =? 62 then [38; 103; 116; 59]               (* &gt; *)
  else if c =? 38 then [38; 97; 109; 112; 59]           (* &amp; *)
  else if c =? 39 then [38; 97; 112; 111; 115; 59]      (* &apos; *)
  else if c =? 34 then [38; 113; 117; 111; 116; 59]     (* &quot; *)
  else [c].
Definition escape (s : text) : text := flat_map escape_char s.

(* the repaired text writer of uigen (xmlutil.rs / expr.rs): additionally a carriage return becomes &#13; *)
Definition escape_text_char (c : N) : list N := if c =? 13 then [38; 35; 49; 51; 59] else escape_char c.
Definition escape_text (s : text) : text := flat_map escape_text_char s.

(* attribute values with user strings (gadget.rs through xmlutil.rs escaped_attribute; repaired, finding F23): additionally tab, line feed and
   carriage return become character references *)
Definition escape_attr_char (c : N) : list N :=
  if c =? 9 then [38; 35; 57; 59] else if c =? 10 then [38; 35; 49; 48; 59] else if c =? 13 then [38; 35; 49; 51; 59] else escape_char c.
Definition escape_attr (s : text) : text := flat_map escape_attr_char s.

(* XML 1.0 production [2] Char *)
Definition xml_char (c : N) : bool :=
  (c =? 9) || (c =? 10) || (c =? 13) || ((32 <=? c) && (c <=? 55295)) || ((57344 <=? c) && (c <=? 65533)) || ((65536 <=? c) && (c <=? 1114111)).

(* ---- reader (specification): character data of an element ---- *)
Definition dec_value (s : text) : option N :=
  match s with
  | [] => None
  | _ => fold_left (fun acc c => match acc with
                                 | Some a => if (48 <=? c) && (c <=? 57) then Some (a * 10 + (c - 48)) else None
                                 | None => None end) s (Some 0)
  end.
Definition entity_value (name : text) : option N :=
  match name with
  | [108; 116] => Some 60 | [103; 116] => Some 62 | [97; 109; 112] => Some 38
  | [97; 112; 111; 115] => Some 39 | [113; 117; 111; 116] => Some 34
  | 35 :: digits => dec_value digits
  | _ => None
  end.

(* read character data, one character at a time: a raw CR LF or a lone CR becomes LF (XML 1.0 section 2.11) before
   references are looked at; a reference is expanded without normalisation; markup or a character outside production
   Char makes the data ill-formed (None).  [ent] = the reference name collected so far, [skip_lf] = a raw CR was just read. *)
Fixpoint xml_read (s : text) (ent : option text) (skip_lf : bool) : option text :=
  match s with
  | [] => match ent with None => Some [] | Some _ => None end
  | c :: r =>
      match ent with
      | Some acc =>
          if c =? 59 then
            match entity_value (rev acc) with
            | Some v => if xml_char v then option_map (cons v) (xml_read r None false) else None
            | None => None
            end
          else xml_read r (Some (c :: acc)) false
      | None =>
          if c =? 13 then option_map (cons 10) (xml_read r None true)
          else if (c =? 10) && skip_lf then xml_read r None false
          else if c =? 38 then xml_read r (Some []) false
          else if c =? 60 then None
          else if xml_char c then option_map (cons c) (xml_read r None false) else None
      end
  end.
Definition read_back (s : text) : option text := xml_read s None false.

(* ---- reader (specification): the value of an attribute delimited by double quotes (XML 1.0 section 3.3.3, CDATA type) ----
   after end-of-line normalisation (a raw CR LF or lone CR is one LF) every raw tab / LF / CR becomes ONE SPACE; references are expanded
   without normalisation; '<' and the delimiter are not allowed raw. *)
Fixpoint attr_read (s : text) (ent : option text) (skip_lf : bool) : option text :=
  match s with
  | [] => match ent with None => Some [] | Some _ => None end
  | c :: r =>
      match ent with
      | Some acc =>
          if c =? 59 then
            match entity_value (rev acc) with
            | Some v => if xml_char v then option_map (cons v) (attr_read r None false) else None
            | None => None
            end
          else attr_read r (Some (c :: acc)) false
      | None =>
          if c =? 13 then option_map (cons 32) (attr_read r None true)
          else if (c =? 10) && skip_lf then attr_read r None false
          else if (c =? 10) || (c =? 9) then option_map (cons 32) (attr_read r None false)
          else if c =? 38 then attr_read r (Some []) false
          else if (c =? 60) || (c =? 34) then None
          else if xml_char c then option_map (cons c) (attr_read r None false) else None
      end
  end.
Definition attr_read_back (s : text) : option text := attr_read s None false.

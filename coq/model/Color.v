(* Color.v -- model of lib/src/color.rs (Color::from_str, parse_hex_color) and of
   `impl From<Color> for Gadget` in lib/src/uigen/gadget.rs.  Strings are byte strings (UTF-8). *)
From QV Require Import model.Base.
From QV Require Import gen.GenColorTable.
Open Scope N_scope.

Inductive color := Rgb8 (r g b : N) | Rgba8 (r g b a : N).
Inductive color_err := InvalidHex | UnknownName.

Definition is_ascii_hexdigit (c : ascii) : bool :=
  let n := N_of_ascii c in
  ((48 <=? n) && (n <=? 57)) || ((65 <=? n) && (n <=? 70)) || ((97 <=? n) && (n <=? 102)).

Definition hexval (c : ascii) : N :=
  let n := N_of_ascii c in
  if (48 <=? n) && (n <=? 57) then n - 48
  else if (65 <=? n) && (n <=? 70) then n - 55
  else n - 87.

Fixpoint all_hex (s : string) : bool :=
  match s with EmptyString => true | String c r => is_ascii_hexdigit c && all_hex r end.

(* u32::from_str_radix(hex, 16) on a string already known to be hex digits:
   None on empty input and on overflow of u32 (checked_mul/checked_add per digit). *)
Fixpoint from_str_radix16_go (s : string) (acc : N) : option N :=
  match s with
  | EmptyString => Some acc
  | String c r =>
      let acc' := acc * 16 + hexval c in
      if acc' <? 4294967296 then from_str_radix16_go r acc' else None
  end.
Definition from_str_radix16 (s : string) : option N :=
  match s with EmptyString => None | _ => from_str_radix16_go s 0 end.

Definition parse_hex_color (hex : string) : option color :=
  if negb (all_hex hex) then None else
  match from_str_radix16 hex with
  | None => None
  | Some argb =>
      match String.length hex with
      | 3%nat => Some (Rgb8 (N.land (N.shiftr argb 8) 15 * 17) (N.land (N.shiftr argb 4) 15 * 17) (N.land argb 15 * 17))
      | 4%nat => Some (Rgba8 (N.land (N.shiftr argb 8) 15 * 17) (N.land (N.shiftr argb 4) 15 * 17) (N.land argb 15 * 17)
                             (N.land (N.shiftr argb 12) 15 * 17))
      | 6%nat => Some (Rgb8 (N.land (N.shiftr argb 16) 255) (N.land (N.shiftr argb 8) 255) (N.land argb 255))
      | 8%nat => Some (Rgba8 (N.land (N.shiftr argb 16) 255) (N.land (N.shiftr argb 8) 255) (N.land argb 255)
                             (N.land (N.shiftr argb 24) 255))
      | _ => None
      end
  end.

Definition lookup_named (name : string) : option (N * N * N) := assoc name svg_named_colors.

(* str::strip_prefix('#') *)
Definition strip_hash (s : string) : option string :=
  match s with
  | String c r => if Ascii.eqb c "#"%char then Some r else None
  | EmptyString => None
  end.

Definition color_from_str (src : string) : color + color_err :=
  match strip_hash src with
  | Some hex =>
      match parse_hex_color hex with Some c => inl c | None => inr InvalidHex end
  | None =>
      if eq_ignore_ascii_case src "transparent" then inl (Rgba8 0 0 0 0)
      else match lookup_named src with
           | Some (r, g, b) => inl (Rgb8 r g b)
           | None =>
               match lookup_named (to_ascii_lowercase src) with
               | Some (r, g, b) => inl (Rgb8 r g b)
               | None => inr UnknownName
               end
           end
  end.

(* uigen/gadget.rs: From<Color> for Gadget -> <color alpha=".."><red/><green/><blue/></color>;
   returned as (alpha attribute, red, green, blue) *)
Definition color_gadget (c : color) : N * N * N * N :=
  match c with
  | Rgb8 r g b => (255, r, g, b)
  | Rgba8 r g b a => (a, r, g, b)
  end.

Definition model_color (s : string) : option (N * N * N * N) :=
  match color_from_str s with inl c => Some (color_gadget c) | inr _ => None end.

(* canonical result compared with the implementation: Some (alpha, r, g, b) | None *)
Definition color_case (src : list N) : option (N * N * N * N) :=
  match color_from_str (string_of_bytes src) with
  | inl c => Some (color_gadget c)
  | inr _ => None
  end.

(* Uigen.v -- model of the data flow that decides, for every binding of an object, which pass owns it:
   lib/src/uigen/property.rs (make_serializable_map, make_value_map), object.rs / layout.rs (the pseudo properties and
   their consumers), expr.rs (SerializableValue::build), objcode.rs (is_evaluated_constant), binding.rs
   (UiSupportCode::build, CxxEvalGadgetMapFunction::build, CxxUpdateBinding::build) and mod.rs (the three modes, the
   left-over attached bindings).  The expression layer is abstracted to its outcome per binding (is it a constant, does the
   constant convert to the property type, is the return type assignable): that layer is the subject of C03/C05.
   The maps of the implementation are hash maps: a map is a list here, in ANY order (the hash order), and every consumer
   that iterates is modelled with the order it really uses (sorted where the code sorts). *)
From QV Require Import model.Base gen.GenUigen.
Open Scope string_scope.
Open Scope list_scope.

Record leaf := { l_name : string; l_writable : bool; l_readable : bool;
                 l_const : bool;      (* tir::evaluate_code yields a value *)
                 l_conv_ok : bool;    (* that value converts to the property type without diagnostic *)
                 l_ret_ok : bool }.   (* the return type of the code is assignable to the property type *)

Inductive gkind := GSupported | GUnsupported.
Inductive pcode :=
| PExpr (l : leaf)
| PGadget (name : string) (writable readable : bool) (gk : gkind) (members : list leaf)
| PObjMap (name : string) (writable readable : bool) (members : list leaf).

Definition pname (p : pcode) : string :=
  match p with PExpr l => l_name l | PGadget n _ _ _ _ => n | PObjMap n _ _ _ => n end.

Inductive okind :=
| OWidget (combo_or_list table_view tree_view : bool)
| OAction
| OLayout (grid : bool)
| OSpacer.

(* the context the object is placed in, which decides who consumes its attached bindings *)
Inductive pctx := CtxVBox | CtxHBox | CtxForm | CtxGrid | CtxTab | CtxOther.
Inductive aclass := ALayout | ATab | AOtherClass.

Record obj := { o_kind : okind; o_ctx : pctx;
                o_props : list pcode;                 (* properties_code_map, in hash order *)
                o_callbacks : list string;            (* accepted signal handlers *)
                o_attached : list (aclass * list leaf) }.

Definition mem (s : string) (l : list string) : bool := existsb (String.eqb s) l.

(* ---- who looks at a property in the constant pass ---- *)
Inductive role :=
| RSerial        (* make_serializable_map: evaluated; needs a setter *)
| RValue         (* make_value_map: evaluated; no setter needed (spacer properties) *)
| RSpecialEval   (* excluded from the map and evaluated by its own consumer (actions, model of a combo box/list widget, flow/columns/rows, lone separator) *)
| RHeaderMap     (* horizontalHeader/verticalHeader/header: a map whose members go through make_serializable_map *)
| RUnvisited.    (* excluded from the map, nobody evaluates it *)

Definition lone_separator (o : obj) : bool :=
  match o_kind o, o_props o, o_callbacks o with
  | OAction, [p], [] => String.eqb (pname p) "separator"
  | _, _, _ => false
  end.

Definition role_of (o : obj) (name : string) : role :=
  match o_kind o with
  | OWidget combo table tree =>
      if mem name WIDGET_PSEUDO then
        (if String.eqb name "actions" then RSpecialEval
         else if String.eqb name "model" then (if combo then RSpecialEval else RUnvisited)
         else RUnvisited)
      else if table && mem name TABLE_VIEW_PSEUDO then RHeaderMap
      else if tree && mem name TREE_VIEW_PSEUDO then RHeaderMap
      else RSerial
  | OAction =>
      if mem name ACTION_PSEUDO then (if lone_separator o then RSpecialEval else RUnvisited) else RSerial
  | OLayout grid =>
      if grid && mem name GRID_PSEUDO then RSpecialEval else RSerial
  | OSpacer => RValue
  end.

(* PropertyCode::evaluate was called (the OnceCell is filled) *)
Definition leaf_evaluated_constant (visited : bool) (l : leaf) : bool := visited && l_const l.

Definition members_visited (r : role) (p : pcode) : bool :=
  match p, r with
  | PGadget _ _ _ GSupported _, (RSerial | RValue) => true          (* Gadget::new evaluates every member *)
  | PObjMap _ _ _ _, RHeaderMap => true                            (* flatten_object_properties_into_attributes *)
  | _, _ => false
  end.

Definition top_visited (r : role) : bool := match r with RSerial | RValue | RSpecialEval => true | _ => false end.

(* PropertyCode::is_evaluated_constant after the constant pass *)
Definition evaluated_constant (r : role) (p : pcode) : bool :=
  match p with
  | PExpr l => leaf_evaluated_constant (top_visited r) l
  | PGadget _ _ _ _ ms | PObjMap _ _ _ ms => forallb (leaf_evaluated_constant (members_visited r p)) ms
  end.

(* ---- diagnostics: the binding they are attached to (top-level name, member name if any) and their class ---- *)
Inductive dkind := DConv | DNotWritable | DNotReadable | DUnexpectedMap | DUnsupportedGadget | DNotPropertiesMap
                 | DRetType | DNestedDynamic | DUnsupportedDynamic | DCallbackNoDynamic | DUnusedAttached.
Record diag := { d_top : string; d_member : option string; d_kind : dkind }.
Definition D (t : string) (m : option string) (k : dkind) : diag := {| d_top := t; d_member := m; d_kind := k |}.

(* ---- the constant pass: what is written into the form, and the diagnostics ---- *)
(* SerializableValue::build on an expression: Some (in the form) / quiet None (left to the C++ pass) / diagnosed None *)
Definition leaf_value (top : string) (member : option string) (l : leaf) : bool * list diag :=
  if l_const l then (if l_conv_ok l then (true, []) else (false, [D top member DConv])) else (false, []).

(* ---- sorting by name (sorted_by_key) ---- *)
Fixpoint str_leb (a b : string) : bool :=
  match a, b with
  | EmptyString, _ => true
  | String _ _, EmptyString => false
  | String x r, String y s => let nx := Ascii.N_of_ascii x in let ny := Ascii.N_of_ascii y in
                              if N.ltb nx ny then true else if N.ltb ny nx then false else str_leb r s
  end.
Fixpoint insert_by {A} (key : A -> string) (x : A) (l : list A) : list A :=
  match l with [] => [x] | y :: r => if str_leb (key x) (key y) then x :: l else y :: insert_by key x r end.
Definition sort_by {A} (key : A -> string) (l : list A) : list A := fold_right (insert_by key) [] l.

(* one entry of the form: the property name and the members written below it (for a scalar: none) *)
Record fentry := { f_name : string; f_members : list string }.

(* members are written in the order of their names (Gadget::serialize_to_xml sorts the member map) *)
Definition value_members (top : string) (ms : list leaf) : list string * list diag :=
  (sort_by (fun s => s) (map l_name (filter (fun l => fst (leaf_value top (Some (l_name l)) l)) ms)),
   flat_map (fun l => snd (leaf_value top (Some (l_name l)) l)) ms).

Definition serial_members (top : string) (ms : list leaf) : list string * list diag :=
  (sort_by (fun s => s) (map l_name (filter (fun l => fst (leaf_value top (Some (l_name l)) l) && l_writable l) ms)),
   flat_map (fun l => let '(v, d) := leaf_value top (Some (l_name l)) l in
                      d ++ (if v && negb (l_writable l) then [D top (Some (l_name l)) DNotWritable] else [])) ms).

Definition const_prop (r : role) (p : pcode) : list fentry * list diag :=
  match r with
  | RSerial | RValue =>
      let need_setter := match r with RSerial => true | _ => false end in
      let '(v, members, d) :=
        match p with
        | PExpr l => let '(v, d) := leaf_value (l_name l) None l in (v, [], d)
        | PGadget n _ _ GSupported ms => let '(m, d) := value_members n ms in (true, m, d)
        | PGadget n _ _ GUnsupported _ => (false, [], [D n None DUnsupportedGadget])
        | PObjMap n _ _ _ => (false, [], [D n None DUnexpectedMap])
        end in
      let w := match p with PExpr l => l_writable l | PGadget _ w _ _ _ | PObjMap _ w _ _ => w end in
      if v then (if need_setter && negb w then ([], d ++ [D (pname p) None DNotWritable])
                 else ([{| f_name := pname p; f_members := members |}], d))
      else ([], d)
  | RSpecialEval =>
      match p with
      | PExpr l => let '(v, d) := leaf_value (l_name l) None l in
                   ((if v then [{| f_name := l_name l; f_members := [] |}] else []), d)
      | _ => ([], [D (pname p) None DUnexpectedMap])
      end
  | RHeaderMap =>
      match p with
      | PObjMap n _ _ ms => let '(m, d) := serial_members n ms in ([{| f_name := n; f_members := m |}], d)
      | _ => ([], [D (pname p) None DNotPropertiesMap])
      end
  | RUnvisited => ([], [])
  end.

(* attached bindings: which names the context consumes *)
Definition attached_consumed (c : pctx) (a : aclass) (name : string) : bool :=
  match a, c with
  | ALayout, CtxVBox => mem name (LAYOUT_ITEM_ATTACHED ++ VBOX_ATTACHED)
  | ALayout, CtxHBox => mem name (LAYOUT_ITEM_ATTACHED ++ HBOX_ATTACHED)
  | ALayout, CtxForm => mem name (LAYOUT_ITEM_ATTACHED ++ INDEX_ATTACHED)
  | ALayout, CtxGrid => mem name (LAYOUT_ITEM_ATTACHED ++ INDEX_ATTACHED ++ GRID_ATTACHED)
  | ATab, CtxTab => true
  | _, _ => false
  end.

Definition attached_name (a : aclass) (n : string) : string :=
  match a with ALayout => "QLayout." ++ n | ATab => "QTabWidget." ++ n | AOtherClass => "?." ++ n end.

Definition const_attached (c : pctx) (a : aclass) (l : leaf) : list fentry * list diag :=
  let top := attached_name a (l_name l) in
  if attached_consumed c a (l_name l) then
    let '(v, d) := leaf_value top None l in
    ((if v then [{| f_name := top; f_members := [] |}] else []),
     d ++ (if l_const l then [] else [D top None DUnusedAttached]))
  else ([], [D top None DUnusedAttached]).

(* ---- the three modes ---- *)
Inductive mode := Generate | Reject | Omit.

(* one dynamic binding of the support header: the property and, for a grouped value, the members it sets *)
Record hbinding := { h_name : string; h_members : list string }.

Definition update_ok (top : string) (member : option string) (readable writable : bool) : bool * list diag :=
  if negb readable then (false, [D top member DNotReadable])
  else if negb writable then (false, [D top member DNotWritable]) else (true, []).

(* CxxEvalGadgetMapFunction::build over the members sorted by name *)
Definition header_members (top : string) (ms : list leaf) : list string * list diag :=
  let sorted := sort_by l_name ms in
  (map l_name (filter (fun l => l_ret_ok l && l_readable l && l_writable l) sorted),
   flat_map (fun l => if negb (l_ret_ok l) then [D top (Some (l_name l)) DRetType]
                      else snd (update_ok top (Some (l_name l)) (l_readable l) (l_writable l))) sorted).

Definition header_prop (p : pcode) : list hbinding * list diag :=
  match p with
  | PExpr l =>
      if negb (l_ret_ok l) then ([], [D (l_name l) None DRetType])
      else let '(ok, d) := update_ok (l_name l) None (l_readable l) (l_writable l) in
           ((if ok then [{| h_name := l_name l; h_members := [] |}] else []), d)
  | PGadget n w r _ ms =>
      let '(m, d) := header_members n ms in
      let '(ok, d') := update_ok n None r w in
      ((if ok then [{| h_name := n; h_members := m |}] else []), d ++ d')
  | PObjMap n _ _ _ => ([], [D n None DNestedDynamic])
  end.

Definition dynamic_props (o : obj) : list pcode :=
  filter (fun p => negb (evaluated_constant (role_of o (pname p)) p)) (o_props o).

Record result := { r_form : list fentry;          (* in the order of serialisation: sorted by name *)
                   r_attached : list fentry;      (* consumed attached bindings (item attributes / tab attributes), sorted *)
                   r_bindings : list hbinding;    (* sorted by name *)
                   r_callbacks : list string;     (* sorted by name *)
                   r_header : bool;               (* a support header is produced *)
                   r_diags : list diag }.

Definition flat_attached (o : obj) : list (aclass * leaf) := flat_map (fun '(a, ls) => map (pair a) ls) (o_attached o).

Definition const_pass (o : obj) : list fentry * list fentry * list diag :=
  let ps := map (fun p => const_prop (role_of o (pname p)) p) (o_props o) in
  let ats := map (fun '(a, l) => const_attached (o_ctx o) a l) (flat_attached o) in
  (sort_by f_name (flat_map fst ps), sort_by f_name (flat_map fst ats), flat_map snd ps ++ flat_map snd ats).

Definition run (m : mode) (o : obj) : result :=
  let '(form, att, cd) := const_pass o in
  match m with
  | Omit => {| r_form := form; r_attached := att; r_bindings := []; r_callbacks := []; r_header := false; r_diags := cd |}
  | Generate =>
      let hs := map header_prop (sort_by pname (dynamic_props o)) in
      {| r_form := form; r_attached := att; r_bindings := flat_map fst hs; r_callbacks := sort_by (fun s => s) (o_callbacks o); r_header := true;
         r_diags := cd ++ flat_map snd hs |}
  | Reject =>
      {| r_form := form; r_attached := att; r_bindings := []; r_callbacks := []; r_header := false;
         r_diags := cd ++ map (fun p => D (pname p) None
                                          (if match p with PExpr l => l_writable l | PGadget _ w _ _ _ | PObjMap _ w _ _ => w end
                                           then DUnsupportedDynamic else DNotWritable)) (dynamic_props o)
                       ++ map (fun c => D c None DCallbackNoDynamic) (o_callbacks o) |}
  end.

Definition accepted (r : result) : bool := match r_diags r with [] => true | _ => false end.

(* a document: its objects (the flat vector of the object tree) *)
Definition run_doc (m : mode) (d : list obj) : list result := map (run m) d.
Definition doc_accepted (rs : list result) : bool := forallb accepted rs.

(* ---- the fate of one binding, read off the passes (proofs/UigenProofs.v shows that the outputs of run consist exactly of these) ---- *)
Definition fate_form (o : obj) (p : pcode) : list fentry := fst (const_prop (role_of o (pname p)) p).
Definition fate_header (o : obj) (p : pcode) : list hbinding :=
  if evaluated_constant (role_of o (pname p)) p then [] else fst (header_prop p).
Definition fate_diags (o : obj) (p : pcode) : list diag :=
  snd (const_prop (role_of o (pname p)) p) ++ (if evaluated_constant (role_of o (pname p)) p then [] else snd (header_prop p)).
Definition attached_form (o : obj) : list fentry := flat_map (fun '(a, l) => fst (const_attached (o_ctx o) a l)) (flat_attached o).
Definition attached_diags (o : obj) : list diag := flat_map (fun '(a, l) => snd (const_attached (o_ctx o) a l)) (flat_attached o).

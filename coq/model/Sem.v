(* Sem.v -- the documented meaning of the binding / handler language (docs/language.md: "C-like" int/uint/double/bool/QString/pointer
   typing, integer division, short-circuit && and ||, ternary, if/else, switch with fall-through and break, let/const, return), as a
   big-step evaluator of the AST (model/Lang.v) in an object world.  This is the SPECIFICATION the emitted C++ is compared with;
   it is kept short and is structurally recursive (the language has no loops).
   Undefinedness (Undef) is part of the meaning: signed 32-bit overflow, division by zero, INT_MIN / -1, shift counts outside
   0..31, left shift of a negative value or out of range, null dereference, read of a never-assigned variable.
   Stuck = outside the modelled fragment or ill-typed (the type checker is C05's subject). *)
From QV Require Import model.Base model.Lang model.Floats.
Open Scope Z_scope.
Open Scope list_scope.

Inductive val :=
| VB (b : bool)
| VI (z : Z)            (* int: -2^31 .. 2^31-1 *)
| VU (z : Z)            (* uint: 0 .. 2^32-1 *)
| VS (s : list N)       (* QString: UTF-16 code units *)
| VP (o : option nat)   (* pointer to a VObj (object index) or null *)
| VL (z : Z)            (* an integer literal expression not yet met by a concrete type *)
| VD (bits : N)         (* double: the binary64 bit pattern, NaNs canonical (model/Floats.v) *)
| VNull
| VVoid.

Inductive res (A : Type) := Def (a : A) | Undef | Stuck (why : string).
Arguments Def {A} a. Arguments Undef {A}. Arguments Stuck {A} why.
Definition rbind {A B} (m : res A) (f : A -> res B) : res B := match m with Def a => f a | Undef => Undef | Stuck w => Stuck w end.
Notation "'let?' x := m 'in' f" := (rbind m (fun x => f)) (at level 200, x pattern, m at level 100, f at level 200).

Definition INT_MIN := -2147483648. Definition INT_MAX := 2147483647. Definition UINT_MOD := 4294967296.
Definition in_int (z : Z) := (INT_MIN <=? z) && (z <=? INT_MAX).
Definition mk_int (z : Z) : res val := if in_int z then Def (VI z) else Undef.        (* signed overflow is undefined *)
Definition mk_uint (z : Z) : res val := Def (VU (z mod UINT_MOD)).                   (* unsigned arithmetic wraps *)

(* ---- the world ---- *)
Record object := { o_b : bool; o_i : Z; o_u : Z; o_s : list N; o_next : option nat;
                   o_m1 : Z; o_m2 : Z (* two int properties announced by one notify signal *); o_d : N (* double, as bits *) }.
Inductive effect :=
| ESet (o : nat) (p : string) (v : val)        (* a property write through the setter *)
| ECallM (o : nat) (m : string) (args : list val)
| ELog (level : string) (args : list val).
Record state := { objs : list object; trace : list effect }.     (* trace: most recent first *)

Definition get_obj (st : state) (o : nat) : res object := match nth_error (objs st) o with Some x => Def x | None => Stuck "no such object" end.
Definition read_prop (st : state) (o : nat) (p : string) : res val :=
  let? x := get_obj st o in
  if String.eqb p "b" then Def (VB (o_b x)) else if String.eqb p "i" then Def (VI (o_i x)) else if String.eqb p "u" then Def (VU (o_u x))
  else if String.eqb p "s" then Def (VS (o_s x)) else if String.eqb p "next" then Def (VP (o_next x))
  else if String.eqb p "m1" then Def (VI (o_m1 x)) else if String.eqb p "m2" then Def (VI (o_m2 x))
  else if String.eqb p "d" then Def (VD (canon (o_d x))) else Stuck "property".
Fixpoint set_nth {A} (l : list A) (n : nat) (x : A) : list A :=
  match l, n with [], _ => [] | _ :: r, O => x :: r | y :: r, S k => y :: set_nth r k x end.
Definition coerce (target : string) (v : val) : res val :=      (* a literal meets the concrete type of a property / variable *)
  match v with
  | VL z => if String.eqb target "i" || String.eqb target "m1" || String.eqb target "m2" then (if in_int z then Def (VI z) else Stuck "literal out of int range")
            else if String.eqb target "u" then (if (0 <=? z) && (z <? UINT_MOD) then Def (VU z) else Stuck "literal out of uint range")
            else Stuck "literal for a non-integer target"
  | VNull => if String.eqb target "next" then Def (VP None) else Stuck "null for a non-pointer target"
  | _ => Def v
  end.
Definition write_prop (st : state) (o : nat) (p : string) (v : val) : res state :=
  let? x := get_obj st o in
  let? v := coerce p v in
  let? x' := match v with
             | VB b => if String.eqb p "b" then Def {| o_b := b; o_i := o_i x; o_u := o_u x; o_s := o_s x; o_next := o_next x; o_m1 := o_m1 x; o_m2 := o_m2 x; o_d := o_d x |} else Stuck "type"
             | VI z => if String.eqb p "i" then Def {| o_b := o_b x; o_i := z; o_u := o_u x; o_s := o_s x; o_next := o_next x; o_m1 := o_m1 x; o_m2 := o_m2 x; o_d := o_d x |}
                       else if String.eqb p "m1" then Def {| o_b := o_b x; o_i := o_i x; o_u := o_u x; o_s := o_s x; o_next := o_next x; o_m1 := z; o_m2 := o_m2 x; o_d := o_d x |}
                       else if String.eqb p "m2" then Def {| o_b := o_b x; o_i := o_i x; o_u := o_u x; o_s := o_s x; o_next := o_next x; o_m1 := o_m1 x; o_m2 := z; o_d := o_d x |}
                       else Stuck "type"
             | VU z => if String.eqb p "u" then Def {| o_b := o_b x; o_i := o_i x; o_u := z; o_s := o_s x; o_next := o_next x; o_m1 := o_m1 x; o_m2 := o_m2 x; o_d := o_d x |} else Stuck "type"
             | VS s => if String.eqb p "s" then Def {| o_b := o_b x; o_i := o_i x; o_u := o_u x; o_s := s; o_next := o_next x; o_m1 := o_m1 x; o_m2 := o_m2 x; o_d := o_d x |} else Stuck "type"
             (* the setter of the API model (as Qt's setters do) returns early when the new value COMPARES equal: a zero of the other sign is not stored *)
             | VD d => if String.eqb p "d" then Def {| o_b := o_b x; o_i := o_i x; o_u := o_u x; o_s := o_s x; o_next := o_next x; o_m1 := o_m1 x; o_m2 := o_m2 x;
                                                       o_d := if f_eqb (o_d x) d then o_d x else d |} else Stuck "type"
             | VP q => if String.eqb p "next" then Def {| o_b := o_b x; o_i := o_i x; o_u := o_u x; o_s := o_s x; o_next := q; o_m1 := o_m1 x; o_m2 := o_m2 x; o_d := o_d x |} else Stuck "type"
             | _ => Stuck "type"
             end in
  Def {| objs := set_nth (objs st) o x'; trace := ESet o p v :: trace st |}.

(* ---- operators ---- *)
Definition both_int (a b : val) : option (bool * Z * Z) :=          (* (is_uint, x, y) after a literal has adopted the other operand's type *)
  match a, b with
  | VI x, VI y => Some (false, x, y)
  | VI x, VL y => if in_int y then Some (false, x, y) else None
  | VL x, VI y => if in_int x then Some (false, x, y) else None
  | VU x, VU y => Some (true, x, y)
  | VU x, VL y => if (0 <=? y) && (y <? UINT_MOD) then Some (true, x, y) else None
  | VL x, VU y => if (0 <=? x) && (x <? UINT_MOD) then Some (true, x, y) else None
  | _, _ => None
  end.

Fixpoint str_lt (a b : list N) : bool :=
  match a, b with
  | _, [] => false
  | [], _ :: _ => true
  | x :: r, y :: s => if N.ltb x y then true else if N.ltb y x then false else str_lt r s
  end.
Fixpoint str_eqb (a b : list N) : bool :=
  match a, b with [], [] => true | x :: r, y :: s => N.eqb x y && str_eqb r s | _, _ => false end.

Definition arith (op : bop) (a b : val) : res val :=
  match a, b with
  | VL x, VL y =>                                   (* folded at translation time, in 64-bit arithmetic *)
      match op with
      | BAdd => Def (VL (x + y)) | BSub => Def (VL (x - y)) | BMul => Def (VL (x * y))
      | BDiv => if y =? 0 then Stuck "constant division by zero" else Def (VL (Z.quot x y))
      | BRem => if y =? 0 then Stuck "constant division by zero" else Def (VL (Z.rem x y))
      | BAnd => Def (VL (Z.land x y)) | BOr => Def (VL (Z.lor x y)) | BXor => Def (VL (Z.lxor x y))
      | _ => Stuck "literal operator"
      end
  | VS x, VS y => match op with BAdd => Def (VS (x ++ y)) | _ => Stuck "string operator" end
  | VD x, VD y =>                                   (* IEEE-754 binary64: total, nothing is undefined ( % is F7: not compilable ) *)
      match op with
      | BAdd => Def (VD (f_add x y)) | BSub => Def (VD (f_sub x y)) | BMul => Def (VD (f_mul x y)) | BDiv => Def (VD (f_div x y))
      | _ => Stuck "double operator"
      end
  | _, _ =>
      match both_int a b with
      | Some (false, x, y) =>
          match op with
          | BAdd => mk_int (x + y) | BSub => mk_int (x - y) | BMul => mk_int (x * y)
          | BDiv => if y =? 0 then Undef else mk_int (Z.quot x y)
          | BRem => if y =? 0 then Undef else if (x =? INT_MIN) && (y =? -1) then Undef else mk_int (Z.rem x y)
          | BAnd => Def (VI (Z.land x y)) | BOr => Def (VI (Z.lor x y)) | BXor => Def (VI (Z.lxor x y))
          | BShl => if (y <? 0) || (31 <? y) || (x <? 0) then Undef else mk_int (x * 2 ^ y)
          | BShr => if (y <? 0) || (31 <? y) then Undef else Def (VI (x / 2 ^ y))
          | _ => Stuck "int operator"
          end
      | Some (true, x, y) =>
          match op with
          | BAdd => mk_uint (x + y) | BSub => mk_uint (x - y) | BMul => mk_uint (x * y)
          | BDiv => if y =? 0 then Undef else mk_uint (x / y)
          | BRem => if y =? 0 then Undef else mk_uint (x mod y)
          | BAnd => Def (VU (Z.land x y)) | BOr => Def (VU (Z.lor x y)) | BXor => Def (VU (Z.lxor x y))
          | BShl => if 31 <? y then Undef else mk_uint (x * 2 ^ y)
          | BShr => if 31 <? y then Undef else Def (VU (x / 2 ^ y))
          | _ => Stuck "uint operator"
          end
      | None => Stuck "arithmetic operands"
      end
  end.

Definition cmp_of (op : bop) (lt eq : bool) : res val :=
  match op with
  | BEq | BSEq => Def (VB eq) | BNe | BSNe => Def (VB (negb eq))
  | BLt => Def (VB lt) | BLe => Def (VB (lt || eq)) | BGt => Def (VB (negb (lt || eq))) | BGe => Def (VB (negb lt))
  | _ => Stuck "comparison operator"
  end.
Definition compare (op : bop) (a b : val) : res val :=
  match a, b with
  | VL x, VL y => cmp_of op (x <? y) (x =? y)
  | VS x, VS y => cmp_of op (str_lt x y) (str_eqb x y)
  | VD x, VD y =>                                   (* an unordered pair (a NaN) is neither less, equal nor greater *)
      match op with
      | BEq | BSEq => Def (VB (f_eqb x y)) | BNe | BSNe => Def (VB (negb (f_eqb x y)))
      | BLt => Def (VB (f_ltb x y)) | BLe => Def (VB (f_leb x y)) | BGt => Def (VB (f_ltb y x)) | BGe => Def (VB (f_leb y x))
      | _ => Stuck "comparison operator"
      end
  | VB x, VB y => match op with BEq | BSEq => Def (VB (Bool.eqb x y)) | BNe | BSNe => Def (VB (negb (Bool.eqb x y)))
                                | _ => cmp_of op (negb x && y) (Bool.eqb x y) end
  | VP x, VP y => match op with BEq | BSEq => Def (VB (match x, y with Some p, Some q => Nat.eqb p q | None, None => true | _, _ => false end))
                                | BNe | BSNe => Def (VB (negb (match x, y with Some p, Some q => Nat.eqb p q | None, None => true | _, _ => false end)))
                                | _ => Stuck "pointer order" end
  | VP x, VNull | VNull, VP x => match op with BEq | BSEq => Def (VB (match x with None => true | _ => false end))
                                               | BNe | BSNe => Def (VB (match x with None => false | _ => true end)) | _ => Stuck "pointer order" end
  | _, _ => match both_int a b with Some (_, x, y) => cmp_of op (x <? y) (x =? y) | None => Stuck "comparison operands" end
  end.

Definition is_arith (op : bop) : bool := match op with BAdd | BSub | BMul | BDiv | BRem | BAnd | BOr | BXor | BShl | BShr => true | _ => false end.
Definition is_cmp (op : bop) : bool := match op with BEq | BSEq | BNe | BSNe | BLt | BLe | BGt | BGe => true | _ => false end.

(* ---- methods of the API model (cxxrt: vlib/cxx.py METHOD_BODIES) ---- *)
Definition call_method (st : state) (o : nat) (m : string) (args : list val) : res (val * state) :=
  let? x := get_obj st o in
  let st' := {| objs := objs st; trace := ECallM o m args :: trace st |} in
  if String.eqb m "compute" then match args with [a] => let? v := coerce "i" a in
                                                          match v with VI n => Def (VI (Z.land n 1023 + 7), {| objs := objs st; trace := ECallM o m [v] :: trace st |}) | _ => Stuck "compute" end
                                                | _ => Stuck "compute" end
  else if String.eqb m "flag" then match args with [] => Def (VB (o_b x), st') | _ => Stuck "flag" end
  else if String.eqb m "label" then match args with [] => Def (VS (o_s x), st') | _ => Stuck "label" end
  else if String.eqb m "child" then match args with [] => Def (VP (o_next x), st') | _ => Stuck "child" end
  else if String.eqb m "act" then match args with [a] => let? v := coerce "i" a in Def (VVoid, {| objs := objs st; trace := ECallM o m [v] :: trace st |}) | _ => Stuck "act" end
  else Stuck "method".

(* ---- expressions ---- *)
Notation env := (list (string * option val)).         (* innermost binding first; None = declared without a value *)
Fixpoint lookup (e : env) (x : string) : option (option val) :=
  match e with [] => None | (y, v) :: r => if String.eqb x y then Some v else lookup r x end.
Definition object_named (names : list string) (x : string) : option nat :=
  (fix go (l : list string) (i : nat) := match l with [] => None | y :: r => if String.eqb x y then Some i else go r (S i) end) names 0%nat.

Definition is_ident (x : expr) (n : string) : bool := match x with EIdent y => String.eqb y n | _ => false end.

Section Eval.
  Variable names : list string.       (* object ids, in world order *)
  Variable this : nat.                (* the root object *)

  Fixpoint eval (st : state) (e : env) (x : expr) {struct x} : res (val * state) :=
    match x with
    | EInt n => Def (VL (Z.of_N n), st)
    | EBool b => Def (VB b, st)
    | EStr s => Def (VS s, st)
    | ENull => Def (VNull, st)
    | EFloat bits => Def (VD (canon bits), st)
    | EThis => Def (VP (Some this), st)
    | EIdent n =>
        match lookup e n with
        | Some (Some v) => Def (v, st)
        | Some None => Undef                                  (* read of a never-assigned variable *)
        | None => match object_named names n with
                  | Some o => Def (VP (Some o), st)
                  | None => let? v := read_prop st this n in Def (v, st)     (* implicit this.<property> *)
                  end
        end
    | EMember o p =>
        let? (ov, st1) := eval st e o in
        match ov with
        | VP (Some i) => let? v := read_prop st1 i p in Def (v, st1)
        | VP None => Undef                                    (* null dereference *)
        | _ => Stuck "member of a non-object"
        end
    | ECall (EMember o m) args =>
        if is_ident o "Math" then
          match args with
          | [a; b] =>
              let? (av, st1) := eval st e a in let? (bv, st2) := eval st1 e b in
              (* std::max(a, b) = a < b ? b : a;  std::min(a, b) = b < a ? b : a  (they differ from each other's mirror image on unordered doubles) *)
              if String.eqb m "max" then
                let? c := compare BLt av bv in match c with VB lt => Def ((if lt then bv else av), st2) | _ => Stuck "Math" end
              else if String.eqb m "min" then
                let? c := compare BLt bv av in match c with VB lt => Def ((if lt then bv else av), st2) | _ => Stuck "Math" end
              else Stuck "Math"
          | _ => Stuck "Math"
          end
        else
        (* the receiver is evaluated first, then the arguments left to right (ECMAScript); see F16 for the implementation's order *)
        let? (ov, st1) := eval st e o in
        let? (avs, st2) := (fix go (l : list expr) (s : state) : res (list val * state) :=
                              match l with [] => Def ([], s) | a :: r => let? (v, s1) := eval s e a in let? (vs, s2) := go r s1 in Def (v :: vs, s2) end) args st1 in
        match ov with
        | VP (Some i) => call_method st2 i m avs
        | VP None => Undef
        | _ => Stuck "call on a non-object"
        end
    | EUnary op a =>
        let? (v, st1) := eval st e a in
        match op, v with
        | UNot, VB b => Def (VB (negb b), st1)
        | UMinus, VI z => let? r := mk_int (- z) in Def (r, st1)
        | UMinus, VL z => Def (VL (- z), st1)
        | UMinus, VU z => let? r := mk_uint (- z) in Def (r, st1)
        | UPlus, (VI _ | VU _ | VL _ | VD _) => Def (v, st1)
        | UMinus, VD d => Def (VD (f_neg d), st1)
        | UBitNot, VI z => Def (VI (Z.lnot z), st1)
        | UBitNot, VU z => Def (VU (UINT_MOD - 1 - z), st1)
        | UBitNot, VL z => Def (VL (Z.lnot z), st1)
        | _, _ => Stuck "unary"
        end
    | EBinary BLAnd a b =>
        let? (v, st1) := eval st e a in
        match v with VB false => Def (VB false, st1) | VB true => let? (w, st2) := eval st1 e b in match w with VB _ => Def (w, st2) | _ => Stuck "&&" end | _ => Stuck "&&" end
    | EBinary BLOr a b =>
        let? (v, st1) := eval st e a in
        match v with VB true => Def (VB true, st1) | VB false => let? (w, st2) := eval st1 e b in match w with VB _ => Def (w, st2) | _ => Stuck "||" end | _ => Stuck "||" end
    | EBinary op a b =>
        let? (av, st1) := eval st e a in let? (bv, st2) := eval st1 e b in
        if is_arith op then let? r := arith op av bv in Def (r, st2)
        else if is_cmp op then let? r := compare op av bv in Def (r, st2) else Stuck "operator"
    | ETernary c a b =>
        let? (v, st1) := eval st e c in
        match v with VB true => eval st1 e a | VB false => eval st1 e b | _ => Stuck "condition" end
    | EAs v ty =>
        let? (w, st1) := eval st e v in
        match ty, w with
        | ["uint"%string], VI z => let? r := mk_uint z in Def (r, st1)
        | ["uint"%string], VL z => let? r := mk_uint z in Def (r, st1)
        | ["uint"%string], VU _ => Def (w, st1)
        | ["int"%string], VU z => Def (VI (if z <? 2147483648 then z else z - UINT_MOD), st1)
        | ["int"%string], VL z => let? r := coerce "i" w in Def (r, st1)
        | ["int"%string], VI _ => Def (w, st1)
        | ["double"%string], VI z | ["double"%string], VU z | ["double"%string], VL z => Def (VD (f_of_Z z), st1)
        | ["double"%string], VD _ => Def (w, st1)
        | ["int"%string], VD d => match f_trunc d with Some z => if in_int z then Def (VI z, st1) else Undef | None => Undef end
        | ["uint"%string], VD d => match f_trunc d with Some z => if (0 <=? z) && (z <? UINT_MOD) then Def (VU z, st1) else Undef | None => Undef end
        | _, _ => Stuck "cast"
        end
    | _ => Stuck "expression form"
    end.

  (* ---- statements ---- *)
  Inductive outcome := ONormal | OBreak | OReturn (v : val).
  Definition log_level (f : string) : option string :=
    if String.eqb f "log" || String.eqb f "debug" then Some "debug"%string else if String.eqb f "info" then Some "info"%string
    else if String.eqb f "warn" then Some "warn"%string else if String.eqb f "error" then Some "error"%string else None.

  Fixpoint set_var (e : env) (x : string) (v : val) : option env :=
    match e with [] => None | (y, w) :: r => if String.eqb x y then Some ((y, Some v) :: r) else option_map (cons (y, w)) (set_var r x v) end.

  (* statements in sequence, stopping at the first break / return *)
  Definition run_seq (ex : state -> env -> stmt -> res (outcome * state * env)) : list stmt -> state -> env -> res (outcome * state * env) :=
    fix go (l : list stmt) (s0 : state) (e0 : env) : res (outcome * state * env) :=
      match l with
      | [] => Def (ONormal, s0, e0)
      | x :: r => let? (o, s1, e1) := ex s0 e0 x in match o with ONormal => go r s1 e1 | _ => Def (o, s1, e1) end
      end.

  (* the default clause sits at position `pos` (before the case with that index): it runs when execution has started above it, or
     when no case matches *)
  Definition at_default (ex : state -> env -> stmt -> res (outcome * state * env)) (default : option (nat * list stmt)) (found : option nat)
             (i : nat) (started : bool) (s0 : state) (e0 : env) : res (outcome * bool * state * env) :=
    match default with
    | Some (pos, db) =>
        if Nat.eqb pos i then
          if started || match found with None => true | Some _ => false end
          then let? (o, s1, e1) := run_seq ex db s0 e0 in Def (o, true, s1, e1)
          else Def (ONormal, started, s0, e0)
        else Def (ONormal, started, s0, e0)
    | None => Def (ONormal, started, s0, e0)
    end.

  Definition run_clauses (ex : state -> env -> stmt -> res (outcome * state * env)) (default : option (nat * list stmt)) (found : option nat)
    : list (expr * list stmt) -> nat -> bool -> state -> env -> res (outcome * state * env) :=
    fix run (l : list (expr * list stmt)) (i : nat) (started : bool) (s0 : state) (e0 : env) : res (outcome * state * env) :=
      let? (o0, started0, s00, e00) := at_default ex default found i started s0 e0 in
      match o0 with
      | ONormal =>
          match l with
          | [] => Def (ONormal, s00, e00)
          | (_, b) :: r =>
              if started0 || match found with Some j => Nat.eqb j i | None => false end
              then let? (o, s1, e1) := run_seq ex b s00 e00 in
                   match o with ONormal => run r (S i) true s1 e1 | _ => Def (o, s1, e1) end
              else run r (S i) false s00 e00
          end
      | _ => Def (o0, s00, e00)
      end.

  Fixpoint exec (st : state) (e : env) (s : stmt) {struct s} : res (outcome * state * env) :=
    match s with
    | SExpr (EAssign (EIdent x) r) =>
        let? (v, st1) := eval st e r in
        match lookup e x with
        | Some _ => match set_var e x v with Some e' => Def (ONormal, st1, e') | None => Stuck "assign" end
        | None => let? st2 := write_prop st1 this x v in Def (ONormal, st2, e)          (* implicit this.<property> *)
        end
    | SExpr (EAssign (EMember o p) r) =>
        (* ECMAScript order: the target object, then the value *)
        let? (ov, st1) := eval st e o in let? (v, st2) := eval st1 e r in
        match ov with VP (Some i) => let? st3 := write_prop st2 i p v in Def (ONormal, st3, e) | VP None => Undef | _ => Stuck "assign to a non-object" end
    | SExpr (ECall (EMember o f) args) =>
        if is_ident o "console" then
          match log_level f with
          | Some lv =>
              let? (avs, st1) := (fix go (l : list expr) (s0 : state) : res (list val * state) :=
                                    match l with [] => Def ([], s0) | a :: r => let? (v, s1) := eval s0 e a in let? (vs, s2) := go r s1 in Def (v :: vs, s2) end) args st in
              Def (ONormal, {| objs := objs st1; trace := ELog lv avs :: trace st1 |}, e)
          | None => Stuck "console"
          end
        (* the slot that IS the property setter of `next`, called as a statement: exactly the effect of the assignment o.next = r *)
        else if String.eqb f "setNext" then
          match args with
          | [r] => let? (ov, st1) := eval st e o in let? (v, st2) := eval st1 e r in
                   match ov with VP (Some i) => let? st3 := write_prop st2 i "next" v in Def (ONormal, st3, e) | VP None => Undef | _ => Stuck "call on a non-object" end
          | _ => Stuck "setNext"
          end
        else let? (_, st1) := eval st e (ECall (EMember o f) args) in Def (ONormal, st1, e)
    | SExpr x => let? (_, st1) := eval st e x in Def (ONormal, st1, e)
    | SBlock ss =>
        let? (o, st1, e1) := run_seq exec ss st e in
        (* block scope: declarations of the block disappear, assignments to outer variables stay *)
        Def (o, st1, skipn (length e1 - length e) e1)
    | SDecl _ vars =>
        (fix go (l : list (string * option (list string) * option expr)) (s0 : state) (e0 : env) : res (outcome * state * env) :=
           match l with
           | [] => Def (ONormal, s0, e0)
           | (x, ty, None) :: r => go r s0 ((x, None) :: e0)
           | (x, ty, Some init) :: r =>
               let? (v, s1) := eval s0 e0 init in
               let? v := match ty, v with
                         | Some ["uint"%string], _ => coerce "u" v
                         | Some ["int"%string], _ => coerce "i" v
                         | None, VL z => coerce "i" v                     (* an unannotated literal is an int *)
                         | _, _ => Def v
                         end in
               go r s1 ((x, Some v) :: e0)
           end) vars st e
    | SIf c t f =>
        let? (v, st1) := eval st e c in
        match v with
        | VB true => let? (o, s1, e1) := exec st1 e t in Def (o, s1, skipn (length e1 - length e) e1)
        | VB false => match f with Some fs => let? (o, s1, e1) := exec st1 e fs in Def (o, s1, skipn (length e1 - length e) e1) | None => Def (ONormal, st1, e) end
        | _ => Stuck "condition"
        end
    | SSwitch v cases default =>
        let? (dv, st1) := eval st e v in
        (* the first matching case, conditions evaluated top to bottom (the default clause has no condition) *)
        let? (found, st2) := (fix find (l : list (expr * list stmt)) (i : nat) (s0 : state) : res (option nat * state) :=
                                match l with
                                | [] => Def (None, s0)
                                | (c, _) :: r => let? (cv, s1) := eval s0 e c in let? m := compare BEq dv cv in
                                                 match m with VB true => Def (Some i, s1) | VB false => find r (S i) s1 | _ => Stuck "case" end
                                end) cases 0%nat st1 in
        (* clauses in source order, the default at its position `pos` (before the case with that index); execution starts at the
           matching case, or at the default when no case matches, and falls through *)
        let? (o, s3, e3) := run_clauses exec default found cases 0%nat false st2 e in
        Def ((match o with OBreak => ONormal | _ => o end), s3, skipn (length e3 - length e) e3)
    | SBreak _ => Def (OBreak, st, e)
    | SReturn None => Def (OReturn VVoid, st, e)
    | SReturn (Some x) => let? (v, st1) := eval st e x in Def (OReturn v, st1, e)
    end.

  (* a binding: an expression, or a block whose value is what it returns *)
  Definition run_binding (st : state) (target : string) (body : callback) : res val :=
    match body with
    | CStmt (SExpr x) => let? (v, _) := eval st [] x in coerce target v
    | CStmt s => let? (o, _, _) := exec st [] s in match o with OReturn v => coerce target v | _ => Stuck "no value returned" end
    | CFunc _ => Stuck "function as a binding"
    end.

  (* a handler: statements run for their effects; parameters bound to the leading signal arguments *)
  Definition run_handler (st : state) (body : callback) (args : list val) : res state :=
    match body with
    | CStmt s => let? (_, st1, _) := exec st [] s in Def st1
    | CFunc f =>
        let e0 := rev (combine (map fst (f_params f)) (map Some (firstn (length (f_params f)) args))) in
        match f_body f with
        | FStmt s => let? (_, st1, _) := exec st e0 s in Def st1
        | FExpr x => let? (_, st1) := eval st e0 x in Def st1
        end
    end.
End Eval.

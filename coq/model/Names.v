(* Names.v -- model of lib/src/qtname.rs (variable_name_for_type, UniqueNameGenerator with the issued-names set,
   concat_number_suffix) and of ObjectTree::{update_id_map, ensure_object_names} in lib/src/objtree.rs.
   Strings are byte strings (UTF-8).  No proofs here. *)
From QV Require Import model.Base.
From Coq Require Import DecimalString Arith.

Definition is_upper (c : ascii) : bool := let n := N_of_ascii c in (N.leb 65 n && N.leb n 90)%bool.
Definition is_alpha (c : ascii) : bool := let n := N_of_ascii c in ((N.leb 65 n && N.leb n 90) || (N.leb 97 n && N.leb n 122))%bool.

(* the loop of variable_name_for_type: lower-case up to and including the first character that is not an ASCII capital *)
Fixpoint lower_prefix (s : string) : string :=
  match s with
  | EmptyString => EmptyString
  | String c r => if is_upper c then String (ascii_lower c) (lower_prefix r) else String (ascii_lower c) r
  end.
Definition variable_name_for_type (t : string) : string :=
  match t with
  | String c (String d r) =>
      if (Ascii.eqb c "Q" || Ascii.eqb c "K") && is_alpha d then lower_prefix (String d r) else lower_prefix t
  | _ => lower_prefix t
  end.

Definition dec (n : nat) : string := NilEmpty.string_of_uint (Nat.to_uint n).
Definition concat_number_suffix (prefix : string) (n : nat) : string :=
  match n with O => prefix | _ => prefix ++ dec n end.

Fixpoint smem (x : string) (l : list string) : bool :=
  match l with [] => false | y :: r => String.eqb x y || smem x r end.

Record namegen := { used_prefixes : list (string * nat); used_names : list string }.
Definition namegen0 := {| used_prefixes := []; used_names := [] |}.

(* the unbounded search `(count..).find(..)`, on fuel *)
Fixpoint find_free (fuel : nat) (prefix : string) (n : nat) (taken : string -> bool) : option (nat * string) :=
  match fuel with
  | O => None
  | S k => let id := concat_number_suffix prefix n in
           if taken id then find_free k prefix (S n) taken else Some (n, id)
  end.

Fixpoint set_count (k : string) (v : nat) (m : list (string * nat)) : list (string * nat) :=
  match m with
  | [] => [(k, v)]
  | (k', v') :: r => if String.eqb k k' then (k, v) :: r else (k', v') :: set_count k v r
  end.

Definition generate_with_reserved (g : namegen) (prefix : string) (reserved : list string) : res (string * namegen) :=
  let count := match assoc prefix (used_prefixes g) with Some c => c | None => 0 end in
  match find_free (S (List.length reserved + List.length (used_names g))) prefix count
                  (fun id => smem id reserved || smem id (used_names g)) with
  | None => OutOfFuel
  | Some (n, id) => Ok (id, {| used_prefixes := set_count prefix (S n) (used_prefixes g); used_names := id :: used_names g |})
  end.
Definition generate (g : namegen) (prefix : string) : res (string * namegen) := generate_with_reserved g prefix [].

(* ---- object tree: nodes in flat (post-)order as (class name, optional id) ---- *)
Definition onode := (string * option string)%type.
Fixpoint ids_of (nodes : list onode) : list string :=
  match nodes with [] => [] | (_, Some i) :: r => i :: ids_of r | (_, None) :: r => ids_of r end.

(* update_id_map: one "duplicated object id" diagnostic per node whose id was seen before *)
Fixpoint dup_ids (seen : list string) (nodes : list onode) : list string :=
  match nodes with
  | [] => []
  | (_, Some i) :: r => if smem i seen then i :: dup_ids seen r else dup_ids (i :: seen) r
  | (_, None) :: r => dup_ids seen r
  end.

Fixpoint name_nodes_go (g : namegen) (reserved : list string) (nodes : list onode) : res (list string) :=
  match nodes with
  | [] => Ok []
  | (_, Some i) :: r => do rest <- name_nodes_go g reserved r; Ok (i :: rest)
  | (c, None) :: r =>
      do x <- generate_with_reserved g (variable_name_for_type c) reserved;
      do rest <- name_nodes_go (snd x) reserved r; Ok (fst x :: rest)
  end.
Definition name_nodes (nodes : list onode) : res (list string) := name_nodes_go namegen0 (ids_of nodes) nodes.

(* case function: class names and ids as byte lists *)
Definition names_case (nodes : list (list N * option (list N))) : res (list (list N)) * list (list N) :=
  let ns := map (fun n => (string_of_bytes (fst n), option_map string_of_bytes (snd n))) nodes in
  (match name_nodes ns with Ok l => Ok (map bytes_of_string l) | Err e => Err e | Panic s => Panic s | OutOfFuel => OutOfFuel end,
   map bytes_of_string (dup_ids [] ns)).

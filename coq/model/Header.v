(* Header.v -- model of the self-consistency relevant parts of lib/src/uigen/binding.rs: function-name generation
   (UiSupportCode::build: prefix = Capitalized object name + Capitalized property/signal name, made unique by
   UniqueNameGenerator::generate), the binding index enum, the re-entrancy guard (bindingGuard_[div_ceil(n, 32)], bit index & 31 of
   word index >> 5), and the spelling of string literals (after the repair of F9: format_cxx_string_literal). *)
From QV Require Import model.Base model.Names.
Open Scope string_scope.
Open Scope list_scope.

(* ---- names ---- *)
Fixpoint gen_names (g : namegen) (prefixes : list string) : res (list string) :=
  match prefixes with
  | [] => Ok []
  | p :: r => do x <- generate g p; do l <- gen_names (snd x) r; Ok (fst x :: l)
  end.
(* bindings first (objects in flat order, properties sorted), then per gadget its members, callbacks: all through ONE generator *)
Definition function_suffixes (prefixes : list string) : res (list string) := gen_names namegen0 prefixes.
Definition function_names (suffix : string) : list string := [("setup" ++ suffix)%string; ("update" ++ suffix)%string; ("eval" ++ suffix)%string].

(* ---- index and guard ---- *)
Definition guard_words (n : nat) : nat := (n + 31) / 32.           (* usize::div_ceil(32) *)
Definition guard_word (index : nat) : nat := index / 32.            (* index >> 5 *)
Definition guard_bit (index : nat) : nat := index mod 32.           (* index & 0x1f *)
Definition binding_indices (n : nat) : list nat := seq 0 n.

Open Scope N_scope.
(* ---- string literals: what binding.rs writes between the quotes, and what a C++17 lexer reads back (char16_t string) ---- *)
Notation text := (list N).     (* Unicode scalar values *)
Definition hex_digit (n : N) : N := if N.ltb n 10 then 48 + n else 87 + n.
Definition oct3 (c : N) : text := [48 + (c / 64) mod 8; 48 + (c / 8) mod 8; 48 + c mod 8].
Definition hex4 (c : N) : text := [hex_digit ((c / 4096) mod 16); hex_digit ((c / 256) mod 16); hex_digit ((c / 16) mod 16); hex_digit (c mod 16)].
Definition hex8 (c : N) : text := hex4 (c / 65536) ++ hex4 (c mod 65536).
(* the repaired speller: printable ASCII as is (quote and backslash escaped), named escapes for \n \t \r, three octal digits below
   0x20 and for DEL (never followed ambiguously: always three digits), universal character names from 0xa0 on *)
Definition spell_char (c : N) : text :=
  if N.eqb c 34 then [92; 34] else if N.eqb c 92 then [92; 92]
  else if N.eqb c 10 then [92; 110] else if N.eqb c 9 then [92; 116] else if N.eqb c 13 then [92; 114]
  else if N.ltb c 32 || N.eqb c 127 then 92 :: oct3 c
  else if N.ltb c 127 then [c]
  else if N.ltb c 160 then 92 :: oct3 c
  else if N.ltb c 65536 then 92 :: 117 :: hex4 c
  else 92 :: 85 :: hex8 c.
Definition spell (s : text) : text := flat_map spell_char s.

(* a C++17 lexer on the inside of a string literal ([lex.ccon], [lex.charset]); None = ill-formed *)
Definition is_oct (c : N) : bool := N.leb 48 c && N.leb c 55.
Definition hexval (c : N) : option N :=
  if N.leb 48 c && N.leb c 57 then Some (c - 48) else if N.leb 97 c && N.leb c 102 then Some (c - 87) else if N.leb 65 c && N.leb c 70 then Some (c - 55) else None.
Fixpoint hexn (n : nat) (l : text) (acc : N) : option (N * text) :=
  match n with
  | O => Some (acc, l)
  | S k => match l with [] => None | c :: r => match hexval c with Some v => hexn k r (acc * 16 + v) | None => None end end
  end.
Definition ucn_ok (v : N) : bool := (N.leb 160 v || N.eqb v 36 || N.eqb v 64 || N.eqb v 96) && negb (N.leb 55296 v && N.leb v 57343) && N.leb v 1114111.
Fixpoint lex (fuel : nat) (l : text) : option text :=
  match fuel with
  | O => None
  | S f =>
      match l with
      | [] => Some []
      | c :: r =>
          if N.eqb c 92 then
            match r with
            | [] => None
            | e :: r1 =>
                if is_oct e then
                  match r1 with
                  | o2 :: r2 => if is_oct o2 then
                                  match r2 with
                                  | o3 :: r3 => if is_oct o3 then option_map (cons ((e - 48) * 64 + (o2 - 48) * 8 + (o3 - 48))) (lex f r3)
                                                else option_map (cons ((e - 48) * 8 + (o2 - 48))) (lex f r2)
                                  | [] => Some [(e - 48) * 8 + (o2 - 48)]
                                  end
                                else option_map (cons (e - 48)) (lex f r1)
                  | [] => Some [e - 48]
                  end
                else if N.eqb e 117 then match hexn 4%nat r1 0 with Some (v, r') => if ucn_ok v then option_map (cons v) (lex f r') else None | None => None end
                else if N.eqb e 85 then match hexn 8%nat r1 0 with Some (v, r') => if ucn_ok v then option_map (cons v) (lex f r') else None | None => None end
                else if N.eqb e 110 then option_map (cons 10) (lex f r1) else if N.eqb e 116 then option_map (cons 9) (lex f r1)
                else if N.eqb e 114 then option_map (cons 13) (lex f r1) else if N.eqb e 34 then option_map (cons 34) (lex f r1)
                else if N.eqb e 92 then option_map (cons 92) (lex f r1) else if N.eqb e 39 then option_map (cons 39) (lex f r1)
                else None
            end
          else if N.eqb c 34 || N.eqb c 10 then None else option_map (cons c) (lex f r)
      end
  end.
Definition read_literal (l : text) : option text := lex (S (List.length l)) l.

(* the previous speller: Rust's Debug formatting of str (escape_debug) -- kept to state what was wrong (F9) *)
Definition rust_debug_char (c : N) : text :=
  if N.eqb c 34 then [92; 34] else if N.eqb c 92 then [92; 92] else if N.eqb c 10 then [92; 110] else if N.eqb c 9 then [92; 116] else if N.eqb c 13 then [92; 114]
  else if N.eqb c 0 then [92; 48]
  else if N.ltb c 32 || N.eqb c 127 then [92; 117; 123] ++ (if N.ltb c 16 then [hex_digit c] else [hex_digit (c / 16); hex_digit (c mod 16)]) ++ [125]
  else [c].
Definition rust_debug (s : text) : text := flat_map rust_debug_char s.

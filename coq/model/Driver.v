(* Driver.v -- model of the loop of src/main.rs generate_ui over the source arguments: `for p in &args.sources { generate_ui_file(..)?; }`.
   Each source is either translated (its outputs are handed to the writer) or has error diagnostics (nothing of it is written and the `?` ends the run with
   a failure); the exit status is 0 exactly when the loop ran to its end. *)
From Coq Require Import List Bool.
Import ListNotations.

Section Driver.
  Variable out : Type.                       (* what is written for one translated source: its .ui and, in generate mode, its header *)

  Inductive verdict := Translated (o : out) | HasErrors.

  (* (written outputs in order, exit status 0?) *)
  Fixpoint run_sources (vs : list verdict) : list out * bool :=
    match vs with
    | [] => ([], true)
    | Translated o :: r => let '(w, ok) := run_sources r in (o :: w, ok)
    | HasErrors :: _ => ([], false)         (* `?`: the remaining sources are not even looked at *)
    end.

  Definition is_error (v : verdict) : bool := match v with HasErrors => true | _ => false end.
  Fixpoint outputs_before_first_error (vs : list verdict) : list out :=
    match vs with Translated o :: r => o :: outputs_before_first_error r | _ => [] end.
End Driver.
Arguments Translated {out} o.
Arguments HasErrors {out}.

(* Passes.v -- finalize_completion_values / resolve_return_type (tir/core.rs), the top-level build / build_callback
   (tir/builder.rs), analyze_code_property_dependency (tir/propdep.rs) and evaluate_code (tir/interpret.rs). *)
From QV Require Import model.Base model.Lang model.Types model.Tir model.Ceval model.Builder.
From Coq Require Import Arith.
Open Scope nat_scope.
Open Scope string_scope.
Open Scope list_scope.

(* ---------- finalize_completion_values ---------- *)
Fixpoint incoming_of (blocks : list block) (i : nat) (target : nat) : list nat :=
  match blocks with
  | [] => []
  | b :: r => (match b_term b with Some (TmBr l) => if Nat.eqb l target then [i] else [] | _ => [] end) ++ incoming_of r (S i) target
  end.
Definition cond_targets (blocks : list block) : list nat :=
  flat_map (fun b => match b_term b with Some (TmBrCond _ a c) => [a; c] | _ => [] end) blocks.
Definition br_targets_ok (blocks : list block) : bool :=
  forallb (fun b => match b_term b with
                    | Some (TmBr l) => Nat.ltb l (List.length blocks)
                    | Some (TmBrCond _ a c) => Nat.ltb a (List.length blocks) && Nat.ltb c (List.length blocks)
                    | _ => true end) blocks.

Definition set_term (b : block) (t : term) : block := {| b_stmts := b_stmts b; b_compl := None; b_term := Some t |}.

Fixpoint finalize_loop (fuel : nat) (reachable : nat -> bool) (blocks : list block) (to_visit : list nat) (taken : list nat)
  : res (list block) :=
  match fuel with
  | O => OutOfFuel
  | S k =>
      match rev to_visit with                  (* Vec::pop takes the last element *)
      | [] => Ok blocks
      | i :: rest_rev =>
          let rest := rev rest_rev in
          match nth_error blocks i with
          | None => Panic "core.rs finalize_completion_values: basic block index out of range"
          | Some b =>
              match b_term b with
              | Some (TmBr _) | None =>
                  match b_compl b with
                  | Some a => finalize_loop k reachable (update_nth blocks i (fun b => set_term b (TmReturn a))) rest taken
                  | None =>
                      (* a non-empty block keeps its incoming "br"s, so it can still be entered *)
                      let has_incoming := match incoming_of blocks 0 i with [] => false | _ => true end in
                      let nonempty := match b_stmts b with [] => false | _ => true end in
                      let t := if reachable i || (nonempty && has_incoming) then TmReturn OVoid else TmUnreachable in
                      let blocks' := update_nth blocks i (fun b => set_term b t) in
                      match b_stmts b with
                      | [] => let inc := if existsb (Nat.eqb i) taken then [] else incoming_of blocks 0 i in
                              finalize_loop k reachable blocks' (rest ++ inc) (i :: taken)
                      | _ => finalize_loop k reachable blocks' rest taken
                      end
                  end
              | _ => Panic "core.rs finalize_completion_values: assert!(matches!(b.terminator, Some(Br) | None))"
              end
          end
      end
  end.

Definition finalize_completion_values (blocks : list block) (start : nat) : res (list block) :=
  match nth_error blocks start with
  | None => Panic "core.rs finalize_completion_values: start block out of range"
  | Some sb =>
      match b_term sb with
      | Some _ => Panic "core.rs finalize_completion_values: assert!(start_block.terminator.is_none())"
      | None =>
          match b_compl sb with
          | Some a => Ok (update_nth blocks start (fun b => set_term b (TmReturn a)))
          | None =>
              if negb (br_targets_ok blocks) then Panic "core.rs finalize_completion_values: branch target out of range"
              else
                let ct := cond_targets blocks in
                let reachable := fun i => Nat.eqb i 0 || existsb (Nat.eqb i) ct in
                (* the incoming map is computed on the blocks BEFORE patching: only `br` terminators are collected *)
                finalize_loop (S (S (List.length blocks))) reachable blocks [start] []
          end
      end
  end.

(* ---------- build / build_callback ---------- *)
Record built := { bu_code : option code; bu_diags : list dclass; bu_panic : option string; bu_exempt : list nat }.

Definition finish (r : out sres * bstate) : built :=
  match r with
  | (P site, s) => {| bu_code := None; bu_diags := bs_diags s; bu_panic := Some site; bu_exempt := [] |}
  | (F, s) => {| bu_code := None; bu_diags := bs_diags s; bu_panic := None; bu_exempt := bs_exempt s |}
  | (V (false, _), s) => {| bu_code := None; bu_diags := bs_diags s; bu_panic := None; bu_exempt := bs_exempt s |}
  | (V (true, _), s) =>
      match finalize_completion_values (bs_blocks s) (List.length (bs_blocks s) - 1) with
      | Ok bl => {| bu_code := Some {| c_blocks := bl; c_locals := bs_locals s; c_nparams := bs_nparams s; c_sdeps := []; c_nobs := 0 |};
                    bu_diags := bs_diags s; bu_panic := None; bu_exempt := bs_exempt s |}
      | Panic site => {| bu_code := None; bu_diags := bs_diags s; bu_panic := Some site; bu_exempt := [] |}
      | _ => {| bu_code := None; bu_diags := bs_diags s; bu_panic := Some "OutOfFuel"; bu_exempt := [] |}
      end
  end.

Definition build (E : cenv) (s : stmt) : built := finish (walk_stmt E [] None s bstate0).

Fixpoint walk_params (E : cenv) (env : lenv) (params : list (string * option (list string))) : M (bool * lenv) :=
  match params with
  | [] => ret (true, env)
  | (name, ty) :: rest =>
      match lenv_get env name with
      | Some _ => let! _ := attempt (fail (A:=unit) XRedefinedParam) in
                  let! r := walk_params E env rest in ret (false, snd r)
      | None =>
          match ty with
          | Some path =>
              let! t := process_type_annotation E path in         (* `?`: returns from the whole function *)
              let! local := visit_function_parameter t in
              walk_params E ((name, (local, DLet)) :: env) rest
          | None => let! _ := attempt (fail (A:=unit) XParamNoType) in
                    let! r := walk_params E env rest in ret (false, snd r)
          end
      end
  end.

Definition walk_callback (E : cenv) (cb : callback) : M sres :=
  match cb with
  | CStmt s => walk_stmt E [] None s
  | CFunc f =>
      if f_named f then let! _ := attempt (fail (A:=unit) XNamedFunction) in sfail []
      else
        let! _ := (if f_return_ty f then warn XReturnTypeIgnored else ret tt) in
        let! pr := walk_params E [] (f_params f) in
        if negb (fst pr) then sfail (snd pr)
        else match f_body f with
             | FExpr e =>
                 let! v := attempt (walk_rvalue E (snd pr) e) in
                 match v with Some value => let! _ := visit_expression_statement value in ret (true, snd pr) | None => sfail (snd pr) end
             | FStmt s => walk_stmt E (snd pr) None s
             end
  end.
Definition build_callback (E : cenv) (cb : callback) : built := finish (walk_callback E cb bstate0).

(* ---------- resolve_return_type ---------- *)
Definition return_operands (c : code) : list operand :=
  flat_map (fun b => match b_term b with Some (TmReturn a) => [a] | _ => [] end) (c_blocks c).
Fixpoint deduce_all (E : cenv) (known : tdesc) (rest : list operand) : option tdesc :=
  match rest with
  | [] => Some known
  | a :: r => match deduce_type E known (operand_tdesc a) with inl t => deduce_all E t r | inr _ => None end
  end.
Definition resolve_return_type (E : cenv) (c : code) : option tdesc :=
  match return_operands c with
  | [] => Some (DConcrete T_VOID)
  | first :: rest => deduce_all E (operand_tdesc first) rest
  end.

(* ---------- propdep ---------- *)
(* Property::notify_signal / find_notify_signal *)
Fixpoint best_signal (value_type : tkind) (ms : list minfo) (best : option minfo) : option minfo :=
  match ms with
  | [] => best
  | m :: r =>
      let skip := match best with Some k => Nat.leb (List.length (mi_args m)) (List.length (mi_args k)) | None => false end in
      if skip then best_signal value_type r best
      else if match mi_args m with [] => true | t0 :: _ => tkind_eqb t0 value_type end
           then best_signal value_type r (Some m) else best_signal value_type r best
  end.
Inductive notify_res := NoNotify | NotifyErr | Notify (m : mref).
Definition notify_signal (E : cenv) (p : pref) : notify_res :=
  match pi_notify (pr_info p) with
  | None => NoNotify
  | Some name =>
      match get_methods E (pr_class p) name with
      | None => NotifyErr
      | Some (dc, ms) =>
          match best_signal (pi_type (pr_info p)) (filter (fun m => match mi_kind m with MSignal => true | _ => false end) ms) None with
          | Some m => Notify {| mr_class := dc; mr_info := m |}
          | None => NotifyErr
          end
      end
  end.

Inductive pdiag := PUnobservable | PTypeResolution.

Definition set_nth_opt {A} (l : list (option A)) (i : nat) (v : option A) : list (option A) := update_nth l i (fun _ => v).

(* one block: returns (static deps, list of (line, local, signal), diagnostics) or a panic *)
Fixpoint analyze_stmts (E : cenv) (stmts : list tstmt) (line : nat) (known : list (option string))
  : res (list (string * mref) * list (nat * nat * mref) * list pdiag) :=
  match stmts with
  | [] => Ok ([], [], [])
  | st :: rest =>
      let rv := match st with TAssign _ r | TExec r => Some r | TObserve _ _ _ => None end in
      let here : res (list (string * mref) * list (nat * nat * mref) * list pdiag) :=
        match rv with
        | Some (RReadProp a p) =>
            if tdesc_is_pointer (operand_tdesc a) && negb (pi_constant (pr_info p)) then
              match notify_signal E p with
              | Notify sig =>
                  match a with
                  | ONamed x _ => Ok ([(x, sig)], [], [])
                  | OLocal l _ => match nth l known None with
                                  | Some n => Ok ([(n, sig)], [], [])
                                  | None => Ok ([], [(line, l, sig)], [])
                                  end
                  | _ => Panic "propdep.rs: invald read_property"
                  end
              | NoNotify => Ok ([], [], [PUnobservable])
              | NotifyErr => Ok ([], [], [PTypeResolution])
              end
            else Ok ([], [], [])
        | _ => Ok ([], [], [])
        end in
      let known' :=
        match st with
        | TAssign l r =>
            set_nth_opt known l (match r with
                                 | RCopy (OLocal x _) => nth x known None
                                 | RCopy (ONamed x _) => Some x
                                 | _ => None
                                 end)
        | _ => known
        end in
      do h <- here;
      do t <- analyze_stmts E rest (S line) known';
      Ok (fst (fst h) ++ fst (fst t), snd (fst h) ++ snd (fst t), snd h ++ snd t)
  end.

(* insert the ObserveProperty statements: the k-th observation of the block gets handle first_handle + k and is
   inserted BEFORE its line *)
Fixpoint insert_observes (stmts : list tstmt) (line : nat) (obs : list (nat * nat * mref)) (h : nat) : list tstmt :=
  match stmts with
  | [] => []
  | st :: rest =>
      let here := filter (fun o => Nat.eqb (fst (fst o)) line) obs in
      let later := filter (fun o => negb (Nat.eqb (fst (fst o)) line)) obs in
      (fix emit (l : list (nat * nat * mref)) (k : nat) : list tstmt :=
         match l with [] => [] | o :: r => TObserve k (snd (fst o)) (snd o) :: emit r (S k) end) here h
      ++ st :: insert_observes rest (S line) later (h + List.length here)
  end.

Fixpoint analyze_blocks (E : cenv) (nlocals : nat) (blocks : list block) (nobs : nat)
  : res (list block * list (string * mref) * nat * list pdiag) :=
  match blocks with
  | [] => Ok ([], [], nobs, [])
  | b :: rest =>
      do a <- analyze_stmts E (b_stmts b) 0 (repeat None nlocals);
      let '(deps, obs, ds) := a in
      let b' := {| b_stmts := insert_observes (b_stmts b) 0 obs nobs; b_compl := b_compl b; b_term := b_term b |} in
      do r <- analyze_blocks E nlocals rest (nobs + List.length obs);
      let '(bl, deps2, n2, ds2) := r in
      Ok (b' :: bl, deps ++ deps2, n2, ds ++ ds2)
  end.

Definition analyze_code_property_dependency (E : cenv) (c : code) : res (code * list pdiag) :=
  do r <- analyze_blocks E (List.length (c_locals c)) (c_blocks c) (c_nobs c);
  let '(bl, deps, n, ds) := r in
  Ok ({| c_blocks := bl; c_locals := c_locals c; c_nparams := c_nparams c; c_sdeps := c_sdeps c ++ deps; c_nobs := n |}, ds).

(* ---------- interpret ---------- *)
Inductive strkind := SkNoTr | SkTr.
Inductive evalue :=
| EvBool (b : bool) | EvInt (z : Z) | EvFloat (bits : N) | EvString (s : text) (k : strkind)
| EvStringList (l : list (text * strkind)) | EvEnumSet (l : list (nat * string)) | EvObjectRef (n : string)
| EvObjectRefList (l : list string) | EvEmptyList.

Definition to_evaluated_value (locals : list (option evalue)) (a : operand) (k : strkind) : res (option evalue) :=
  match a with
  | OConst (CBool v) => Ok (Some (EvBool v))
  | OConst (CInt v) => Ok (Some (EvInt v))
  | OConst (CFloat v) => Ok (Some (EvFloat v))
  | OConst (CCString v) | OConst (CQString v) => Ok (Some (EvString v k))
  | OConst CNull => Ok None
  | OConst CEmptyList => Ok (Some EvEmptyList)
  | OEnum e v => Ok (Some (EvEnumSet [(e, v)]))
  | OLocal l _ => match nth_error locals l with Some v => Ok v | None => Panic "interpret.rs: locals index out of range" end
  | ONamed n _ => Ok (Some (EvObjectRef n))
  | OVoid => Ok None
  end.

Fixpoint eval_all (locals : list (option evalue)) (args : list operand) : res (list (option evalue)) :=
  match args with
  | [] => Ok []
  | a :: r => do v <- to_evaluated_value locals a SkNoTr; do rest <- eval_all locals r; Ok (v :: rest)
  end.
Fixpoint all_strings (l : list (option evalue)) : option (list (text * strkind)) :=
  match l with
  | [] => Some []
  | Some (EvString s k) :: r => option_map (cons (s, k)) (all_strings r)
  | _ => None
  end.
Fixpoint all_objrefs (l : list (option evalue)) : option (list string) :=
  match l with
  | [] => Some []
  | Some (EvObjectRef s) :: r => option_map (cons s) (all_objrefs r)
  | _ => None
  end.
(* note: the Rust iterator is lazy -- items after the first mismatch are not evaluated, so a later out-of-range
   local cannot panic; locals indices are always in range for built code, which is what eval_all assumes *)
Definition to_evaluated_list (locals : list (option evalue)) (args : list operand) : res (option evalue) :=
  do vs <- eval_all locals args;
  match vs with
  | Some (EvString _ _) :: _ => Ok (option_map EvStringList (all_strings vs))
  | Some (EvObjectRef _) :: _ => Ok (option_map EvObjectRefList (all_objrefs vs))
  | _ => Ok None
  end.

Definition is_menu_action (E : cenv) (m : mref) : bool :=
  match get_class E (mr_class m) with
  | Some ci => String.eqb (ci_name ci) "QMenu" && String.eqb (mi_name (mr_info m)) "menuAction"
               && Nat.eqb (List.length (mi_args (mr_info m))) 0
               && match mi_ret (mr_info m) with
                  | TPointer (NClass c) => match get_class E c with Some rc => String.eqb (ci_name rc) "QAction" | None => false end
                  | _ => false end
  | None => false
  end.

Inductive stmt_res := SrContinue (locals : list (option evalue)) | SrNone.
Fixpoint eval_stmts (E : cenv) (stmts : list tstmt) (locals : list (option evalue)) : res stmt_res :=
  match stmts with
  | [] => Ok (SrContinue locals)
  | TAssign l r :: rest =>
      do v <- (match r with
               | RCopy a => do x <- to_evaluated_value locals a SkNoTr; Ok (Some x)
               | RBinary BoOr a b =>
                   do x <- to_evaluated_value locals a SkNoTr;
                   match x with
                   | None => Ok (Some None)
                   | Some xv =>
                       do y <- to_evaluated_value locals b SkNoTr;
                       match y with
                       | None => Ok (Some None)
                       | Some yv => match xv, yv with
                                    | EvEnumSet ls, EvEnumSet rs => Ok (Some (Some (EvEnumSet (ls ++ rs))))
                                    | _, _ => Ok (Some None)
                                    end
                       end
                   end
               | RBuiltin BfTr (a :: _) => do x <- to_evaluated_value locals a SkTr; Ok (Some x)
               | RBuiltin BfTr [] => Panic "interpret.rs: args[0]"
               | RCallMethod (ONamed x _) m _ => if is_menu_action E m then Ok (Some (Some (EvObjectRef x))) else Ok None
               | RMakeList _ args => do x <- to_evaluated_list locals args; Ok (Some x)
               | _ => Ok None
               end);
      match v with
      | None => Ok SrNone
      | Some x => if Nat.ltb l (List.length locals) then eval_stmts E rest (update_nth locals l (fun _ => x))
                  else Panic "interpret.rs: locals[l.0] out of range"
      end
  | TExec (RWriteSub _ _ _) :: _ => Ok SrNone     (* an element write to a value tracked in locals: no static value (fix F25) *)
  | _ :: rest => eval_stmts E rest locals
  end.

Fixpoint eval_blocks (E : cenv) (fuel : nat) (c : code) (r : nat) (visited : list nat) (locals : list (option evalue)) : res (option evalue) :=
  match fuel with
  | O => OutOfFuel
  | S k =>
      if existsb (Nat.eqb r) visited then Ok None
      else match nth_error (c_blocks c) r with
           | None => Panic "interpret.rs: basic block index out of range"
           | Some b =>
               do sr <- eval_stmts E (b_stmts b) locals;
               match sr with
               | SrNone => Ok None
               | SrContinue locals' =>
                   match b_term b with
                   | Some (TmBr t) => eval_blocks E k c t (r :: visited) locals'
                   | Some (TmBrCond _ _ _) => Ok None
                   | Some (TmReturn a) => to_evaluated_value locals' a SkNoTr
                   | Some TmUnreachable => Panic "interpret.rs: unreachable!()"
                   | None => Panic "core.rs terminator(): terminator must have been set by builder"
                   end
               end
           end
  end.

Definition evaluate_code (E : cenv) (c : code) : res (option evalue) :=
  match c_blocks c with
  | [] => Panic "interpret.rs: basic_blocks[0]"
  | b0 :: _ =>
      match b_term b0 with
      | None => Panic "core.rs terminator(): terminator must have been set by builder"
      | Some (TmReturn (OConst k)) => to_evaluated_value [] (OConst k) SkNoTr
      | _ => eval_blocks E (S (List.length (c_blocks c))) c 0 [] (repeat None (List.length (c_locals c)))
      end
  end.

(* Overload.v -- model of lib/src/uigen/objcode.rs uniquify_methods: the metatype entries found for one method name are either one
   function with default arguments (every entry extends the previous one by trailing arguments; the entry carrying the most
   arguments is the function as declared) or a genuine overload set (no answer: "cannot bind to overloaded signal"). *)
From Coq Require Import List String NArith Bool Arith.
Import ListNotations.
Open Scope list_scope.

Record msig := { m_kind : N (* 0 signal, 1 slot, 2 method *); m_ret : string; m_args : list string }.

Fixpoint prefixb (a b : list string) : bool :=
  match a, b with
  | [], _ => true
  | x :: a', y :: b' => String.eqb x y && prefixb a' b'
  | _ :: _, [] => false
  end.

(* known.kind() == m.kind() && known.return_type() == m.return_type() && m.argument_types().starts_with(known.argument_types()) *)
Definition extends (known m : msig) : bool :=
  N.eqb (m_kind known) (m_kind m) && String.eqb (m_ret known) (m_ret m) && prefixb (m_args known) (m_args m).

Definition arity (m : msig) : nat := List.length (m_args m).

(* meths.sort_by_key(|m| -(m.arguments_len())): stable, most arguments first *)
Fixpoint insert (x : msig) (l : list msig) : list msig :=
  match l with
  | [] => [x]
  | y :: r => if Nat.leb (arity y) (arity x) then x :: l else y :: insert x r
  end.
Fixpoint sort_desc (l : list msig) : list msig :=
  match l with [] => [] | x :: r => insert x (sort_desc r) end.

(* let mut known = meths.pop(); while let Some(m) = meths.pop() { if extends { known = m } else { return None } } *)
Fixpoint chain (known : msig) (l : list msig) : option msig :=
  match l with
  | [] => Some known
  | m :: r => if extends known m then chain m r else None
  end.

Definition uniquify (ms : list msig) : option msig :=
  match rev (sort_desc ms) with
  | [] => None            (* "method matches should not be empty": MethodMatches::Overloaded holds at least two *)
  | k :: r => chain k r
  end.

(* what the caller (build_properties_callbacks) does with the answer *)
Inductive verdict := VAmbiguous | VNotSignal | VConnect (args : list string).
Definition callback_verdict (ms : list msig) : verdict :=
  match ms with
  | [m] => if N.eqb (m_kind m) 0 then VConnect (m_args m) else VNotSignal          (* MethodMatches::Unique *)
  | _ => match uniquify ms with
         | None => VAmbiguous
         | Some m => if N.eqb (m_kind m) 0 then VConnect (m_args m) else VNotSignal
         end
  end.

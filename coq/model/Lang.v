(* Lang.v -- AST of the supported QML/JS subset, as produced by lib/src/qmlast/{expr,stmt}.rs from the tree-sitter
   CST (parenthesised expressions are transparent there).  Text is a list of Unicode scalar values. *)
From QV Require Import model.Base.

Notation text := (list N) (only parsing).

Inductive uop := UNot | UBitNot | UMinus | UPlus | UTypeof | UVoid | UDelete.
Inductive bop :=
| BLAnd | BLOr | BShr | BUShr | BShl | BAnd | BXor | BOr
| BAdd | BSub | BMul | BDiv | BRem | BExp
| BEq | BSEq | BNe | BSNe | BLt | BLe | BGt | BGe
| BNullish | BInstanceof | BIn.

Inductive expr :=
| EIdent (x : string)
| EThis
| EInt (n : N)                 (* u64 value of the literal *)
| EFloat (bits : N)            (* binary64 bit pattern of the literal (decimal->binary is Rust std, trusted) *)
| EStr (s : text)
| EBool (b : bool)
| ENull
| EArray (es : list expr)
| EFunction                    (* function / arrow function used as a value: unsupported *)
| EMember (o : expr) (p : string)
| ESubscript (o i : expr)
| ECall (f : expr) (args : list expr)
| EAssign (l r : expr)
| EUnary (op : uop) (a : expr)
| EBinary (op : bop) (l r : expr)
| EAs (v : expr) (ty : list string)
| ETernary (c a b : expr).

Inductive decl_kind := DLet | DConst.

Inductive stmt :=
| SExpr (e : expr)
| SBlock (ss : list stmt)
| SDecl (k : decl_kind) (vars : list (string * option (list string) * option expr))
| SIf (c : expr) (t : stmt) (e : option stmt)
| SSwitch (v : expr) (cases : list (expr * list stmt)) (default : option (nat * list stmt))
| SBreak (labeled : bool)
| SReturn (e : option expr).

(* a signal handler: either a plain statement, or a bare function with typed parameters *)
Inductive fbody := FExpr (e : expr) | FStmt (s : stmt).
Record func := { f_named : bool; f_return_ty : bool; f_params : list (string * option (list string)); f_body : fbody }.
Inductive callback := CStmt (s : stmt) | CFunc (f : func).

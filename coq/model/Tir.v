(* Tir.v -- model of lib/src/tir/core.rs: CodeBody, basic blocks, statements, terminators, operands.
   Byte ranges are not modelled (diagnostics are compared by message class, the IR modulo ranges). *)
From QV Require Import model.Base model.Lang model.Types.

Inductive constv :=
| CBool (b : bool) | CInt (z : Z) (* i64 *) | CFloat (bits : N) | CCString (s : text) | CQString (s : text)
| CNull | CEmptyList.

Inductive operand :=
| OConst (c : constv)
| OEnum (e : nat) (variant : string)
| OLocal (l : nat) (t : tkind)
| ONamed (name : string) (cls : nat)
| OVoid.

Inductive unop := UoArithMinus | UoArithPlus | UoBitNot | UoLogNot.
Inductive binop :=
| BoAdd | BoSub | BoMul | BoDiv | BoRem
| BoAnd | BoXor | BoOr
| BoShr | BoShl
| BoLAnd | BoLOr
| BoEq | BoNe | BoLt | BoLe | BoGt | BoGe.
Inductive loglevel := LLog | LDebug | LInfo | LWarn | LError.
Inductive builtin := BfConsole (l : loglevel) | BfMax | BfMin | BfTr.

(* a method / property is identified by its declaring class and its declaration *)
Record mref := { mr_class : nat; mr_info : minfo }.
Record pref := { pr_class : nat; pr_info : pinfo }.

Inductive rvalue :=
| RCopy (a : operand)
| RUnary (op : unop) (a : operand)
| RBinary (op : binop) (l r : operand)
| RStaticCast (t : tkind) (a : operand)
| RVariantCast (t : tkind) (a : operand)
| RBuiltin (f : builtin) (args : list operand)
| RCallMethod (obj : operand) (m : mref) (args : list operand)
| RReadProp (obj : operand) (p : pref)
| RWriteProp (obj : operand) (p : pref) (v : operand)
| RReadSub (obj i : operand)
| RWriteSub (obj i v : operand)
| RMakeList (t : tkind) (args : list operand).

Inductive tstmt :=
| TAssign (l : nat) (r : rvalue)
| TExec (r : rvalue)
| TObserve (h : nat) (l : nat) (sig : mref).

Inductive term :=
| TmBr (b : nat)
| TmBrCond (c : operand) (t f : nat)
| TmReturn (a : operand)
| TmUnreachable.

Record block := { b_stmts : list tstmt; b_compl : option operand; b_term : option term }.
Definition block0 := {| b_stmts := []; b_compl := None; b_term := None |}.

Record code := {
  c_blocks : list block;
  c_locals : list tkind;
  c_nparams : nat;
  c_sdeps : list (string * mref);
  c_nobs : nat }.

Definition const_tdesc (c : constv) : tdesc :=
  match c with
  | CBool _ => DConcrete T_BOOL
  | CInt _ => DConstInteger
  | CFloat _ => DConcrete T_DOUBLE
  | CCString _ => DConstString
  | CQString _ => DConcrete T_STRING
  | CNull => DNullPointer
  | CEmptyList => DEmptyList
  end.
Definition operand_tdesc (a : operand) : tdesc :=
  match a with
  | OConst c => const_tdesc c
  | OEnum e _ => DConcrete (TJust (NEnum e))
  | OLocal _ t => DConcrete t
  | ONamed _ c => DConcrete (TPointer (NClass c))
  | OVoid => DConcrete T_VOID
  end.

(* ---- canonical token stream (compared with the harness' dump of the real CodeBody) ---- *)
Definition tk_str (s : string) : list Z := Z.of_nat (String.length s) :: map (fun b => Z.of_N b) (bytes_of_string s).
Definition tk_text (s : text) : list Z := Z.of_nat (List.length s) :: map Z.of_N s.
Definition tk_prim (p : prim) : Z :=
  match p with PBool => 0 | PDouble => 1 | PInt => 2 | PQString => 3 | PQVariant => 4 | PUint => 5 | PVoid => 6 end%Z.
Definition tk_named (n : named) : list Z :=
  match n with NClass c => [0; Z.of_nat c] | NEnum e => [1; Z.of_nat e] | NPrim p => [2; tk_prim p] end%Z.
Fixpoint tk_tkind (t : tkind) : list Z :=
  match t with TJust n => 0%Z :: tk_named n | TPointer n => 1%Z :: tk_named n | TList t => 2%Z :: tk_tkind t end.
Definition tk_const (c : constv) : list Z :=
  match c with
  | CBool b => [0; if b then 1 else 0]
  | CInt z => [1; z]
  | CFloat bits => [2; Z.of_N bits]
  | CCString s => 3 :: tk_text s
  | CQString s => 4 :: tk_text s
  | CNull => [5]
  | CEmptyList => [6]
  end%Z.
Definition tk_operand (a : operand) : list Z :=
  match a with
  | OConst c => 10 :: tk_const c
  | OEnum e v => 11 :: Z.of_nat e :: tk_str v
  | OLocal l t => 12 :: Z.of_nat l :: tk_tkind t
  | ONamed n c => 13 :: Z.of_nat c :: tk_str n
  | OVoid => [14]
  end%Z.
Definition tk_unop (o : unop) : Z := match o with UoArithMinus => 0 | UoArithPlus => 1 | UoBitNot => 2 | UoLogNot => 3 end%Z.
Definition tk_binop (o : binop) : Z :=
  match o with
  | BoAdd => 0 | BoSub => 1 | BoMul => 2 | BoDiv => 3 | BoRem => 4 | BoAnd => 5 | BoXor => 6 | BoOr => 7
  | BoShr => 8 | BoShl => 9 | BoLAnd => 10 | BoLOr => 11 | BoEq => 12 | BoNe => 13 | BoLt => 14 | BoLe => 15 | BoGt => 16 | BoGe => 17
  end%Z.
Definition tk_builtin (f : builtin) : list Z :=
  match f with
  | BfConsole LLog => [0; 0] | BfConsole LDebug => [0; 1] | BfConsole LInfo => [0; 2] | BfConsole LWarn => [0; 3] | BfConsole LError => [0; 4]
  | BfMax => [1] | BfMin => [2] | BfTr => [3]
  end%Z.
Definition tk_mkind (k : mkind) : Z := match k with MSignal => 0 | MSlot => 1 | MMethod => 2 end%Z.
Definition tk_mref (m : mref) : list Z :=
  Z.of_nat (mr_class m) :: tk_str (mi_name (mr_info m)) ++ [tk_mkind (mi_kind (mr_info m)); Z.of_nat (List.length (mi_args (mr_info m)))]
  ++ flat_map tk_tkind (mi_args (mr_info m)) ++ tk_tkind (mi_ret (mr_info m)).
Definition tk_pref (p : pref) : list Z := Z.of_nat (pr_class p) :: tk_str (pi_name (pr_info p)).
Definition tk_operands (l : list operand) : list Z := Z.of_nat (List.length l) :: flat_map tk_operand l.
Definition tk_rvalue (r : rvalue) : list Z :=
  match r with
  | RCopy a => 20 :: tk_operand a
  | RUnary o a => 21 :: tk_unop o :: tk_operand a
  | RBinary o l r => 22 :: tk_binop o :: tk_operand l ++ tk_operand r
  | RStaticCast t a => 23 :: tk_tkind t ++ tk_operand a
  | RVariantCast t a => 24 :: tk_tkind t ++ tk_operand a
  | RBuiltin f args => 25 :: tk_builtin f ++ tk_operands args
  | RCallMethod o m args => 26 :: tk_operand o ++ tk_mref m ++ tk_operands args
  | RReadProp o p => 27 :: tk_operand o ++ tk_pref p
  | RWriteProp o p v => 28 :: tk_operand o ++ tk_pref p ++ tk_operand v
  | RReadSub o i => 29 :: tk_operand o ++ tk_operand i
  | RWriteSub o i v => 30 :: tk_operand o ++ tk_operand i ++ tk_operand v
  | RMakeList t args => 31 :: tk_tkind t ++ tk_operands args
  end%Z.
Definition tk_stmt (s : tstmt) : list Z :=
  match s with
  | TAssign l r => 40 :: Z.of_nat l :: tk_rvalue r
  | TExec r => 41 :: tk_rvalue r
  | TObserve h l m => 42 :: Z.of_nat h :: Z.of_nat l :: tk_mref m
  end%Z.
Definition tk_term (t : option term) : list Z :=
  match t with
  | Some (TmBr b) => [50; Z.of_nat b]
  | Some (TmBrCond c t f) => 51 :: tk_operand c ++ [Z.of_nat t; Z.of_nat f]
  | Some (TmReturn a) => 52 :: tk_operand a
  | Some TmUnreachable => [53]
  | None => [54]
  end%Z.
Definition tk_block (b : block) : list Z :=
  60%Z :: Z.of_nat (List.length (b_stmts b)) :: flat_map tk_stmt (b_stmts b) ++ tk_term (b_term b).
Definition tk_code (c : code) : list Z :=
  (70 :: Z.of_nat (List.length (c_locals c)) :: flat_map tk_tkind (c_locals c))%Z
  ++ [Z.of_nat (c_nparams c); Z.of_nat (List.length (c_blocks c))] ++ flat_map tk_block (c_blocks c)
  ++ Z.of_nat (List.length (c_sdeps c)) :: flat_map (fun d => tk_str (fst d) ++ tk_mref (snd d)) (c_sdeps c)
  ++ [Z.of_nat (c_nobs c)].

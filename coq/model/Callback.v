(* Callback.v -- model of the two remaining steps that decide which signal an on<Signal> handler is wired to and with which parameters:
   lib/src/qtname.rs callback_to_signal_name / to_ascii_uncapitalized (handler name -> signal name, on UTF-8 bytes) and
   lib/src/uigen/objcode.rs verify_callback_parameter_type (declared parameters against the signal's argument types). *)
From Coq Require Import List String Ascii NArith Bool Arith.
From QV Require Import model.Base model.Types.
Import ListNotations.
Open Scope list_scope.

Definition is_ascii_upper (a : ascii) : bool := (Nat.leb 65 (nat_of_ascii a)) && (Nat.leb (nat_of_ascii a) 90).
Definition is_ascii_lower (a : ascii) : bool := (Nat.leb 97 (nat_of_ascii a)) && (Nat.leb (nat_of_ascii a) 122).
Definition to_lower (a : ascii) : ascii := if is_ascii_upper a then ascii_of_nat (nat_of_ascii a + 32) else a.
Definition to_upper (a : ascii) : ascii := if is_ascii_lower a then ascii_of_nat (nat_of_ascii a - 32) else a.

(* to_ascii_uncapitalized: the first byte, if an ASCII capital, is lowered; nothing else changes *)
Definition uncapitalized (s : string) : string :=
  match s with String c r => if is_ascii_upper c then String (to_lower c) r else s | EmptyString => s end.

(* name.starts_with("on") && name[2..].starts_with(|c| c.is_ascii_uppercase()) *)
Definition callback_to_signal_name (name : string) : option string :=
  match name with
  | String "o" (String "n" (String c r)) => if is_ascii_upper c then Some (uncapitalized (String c r)) else None
  | _ => None
  end.

(* the handler name of a signal *)
Definition handler_name (signal : string) : string :=
  match signal with String c r => String "o" (String "n" (String (to_upper c) r)) | EmptyString => "on"%string end.

(* ---- verify_callback_parameter_type ---- *)
Definition concrete_assignable (E : cenv) (expected actual : tkind) : bool :=
  match pick_concrete_type_cast E expected actual with CNoop | CImplicit => true | _ => false end.

Inductive pverdict := PTooMany | PIncompatible (positions : list nat) | POk.

Fixpoint bad_positions (E : cenv) (i : nat) (args params : list tkind) : list nat :=
  match args, params with
  | a :: args', p :: params' => if concrete_assignable E p a then bad_positions E (S i) args' params' else i :: bad_positions E (S i) args' params'
  | _, _ => []                                (* zip stops at the shorter list *)
  end.

Definition verify_params (E : cenv) (args params : list tkind) : pverdict :=
  if Nat.ltb (List.length args) (List.length params) then PTooMany
  else match bad_positions E 0 args params with [] => POk | l => PIncompatible l end.

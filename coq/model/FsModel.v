(* FsModel.v -- model of the file handling of src/main.rs: generate_ui (the path-component filter), generate_ui_file (output path
   computation with camino's with_file_name / join, compare-then-write) and with_output_file (temp file in the target directory,
   then persist = rename).  Paths are camino component lists; the file system is a finite map from paths to contents. *)
From QV Require Import model.Base.
Open Scope string_scope.
Open Scope list_scope.

Inductive comp := Normal (s : string) | CurDir | ParentDir | RootDir.
Notation path := (list comp).

Definition comp_eqb (a b : comp) : bool :=
  match a, b with Normal x, Normal y => String.eqb x y | CurDir, CurDir | ParentDir, ParentDir | RootDir, RootDir => true | _, _ => false end.
Fixpoint path_eqb (a b : path) : bool :=
  match a, b with [], [] => true | x :: r, y :: s => comp_eqb x y && path_eqb r s | _, _ => false end.

Definition is_absolute (p : path) : bool := match p with RootDir :: _ => true | _ => false end.
(* Utf8Path::join: an absolute argument replaces the base *)
Definition join (d p : path) : path := if is_absolute p then p else d ++ p.
(* Utf8Path::with_file_name: the last component is replaced when it is a normal one, otherwise the name is pushed *)
Definition with_file_name (p : path) (n : string) : path :=
  match rev p with Normal _ :: r => rev r ++ [Normal n] | _ => p ++ [Normal n] end.
Definition file_stem_of (p : path) : option string := match rev p with Normal s :: _ => Some s | _ => None end.   (* stem = name without ".qml"; the caller strips it *)

Definition safe_comp (c : comp) : bool := match c with Normal _ | CurDir => true | _ => false end.
(* generate_ui: with --output-directory every source must consist of normal / "." components *)
Definition sources_accepted (out : option path) (sources : list path) : bool :=
  match out with Some _ => forallb (forallb safe_comp) sources | None => true end.

Definition lower_ascii (c : Ascii.ascii) : Ascii.ascii :=
  let n := Ascii.N_of_ascii c in if (N.leb 65 n && N.leb n 90)%bool then Ascii.ascii_of_N (n + 32) else c.
Fixpoint lower (s : string) : string := match s with EmptyString => EmptyString | String c r => String (lower_ascii c) (lower r) end.
Definition apply_case (lowercase : bool) (s : string) := if lowercase then lower s else s.
Definition ui_name (lowercase : bool) (type_name : string) := apply_case lowercase (type_name ++ ".ui").
Definition support_name (lowercase : bool) (type_name : string) := apply_case lowercase ("uisupport_" ++ type_name ++ ".h").

Definition out_paths (lowercase : bool) (out : option path) (src : path) (type_name : string) : path * path :=
  let ui := with_file_name src (ui_name lowercase type_name) in
  let h := with_file_name src (support_name lowercase type_name) in
  match out with Some d => (join d ui, join d h) | None => (ui, h) end.

(* ---- the file system and the operations the command requests ---- *)
Notation data := (list N).
Record fs := { files : list (path * data); temps : list (nat * (path * data)) }.    (* temp id -> (directory, content) *)
Fixpoint lookup (l : list (path * data)) (p : path) : option data :=
  match l with [] => None | (q, d) :: r => if path_eqb q p then Some d else lookup r p end.
Fixpoint remove (l : list (path * data)) (p : path) : list (path * data) :=
  match l with [] => [] | (q, d) :: r => if path_eqb q p then remove r p else (q, d) :: remove r p end.
Fixpoint tlookup (l : list (nat * (path * data))) (t : nat) : option (path * data) :=
  match l with [] => None | (u, x) :: r => if Nat.eqb u t then Some x else tlookup r t end.

Inductive op :=
| OpCreateTemp (dir : path) (t : nat)           (* NamedTempFile::new_in(dir): a fresh name, never an output path *)
| OpWriteTemp (t : nat) (d : data)
| OpRename (t : nat) (p : path).               (* persist *)

Definition exec (s : fs) (o : op) : fs :=
  match o with
  | OpCreateTemp dir t => {| files := files s; temps := (t, (dir, [])) :: temps s |}
  | OpWriteTemp t d => match tlookup (temps s) t with
                       | Some (dir, _) => {| files := files s; temps := (t, (dir, d)) :: temps s |}
                       | None => s end
  | OpRename t p => match tlookup (temps s) t with
                    | Some (_, d) => {| files := (p, d) :: remove (files s) p; temps := filter (fun x => negb (Nat.eqb (fst x) t)) (temps s) |}
                    | None => s end
  end.
Definition exec_all (s : fs) (ops : list op) : fs := fold_left exec ops s.

Definition parent (p : path) : path := removelast p.
(* generate_ui_file for one output: nothing when the bytes are already there *)
Definition write_ops (s : fs) (t : nat) (p : path) (d : data) : list op :=
  match lookup (files s) p with
  | Some old => if (fix eqb (a b : data) := match a, b with [], [] => true | x :: r, y :: q => N.eqb x y && eqb r q | _, _ => false end) old d
                then [] else [OpCreateTemp (parent p) t; OpWriteTemp t d; OpRename t p]
  | None => [OpCreateTemp (parent p) t; OpWriteTemp t d; OpRename t p]
  end.

(* a run: the outputs (path, bytes) in the order they are produced; every write takes a fresh temp id *)
Fixpoint run_ops (s : fs) (t : nat) (outs : list (path * data)) : list op :=
  match outs with
  | [] => []
  | (p, d) :: r => let ops := write_ops s t p d in ops ++ run_ops (exec_all s ops) (S t) r
  end.

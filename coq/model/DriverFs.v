(* DriverFs.v -- the command as a whole on the file system: the loop over the sources (model/Driver.v) feeding the writer (model/FsModel.v). *)
From Coq Require Import List Bool.
From QV Require Import model.Base model.FsModel model.Driver.
Import ListNotations.
(* what one translated source hands to the writer: its .ui and, in generate mode, its header *)
Definition outs_of (w : list (list (path * data))) : list (path * data) := concat w.

(* the operations the command requests for the given per-source verdicts *)
Definition command_ops (s : fs) (t : nat) (vs : list (verdict (list (path * data)))) : list op :=
  run_ops s t (outs_of (fst (run_sources _ vs))).


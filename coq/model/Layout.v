(* Layout.v -- model of lib/src/uigen/layout.rs: LayoutFlow::parse, LayoutIndexCounter, maybe_parse_layout_index,
   maybe_insert_into_opt_i32_array, the four process_*_layout_children, format_opt_i32_array.
   Inputs are the already evaluated attached values of each child (i32 constants).  No proofs here. *)
From QV Require Import model.Base.
From QV Require Import gen.GenTables.
Open Scope Z_scope.

Record attach := {
  a_row : option Z; a_col : option Z; a_rowspan : option Z; a_colspan : option Z;
  a_cmw : option Z;  (* QLayout.columnMinimumWidth *)
  a_cst : option Z;  (* QLayout.columnStretch *)
  a_rmh : option Z;  (* QLayout.rowMinimumHeight *)
  a_rst : option Z   (* QLayout.rowStretch *) }.

Inductive flow := LeftToRight (columns : Z) | TopToBottom (rows : Z).

(* diagnostics of this module, by message class *)
Inductive ldiag :=
| DNegative (field : nat)        (* "negative {row|column} is not allowed": 0 = row, 1 = column *)
| DTooLarge (field : nat)        (* "{row|column} is too large" *)
| DMismatch (prev : Z)           (* "mismatched with the value previously set: {prev}" *)
| DBadCount (field : nat)        (* "negative or zero {columns|rows} is not allowed": 0 = columns, 1 = rows *)
| DCountTooLarge (field : nat).

(* LayoutFlow::parse on the evaluated pseudo properties: flow (true = LeftToRight / absent), columns, rows *)
Definition pop_count (field : nat) (v : option Z) : Z * list ldiag :=
  match v with
  | None => (MAX_COUNT, [])
  | Some c => if c <=? 0 then (MAX_COUNT, [DBadCount field])
              else if MAX_COUNT <? c then (MAX_COUNT, [DCountTooLarge field])
              else (c, [])
  end.
Definition flow_parse (left_to_right : bool) (columns rows : option Z) : flow * list ldiag :=
  let '(c, d1) := pop_count 0 columns in
  let '(r, d2) := pop_count 1 rows in
  (if left_to_right then LeftToRight c else TopToBottom r, d1 ++ d2).

Definition parse_index (field : nat) (v : option Z) (max_index : Z) : option Z * list ldiag :=
  match v with
  | None => (None, [])
  | Some x => if x <? 0 then (None, [DNegative field])
              else if max_index <? x then (None, [DTooLarge field])
              else (Some x, [])
  end.

Record counter := { next_row : Z; next_column : Z }.

(* LayoutIndexCounter::next; i32 arithmetic never overflows for fewer than 2^31 - 65536 children (not modelled) *)
Definition counter_next (f : flow) (c : counter) (row col : option Z) : (Z * Z) * counter :=
  let c1 :=
    match row, col with
    | Some r, Some k => {| next_row := r; next_column := k |}
    | Some r, None => {| next_row := r; next_column := match f with LeftToRight _ => 0 | TopToBottom _ => next_column c end |}
    | None, Some k => {| next_row := match f with LeftToRight _ => next_row c | TopToBottom _ => 0 end; next_column := k |}
    | None, None => c
    end in
  let cur := (next_row c1, next_column c1) in
  let c2 :=
    match f with
    | LeftToRight n => let k := Z.rem (next_column c1 + 1) n in
                       {| next_row := next_row c1 + (if k =? 0 then 1 else 0); next_column := k |}
    | TopToBottom n => let r := Z.rem (next_row c1 + 1) n in
                       {| next_row := r; next_column := next_column c1 + (if r =? 0 then 1 else 0) |}
    end in
  (cur, c2).

Definition parse_next (f : flow) (c : counter) (a : attach) : (Z * Z) * counter * list ldiag :=
  let '(max_row, max_column) := match f with
                                | LeftToRight n => (MAX_INDEX, n - 1)
                                | TopToBottom n => (n - 1, MAX_INDEX)
                                end in
  let '(r, d1) := parse_index 0 (a_row a) max_row in
  let '(k, d2) := parse_index 1 (a_col a) max_column in
  let '(cur, c') := counter_next f c r k in
  (cur, c', d1 ++ d2).

(* maybe_insert_into_opt_i32_array; `index as usize` of a negative i32 would be a huge index -> Panic (allocation) *)
Fixpoint set_nth {A} (l : list A) (i : nat) (x : A) : list A :=
  match l, i with
  | [], _ => []
  | _ :: r, O => x :: r
  | y :: r, S j => y :: set_nth r j x
  end.
Definition resize (l : list (option Z)) (n : nat) : list (option Z) :=
  l ++ repeat None (n - List.length l).
Definition insert_opt (arr : list (option Z)) (index : Z) (value : option Z) : res (list (option Z) * list ldiag) :=
  match value with
  | None => Ok (arr, [])
  | Some v1 =>
      if index <? 0 then Panic "layout.rs: negative index as usize"
      else
        let i := Z.to_nat index in
        let arr := if Nat.leb (List.length arr) i then resize arr (S i) else arr in
        match nth i arr None with
        | Some v0 => if negb (v0 =? v1) then Ok (arr, [DMismatch v0]) else Ok (set_nth arr i (Some v1), [])
        | None => Ok (set_nth arr i (Some v1), [])
        end
  end.

Record lattrs := { column_minimum_width : list (option Z); column_stretch : list (option Z);
                   row_minimum_height : list (option Z); row_stretch : list (option Z); stretch : list (option Z) }.
Definition lattrs0 := {| column_minimum_width := []; column_stretch := []; row_minimum_height := []; row_stretch := []; stretch := [] |}.

(* an <item>: row, column (None for box layouts), rowspan, colspan *)
Record litem := { i_row : option Z; i_col : option Z; i_rowspan : option Z; i_colspan : option Z }.
Definition mk_item (rc : option (Z * Z)) (a : attach) : litem :=
  {| i_row := option_map fst rc; i_col := option_map snd rc; i_rowspan := a_rowspan a; i_colspan := a_colspan a |}.

Fixpoint grid_go (f : flow) (c : counter) (at_ : lattrs) (kids : list attach) (items : list litem) (ds : list ldiag)
  : res (lattrs * list litem * list ldiag) :=
  match kids with
  | [] => Ok (at_, rev items, ds)
  | a :: rest =>
      let '((row, column), c', d0) := parse_next f c a in
      do x1 <- insert_opt (column_minimum_width at_) (GRID_COL_MIN_WIDTH_INDEX row column) (a_cmw a);
      do x2 <- insert_opt (column_stretch at_) (GRID_COL_STRETCH_INDEX row column) (a_cst a);
      (* which of row/column indexes each array is translated from layout.rs on every run (gen/GenTables.v) *)
      do x3 <- insert_opt (row_minimum_height at_) (GRID_ROW_MIN_HEIGHT_INDEX row column) (a_rmh a);
      do x4 <- insert_opt (row_stretch at_) (GRID_ROW_STRETCH_INDEX row column) (a_rst a);
      let at' := {| column_minimum_width := fst x1; column_stretch := fst x2; row_minimum_height := fst x3;
                    row_stretch := fst x4; stretch := stretch at_ |} in
      grid_go f c' at' rest (mk_item (Some (row, column)) a :: items) (ds ++ d0 ++ snd x1 ++ snd x2 ++ snd x3 ++ snd x4)
  end.
Definition process_grid (f : flow) (kids : list attach) := grid_go f {| next_row := 0; next_column := 0 |} lattrs0 kids [] [].

Fixpoint form_go (c : counter) (kids : list attach) (items : list litem) (ds : list ldiag) : lattrs * list litem * list ldiag :=
  match kids with
  | [] => (lattrs0, rev items, ds)
  | a :: rest =>
      let '(rc, c', d0) := parse_next (LeftToRight 2) c a in
      form_go c' rest (mk_item (Some rc) a :: items) (ds ++ d0)
  end.
Definition process_form (kids : list attach) := form_go {| next_row := 0; next_column := 0 |} kids [] [].

(* vbox uses rowStretch, hbox columnStretch, both at the child's position *)
Fixpoint box_go (vertical : bool) (pos : nat) (st : list (option Z)) (kids : list attach) (items : list litem) (ds : list ldiag)
  : res (lattrs * list litem * list ldiag) :=
  match kids with
  | [] => Ok ({| column_minimum_width := []; column_stretch := []; row_minimum_height := []; row_stretch := []; stretch := st |}, rev items, ds)
  | a :: rest =>
      do x <- insert_opt st (Z.of_nat pos) (if vertical then a_rst a else a_cst a);
      box_go vertical (S pos) (fst x) rest (mk_item None a :: items) (ds ++ snd x)
  end.
Definition process_box (vertical : bool) (kids : list attach) := box_go vertical 0 [] kids [] [].

(* format_opt_i32_array *)
Definition format_arr (default : Z) (arr : list (option Z)) : list Z :=
  map (fun x => match x with Some v => v | None => default end) arr.

(* ---- the case function of the correspondence check ---- *)
Inductive lkind := LGrid | LForm | LVBox | LHBox.
Definition diag_code (d : ldiag) : Z * Z :=
  match d with
  | DNegative f => (0, Z.of_nat f) | DTooLarge f => (1, Z.of_nat f) | DMismatch v => (2, v)
  | DBadCount f => (3, Z.of_nat f) | DCountTooLarge f => (4, Z.of_nat f)
  end.
Definition item_tuple (i : litem) := (i_row i, i_col i, i_rowspan i, i_colspan i).
(* arrays in the order columnminimumwidth, columnstretch, rowminimumheight, rowstretch, stretch, each formatted with its default *)
Definition format_attrs (a : lattrs) : list (list Z) :=
  [format_arr 0 (column_minimum_width a); format_arr 1 (column_stretch a); format_arr 0 (row_minimum_height a);
   format_arr 1 (row_stretch a); format_arr 1 (stretch a)].
(* uigen::build: every attached binding that no pass evaluated is reported once, after the form is built
   ("unused or unsupported dynamic binding to attached property"); which attachments a layout kind consumes *)
Definition count_some (l : list (option Z)) : Z := Z.of_nat (List.length (filter (fun x => match x with Some _ => true | None => false end) l)).
Definition unused_attached (k : lkind) (a : attach) : Z :=
  match k with
  | LGrid => 0
  | LForm => count_some [a_cmw a; a_cst a; a_rmh a; a_rst a]
  | LVBox => count_some [a_row a; a_col a; a_cmw a; a_cst a; a_rmh a]
  | LHBox => count_some [a_row a; a_col a; a_cmw a; a_rmh a; a_rst a]
  end.
Definition unused_code (k : lkind) (kids : list attach) : list (Z * Z) :=
  let n := fold_right (fun a acc => unused_attached k a + acc) 0 kids in
  if n =? 0 then [] else [(5, n)].

Definition layout_case (k : lkind) (ltr : bool) (columns rows : option Z) (kids : list attach)
  : res (list (list Z) * list (option Z * option Z * option Z * option Z) * list (Z * Z)) :=
  match k with
  | LGrid => let '(f, d0) := flow_parse ltr columns rows in
             do r <- process_grid f kids;
             let '(a, items, ds) := r in Ok (format_attrs a, map item_tuple items, map diag_code (d0 ++ ds) ++ unused_code k kids)
  | LForm => let '(a, items, ds) := process_form kids in Ok (format_attrs a, map item_tuple items, map diag_code ds ++ unused_code k kids)
  | LVBox => do r <- process_box true kids; let '(a, items, ds) := r in Ok (format_attrs a, map item_tuple items, map diag_code ds ++ unused_code k kids)
  | LHBox => do r <- process_box false kids; let '(a, items, ds) := r in Ok (format_attrs a, map item_tuple items, map diag_code ds ++ unused_code k kids)
  end.

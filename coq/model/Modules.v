(* Modules.v -- model of lib/src/qmldir.rs populate_directories (the directory work-list with the visited check) and of the custom
   widget collection of lib/src/uigen/form.rs (UiForm::build: the classes of the custom-typed objects, each once).
   Directories are numbered 0..N-1; (nth d g []) lists, for directory d, the directories its QML files import (in file and import
   order; the directory itself is always among them: "QML files in the base directory should be available by default"). *)
From QV Require Import model.Base.
Open Scope nat_scope.
Open Scope list_scope.

Notation dgraph := (list (list nat)).
Definition succs (g : dgraph) (d : nat) : list nat := nth d g [].
Definition nmem (x : nat) (l : list nat) : bool := existsb (Nat.eqb x) l.

(* pending is the Vec used as a stack: its head here is the element pop() returns *)
Fixpoint populate (g : dgraph) (fuel : nat) (pending visited : list nat) : option (list nat) :=
  match fuel with
  | 0 => None
  | S f =>
      match pending with
      | [] => Some visited
      | d :: rest =>
          if nmem d visited then populate g f rest visited                        (* already visited *)
          else populate g f (rev (filter (fun x => negb (nmem x visited)) (succs g d)) ++ rest) (d :: visited)
      end
  end.

Definition max_out (g : dgraph) : nat := fold_right (fun l acc => Nat.max (length l) acc) 0 g.
Definition fuel_bound (g : dgraph) (sources : list nat) : nat := length g * (max_out g + 2) + length sources + 1.
Definition discover (g : dgraph) (sources : list nat) : option (list nat) := populate g (fuel_bound g sources) (rev sources) [].

(* ---- custom widgets: Itertools::unique over the classes of the custom-typed objects (flat order) ---- *)
Fixpoint unique_go (seen : list nat) (l : list nat) : list nat :=
  match l with [] => [] | x :: r => if nmem x seen then unique_go seen r else x :: unique_go (x :: seen) r end.
Definition unique (l : list nat) := unique_go [] l.
(* objects of the document in flat order: (class, is_custom_type); a custom class with an unresolvable super class is skipped *)
Definition custom_widgets (has_super : nat -> bool) (objs : list (nat * bool)) : list nat :=
  filter has_super (unique (map fst (filter snd objs))).

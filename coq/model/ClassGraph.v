(* ClassGraph.v -- model of lib/src/typemap: one module namespace (name_map, classes, aliases, module-level enums),
   Class::{base_classes (BFS with visited set), find_map_self_and_base_classes, is_derived_from, common_base_class,
   get_property, get_public_method, get_type, get_enum_by_variant}, MethodDataTable (sorted table + partition_point).
   Names of every kind are numbers (the correspondence harness maps them to strings).  No proofs here. *)
From QV Require Import model.Base.
From Coq Require Import Arith.
Notation name := nat (only parsing).
Notation cidx := nat (only parsing).   (* identity of a class = its index in NamespaceData::classes *)

Inductive mkind := KSignal | KSlot | KMethod.
Record mdata := { m_name : name; m_kind : mkind; m_public : bool; m_arity : nat }.
Record edata := { e_name : name; e_scoped : bool; e_variants : list name }.
Record cdata := {
  c_supers : list (name * bool);     (* (super class name, access = public) in declaration order *)
  c_props : list name;               (* property_map keys *)
  c_signals : list mdata; c_slots : list mdata; c_methods : list mdata;
  c_enums : list edata }.

(* what a name of the module's name_map denotes *)
Inductive tindex := TClass (i : cidx) | TOther.     (* enum / primitive: not a class -> error as a super class *)
Record graph := { g_names : list (name * tindex);   (* first match wins = last HashMap::insert wins *)
                  g_classes : list cdata }.

Fixpoint nassoc {V} (k : nat) (m : list (nat * V)) : option V :=
  match m with [] => None | (k', v) :: r => if Nat.eqb k k' then Some v else nassoc k r end.

(* NamespaceData::extend_classes + push_alias, as the harness performs them *)
Definition mk_graph (classes : list (name * cdata)) (others : list name) (aliases : list (name * name)) : graph :=
  let names0 := rev (map (fun n => (n, TOther)) others) in
  let names1 := fold_left (fun acc ic => (fst (snd ic), TClass (fst ic)) :: acc)
                          (combine (seq 0 (length classes)) classes) names0 in
  let names2 := fold_left (fun acc a => match nassoc (snd a) acc with
                                        | Some ix => (fst a, ix) :: acc
                                        | None => acc   (* push_alias returns Err; the harness ignores it *)
                                        end) aliases names1 in
  {| g_names := names2; g_classes := map snd classes |}.

Definition cls (g : graph) (c : cidx) : option cdata := nth_error (g_classes g) c.

(* ClassData::from_meta keeps only public supers *)
Definition supers (g : graph) (c : cidx) : list name :=
  match cls g c with
  | Some d => map fst (filter snd (c_supers d))
  | None => []
  end.

(* resolve_class_scoped on an unscoped name inside the module: Err for unknown names and for non-classes *)
Definition resolve (g : graph) (n : name) : option cidx :=
  match nassoc n (g_names g) with
  | Some (TClass i) => if i <? length (g_classes g) then Some i else None
  | _ => None
  end.

(* ---- the generic walk ---- *)
Inductive fm (A : Type) := FNone | FErr | FSome (a : A) | FFuel.
Arguments FNone {A}. Arguments FErr {A}. Arguments FSome {A} a. Arguments FFuel {A}.

Section Walk.
  Variable resolve_ : name -> option cidx.
  Variable supers_ : cidx -> list name.
  Variable A : Type.
  Variable f : cidx -> fm A.

  (* BaseClasses::next composed with Iterator::find_map: queue of remaining-supers iterators, visited set;
     the consumer stops at the first class for which f is not None and at the first unresolvable name. *)
  Fixpoint bfs_find (fuel : nat) (pending : list (list name)) (visited : list cidx) : fm A :=
    match fuel with
    | O => FFuel
    | S k =>
        match pending with
        | [] => FNone
        | [] :: rest => bfs_find k rest visited
        | (n :: it) :: rest =>
            match resolve_ n with
            | None => FErr
            | Some c =>
                if existsb (Nat.eqb c) visited then bfs_find k (it :: rest) visited
                else match f c with
                     | FNone => bfs_find k ((it :: rest) ++ [supers_ c]) (c :: visited)
                     | r => r
                     end
            end
        end
    end.

  (* find_map_self_and_base_classes *)
  Definition find_self_and_bases (fuel : nat) (c : cidx) : fm A :=
    match f c with
    | FNone => bfs_find fuel [supers_ c] []
    | r => r
    end.
End Walk.
Arguments bfs_find resolve_ supers_ {A} f fuel pending visited.
Arguments find_self_and_bases resolve_ supers_ {A} f fuel c.

(* a fuel that always suffices (proved in proofs/ClassGraphProofs.v): pending iterator sizes + 2 per class + supers *)
Definition fuel_bound (g : graph) : nat :=
  S (S (S (fold_right (fun d acc => 3 + length (c_supers d) + acc) 0 (g_classes g))
     + fold_right (fun d acc => Nat.max (length (c_supers d)) acc) 0 (g_classes g))).

Definition derives_pedantic (g : graph) (c b : cidx) : fm unit :=
  if Nat.eqb c b then FSome tt
  else bfs_find (resolve g) (supers g) (fun x => if Nat.eqb x b then FSome tt else FNone) (fuel_bound g) [supers g c] [].

Definition is_derived_from (g : graph) (c b : cidx) : fm bool :=
  match derives_pedantic g c b with
  | FSome _ => FSome true
  | FFuel => FFuel
  | _ => FSome false      (* .and_then(|r| r.ok()).is_some() *)
  end.

Definition common_base_class (g : graph) (a b : cidx) : fm cidx :=
  find_self_and_bases (resolve g) (supers g)
    (fun x => match derives_pedantic g b x with
              | FSome _ => FSome x
              | FNone => FNone
              | FErr => FErr
              | FFuel => FFuel
              end) (fuel_bound g) a.

(* Property::new / Method::new resolve the value, return and argument type names with
   object_class.resolve_type_scoped(): Class::get_type first walks the class and its bases looking for a NESTED type
   of that name (none of the generated type names is one), and only then the lexical parents.  So constructing the
   result fails with Err exactly when that walk meets an unresolvable super-class name. *)
Definition type_probe (g : graph) (c : cidx) : fm unit :=
  find_self_and_bases (resolve g) (supers g) (fun _ => @FNone unit) (fuel_bound g) c.
Definition with_probe {A} (g : graph) (c : cidx) (a : A) : fm A :=
  match type_probe g c with
  | FErr => FErr
  | FFuel => FFuel
  | _ => FSome a
  end.

Definition declares_prop (g : graph) (p : name) (c : cidx) : fm cidx :=
  match cls g c with
  | Some d => if existsb (Nat.eqb p) (c_props d) then with_probe g c c else FNone
  | None => FNone
  end.
Definition get_property (g : graph) (c : cidx) (p : name) : fm cidx :=
  find_self_and_bases (resolve g) (supers g) (declares_prop g p) (fuel_bound g) c.

(* ---- MethodDataTable ---- *)
Fixpoint insert_sorted (m : mdata) (l : list mdata) : list mdata :=     (* stable insertion sort = sort_by(name) *)
  match l with
  | [] => [m]
  | x :: r => if m_name m <=? m_name x then m :: x :: r else x :: insert_sorted m r
  end.
Definition sort_methods (l : list mdata) : list mdata := fold_right insert_sorted [] l.
Definition set_kind (k : mkind) (m : mdata) := {| m_name := m_name m; m_kind := k; m_public := m_public m; m_arity := m_arity m |}.
Definition method_table (d : cdata) : list mdata :=
  sort_methods (filter m_public (map (set_kind KSignal) (c_signals d) ++ map (set_kind KSlot) (c_slots d) ++ map (set_kind KMethod) (c_methods d))).

(* partition_point(|d| d.name < name) on a table; then take_while(name ==) *)
Fixpoint partition_point (n : name) (l : list mdata) : nat :=
  match l with [] => 0 | x :: r => if m_name x <? n then S (partition_point n r) else 0 end.
Fixpoint take_while_name (n : name) (l : list mdata) : list mdata :=
  match l with [] => [] | x :: r => if Nat.eqb (m_name x) n then x :: take_while_name n r else [] end.
Definition table_lookup (n : name) (tab : list mdata) : list mdata :=
  take_while_name n (skipn (partition_point n tab) tab).

Definition kind_code (k : mkind) : nat := match k with KSignal => 0 | KSlot => 1 | KMethod => 2 end.
Definition declares_method (g : graph) (n : name) (c : cidx) : fm (cidx * list (nat * nat)) :=
  match cls g c with
  | Some d => match table_lookup n (method_table d) with
              | [] => FNone
              | ms => with_probe g c (c, map (fun m => (kind_code (m_kind m), m_arity m)) ms)
              end
  | None => FNone
  end.
Definition get_public_method (g : graph) (c : cidx) (n : name) : fm (cidx * list (nat * nat)) :=
  find_self_and_bases (resolve g) (supers g) (declares_method g n) (fuel_bound g) c.

(* ---- nested enums ---- *)
(* NamespaceData::extend_enums: name_map insert (last wins); enum_variant_map.extend for unscoped enums (last wins) *)
Fixpoint last_enum_named (n : name) (es : list edata) (acc : option edata) : option edata :=
  match es with [] => acc | e :: r => last_enum_named n r (if Nat.eqb (e_name e) n then Some e else acc) end.
Fixpoint last_enum_with_variant (v : name) (es : list edata) (acc : option edata) : option edata :=
  match es with
  | [] => acc
  | e :: r => last_enum_with_variant v r (if negb (e_scoped e) && existsb (Nat.eqb v) (e_variants e) then Some e else acc)
  end.
Definition declares_enum (g : graph) (n : name) (c : cidx) : fm (cidx * name) :=
  match cls g c with
  | Some d => match last_enum_named n (c_enums d) None with Some e => FSome (c, e_name e) | None => FNone end
  | None => FNone
  end.
Definition get_type (g : graph) (c : cidx) (n : name) : fm (cidx * name) :=
  find_self_and_bases (resolve g) (supers g) (declares_enum g n) (fuel_bound g) c.
Definition declares_variant (g : graph) (v : name) (c : cidx) : fm (cidx * name) :=
  match cls g c with
  | Some d => match last_enum_with_variant v (c_enums d) None with Some e => FSome (c, e_name e) | None => FNone end
  | None => FNone
  end.
Definition get_enum_by_variant (g : graph) (c : cidx) (v : name) : fm (cidx * name) :=
  find_self_and_bases (resolve g) (supers g) (declares_variant g v) (fuel_bound g) c.

(* ---- queries as run by the correspondence harness (classes are addressed by name) ---- *)
Inductive query :=
| QDerives (c b : name) | QCommon (a b : name) | QProp (c p : name) | QMethod (c n : name)
| QType (c n : name) | QVariant (c v : name).
Inductive qr :=
| RNoClass | RNone | RErr | RFuel | RBool (b : bool) | RCls (c : cidx)
| RMeth (c : cidx) (l : list (nat * nat)) | REnum (c : cidx) (e : name).

Definition of_fm {A} (k : A -> qr) (r : fm A) : qr :=
  match r with FNone => RNone | FErr => RErr | FFuel => RFuel | FSome a => k a end.

Definition run_query (g : graph) (q : query) : qr :=
  match q with
  | QDerives c b => match resolve g c, resolve g b with
                    | Some c, Some b => of_fm RBool (is_derived_from g c b)
                    | _, _ => RNoClass end
  | QCommon a b => match resolve g a, resolve g b with
                   | Some a, Some b => of_fm RCls (common_base_class g a b)
                   | _, _ => RNoClass end
  | QProp c p => match resolve g c with Some c => of_fm RCls (get_property g c p) | None => RNoClass end
  | QMethod c n => match resolve g c with Some c => of_fm (fun x => RMeth (fst x) (snd x)) (get_public_method g c n) | None => RNoClass end
  | QType c n => match resolve g c with Some c => of_fm (fun x => REnum (fst x) (snd x)) (get_type g c n) | None => RNoClass end
  | QVariant c v => match resolve g c with Some c => of_fm (fun x => REnum (fst x) (snd x)) (get_enum_by_variant g c v) | None => RNoClass end
  end.

Fixpoint list_eqb {A} (e : A -> A -> bool) (a b : list A) : bool :=
  match a, b with
  | [], [] => true
  | x :: r, y :: s => e x y && list_eqb e r s
  | _, _ => false
  end.
Definition qr_eqb (a b : qr) : bool :=
  match a, b with
  | RNoClass, RNoClass | RNone, RNone | RErr, RErr | RFuel, RFuel => true
  | RBool x, RBool y => Bool.eqb x y
  | RCls x, RCls y => Nat.eqb x y
  | RMeth c l, RMeth d m => Nat.eqb c d && list_eqb (fun p q => Nat.eqb (fst p) (fst q) && Nat.eqb (snd p) (snd q)) l m
  | REnum c e, REnum d f => Nat.eqb c d && Nat.eqb e f
  | _, _ => false
  end.
Definition run_case (classes : list (name * cdata)) (others : list name) (aliases : list (name * name)) (qs : list query) : list qr :=
  let g := mk_graph classes others aliases in map (run_query g) qs.

(* Base.v -- conventions shared by every model file.
   Executable definitions only; no proofs here (the model must still run when a proof breaks). *)
From Coq Require Export String Ascii NArith ZArith Bool List.
Export ListNotations.

(* Results of modelled Rust functions.  Panics are values: every expect/unwrap/index/unreachable! in
   modelled code is [Panic site]; work-lists run on fuel and [OutOfFuel] is an error, never a default. *)
Inductive res (A : Type) : Type :=
| Ok (a : A)
| Err (msg : string)
| Panic (site : string)
| OutOfFuel.
Arguments Ok {A} a.
Arguments Err {A} msg.
Arguments Panic {A} site.
Arguments OutOfFuel {A}.

Definition bind {A B} (m : res A) (f : A -> res B) : res B :=
  match m with
  | Ok a => f a
  | Err e => Err e
  | Panic s => Panic s
  | OutOfFuel => OutOfFuel
  end.
Notation "'do' x <- m ; f" := (bind m (fun x => f)) (at level 200, x name, m at level 100, f at level 200).

Definition is_ok {A} (r : res A) : bool := match r with Ok _ => true | _ => false end.
Definition is_panic {A} (r : res A) : bool := match r with Panic _ => true | _ => false end.

(* ASCII helpers (Rust: u8::to_ascii_lowercase, char::is_ascii_hexdigit, ...) on bytes *)
Definition byte_of (c : ascii) : N := N_of_ascii c.
Definition ascii_lower (c : ascii) : ascii :=
  let n := N_of_ascii c in
  if (N.leb 65 n && N.leb n 90)%bool then ascii_of_N (n + 32) else c.
Definition ascii_upper (c : ascii) : ascii :=
  let n := N_of_ascii c in
  if (N.leb 97 n && N.leb n 122)%bool then ascii_of_N (n - 32) else c.
Fixpoint str_map (f : ascii -> ascii) (s : string) : string :=
  match s with EmptyString => EmptyString | String c r => String (f c) (str_map f r) end.
Definition to_ascii_lowercase := str_map ascii_lower.
Definition to_ascii_uppercase := str_map ascii_upper.
Definition eq_ignore_ascii_case (a b : string) : bool := String.eqb (to_ascii_lowercase a) (to_ascii_lowercase b).

Fixpoint assoc {V} (k : string) (m : list (string * V)) : option V :=
  match m with
  | [] => None
  | (k', v) :: r => if String.eqb k k' then Some v else assoc k r
  end.

(* byte strings given as lists of N by the case generators (non-ASCII-safe transport) *)
Fixpoint string_of_bytes (l : list N) : string :=
  match l with [] => EmptyString | b :: r => String (ascii_of_N b) (string_of_bytes r) end.
Fixpoint bytes_of_string (s : string) : list N :=
  match s with EmptyString => [] | String c r => N_of_ascii c :: bytes_of_string r end.

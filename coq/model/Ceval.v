(* Ceval.v -- model of lib/src/tir/ceval.rs: constant folding with checked i64 arithmetic. *)
From QV Require Import model.Base model.Lang model.Types model.Tir model.Floats.
Open Scope Z_scope.

Definition I64_MIN := -9223372036854775808.
Definition I64_MAX := 9223372036854775807.
Definition in_i64 (z : Z) : bool := (I64_MIN <=? z) && (z <=? I64_MAX).
Definition wrap_i64 (z : Z) : Z := (z + 9223372036854775808) mod 18446744073709551616 - 9223372036854775808.

(* the error classes of typedexpr::ExpressionError that folding can raise *)
Inductive cerr :=
| CeOverflow | CeConversion
| CeUnsupported (t : tdesc) | CeUnsupported2 (l r : tdesc) | CeIncompatible (l r : tdesc)
| CeUnmodelled.   (* float `%`: fmod is outside this model *)

Definition checked (z : Z) : constv + cerr := if in_i64 z then inl (CInt z) else inr CeOverflow.

Definition eval_unary_arith (minus : bool) (a : constv) : constv + cerr :=
  match a with
  | CInt v => if minus then checked (- v) else inl (CInt v)
  | CFloat b => inl (CFloat (if minus then f_neg b else canon b))
  | _ => inr (CeUnsupported (const_tdesc a))
  end.
Definition eval_unary_bitwise (a : constv) : constv + cerr :=
  match a with CInt v => inl (CInt (Z.lnot v)) | _ => inr (CeUnsupported (const_tdesc a)) end.
Definition eval_unary_logical (a : constv) : constv + cerr :=
  match a with CBool v => inl (CBool (negb v)) | _ => inr (CeUnsupported (const_tdesc a)) end.

Definition eval_binary_arith (op : binop) (l r : constv) : constv + cerr :=
  match l, r with
  | CBool _, CBool _ => inr (CeUnsupported (const_tdesc l))
  | CInt a, CInt b =>
      match op with
      | BoAdd => checked (a + b)
      | BoSub => checked (a - b)
      | BoMul => checked (a * b)
      | BoDiv => if (b =? 0) || ((a =? I64_MIN) && (b =? -1)) then inr CeOverflow else checked (Z.quot a b)
      | BoRem => if (b =? 0) || ((a =? I64_MIN) && (b =? -1)) then inr CeOverflow else checked (Z.rem a b)
      | _ => inr CeUnmodelled
      end
  | CFloat a, CFloat b =>
      match op with
      | BoAdd => inl (CFloat (f_add a b))
      | BoSub => inl (CFloat (f_sub a b))
      | BoMul => inl (CFloat (f_mul a b))
      | BoDiv => inl (CFloat (f_div a b))
      | BoRem => inl (CFloat (f_rem a b))
      | _ => inr CeUnmodelled
      end
  | CCString a, CCString b =>
      match op with BoAdd => inl (CCString (a ++ b)) | _ => inr (CeUnsupported DConstString) end
  | CQString _, CQString _ => inr (CeUnsupported (const_tdesc l))
  | _, _ => inr (CeIncompatible (const_tdesc l) (const_tdesc r))
  end.

Definition eval_binary_bitwise (op : binop) (l r : constv) : constv + cerr :=
  match l, r with
  | CBool a, CBool b => inl (CBool (match op with BoAnd => a && b | BoXor => xorb a b | _ => a || b end))
  | CInt a, CInt b => inl (CInt (match op with BoAnd => Z.land a b | BoXor => Z.lxor a b | _ => Z.lor a b end))
  | CFloat _, CFloat _ | CCString _, CCString _ | CQString _, CQString _ => inr (CeUnsupported (const_tdesc l))
  | _, _ => inr (CeIncompatible (const_tdesc l) (const_tdesc r))
  end.

Definition eval_shift (op : binop) (l r : constv) : constv + cerr :=
  match l, r with
  | CInt a, CInt b =>
      if (b <? 0) || (4294967295 <? b) then inr CeConversion          (* r.try_into::<u32>() *)
      else if 64 <=? b then inr CeOverflow                             (* checked_shl / checked_shr *)
      else match op with
           | BoShr => inl (CInt (Z.shiftr a b))
           | _ => let w := wrap_i64 (Z.shiftl a b) in                  (* checked_shl, then the lost-bits test a >> n == l *)
                  if Z.shiftr w b =? a then inl (CInt w) else inr CeOverflow
           end
  | _, _ => inr (CeUnsupported2 (const_tdesc l) (const_tdesc r))
  end.

Fixpoint text_compare (a b : text) : comparison :=
  match a, b with
  | [], [] => Eq
  | [], _ => Lt
  | _, [] => Gt
  | x :: r, y :: s => match N.compare x y with Eq => text_compare r s | c => c end
  end.

Definition cmp_result (op : binop) (c : comparison) : bool :=
  match op, c with
  | BoEq, Eq => true | BoEq, _ => false
  | BoNe, Eq => false | BoNe, _ => true
  | BoLt, Lt => true | BoLt, _ => false
  | BoLe, Gt => false | BoLe, _ => true
  | BoGt, Gt => true | BoGt, _ => false
  | BoGe, Lt => false | BoGe, _ => true
  | _, _ => false
  end.

Definition eval_comparison (op : binop) (l r : constv) : constv + cerr :=
  match l, r with
  | CBool a, CBool b => inl (CBool (cmp_result op (match a, b with false, true => Lt | true, false => Gt | _, _ => Eq end)))
  | CInt a, CInt b => inl (CBool (cmp_result op (Z.compare a b)))
  | CFloat a, CFloat b =>
      inl (CBool (match op with
                  | BoEq => f_eqb a b | BoNe => negb (f_eqb a b) | BoLt => f_ltb a b | BoLe => f_leb a b
                  | BoGt => f_ltb b a | BoGe => f_leb b a | _ => false end))
  | CCString a, CCString b | CQString a, CQString b => inl (CBool (cmp_result op (text_compare a b)))
  | CNull, CNull => inl (CBool (cmp_result op Eq))
  | _, _ => inr (CeIncompatible (const_tdesc l) (const_tdesc r))
  end.

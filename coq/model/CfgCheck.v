(* CfgCheck.v -- the boolean checker [cfg_ok] for C06: jump targets exist, every block reachable from the entry ends
   in a jump or a return (never the unreachable marker, never without terminator), a value-returning body returns a
   value on every reachable return, and every local that is not a parameter (nor a `let` declared without
   initialiser) is assigned on every path before it is read.  The candidates (reachable set, must-assigned sets) are
   computed by iteration and then VERIFIED by the checker, so its soundness does not depend on the iteration. *)
From QV Require Import model.Base model.Lang model.Types model.Tir.
From Coq Require Import Arith.
Open Scope nat_scope.

Definition succs (b : block) : list nat :=
  match b_term b with Some (TmBr l) => [l] | Some (TmBrCond _ t f) => [t; f] | _ => [] end.
Definition nmem (x : nat) (l : list nat) : bool := existsb (Nat.eqb x) l.
Definition nsubset (a b : list nat) : bool := forallb (fun x => nmem x b) a.

Definition operand_reads (a : operand) : list nat := match a with OLocal l _ => [l] | _ => [] end.
Definition rvalue_reads (r : rvalue) : list nat :=
  match r with
  | RCopy a | RUnary _ a | RStaticCast _ a | RVariantCast _ a => operand_reads a
  | RBinary _ l r => operand_reads l ++ operand_reads r
  | RBuiltin _ args | RMakeList _ args => flat_map operand_reads args
  | RCallMethod o _ args => operand_reads o ++ flat_map operand_reads args
  | RReadProp o _ => operand_reads o
  | RWriteProp o _ v => operand_reads o ++ operand_reads v
  | RReadSub o i => operand_reads o ++ operand_reads i
  | RWriteSub o i v => operand_reads o ++ operand_reads i ++ operand_reads v
  end.
Definition stmt_reads (s : tstmt) : list nat :=
  match s with TAssign _ r | TExec r => rvalue_reads r | TObserve _ l _ => [l] end.
Definition stmt_defs (s : tstmt) : list nat := match s with TAssign l _ => [l] | _ => [] end.
Definition term_reads (t : option term) : list nat :=
  match t with Some (TmBrCond c _ _) => operand_reads c | Some (TmReturn a) => operand_reads a | _ => [] end.
Definition block_defs (b : block) : list nat := flat_map stmt_defs (b_stmts b).

(* reads of a block are covered when each is in [have] extended by the definitions of the preceding statements *)
Fixpoint stmts_reads_ok (have : list nat) (ss : list tstmt) (t : option term) : bool :=
  match ss with
  | [] => nsubset (term_reads t) have
  | s :: r => nsubset (stmt_reads s) have && stmts_reads_ok (stmt_defs s ++ have) r t
  end.

(* ---- candidates ---- *)
Fixpoint reach_iter (blocks : list block) (fuel : nat) (r : list nat) : list nat :=
  match fuel with
  | O => r
  | S k =>
      let r' := fold_left (fun acc i => match nth_error blocks i with
                                        | Some b => fold_left (fun a s => if nmem s a then a else a ++ [s]) (succs b) acc
                                        | None => acc end) r r in
      reach_iter blocks k r'
  end.
Definition reach_candidate (blocks : list block) : list nat := reach_iter blocks (List.length blocks) [0].

Definition ninter (a b : list nat) : list nat := filter (fun x => nmem x b) a.
(* IN sets: None = not yet constrained (top) *)
Fixpoint in_iter (blocks : list block) (fuel : nat) (ins : list (option (list nat))) : list (option (list nat)) :=
  match fuel with
  | O => ins
  | S k =>
      let step (acc : list (option (list nat))) (ib : nat * block) :=
        match nth (fst ib) acc None with
        | None => acc
        | Some i_in =>
            let out := block_defs (snd ib) ++ i_in in
            fold_left (fun a s => match nth_error a s with
                                  | Some None => firstn s a ++ Some out :: skipn (S s) a
                                  | Some (Some old) => firstn s a ++ Some (ninter old out) :: skipn (S s) a
                                  | None => a end) (succs (snd ib)) acc
        end in
      in_iter blocks k (fold_left step (combine (seq 0 (List.length blocks)) blocks) ins)
  end.
Definition in_candidate (blocks : list block) (entry_have : list nat) : list (option (list nat)) :=
  in_iter blocks (List.length blocks) (Some entry_have :: repeat None (List.length blocks - 1)).

(* ---- the checker ---- *)
Definition term_is_exit_or_jump (b : block) : bool :=
  match b_term b with Some (TmBr _) | Some (TmBrCond _ _ _) | Some (TmReturn _) => true | _ => false end.

Definition reach_ok (blocks : list block) (r : list nat) : bool :=
  nmem 0 r &&
  forallb (fun i => match nth_error blocks i with
                    | Some b => term_is_exit_or_jump b && nsubset (succs b) r
                    | None => false end) r.

Definition ins_ok (blocks : list block) (r : list nat) (entry_have : list nat) (ins : list (option (list nat))) : bool :=
  match nth 0 ins None with Some i0 => nsubset i0 entry_have | None => false end &&
  forallb (fun i => match nth_error blocks i, nth i ins None with
                    | Some b, Some i_in =>
                        stmts_reads_ok i_in (b_stmts b) (b_term b) &&
                        forallb (fun s => match nth s ins None with
                                          | Some s_in => nsubset s_in (block_defs b ++ i_in)
                                          | None => false end) (succs b)
                    | _, _ => false end) r.

Definition returns_consistent (blocks : list block) (r : list nat) : bool :=
  let rets := flat_map (fun i => match nth_error blocks i with
                                 | Some b => match b_term b with Some (TmReturn a) => [a] | _ => [] end
                                 | None => [] end) r in
  let is_void (a : operand) := match a with OVoid => true | _ => false end in
  forallb is_void rets || forallb (fun a => negb (is_void a)) rets.

(* [exempt]: user variables declared without initialiser (reading them unassigned is the program's own undefinedness) *)
Definition cfg_ok (c : code) (exempt : list nat) : bool :=
  let blocks := c_blocks c in
  let r := reach_candidate blocks in
  let have := seq 0 (c_nparams c) ++ exempt in
  reach_ok blocks r && ins_ok blocks r have (in_candidate blocks have) && returns_consistent blocks r.

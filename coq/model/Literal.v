(* Literal.v -- model of lib/src/qmlast/astutil.rs: parse_number_str, strip_radix_prefix, parse_integer_str_radix,
   parse_string / unescape_char (with the escape_sequence token rule of the tree-sitter grammar that feeds it), and of
   Rust's str::parse::<f64>() on the decimal spellings that reach it (correctly rounded: IEEE round-to-nearest-even,
   computed exactly with SpecFloat's rounding on big integers). *)
From QV Require Import model.Base model.Floats.
From Coq Require Import Floats.SpecFloat.
Open Scope Z_scope.

Notation cp := N (only parsing).   (* a Unicode scalar value *)

Definition is_digit (c : N) : bool := (48 <=? c)%N && (c <=? 57)%N.
Definition digit_val (radix : Z) (c : N) : option Z :=
  let v := if (48 <=? c)%N && (c <=? 57)%N then Some (Z.of_N c - 48)
           else if (97 <=? c)%N && (c <=? 122)%N then Some (Z.of_N c - 87)
           else if (65 <=? c)%N && (c <=? 90)%N then Some (Z.of_N c - 55)
           else None in
  match v with Some d => if d <? radix then Some d else None | None => None end.

(* u64::from_str_radix: optional leading '+', at least one digit, overflow -> error *)
Fixpoint digits_value (radix : Z) (s : list N) (acc : Z) : option Z :=
  match s with
  | [] => Some acc
  | c :: r => match digit_val radix c with
              | Some d => let acc' := acc * radix + d in
                          if acc' <=? 18446744073709551615 then digits_value radix r acc' else None
              | None => None
              end
  end.
Definition u64_from_str_radix (s : list N) (radix : Z) : option Z :=
  let body := match s with 43%N :: r => r | _ => s end in
  match body with [] => None | _ => digits_value radix body 0 end.

Definition parse_integer_str_radix (s : list N) (radix : Z) : option Z :=
  match u64_from_str_radix s radix with
  | Some v => Some v
  | None => u64_from_str_radix (filter (fun c => negb (c =? 95)%N) s) radix
  end.

Definition strip_radix_prefix (s : list N) : option (Z * list N) :=
  match s with
  | 48%N :: (98%N | 66%N) :: r => Some (2, r)
  | 48%N :: (111%N | 79%N) :: r => Some (8, r)
  | 48%N :: (120%N | 88%N) :: r => Some (16, r)
  | 48%N :: _ :: _ => if forallb (fun c => (48 <=? c)%N && (c <=? 55)%N) s then Some (8, tl s) else None
  | _ => None
  end.

(* ---- decimal -> binary64, correctly rounded ---- *)
(* Rust's dec2flt grammar for the spellings that contain 'e' or '.': [+-]? digits? ('.' digits?)? ([eE] [+-]? digits)?
   with at least one mantissa digit; also "inf", "infinity", "nan" (case-insensitive), which the lexer never produces *)
Fixpoint take_digits (s : list N) (acc : Z) (n : Z) : Z * Z * list N :=
  match s with
  | c :: r => if is_digit c then take_digits r (acc * 10 + (Z.of_N c - 48)) (n + 1) else (acc, n, s)
  | [] => (acc, n, s)
  end.

Definition round_ratio (neg : bool) (num den : Z) : spec_float :=
  (* num / den, num den > 0: scale so that the quotient has at least 64 bits, keep the remainder as location *)
  let k := Z.max 0 (64 + Z.log2 den - Z.log2 num + 1) in
  let n2 := num * 2 ^ k in
  let q := n2 / den in
  let r := n2 mod den in
  let loc := if r =? 0 then loc_Exact else loc_Inexact (Z.compare (2 * r) den) in
  if 0 <? q then binary_round_aux prec emax neg q (- k) loc else S754_zero neg.

Definition decimal_to_f64 (neg : bool) (mant : Z) (exp10 : Z) : N :=
  if mant =? 0 then bits_of_sf (S754_zero neg)
  else if 400 <? exp10 then bits_of_sf (S754_infinity neg)      (* certainly overflows; avoids 10^huge *)
  else if exp10 <? -800 then bits_of_sf (S754_zero neg)          (* certainly underflows to zero *)
  else bits_of_sf (if 0 <=? exp10 then round_ratio neg (mant * 10 ^ exp10) 1 else round_ratio neg mant (10 ^ (- exp10))).

Definition parse_f64 (s : list N) : option N :=
  let '(neg, s1) := match s with 45%N :: r => (true, r) | 43%N :: r => (false, r) | _ => (false, s) end in
  let '(ip, ni, s2) := take_digits s1 0 0 in
  let '(mant, nf, s3) := match s2 with 46%N :: r => take_digits r ip 0 | _ => (ip, 0, s2) end in
  if (ni + nf =? 0) then None
  else
    match s3 with
    | [] => Some (decimal_to_f64 neg mant (- nf))
    | (101%N | 69%N) :: r =>
        let '(eneg, r1) := match r with 45%N :: t => (true, t) | 43%N :: t => (false, t) | _ => (false, r) end in
        let '(ev, ne, r2) := take_digits r1 0 0 in
        (* the exponent is saturated: beyond +-100000 the result no longer depends on it *)
        if (ne =? 0) then None else
        match r2 with
        | [] => let e := Z.min ev 100000 in Some (decimal_to_f64 neg mant ((if eneg then - e else e) - nf))
        | _ => None
        end
    | _ => None
    end.

Inductive number := NumInt (v : Z) | NumFloat (bits : N).

Definition parse_number_str (s : list N) : option number :=
  match strip_radix_prefix s with
  | Some (radix, t) => option_map NumInt (parse_integer_str_radix t radix)
  | None =>
      if existsb (fun c => (c =? 101)%N || (c =? 46)%N) s then option_map NumFloat (parse_f64 s)
      else option_map NumInt (parse_integer_str_radix s 10)
  end.

(* ---- strings ---- *)
Definition is_hex (c : N) : bool :=
  ((48 <=? c) && (c <=? 57) || (65 <=? c) && (c <=? 70) || (97 <=? c) && (c <=? 102))%N.
Definition is_octal (c : N) : bool := ((48 <=? c) && (c <=? 55))%N.

Fixpoint take_while (f : N -> bool) (s : list N) (max : nat) : list N * list N :=
  match max, s with
  | S k, c :: r => if f c then let '(a, b) := take_while f r k in (c :: a, b) else ([], s)
  | _, _ => ([], s)
  end.

(* the escape_sequence token of tree-sitter-javascript, applied after a backslash: returns (tail, rest) *)
Definition lex_escape (s : list N) : option (list N * list N) :=
  match s with
  | [] => None
  | 120%N :: a :: b :: r => if is_hex a && is_hex b then Some ([120%N; a; b], r) else None      (* \xHH; 'x' alone is not in [^xu0-7] *)
  | 120%N :: _ => None
  | 117%N :: 123%N :: r =>
      let '(hs, r2) := take_while is_hex r 64 in
      match hs, r2 with
      | _ :: _, 125%N :: r3 => Some (117%N :: 123%N :: hs ++ [125%N], r3)
      | _, _ => None
      end
  | 117%N :: a :: b :: c :: d :: r => if is_hex a && is_hex b && is_hex c && is_hex d then Some ([117%N; a; b; c; d], r) else None
  | 117%N :: _ => None
  | c :: r =>
      if is_octal c then let '(os, r2) := take_while is_octal s 3 in Some (os, r2)
      else if (c =? 13)%N then (match r with 10%N :: r2 => Some ([13%N; 10%N], r2) | _ => Some ([13%N], r) end)
      else Some ([c], r)
  end.

Definition hex_value (s : list N) : option Z :=
  match s with [] => None | _ => fold_left (fun acc c => match acc, digit_val 16 c with Some a, Some d => Some (a * 16 + d) | _, _ => None end) s (Some 0) end.
Definition char_from_u32 (v : Z) : option N :=
  if (v <=? 1114111) && negb ((55296 <=? v) && (v <=? 57343)) then Some (Z.to_N v) else None.
(* char_from_str_radix(src, 16): u32::from_str_radix then char::from_u32 *)
Definition char_from_hex (s : list N) : option N :=
  match hex_value s with Some v => if v <=? 4294967295 then char_from_u32 v else None | None => None end.

(* unescape_char on the text after the backslash *)
Definition unescape_tail (tail : list N) : option N :=
  match tail with
  | [c] =>
      if (c =? 48)%N then Some 0%N else if (c =? 39)%N then Some 39%N else if (c =? 34)%N then Some 34%N
      else if (c =? 92)%N then Some 92%N else if (c =? 110)%N then Some 10%N else if (c =? 114)%N then Some 13%N
      else if (c =? 118)%N then Some 11%N else if (c =? 116)%N then Some 9%N else if (c =? 98)%N then Some 8%N
      else if (c =? 102)%N then Some 12%N else None
  | 117%N :: 123%N :: r => match rev r with 125%N :: hs => char_from_hex (rev hs) | _ => None end
  | 117%N :: r => if Nat.eqb (List.length r) 4 then char_from_hex r else None
  | 120%N :: r => if Nat.eqb (List.length r) 2 then char_from_hex r else None
  | _ => None
  end.

(* the body of a string literal (between the quotes): fragments are copied, escape sequences decoded;
   None = the literal is rejected (ParseErrorKind::InvalidSyntax) *)
Fixpoint parse_string_body (fuel : nat) (s : list N) : option (list N) :=
  match fuel with
  | O => None
  | S k =>
      match s with
      | [] => Some []
      | 92%N :: r =>
          match lex_escape r with
          | Some (tail, rest) =>
              match unescape_tail tail, parse_string_body k rest with
              | Some c, Some t => Some (c :: t)
              | _, _ => None
              end
          | None => None
          end
      | c :: r => option_map (cons c) (parse_string_body k r)
      end
  end.
Definition parse_string (s : list N) : option (list N) := parse_string_body (S (List.length s)) s.

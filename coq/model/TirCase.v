(* TirCase.v -- the case function of the expression-layer correspondence check: everything observable of
   tir::build / build_callback + resolve_return_type + evaluate_code + analyze_code_property_dependency as ONE token stream. *)
From QV Require Import model.Base model.Lang model.Types model.Tir model.Ceval model.Builder model.Passes.
Open Scope Z_scope.

Definition dclass_code (d : dclass) : Z :=
  match d with
  | XIntegerConversion => 1 | XIntegerOverflow => 2 | XIncompatibleArrayElem => 3 | XIncompatibleIndex => 4 | XInvalidArgument => 5
  | XIncompatibleTypes => 6 | XOpUndetermined => 7 | XUnsupportedType => 8 | XUnsupportedTypes => 9 | XUnreadable => 10 | XUnwritable => 11
  | XUndeterminedType => 12 | XConstNoInit => 13 | XDeclNoTypeNoInit => 14 | XNotBoolCondition => 15 | XLabeledBreak => 16 | XBreakOutside => 17
  | XNamedFunction => 18 | XRedefinedParam => 19 | XParamNoType => 20 | XReturnTypeIgnored => 21
  | XBareFunctionRef => 22 | XBareTypeRef => 23 | XUndefinedRef => 24 | XUnsupportedExpr => 25 | XNoMemberOnFunction => 26 | XNotCallable => 27
  | XConstAssign => 28 | XRvalueGadget => 29 | XRvalueSubscript => 30 | XNotAssignable => 31 | XUnsupportedOperation => 32
  | XNotFoundInNamespace => 33 | XNotFoundInType => 34 | XUndefinedType => 35 | XUnmodelled => 99
  end.

Definition tk_tdesc (t : tdesc) : list Z :=
  match t with
  | DConstInteger => [0] | DConstString => [1] | DNullPointer => [2] | DEmptyList => [3] | DConcrete k => 4 :: tk_tkind k
  end.
Definition tk_strkind (k : strkind) : Z := match k with SkNoTr => 0 | SkTr => 1 end.
Definition tk_evalue (v : evalue) : list Z :=
  match v with
  | EvBool b => [0; if b then 1 else 0]
  | EvInt z => [1; z]
  | EvFloat b => [2; Z.of_N b]
  | EvString s k => 3 :: tk_text s ++ [tk_strkind k]
  | EvStringList l => 4 :: Z.of_nat (List.length l) :: flat_map (fun p => tk_text (fst p) ++ [tk_strkind (snd p)]) l
  | EvEnumSet l => 5 :: Z.of_nat (List.length l) :: flat_map (fun p => Z.of_nat (fst p) :: tk_str (snd p)) l
  | EvObjectRef n => 6 :: tk_str n
  | EvObjectRefList l => 7 :: Z.of_nat (List.length l) :: flat_map tk_str l
  | EvEmptyList => [8]
  end.

Definition tir_case (E : cenv) (cb : callback) : list Z :=
  let b := build_callback E cb in
  let ds := Z.of_nat (List.length (bu_diags b)) :: map dclass_code (bu_diags b) in
  match bu_panic b with
  | Some _ => 2 :: ds
  | None =>
      match bu_code b with
      | None => 0 :: ds
      | Some c =>
          1 :: ds ++ tk_code c
          ++ (match resolve_return_type E c with Some t => 1 :: tk_tdesc t | None => [0] end)
          ++ (match evaluate_code E c with
              | Ok (Some v) => 1 :: tk_evalue v
              | Ok None => [0]
              | _ => [2]        (* the interpreter panics (or runs out of fuel) *)
              end)
          ++ (match analyze_code_property_dependency E c with
              | Ok (c', pd) => 1 :: tk_code c' ++ Z.of_nat (List.length pd) :: map (fun d => match d with PUnobservable => 0 | PTypeResolution => 1 end) pd
              | _ => [2]
              end)
      end
  end.

(* C06: 1 = accepted and cfg_ok, 4 = accepted, structurally ok, no common return type, 0 = accepted but check fails, 2 = rejected, 3 = panic *)
From QV Require Import model.CfgCheck.
Definition cfg_case (E : cenv) (cb : callback) : Z :=
  let b := build_callback E cb in
  match bu_panic b, bu_code b with
  | Some _, _ => 3
  | None, None => 2
  | None, Some c =>
      if cfg_ok c (bu_exempt b) then 1
      else match resolve_return_type E c with
           | None =>
               (* not a value-returning body: no common return type, so it is rejected as a property binding and its values
                  are discarded as a callback; only the structural clauses apply *)
               let blocks := c_blocks c in
               let r := reach_candidate blocks in
               let have := (seq 0 (c_nparams c) ++ bu_exempt b)%list in
               if reach_ok blocks r && ins_ok blocks r have (in_candidate blocks have) then 4 else 0
           | Some _ => 0
           end
  end.
(* which part of cfg_ok fails: (reach_ok, ins_ok, returns_consistent) *)
Definition cfg_detail (E : cenv) (cb : callback) : list bool :=
  let b := build_callback E cb in
  match bu_code b with
  | None => []
  | Some c =>
      let blocks := c_blocks c in
      let r := reach_candidate blocks in
      let have := (seq 0 (c_nparams c) ++ bu_exempt b)%list in
      [reach_ok blocks r; ins_ok blocks r have (in_candidate blocks have); returns_consistent blocks r]
  end.

(* C03: literal spellings.  number: [1; v] | [2; bits] | [0]; string body: 1 :: len :: code points | [0] *)
From QV Require Import model.Literal.
Definition number_case (s : list N) : list Z :=
  match parse_number_str s with
  | Some (NumInt v) => [1; v]
  | Some (NumFloat b) => [2; Z.of_N b]
  | None => [0]
  end.
Definition string_case (s : list N) : list Z :=
  match parse_string s with Some t => 1 :: tk_text t | None => [0] end.

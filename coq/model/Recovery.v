(* Recovery.v -- model of the error recovery the preview relies on: lib/src/uigen/objcode.rs (ObjectCodeMap::build: a binding map
   that fails to parse is replaced by the empty map; a binding that fails to build is dropped alone), lib/src/objtree.rs
   (populate_node_rec: a child whose type does not resolve is skipped with its subtree, siblings kept) and uigen/mod.rs (the
   form is returned whenever the root resolves). *)
From QV Require Import model.Base gen.GenUigen model.Uigen model.ObjTree model.Layout.
Open Scope string_scope.
Open Scope list_scope.

(* a binding as written: one that builds (with the outcome of the expression layer), or one whose build fails (unknown property or
   signal, ill-formed value, type error inside the expression ...) *)
Inductive rawb := RGood (p : pcode) | RFault (name : string).
Definition rname (r : rawb) : string := match r with RGood p => pname p | RFault n => n end.
Definition goods (rs : list rawb) : list pcode := flat_map (fun r => match r with RGood p => [p] | RFault _ => [] end) rs.
Definition faults (rs : list rawb) : list string := flat_map (fun r => match r with RGood _ => [] | RFault n => [n] end) rs.

Fixpoint first_dup (seen : list string) (l : list string) : option string :=
  match l with [] => None | x :: r => if mem x seen then Some x else first_dup (x :: seen) r end.

Inductive rdiag := RDuplicated (name : string) | RBuildFailed (name : string) | RInner (d : diag).

(* UiObjectDefinition::build_binding_map + build_properties_callbacks *)
Definition elaborate_props (rs : list rawb) : list pcode * list rdiag :=
  match first_dup [] (map rname rs) with
  | Some n => ([], [RDuplicated n])                          (* unwrap_or_default: the whole map is lost *)
  | None => (goods rs, map RBuildFailed (faults rs))
  end.

(* attached bindings as written (possibly the same one twice).  After the repair of F15 (build_attached_type_map_lossy) a
   duplicate is reported and skipped: the first definition and the unrelated bindings are kept *)
Definition akey (x : aclass * leaf) : string := attached_name (fst x) (l_name (snd x)).
Fixpoint dedup_first (seen : list string) (l : list (aclass * leaf)) : list (aclass * leaf) * list rdiag :=
  match l with
  | [] => ([], [])
  | x :: r => if mem (akey x) seen then let '(k, d) := dedup_first seen r in (k, RDuplicated (akey x) :: d)
              else let '(k, d) := dedup_first (akey x :: seen) r in (x :: k, d)
  end.

Record robj := { ro_kind : Uigen.okind; ro_ctx : pctx; ro_raw : list rawb; ro_callbacks : list string; ro_attached : list (aclass * leaf) }.

Definition elaborate (o : robj) : obj * list rdiag :=
  let '(ps, d) := elaborate_props (ro_raw o) in
  let '(att, d') := dedup_first [] (ro_attached o) in
  ({| o_kind := ro_kind o; o_ctx := ro_ctx o; o_props := ps; o_callbacks := ro_callbacks o; o_attached := map (fun x => (fst x, [snd x])) att |}, d ++ d').

Definition preview (o : robj) : result * list rdiag :=
  let '(e, d) := elaborate o in (run Omit e, d ++ map RInner (r_diags (run Omit e))).

(* ---- the object tree: children whose type does not resolve are skipped with their subtree ---- *)
Inductive rnode := RN (resolves : bool) (k : ObjTree.okind) (name : nat) (acts : option (list nat)) (children : list rnode).
Fixpoint resolve (n : rnode) : list onode :=
  match n with
  | RN ok k nm acts ch => if ok then [ON k nm acts (flat_map resolve ch)] else []
  end.
Definition preview_form (root : rnode) : option (uiel * list placement_error) :=
  match resolve root with [t] => Some (form_of t) | _ => None end.

(* ---- F15: what a lost attached map does to the siblings in a grid ---- *)
Definition cells (f : flow) (kids : list attach) : option (list (option Z * option Z * option Z * option Z)) :=
  match process_grid f kids with Ok (_, items, _) => Some (map item_tuple items) | _ => None end.
Definition no_attach : attach :=
  {| a_row := None; a_col := None; a_rowspan := None; a_colspan := None; a_cmw := None; a_cst := None; a_rmh := None; a_rst := None |}.

(* Builder.v -- model of lib/src/typedexpr.rs (walk, walk_callback, walk_stmt, walk_expr, ...) driving the
   CodeBuilder visitor of lib/src/tir/builder.rs.  A state monad over the builder's CodeBody plus the diagnostics;
   a failed sub-walk (Rust `None` after pushing a diagnostic) keeps the state, exactly as the code does, and the walk
   continues where walk_stmt_nodes / the switch's filter_map continue.  Asserts and indexing are Panic values. *)
From QV Require Import model.Base model.Lang model.Types model.Tir model.Ceval.
From Coq Require Import Arith.
Open Scope nat_scope.
Open Scope string_scope.
Open Scope list_scope.

(* diagnostics by message class *)
Inductive dclass :=
| XIntegerConversion | XIntegerOverflow | XIncompatibleArrayElem | XIncompatibleIndex | XInvalidArgument
| XIncompatibleTypes | XOpUndetermined | XUnsupportedType | XUnsupportedTypes | XUnreadable | XUnwritable
| XUndeterminedType            (* typeutil::TypeError::UndeterminedType through to_concrete_type *)
| XConstNoInit | XDeclNoTypeNoInit | XNotBoolCondition | XLabeledBreak | XBreakOutside
| XNamedFunction | XRedefinedParam | XParamNoType | XReturnTypeIgnored (* warning *)
| XBareFunctionRef | XBareTypeRef | XUndefinedRef | XUnsupportedExpr | XNoMemberOnFunction | XNotCallable
| XConstAssign | XRvalueGadget | XRvalueSubscript | XNotAssignable | XUnsupportedOperation
| XNotFoundInNamespace | XNotFoundInType | XUndefinedType | XUnmodelled.

Record bstate := { bs_blocks : list block; bs_locals : list tkind; bs_nparams : nat; bs_diags : list dclass;
                   bs_exempt : list nat (* not part of the Rust state: locals declared by `let x: T` without initialiser, or directly in a switch clause *) }.
Definition bstate0 := {| bs_blocks := [block0]; bs_locals := []; bs_nparams := 0; bs_diags := []; bs_exempt := [] |}.

Inductive out (A : Type) := V (a : A) | F | P (site : string).
Arguments V {A} a. Arguments F {A}. Arguments P {A} site.
Definition M (A : Type) := bstate -> out A * bstate.
Definition ret {A} (a : A) : M A := fun s => (V a, s).
Definition mbind {A B} (m : M A) (f : A -> M B) : M B :=
  fun s => match m s with
           | (V a, s') => f a s'
           | (F, s') => (F, s')
           | (P x, s') => (P x, s')
           end.
Notation "'let!' x ':=' m 'in' f" := (mbind m (fun x => f)) (at level 200, x pattern, m at level 100, f at level 200).
Definition fail {A} (d : dclass) : M A :=
  fun s => (F, {| bs_blocks := bs_blocks s; bs_locals := bs_locals s; bs_nparams := bs_nparams s; bs_diags := bs_diags s ++ [d]; bs_exempt := bs_exempt s |}).
Definition warn (d : dclass) : M unit :=
  fun s => (V tt, {| bs_blocks := bs_blocks s; bs_locals := bs_locals s; bs_nparams := bs_nparams s; bs_diags := bs_diags s ++ [d]; bs_exempt := bs_exempt s |}).
Definition panic {A} (site : string) : M A := fun s => (P site, s).
(* run m; report whether it succeeded, never fail (Rust: keep going after a None) *)
Definition attempt {A} (m : M A) : M (option A) :=
  fun s => match m s with (V a, s') => (V (Some a), s') | (F, s') => (V None, s') | (P x, s') => (P x, s') end.
Definition get_state : M bstate := fun s => (V s, s).
Definition set_blocks (bl : list block) : M unit :=
  fun s => (V tt, {| bs_blocks := bl; bs_locals := bs_locals s; bs_nparams := bs_nparams s; bs_diags := bs_diags s; bs_exempt := bs_exempt s |}).

(* ---- CodeBuilder primitives ---- *)
Fixpoint update_nth {A} (l : list A) (i : nat) (f : A -> A) : list A :=
  match l, i with
  | [], _ => []
  | x :: r, O => f x :: r
  | x :: r, S j => x :: update_nth r j f
  end.

Definition current_ref : M nat :=
  fun s => match bs_blocks s with [] => (P "builder.rs: no basic block", s) | bl => (V (List.length bl - 1), s) end.

Definition with_block (r : nat) (site : string) (f : block -> block + string) : M unit :=
  fun s => match nth_error (bs_blocks s) r with
           | None => (P (String.append "builder.rs: basic block index out of range: " site), s)
           | Some b => match f b with
                       | inl b' => set_blocks (update_nth (bs_blocks s) r (fun _ => b')) s
                       | inr msg => (P msg, s)
                       end
           end.

Definition b_push (st : tstmt) (b : block) : block + string :=
  match b_term b with
  | Some _ => inr "core.rs push_statement: assert!(self.terminator.is_none())"
  | None => inl {| b_stmts := b_stmts b ++ [st]; b_compl := b_compl b; b_term := None |}
  end.
Definition b_finalize (t : term) (b : block) : block + string :=
  match b_term b with
  | Some _ => inr "core.rs finalize: assert!(self.terminator.is_none())"
  | None => inl {| b_stmts := b_stmts b; b_compl := b_compl b; b_term := Some t |}
  end.
Definition b_set_compl (a : operand) (b : block) : block + string :=
  match b_term b with
  | Some _ => inr "core.rs set_completion_value: assert!(self.terminator.is_none())"
  | None => inl {| b_stmts := b_stmts b; b_compl := Some a; b_term := None |}
  end.

Definition push_statement (st : tstmt) : M unit := let! r := current_ref in with_block r "push_statement" (b_push st).
Definition push_statement_at (r : nat) (st : tstmt) : M unit := with_block r "push_statement_at" (b_push st).
Definition finalize_at (r : nat) (t : term) : M unit := with_block r "finalize" (b_finalize t).
Definition push_block : M unit :=
  fun s => (V tt, {| bs_blocks := bs_blocks s ++ [block0]; bs_locals := bs_locals s; bs_nparams := bs_nparams s; bs_diags := bs_diags s; bs_exempt := bs_exempt s |}).
Definition mark_branch_point : M nat := let! r := current_ref in let! _ := push_block in ret r.

(* alloca: None for void *)
Definition alloca (ty : tkind) : M (option operand) :=
  fun s => if tkind_eqb ty T_VOID then (V None, s)
           else (V (Some (OLocal (List.length (bs_locals s)) ty)),
                 {| bs_blocks := bs_blocks s; bs_locals := bs_locals s ++ [ty]; bs_nparams := bs_nparams s; bs_diags := bs_diags s; bs_exempt := bs_exempt s |}).
Definition local_index (a : operand) : nat := match a with OLocal l _ => l | _ => 0 end.

Definition emit_result (ty : tkind) (rv : rvalue) : M operand :=
  let! a := alloca ty in
  match a with
  | Some l => let! _ := push_statement (TAssign (local_index l) rv) in ret l
  | None => let! _ := push_statement (TExec rv) in ret OVoid
  end.

Definition ensure_concrete_string (a : operand) : operand :=
  match a with OConst (CCString s) => OConst (CQString s) | _ => a end.

Definition of_terr_op {A} (e : terr) : M A :=
  match e with TEIncompatible _ _ => fail XIncompatibleTypes | TEUndetermined _ => fail XOpUndetermined end.
Definition m_deduce_concrete (E : cenv) (l r : tdesc) : M tkind :=
  match deduce_concrete_type E l r with inl t => ret t | inr e => of_terr_op e end.
Definition m_to_concrete (t : tdesc) : M tkind :=
  match to_concrete_type t with inl t => ret t | inr e => of_terr_op e end.

Definition of_cerr {A} (e : cerr) : M A :=
  match e with
  | CeOverflow => fail XIntegerOverflow
  | CeConversion => fail XIntegerConversion
  | CeUnsupported _ => fail XUnsupportedType
  | CeUnsupported2 _ _ => fail XUnsupportedTypes
  | CeIncompatible _ _ => fail XIncompatibleTypes
  | CeUnmodelled => fail XUnmodelled
  end.
Definition of_ceval (r : constv + cerr) : M operand :=
  match r with inl c => ret (OConst c) | inr e => of_cerr e end.

(* ---- visitor methods ---- *)
Definition visit_integer (n : N) : M operand :=
  if (Z.of_N n <=? I64_MAX)%Z then ret (OConst (CInt (Z.of_N n))) else fail XIntegerConversion.

Fixpoint deduce_elems (E : cenv) (t : tdesc) (rest : list operand) : M tdesc :=
  match rest with
  | [] => ret t
  | a :: r => match deduce_type E t (operand_tdesc a) with
              | inl t' => deduce_elems E t' r
              | inr (TEIncompatible _ _) => fail XIncompatibleArrayElem
              | inr e => of_terr_op e
              end
  end.
Definition visit_array (E : cenv) (elements : list operand) : M operand :=
  let operands := map ensure_concrete_string elements in
  match operands with
  | [] => ret (OConst CEmptyList)
  | a :: r =>
      let! elem_t := deduce_elems E (operand_tdesc a) r in
      let! c := m_to_concrete elem_t in
      let ty := TList c in
      emit_result ty (RMakeList ty operands)
  end.

Definition visit_local_ref (l : nat) : M operand :=
  fun s => match nth_error (bs_locals s) l with
           | Some t => (V (OLocal l t), s)
           | None => (P "builder.rs visit_local_ref: locals index out of range", s)
           end.
Definition visit_local_declaration (ty : tkind) : M nat :=
  let! a := alloca ty in
  match a with Some l => ret (local_index l) | None => fail XUnsupportedType end.
Definition visit_local_assignment (E : cenv) (l : nat) (rhs : operand) : M operand :=
  let! lo := visit_local_ref l in
  let ty := match lo with OLocal _ t => t | _ => T_VOID end in
  let rhs := ensure_concrete_string rhs in
  if is_assignable E ty (operand_tdesc rhs)
  then let! _ := push_statement (TAssign l (RCopy rhs)) in ret OVoid
  else fail XIncompatibleTypes.
Definition visit_function_parameter (ty : tkind) : M nat :=
  fun s => if negb (Nat.eqb (List.length (bs_locals s)) (bs_nparams s))
           then (P "builder.rs visit_function_parameter: parameters must be declared first", s)
           else match alloca ty s with
                | (V (Some l), s') => (V (local_index l), {| bs_blocks := bs_blocks s'; bs_locals := bs_locals s';
                                                              bs_nparams := List.length (bs_locals s'); bs_diags := bs_diags s'; bs_exempt := bs_exempt s' |})
                | (V None, s') => fail XUnsupportedType s'
                | (F, s') => (F, s')
                | (P x, s') => (P x, s')
                end.

Definition visit_object_property (obj : operand) (p : pref) : M operand :=
  if negb (pi_readable (pr_info p)) then fail XUnreadable
  else emit_result (pi_type (pr_info p)) (RReadProp (ensure_concrete_string obj) p).
Definition visit_object_property_assignment (E : cenv) (obj : operand) (p : pref) (rhs : operand) : M operand :=
  if negb (pi_writable (pr_info p)) then fail XUnwritable
  else let rhs := ensure_concrete_string rhs in
       if is_assignable E (pi_type (pr_info p)) (operand_tdesc rhs)
       then emit_result T_VOID (RWriteProp (ensure_concrete_string obj) p rhs)
       else fail XIncompatibleTypes.

Definition check_object_subscript_type (obj index : operand) : M tkind :=
  let! ty := m_to_concrete (operand_tdesc obj) in
  match ty with
  | TList elem =>
      match operand_tdesc index with
      | DConstInteger => ret elem
      | DConcrete t => if tkind_eqb t T_INT || tkind_eqb t T_UINT then ret elem else fail XIncompatibleIndex
      | _ => fail XIncompatibleIndex
      end
  | _ => fail XUnsupportedType
  end.
Definition visit_object_subscript (obj index : operand) : M operand :=
  let! elem := check_object_subscript_type obj index in emit_result elem (RReadSub obj index).
Definition visit_object_subscript_assignment (E : cenv) (obj index rhs : operand) : M operand :=
  let! elem := check_object_subscript_type obj index in
  if is_assignable E elem (operand_tdesc rhs)
  then let! _ := push_statement (TExec (RWriteSub obj index rhs)) in ret OVoid
  else fail XIncompatibleTypes.

Fixpoint args_assignable (E : cenv) (tys : list tkind) (args : list operand) : bool :=
  match tys, args with
  | t :: tr, a :: ar => is_assignable E t (operand_tdesc a) && args_assignable E tr ar
  | _, _ => true      (* zip stops at the shorter list; lengths were compared before *)
  end.
Definition visit_object_method_call (E : cenv) (obj : operand) (cls : nat) (methods : list minfo) (args : list operand) : M operand :=
  let obj := ensure_concrete_string obj in
  let args := map ensure_concrete_string args in
  match find (fun m => Nat.eqb (List.length (mi_args m)) (List.length args) && args_assignable E (mi_args m) args) methods with
  | Some m => emit_result (mi_ret m) (RCallMethod obj {| mr_class := cls; mr_info := m |} args)
  | None => fail XInvalidArgument
  end.

Definition visit_builtin_call (E : cenv) (f : builtin) (args : list operand) : M operand :=
  match f with
  | BfConsole _ =>
      (* an empty list literal has no type: nothing could be sent to the stream (fix F27) *)
      if existsb (fun a => match operand_tdesc a with DEmptyList => true | _ => false end) args then fail XOpUndetermined
      else emit_result T_VOID (RBuiltin f args)
  | BfMax | BfMin =>
      match map ensure_concrete_string args with
      | [a; b] =>
          let! ty := m_deduce_concrete E (operand_tdesc a) (operand_tdesc b) in
          if tkind_eqb ty T_BOOL || tkind_eqb ty T_DOUBLE || tkind_eqb ty T_INT || tkind_eqb ty T_UINT || tkind_eqb ty T_STRING
          then emit_result ty (RBuiltin f [a; b]) else fail XUnsupportedType
      | _ => fail XInvalidArgument
      end
  | BfTr =>
      match args with
      | [a] => match operand_tdesc a with DConstString => emit_result T_STRING (RBuiltin f args) | _ => fail XInvalidArgument end
      | _ => fail XInvalidArgument
      end
  end.

Definition is_enum_type (t : tkind) : bool := match t with TJust (NEnum _) => true | _ => false end.

Definition emit_unary (op : unop) (arg : operand) : M operand :=
  let arg := ensure_concrete_string arg in
  let! ty :=
    match op with
    | UoArithMinus | UoArithPlus =>
        let! ty := m_to_concrete (operand_tdesc arg) in
        if is_numeric ty then ret ty else fail XUnsupportedType
    | UoBitNot =>
        let! ty := m_to_concrete (operand_tdesc arg) in
        if tkind_eqb ty T_INT || tkind_eqb ty T_UINT || is_enum_type ty then ret ty else fail XUnsupportedType
    | UoLogNot =>
        if tdesc_eqb (operand_tdesc arg) (DConcrete T_BOOL) then ret T_BOOL else fail XUnsupportedType
    end in
  emit_result ty (RUnary op arg).
Definition visit_unary (op : unop) (arg : operand) : M operand :=
  match arg with
  | OConst c =>
      of_ceval (match op with
                | UoArithMinus => eval_unary_arith true c
                | UoArithPlus => eval_unary_arith false c
                | UoBitNot => eval_unary_bitwise c
                | UoLogNot => eval_unary_logical c
                end)
  | _ => emit_unary op arg
  end.

Inductive bopclass := KArith | KBitwise | KShift | KLogical | KComparison.
Definition binop_class (op : binop) : bopclass :=
  match op with
  | BoAdd | BoSub | BoMul | BoDiv | BoRem => KArith
  | BoAnd | BoXor | BoOr => KBitwise
  | BoShr | BoShl => KShift
  | BoLAnd | BoLOr => KLogical
  | _ => KComparison
  end.

Definition emit_binary (E : cenv) (op : binop) (lhs rhs : operand) : M operand :=
  let lhs := ensure_concrete_string lhs in
  let rhs := ensure_concrete_string rhs in
  let! ty :=
    match binop_class op with
    | KArith =>
        let! ty := m_deduce_concrete E (operand_tdesc lhs) (operand_tdesc rhs) in
        if is_numeric ty then ret ty
        else if tkind_eqb ty T_STRING then (match op with BoAdd => ret ty | _ => fail XUnsupportedType end)
        else fail XUnsupportedType
    | KBitwise =>
        let! ty := m_deduce_concrete E (operand_tdesc lhs) (operand_tdesc rhs) in
        if tkind_eqb ty T_BOOL || tkind_eqb ty T_INT || tkind_eqb ty T_UINT || is_enum_type ty then ret ty else fail XUnsupportedType
    | KShift =>
        let! lty := m_to_concrete (operand_tdesc lhs) in
        let rt := operand_tdesc rhs in
        if (tkind_eqb lty T_INT || tkind_eqb lty T_UINT)
           && (tdesc_eqb rt DConstInteger || tdesc_eqb rt (DConcrete T_INT) || tdesc_eqb rt (DConcrete T_UINT))
        then ret lty else fail XUnsupportedTypes
    | KLogical => panic "builder.rs emit_binary_expression: visit_binary_logical_expression() should be called"
    | KComparison =>
        let! ty := m_deduce_concrete E (operand_tdesc lhs) (operand_tdesc rhs) in
        if tkind_eqb ty T_BOOL || is_numeric ty || tkind_eqb ty T_STRING || is_enum_type ty || tkind_is_pointer ty
        then ret T_BOOL else fail XUnsupportedType
    end in
  emit_result ty (RBinary op lhs rhs).
Definition visit_binary (E : cenv) (op : binop) (lhs rhs : operand) : M operand :=
  match lhs, rhs with
  | OConst l, OConst r =>
      match binop_class op with
      | KArith => of_ceval (eval_binary_arith op l r)
      | KBitwise => of_ceval (eval_binary_bitwise op l r)
      | KShift => of_ceval (eval_shift op l r)
      | KLogical => panic "builder.rs visit_binary_expression: visit_binary_logical_expression() should be called"
      | KComparison => of_ceval (eval_comparison op l r)
      end
  | _, _ => emit_binary E op lhs rhs
  end.

Definition visit_binary_logical (is_and : bool) (lhs : operand) (left_ref : nat) (rhs : operand) (right_ref : nat) : M operand :=
  if negb (tdesc_eqb (operand_tdesc lhs) (DConcrete T_BOOL) && tdesc_eqb (operand_tdesc rhs) (DConcrete T_BOOL))
  then panic "builder.rs visit_binary_logical_expression: assert_eq!(type_desc, BOOL)"
  else
    let init_value := negb is_and in
    let true_ref := if is_and then S left_ref else S right_ref in
    let false_ref := if is_and then S right_ref else S left_ref in
    let! sink := alloca T_BOOL in
    match sink with
    | None => panic "unreachable"
    | Some sk =>
        let! _ := push_statement_at left_ref (TAssign (local_index sk) (RCopy (OConst (CBool init_value)))) in
        let! _ := finalize_at left_ref (TmBrCond lhs true_ref false_ref) in
        let! _ := push_statement_at right_ref (TAssign (local_index sk) (RCopy rhs)) in
        let! _ := finalize_at right_ref (TmBr (S right_ref)) in
        ret sk
    end.

Definition visit_as (E : cenv) (value : operand) (ty : tkind) : M operand :=
  let value := ensure_concrete_string value in
  match pick_type_cast E ty (operand_tdesc value) with
  | CNoop => ret value
  | CImplicit => emit_result ty (RCopy value)
  | CStatic => emit_result ty (RStaticCast ty value)
  | CVariant => emit_result ty (RVariantCast ty value)
  | CInvalid => fail XIncompatibleTypes
  end.

Definition visit_ternary (E : cenv) (cond : operand) (cond_ref : nat) (conseq : operand) (conseq_ref : nat)
                         (alt : operand) (alt_ref : nat) : M operand :=
  let conseq := ensure_concrete_string conseq in
  let alt := ensure_concrete_string alt in
  let! ty := m_deduce_concrete E (operand_tdesc conseq) (operand_tdesc alt) in
  let! sink := alloca ty in
  let! _ := finalize_at cond_ref (TmBrCond cond (S cond_ref) (S conseq_ref)) in
  let! _ := (match sink with Some sk => push_statement_at conseq_ref (TAssign (local_index sk) (RCopy conseq)) | None => ret tt end) in
  let! _ := finalize_at conseq_ref (TmBr (S alt_ref)) in
  let! _ := (match sink with Some sk => push_statement_at alt_ref (TAssign (local_index sk) (RCopy alt)) | None => ret tt end) in
  let! _ := finalize_at alt_ref (TmBr (S alt_ref)) in
  ret (match sink with Some sk => sk | None => OVoid end).

Definition visit_expression_statement (value : operand) : M unit :=
  let! r := current_ref in with_block r "set_completion_value" (b_set_compl (ensure_concrete_string value)).

Definition visit_if (cond : operand) (cond_ref conseq_ref : nat) (alt_ref : option nat) : M unit :=
  let! _ := finalize_at cond_ref (TmBrCond cond (S cond_ref) (S conseq_ref)) in
  let end_ref := S (match alt_ref with Some a => a | None => conseq_ref end) in
  let! _ := finalize_at conseq_ref (TmBr end_ref) in
  match alt_ref with Some l => finalize_at l (TmBr end_ref) | None => ret tt end.

Fixpoint remove_nth {A} (l : list A) (i : nat) : option (A * list A) :=
  match l, i with
  | [], _ => None
  | x :: r, O => Some (x, r)
  | x :: r, S j => match remove_nth r j with Some (y, r') => Some (y, x :: r') | None => None end
  end.

Fixpoint connect_cases (conds : list (operand * nat)) (starts : list nat) (default_or_end : nat) : M unit :=
  match conds, starts with
  | (c, cref) :: cr, st :: sr =>
      let next := match sr with [] => default_or_end | _ => S cref end in
      let! _ := finalize_at cref (TmBrCond c st next) in connect_cases cr sr default_or_end
  | _, _ => ret tt
  end.
Fixpoint finalize_bodies (bodies : list nat) : M unit :=
  match bodies with [] => ret tt | b :: r => let! _ := finalize_at b (TmBr (S b)) in finalize_bodies r end.

Definition visit_switch (conds : list (operand * nat)) (bodies : list nat) (default_pos : option nat) (head_ref exit_ref : nat) : M unit :=
  let last_body_ref := last bodies exit_ref in
  let starts0 := match bodies with [] => [] | _ => S exit_ref :: map S (removelast bodies) end in
  let! sd := (match default_pos with
              | None => ret (starts0, None)
              | Some p => match remove_nth starts0 p with
                          | Some (d, rest) => ret (rest, Some d)
                          | None => panic "builder.rs visit_switch_statement: case_body_start_refs.remove(p) out of range"
                          end
              end) in
  let '(starts, default_start) := sd in
  if negb (Nat.eqb (List.length conds) (List.length starts))
  then panic "builder.rs visit_switch_statement: assert_eq!(case_conditions.len(), case_body_start_refs.len())"
  else
    let! _ := connect_cases conds starts (match default_start with Some d => d | None => S last_body_ref end) in
    let! _ := finalize_bodies bodies in
    let! _ := finalize_at head_ref (TmBr (S exit_ref)) in
    finalize_at exit_ref (TmBr (S last_body_ref)).

Definition visit_break (exit_ref : nat) : M unit :=
  let! r := current_ref in let! _ := finalize_at r (TmBr exit_ref) in push_block.
Definition visit_return (value : operand) : M unit :=
  let! r := current_ref in let! _ := finalize_at r (TmReturn (ensure_concrete_string value)) in push_block.

(* ================================================================== typedexpr.rs *)
Inductive exprkind := KLvalue | KRvalue.
Inductive recvkind := RObject | RGadget (k : exprkind).
Inductive nskind := NsConsole | NsMath.
Inductive inter :=
| IItem (a : operand)
| ILocal (l : nat) (k : decl_kind)
| IBoundProperty (a : operand) (p : pref) (r : recvkind)
| IBoundSubscript (a i : operand) (k : exprkind)
| IBoundMethod (a : operand) (cls : nat) (ms : list minfo)
| IBuiltinFunction (f : builtin)
| IBuiltinNamespace (k : nskind)
| IType (n : named).

Definition lenv := list (string * (nat * decl_kind)).
Fixpoint lenv_get (env : lenv) (x : string) : option (nat * decl_kind) :=
  match env with [] => None | (k, v) :: r => if String.eqb k x then Some v else lenv_get r x end.

Definition check_condition_type (a : operand) : M unit :=
  if tdesc_eqb (operand_tdesc a) (DConcrete T_BOOL) then ret tt else fail XNotBoolCondition.

Definition lookup_global_name (name : string) : option inter :=
  if String.eqb name "Math" then Some (IBuiltinNamespace NsMath)
  else if String.eqb name "console" then Some (IBuiltinNamespace NsConsole)
  else if String.eqb name "qsTr" then Some (IBuiltinFunction BfTr)
  else None.

(* ObjectContext::get_ref *)
Inductive refkind := RfType (n : named) | RfEnumVariant (e : nat) | RfObject (c : nat)
                   | RfObjectProperty (c : nat) (oname : string) (p : pref) | RfObjectMethod (c : nat) (oname : string) (dc : nat) (ms : list minfo).
Definition ctx_get_ref (E : cenv) (name : string) : option refkind :=
  match assoc name (ce_objects E) with
  | Some c => Some (RfObject c)
  | None =>
      match ce_this E with
      | Some (tc, tn) =>
          match get_property E tc name with
          | Some (dc, p) => Some (RfObjectProperty tc tn {| pr_class := dc; pr_info := p |})
          | None => match get_methods E tc name with
                    | Some (dc, ms) => Some (RfObjectMethod tc tn dc ms)
                    | None => option_map RfType (type_by_name E name)
                    end
          end
      | None => option_map RfType (type_by_name E name)
      end
  end.
(* a NamedType used as a RefSpace (blanket impl for TypeSpace): nested type, then enum variant *)
Definition type_get_ref (E : cenv) (ty : named) (name : string) : option refkind :=
  match nested_type E ty name with
  | Some n => Some (RfType n)
  | None =>
      match ty with
      | NClass c => option_map RfEnumVariant (class_enum_by_variant E c name)
      | NEnum e => match get_enum E e with
                   | Some ei => if ei_scoped ei && smem name (ei_variants ei) then Some (RfEnumVariant e) else None
                   | None => None end
      | NPrim _ => None
      end
  end.

Definition of_ref (r : refkind) (name : string) : M inter :=
  match r with
  | RfType ty => ret (IType ty)
  | RfEnumVariant e => ret (IItem (OEnum e name))
  | RfObject c => ret (IItem (ONamed name c))
  | RfObjectProperty c on p => ret (IBoundProperty (ONamed on c) p RObject)
  | RfObjectMethod c on dc ms => ret (IBoundMethod (ONamed on c) dc ms)
  end.

Definition process_identifier (E : cenv) (env : option lenv) (ctx_type : option named) (name : string) : M inter :=
  match (match env with Some e => lenv_get e name | None => None end) with
  | Some (l, k) => ret (ILocal l k)
  | None =>
      match (match ctx_type with None => ctx_get_ref E name | Some ty => type_get_ref E ty name end) with
      | Some r => of_ref r name
      | None =>
          match (match ctx_type with None => lookup_global_name name | Some _ => None end) with
          | Some x => ret x
          | None => fail XUndefinedRef
          end
      end
  end.

Definition process_namespace_name (k : nskind) (name : string) : M inter :=
  match k with
  | NsConsole =>
      if String.eqb name "debug" then ret (IBuiltinFunction (BfConsole LDebug))
      else if String.eqb name "error" then ret (IBuiltinFunction (BfConsole LError))
      else if String.eqb name "info" then ret (IBuiltinFunction (BfConsole LInfo))
      else if String.eqb name "log" then ret (IBuiltinFunction (BfConsole LLog))
      else if String.eqb name "warn" then ret (IBuiltinFunction (BfConsole LWarn))
      else fail XNotFoundInNamespace
  | NsMath =>
      if String.eqb name "max" then ret (IBuiltinFunction BfMax)
      else if String.eqb name "min" then ret (IBuiltinFunction BfMin)
      else fail XNotFoundInNamespace
  end.

Definition process_item_property (E : cenv) (item : operand) (name : string) (k : exprkind) : M inter :=
  match to_concrete_type (operand_tdesc item) with
  | inr _ => fail XUndeterminedType
  | inl ty =>
      match class_of_type ty with
      | Some cls =>
          let rk := if tkind_is_pointer ty then RObject else RGadget k in
          match get_property E cls name with
          | Some (dc, p) => ret (IBoundProperty item {| pr_class := dc; pr_info := p |} rk)
          | None => match get_methods E cls name with
                    | Some (dc, ms) => ret (IBoundMethod item dc ms)
                    | None => fail XNotFoundInType
                    end
          end
      | None => fail XNotFoundInType
      end
  end.

Definition process_type_annotation (E : cenv) (path : list string) : M tkind :=
  match annotated_type E path with Some t => ret t | None => fail XUndefinedType end.

Definition to_rvalue (i : inter) : M operand :=
  match i with
  | IItem x => ret x
  | ILocal l _ => visit_local_ref l
  | IBoundProperty it p _ => visit_object_property it p
  | IBoundSubscript it i _ => visit_object_subscript it i
  | IBoundMethod _ _ _ | IBuiltinFunction _ => fail XBareFunctionRef
  | IBuiltinNamespace _ | IType _ => fail XBareTypeRef
  end.

Definition uop_of (o : uop) : option unop :=
  match o with UNot => Some UoLogNot | UBitNot => Some UoBitNot | UMinus => Some UoArithMinus | UPlus => Some UoArithPlus | _ => None end.
Definition bop_of (o : bop) : option binop :=
  match o with
  | BLAnd => Some BoLAnd | BLOr => Some BoLOr | BShr => Some BoShr | BShl => Some BoShl
  | BAnd => Some BoAnd | BXor => Some BoXor | BOr => Some BoOr
  | BAdd => Some BoAdd | BSub => Some BoSub | BMul => Some BoMul | BDiv => Some BoDiv | BRem => Some BoRem
  | BEq | BSEq => Some BoEq | BNe | BSNe => Some BoNe | BLt => Some BoLt | BLe => Some BoLe | BGt => Some BoGt | BGe => Some BoGe
  | BUShr | BExp | BNullish | BInstanceof | BIn => None
  end.

Fixpoint walk_expr (E : cenv) (env : lenv) (e : expr) {struct e} : M inter :=
  let rv (x : expr) : M operand := let! i := walk_expr E env x in to_rvalue i in
  match e with
  | EIdent x => process_identifier E (Some env) None x
  | EThis => match ce_this E with Some (c, n) => ret (IItem (ONamed n c)) | None => fail XUndefinedRef end
  | EInt n => let! a := visit_integer n in ret (IItem a)
  | EFloat b => ret (IItem (OConst (CFloat b)))
  | EStr s => ret (IItem (OConst (CCString s)))
  | EBool b => ret (IItem (OConst (CBool b)))
  | ENull => ret (IItem (OConst CNull))
  | EArray es =>
      let! elements := (fix go (l : list expr) : M (list operand) :=
                          match l with
                          | [] => ret []
                          | x :: r => let! a := (let! i := walk_expr E env x in to_rvalue i) in let! rest := go r in ret (a :: rest)
                          end) es in
      let! a := visit_array E elements in ret (IItem a)
  | EFunction => fail XUnsupportedExpr
  | EMember o p =>
      let! io := walk_expr E env o in
      match io with
      | IItem it => process_item_property E it p KRvalue
      | ILocal l _ => let! it := visit_local_ref l in process_item_property E it p KLvalue
      | IBoundProperty it pp _ => let! obj := visit_object_property it pp in process_item_property E obj p KRvalue
      | IBoundSubscript it i _ => let! obj := visit_object_subscript it i in process_item_property E obj p KRvalue
      | IBoundMethod _ _ _ | IBuiltinFunction _ => fail XNoMemberOnFunction
      | IBuiltinNamespace k => process_namespace_name k p
      | IType ty => process_identifier E None (Some ty) p
      end
  | ESubscript o ix =>
      let! io := walk_expr E env o in
      let! ok := (match io with
                  | IItem it => ret (it, KRvalue)
                  | ILocal l _ => let! it := visit_local_ref l in ret (it, KLvalue)
                  | IBoundProperty it pp _ => let! obj := visit_object_property it pp in ret (obj, KRvalue)
                  | IBoundSubscript it i _ => let! obj := visit_object_subscript it i in ret (obj, KRvalue)
                  | IBoundMethod _ _ _ | IBuiltinFunction _ => fail XBareFunctionRef
                  | IBuiltinNamespace _ | IType _ => fail XBareTypeRef
                  end) in
      let! index := rv ix in
      ret (IBoundSubscript (fst ok) index (snd ok))
  | ECall f args =>
      let! arguments := (fix go (l : list expr) : M (list operand) :=
                           match l with
                           | [] => ret []
                           | x :: r => let! a := (let! i := walk_expr E env x in to_rvalue i) in let! rest := go r in ret (a :: rest)
                           end) args in
      let! fi := walk_expr E env f in
      match fi with
      | IBoundMethod it dc ms => let! a := visit_object_method_call E it dc ms arguments in ret (IItem a)
      | IBuiltinFunction bf => let! a := visit_builtin_call E bf arguments in ret (IItem a)
      | _ => fail XNotCallable
      end
  | EAssign l r =>
      let! rhs := rv r in
      let! li := walk_expr E env l in
      match li with
      | ILocal lo DLet => let! a := visit_local_assignment E lo rhs in ret (IItem a)
      | ILocal _ DConst => fail XConstAssign
      | IBoundProperty it p RObject | IBoundProperty it p (RGadget KLvalue) =>
          let! a := visit_object_property_assignment E it p rhs in ret (IItem a)
      | IBoundProperty _ _ (RGadget KRvalue) => fail XRvalueGadget
      | IBoundSubscript it i KLvalue => let! a := visit_object_subscript_assignment E it i rhs in ret (IItem a)
      | IBoundSubscript _ _ KRvalue => fail XRvalueSubscript
      | _ => fail XNotAssignable
      end
  | EUnary op a =>
      let! argument := rv a in
      match uop_of op with
      | None => fail XUnsupportedOperation
      | Some u => let! r := visit_unary u argument in ret (IItem r)
      end
  | EBinary op l r =>
      match bop_of op with
      | None => fail XUnsupportedOperation
      | Some b =>
          match binop_class b with
          | KLogical =>
              let! lhs := rv l in
              let! left_label := mark_branch_point in
              let! rhs := rv r in
              let! right_label := mark_branch_point in
              let! _ := check_condition_type lhs in
              let! _ := check_condition_type rhs in
              let! it := visit_binary_logical (match b with BoLAnd => true | _ => false end) lhs left_label rhs right_label in
              ret (IItem it)
          | _ =>
              let! lhs := rv l in
              let! rhs := rv r in
              let! it := visit_binary E b lhs rhs in ret (IItem it)
          end
      end
  | EAs v ty =>
      let! value := rv v in
      let! t := process_type_annotation E ty in
      let! it := visit_as E value t in ret (IItem it)
  | ETernary c a b =>
      let! cond := rv c in
      let! cond_label := mark_branch_point in
      let! conseq := rv a in
      let! conseq_label := mark_branch_point in
      let! alt := rv b in
      let! alt_label := mark_branch_point in
      let! _ := check_condition_type cond in
      let! it := visit_ternary E cond cond_label conseq conseq_label alt alt_label in
      ret (IItem it)
  end.

Definition walk_rvalue (E : cenv) (env : lenv) (e : expr) : M operand := let! i := walk_expr E env e in to_rvalue i.

(* statements: the result is (succeeded, environment after); a failure keeps walking where the code does *)
Definition sres := (bool * lenv)%type.
Definition sfail (env : lenv) : M sres := ret (false, env).

Definition mark_exempt (l : nat) : M unit :=
  fun s => (V tt, {| bs_blocks := bs_blocks s; bs_locals := bs_locals s; bs_nparams := bs_nparams s; bs_diags := bs_diags s;
                     bs_exempt := l :: bs_exempt s |}).

(* variables declared directly in a switch clause: a jump to a later clause bypasses the declaration, and reading the variable
   there is the program's own undefinedness (ECMAScript: a ReferenceError), like reading a `let x: T` never assigned *)
Definition exempt_new (env env' : lenv) : M unit :=
  fold_right (fun x acc => let! _ := mark_exempt (fst (snd x)) in acc) (ret tt) (firstn (List.length env' - List.length env) env').

Fixpoint walk_decls (E : cenv) (k : decl_kind) (env : lenv) (vars : list (string * option (list string) * option expr)) : M sres :=
  match vars with
  | [] => ret (true, env)
  | (name, ty, value) :: rest =>
      let! r := attempt (
        let! rvalue := (match value with
                        | Some n => let! v := walk_rvalue E env n in ret (Some v)
                        | None => match k with DConst => fail XConstNoInit | DLet => ret None end
                        end) in
        let! t := (match ty with
                   | Some path => process_type_annotation E path
                   | None => match rvalue with
                             | Some v => match to_concrete_type (operand_tdesc v) with inl t => ret t | inr _ => fail XUndeterminedType end
                             | None => fail XDeclNoTypeNoInit
                             end
                   end) in
        let! local := visit_local_declaration t in
        ret (local, rvalue)) in
      match r with
      | None => sfail env
      | Some (local, rvalue) =>
          let env' := (name, (local, k)) :: env in
          match rvalue with
          | Some v =>
              let! a := attempt (visit_local_assignment E local v) in
              match a with None => sfail env' | Some _ => walk_decls E k env' rest end
          | None => let! _ := mark_exempt local in walk_decls E k env' rest
          end
      end
  end.

Fixpoint walk_stmt (E : cenv) (env : lenv) (brk : option nat) (s : stmt) {struct s} : M sres :=
  let walk_nodes :=
    fix go (env : lenv) (l : list stmt) : M sres :=
      match l with
      | [] => ret (true, env)
      | x :: r => let! a := walk_stmt E env brk x in let! b := go (snd a) r in ret (fst a && fst b, snd b)
      end in
  match s with
  | SExpr e =>
      let! v := attempt (walk_rvalue E env e) in
      match v with Some value => let! _ := visit_expression_statement value in ret (true, env) | None => sfail env end
  | SBlock ss => let! r := walk_nodes env ss in ret (fst r, env)     (* inner scope is a clone *)
  | SDecl k vars => walk_decls E k env vars
  | SIf c t e =>
      let! cv := attempt (walk_rvalue E env c) in
      match cv with
      | None => sfail env
      | Some cond =>
          let! cond_label := mark_branch_point in
          let! rt := walk_stmt E env brk t in
          if negb (fst rt) then sfail (snd rt) else
          let env := snd rt in
          let! conseq_label := mark_branch_point in
          let! ra := (match e with
                      | Some n => let! r := walk_stmt E env brk n in
                                  if fst r then let! l := mark_branch_point in ret (true, snd r, Some l) else ret (false, snd r, None)
                      | None => ret (true, env, None)
                      end) in
          let '(ok, env, alt_label) := ra in
          if negb ok then sfail env else
          let! ck := attempt (check_condition_type cond) in
          match ck with
          | None => sfail env
          | Some _ => let! _ := visit_if cond cond_label conseq_label alt_label in ret (true, env)
          end
      end
  | SSwitch v cases default =>
      let! lv := attempt (walk_rvalue E env v) in
      match lv with
      | None => sfail env
      | Some lhs =>
          let! conds := (fix go (l : list (expr * list stmt)) : M (list (operand * nat)) :=
                           match l with
                           | [] => ret []
                           | (cv, _) :: r =>
                               let! c := attempt (let! rhs := walk_rvalue E env cv in
                                                  let! cond := visit_binary E BoEq lhs rhs in
                                                  let! lbl := mark_branch_point in ret (cond, lbl)) in
                               let! rest := go r in
                               ret (match c with Some x => x :: rest | None => rest end)
                           end) cases in
          let nbodies := List.length cases + match default with Some _ => 1 | None => 0 end in
          let default_pos := option_map fst default in
          let! _ := (match default with
                     | Some (pos, _) => if Nat.leb pos (List.length cases) then ret tt
                                        else panic "typedexpr.rs walk_stmt: body_statements.insert(d.position) out of range"
                     | None => ret tt
                     end) in
          let! head_ref := mark_branch_point in
          let! exit_ref := mark_branch_point in
          let! bodies :=
            (fix go (env : lenv) (i : nat) (l : list (expr * list stmt)) {struct l} : M (list nat) :=
               let! d := (match default with
                          | Some (pos, body) =>
                              if Nat.eqb pos i then
                                let! res := (fix gon (env : lenv) (l : list stmt) {struct l} : M sres :=
                                               match l with
                                               | [] => ret (true, env)
                                               | x :: r => let! a := walk_stmt E env (Some exit_ref) x in
                                                           let! _ := exempt_new env (snd a) in
                                                           let! b := gon (snd a) r in ret (fst a && fst b, snd b)
                                               end) env body in
                                if fst res then let! lbl := mark_branch_point in ret (snd res, [lbl]) else ret (snd res, [])
                              else ret (env, [])
                          | None => ret (env, [])
                          end) in
               match l with
               | [] => ret (snd d)
               | (_, nodes) :: r =>
                   let! res := (fix gon (env : lenv) (l : list stmt) {struct l} : M sres :=
                                  match l with
                                  | [] => ret (true, env)
                                  | x :: r => let! a := walk_stmt E env (Some exit_ref) x in
                                              let! _ := exempt_new env (snd a) in
                                              let! b := gon (snd a) r in ret (fst a && fst b, snd b)
                                  end) (fst d) nodes in
                   let! bl := (if fst res then let! lbl := mark_branch_point in ret [lbl] else ret []) in
                   let! rest := go (snd res) (S i) r in
                   ret (snd d ++ bl ++ rest)
               end) env 0 cases in
          if Nat.eqb (List.length cases) (List.length conds) && Nat.eqb nbodies (List.length bodies)
          then let! _ := visit_switch conds bodies default_pos head_ref exit_ref in ret (true, env)
          else sfail env
      end
  | SBreak labeled =>
      if labeled then let! _ := attempt (fail (A:=unit) XLabeledBreak) in sfail env
      else match brk with
           | Some l => let! _ := visit_break l in ret (true, env)
           | None => let! _ := attempt (fail (A:=unit) XBreakOutside) in sfail env
           end
  | SReturn e =>
      let! v := (match e with
                 | Some n => attempt (walk_rvalue E env n)
                 | None => ret (Some OVoid)
                 end) in
      match v with Some value => let! _ := visit_return value in ret (true, env) | None => sfail env end
  end.

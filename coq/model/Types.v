(* Types.v -- type descriptors (typedexpr::TypeDesc, typemap::TypeKind/NamedType), the class environment the
   expression layer sees, and lib/src/typeutil.rs (deduce_type, to_concrete_type, pick_type_cast, is_assignable).
   The environment is assumed well-formed (every name resolves): resolution errors are C17's subject. *)
From QV Require Import model.Base.
From Coq Require Import Arith.

Inductive prim := PBool | PDouble | PInt | PQString | PQVariant | PUint | PVoid.
Inductive named := NClass (c : nat) | NEnum (e : nat) | NPrim (p : prim).
Inductive tkind := TJust (n : named) | TPointer (n : named) | TList (t : tkind).
Inductive tdesc := DConstInteger | DConstString | DNullPointer | DEmptyList | DConcrete (t : tkind).

Definition T_BOOL := TJust (NPrim PBool).
Definition T_DOUBLE := TJust (NPrim PDouble).
Definition T_INT := TJust (NPrim PInt).
Definition T_UINT := TJust (NPrim PUint).
Definition T_STRING := TJust (NPrim PQString).
Definition T_VARIANT := TJust (NPrim PQVariant).
Definition T_VOID := TJust (NPrim PVoid).

Definition prim_eqb (a b : prim) : bool :=
  match a, b with
  | PBool, PBool | PDouble, PDouble | PInt, PInt | PQString, PQString | PQVariant, PQVariant | PUint, PUint | PVoid, PVoid => true
  | _, _ => false
  end.
Definition named_eqb (a b : named) : bool :=
  match a, b with
  | NClass x, NClass y => Nat.eqb x y
  | NEnum x, NEnum y => Nat.eqb x y
  | NPrim x, NPrim y => prim_eqb x y
  | _, _ => false
  end.
Fixpoint tkind_eqb (a b : tkind) : bool :=
  match a, b with
  | TJust x, TJust y => named_eqb x y
  | TPointer x, TPointer y => named_eqb x y
  | TList x, TList y => tkind_eqb x y
  | _, _ => false
  end.
Definition tdesc_eqb (a b : tdesc) : bool :=
  match a, b with
  | DConstInteger, DConstInteger | DConstString, DConstString | DNullPointer, DNullPointer | DEmptyList, DEmptyList => true
  | DConcrete x, DConcrete y => tkind_eqb x y
  | _, _ => false
  end.

(* ---- class environment ---- *)
Inductive mkind := MSignal | MSlot | MMethod.
Record minfo := { mi_name : string; mi_kind : mkind; mi_args : list tkind; mi_ret : tkind }.
Record pinfo := { pi_name : string; pi_type : tkind; pi_readable : bool; pi_writable : bool;
                  pi_notify : option string; pi_constant : bool }.
Record einfo := { ei_name : string; ei_class : option nat (* declaring class *); ei_alias : option nat; ei_scoped : bool;
                  ei_flag : bool; ei_variants : list string }.
Record cinfo := { ci_name : string; ci_supers : list nat; ci_is_qobject : bool;
                  ci_props : list pinfo; ci_methods : list minfo (* name-sorted table: signals, slots, methods; stable *);
                  ci_enums : list nat }.
(* the two built-in pseudo classes behind QString and QList<T> values (typemap/primitive.rs) *)
Definition STRING_CLASS : nat := 1000.
Definition LIST_CLASS : nat := 1001.

Record cenv := {
  ce_classes : list cinfo;
  ce_enums : list einfo;
  ce_objects : list (string * nat);           (* object ids -> class *)
  ce_this : option (nat * string) }.          (* class and object name of `this` *)

Definition string_class_info : cinfo :=
  {| ci_name := "QString"; ci_supers := []; ci_is_qobject := false; ci_props := [];
     ci_methods := [ {| mi_name := "arg"; mi_kind := MMethod; mi_args := [T_DOUBLE]; mi_ret := T_STRING |};
                     {| mi_name := "arg"; mi_kind := MMethod; mi_args := [T_INT]; mi_ret := T_STRING |};
                     {| mi_name := "arg"; mi_kind := MMethod; mi_args := [T_STRING]; mi_ret := T_STRING |};
                     {| mi_name := "arg"; mi_kind := MMethod; mi_args := [T_UINT]; mi_ret := T_STRING |};
                     {| mi_name := "isEmpty"; mi_kind := MMethod; mi_args := []; mi_ret := T_BOOL |} ];
     ci_enums := [] |}.
Definition list_class_info : cinfo :=
  {| ci_name := "QList"; ci_supers := []; ci_is_qobject := false; ci_props := [];
     ci_methods := [ {| mi_name := "isEmpty"; mi_kind := MMethod; mi_args := []; mi_ret := T_BOOL |} ];
     ci_enums := [] |}.

Definition get_class (E : cenv) (c : nat) : option cinfo :=
  if Nat.eqb c STRING_CLASS then Some string_class_info
  else if Nat.eqb c LIST_CLASS then Some list_class_info
  else nth_error (ce_classes E) c.
Definition get_enum (E : cenv) (e : nat) : option einfo := nth_error (ce_enums E) e.

(* self followed by the base classes in the order of typemap's BaseClasses walk (BFS, visited set) *)
Fixpoint bases_go (E : cenv) (fuel : nat) (pending : list nat) (visited : list nat) : list nat :=
  match fuel with
  | O => []
  | S k =>
      match pending with
      | [] => []
      | c :: rest =>
          if existsb (Nat.eqb c) visited then bases_go E k rest visited
          else c :: bases_go E k (rest ++ match get_class E c with Some ci => ci_supers ci | None => [] end) (c :: visited)
      end
  end.
Definition self_and_bases (E : cenv) (c : nat) : list nat :=
  c :: bases_go E (S (List.length (ce_classes E)) * S (List.length (ce_classes E)))
              (match get_class E c with Some ci => ci_supers ci | None => [] end) [].

Definition is_derived_from (E : cenv) (c b : nat) : bool := existsb (Nat.eqb b) (self_and_bases E c).

Fixpoint find_map {A B} (f : A -> option B) (l : list A) : option B :=
  match l with [] => None | x :: r => match f x with Some y => Some y | None => find_map f r end end.

(* Class::get_property: (declaring class, info) *)
Definition get_property (E : cenv) (c : nat) (name : string) : option (nat * pinfo) :=
  find_map (fun d => match get_class E d with
                     | Some ci => option_map (fun p => (d, p)) (find (fun p => String.eqb (pi_name p) name) (ci_props ci))
                     | None => None end) (self_and_bases E c).
(* Class::get_public_method: all overloads of that name in the first class that has one *)
Definition get_methods (E : cenv) (c : nat) (name : string) : option (nat * list minfo) :=
  find_map (fun d => match get_class E d with
                     | Some ci => match filter (fun m => String.eqb (mi_name m) name) (ci_methods ci) with
                                  | [] => None | ms => Some (d, ms) end
                     | None => None end) (self_and_bases E c).
(* nested enum by name / by unscoped variant, through the bases *)
Definition class_enum_named (E : cenv) (c : nat) (name : string) : option nat :=
  find_map (fun d => match get_class E d with
                     | Some ci => find (fun e => match get_enum E e with Some ei => String.eqb (ei_name ei) name | None => false end) (rev (ci_enums ci))
                     | None => None end) (self_and_bases E c).
Definition smem (x : string) (l : list string) : bool := existsb (String.eqb x) l.
Definition class_enum_by_variant (E : cenv) (c : nat) (v : string) : option nat :=
  find_map (fun d => match get_class E d with
                     | Some ci => find (fun e => match get_enum E e with Some ei => negb (ei_scoped ei) && smem v (ei_variants ei) | None => false end) (rev (ci_enums ci))
                     | None => None end) (self_and_bases E c).

Fixpoint find_index {A} (f : A -> bool) (l : list A) (i : nat) : option nat :=
  match l with [] => None | x :: r => if f x then Some i else find_index f r (S i) end.
Definition class_by_name (E : cenv) (name : string) : option nat :=
  find_index (fun ci => String.eqb (ci_name ci) name) (ce_classes E) 0.
Definition prim_by_name (name : string) : option prim :=
  if String.eqb name "bool" then Some PBool else if String.eqb name "double" then Some PDouble
  else if String.eqb name "qreal" then Some PDouble else if String.eqb name "int" then Some PInt
  else if String.eqb name "QString" then Some PQString else if String.eqb name "QVariant" then Some PQVariant
  else if String.eqb name "uint" then Some PUint else if String.eqb name "void" then Some PVoid else None.

(* a top-level type name of the document's type space: module classes shadow the builtins *)
Definition type_by_name (E : cenv) (name : string) : option named :=
  match class_by_name E name with
  | Some c => Some (NClass c)
  | None => option_map NPrim (prim_by_name name)
  end.
(* NamedType::get_type: nested type of a class *)
Definition nested_type (E : cenv) (n : named) (name : string) : option named :=
  match n with NClass c => option_map NEnum (class_enum_named E c name) | _ => None end.
(* get_type_scoped: first component in the type space, the remainder as direct children *)
Definition type_by_path (E : cenv) (path : list string) : option named :=
  match path with
  | [] => None
  | h :: t => fold_left (fun acc n => match acc with Some ty => nested_type E ty n | None => None end) t (type_by_name E h)
  end.
(* TypeAnnotationSpace for object contexts: QObject-derived classes are passed by pointer *)
Definition annotated_type (E : cenv) (path : list string) : option tkind :=
  match type_by_path E path with
  | Some (NClass c) => Some (match get_class E c with
                             | Some ci => if ci_is_qobject ci then TPointer (NClass c) else TJust (NClass c)
                             | None => TJust (NClass c) end)
  | Some n => Some (TJust n)
  | None => None
  end.

(* ---- typeutil.rs ---- *)
Definition is_compatible_enum (E : cenv) (l r : nat) : bool :=
  Nat.eqb l r
  || match get_enum E l with Some ei => match ei_alias ei with Some a => Nat.eqb a r | None => false end | None => false end
  || match get_enum E r with Some ei => match ei_alias ei with Some a => Nat.eqb a l | None => false end | None => false end.

Inductive terr := TEIncompatible (l r : tdesc) | TEUndetermined (t : tdesc).

Definition to_concrete_type (t : tdesc) : tkind + terr :=
  match t with
  | DConcrete ty => inl ty
  | DConstInteger => inl T_INT
  | DConstString => inl T_STRING
  | DNullPointer | DEmptyList => inr (TEUndetermined t)
  end.

Definition is_int_or_uint (t : tdesc) : bool := tdesc_eqb t (DConcrete T_INT) || tdesc_eqb t (DConcrete T_UINT).

Definition deduce_type (E : cenv) (left right : tdesc) : tdesc + terr :=
  if tdesc_eqb left right then inl left
  else match left, right with
       | _, DConstInteger => if is_int_or_uint left then inl left else inr (TEIncompatible left right)
       | DConstInteger, _ => if is_int_or_uint right then inl right else inr (TEIncompatible left right)
       | DConcrete (TJust (NPrim PQString)), DConstString => inl left
       | DConstString, DConcrete (TJust (NPrim PQString)) => inl right
       | DConcrete (TJust (NEnum l)), DConcrete (TJust (NEnum r)) =>
           if is_compatible_enum E l r then inl left else inr (TEIncompatible left right)
       | DConcrete (TPointer _), DNullPointer => inl left
       | DNullPointer, DConcrete (TPointer _) => inl right
       | DConcrete (TList _), DEmptyList => inl left
       | DEmptyList, DConcrete (TList _) => inl right
       | _, _ => inr (TEIncompatible left right)
       end.

Definition deduce_concrete_type (E : cenv) (l r : tdesc) : tkind + terr :=
  match deduce_type E l r with inl t => to_concrete_type t | inr e => inr e end.

Inductive cast_kind := CNoop | CImplicit | CStatic | CVariant | CInvalid.

Definition is_numeric (t : tkind) : bool := tkind_eqb t T_DOUBLE || tkind_eqb t T_INT || tkind_eqb t T_UINT.

Definition pick_concrete_type_cast (E : cenv) (expected actual : tkind) : cast_kind :=
  if tkind_eqb expected actual then CNoop
  else match expected, actual with
       | TJust (NEnum e), TJust (NEnum a) =>
           if is_compatible_enum E e a then CImplicit
           else if tkind_eqb expected T_VOID then CStatic else if tkind_eqb actual T_VARIANT then CVariant else CInvalid
       | TPointer (NClass e), TPointer (NClass a) =>
           if is_derived_from E a e then CImplicit else CInvalid
       | _, _ =>
           if is_numeric expected && is_numeric actual then CStatic
           else if (tkind_eqb expected T_INT || tkind_eqb expected T_UINT)
                   && match actual with TJust (NEnum _) => true | _ => false end then CStatic
           else if (tkind_eqb expected T_INT || tkind_eqb expected T_UINT) && tkind_eqb actual T_BOOL then CStatic
           else if tkind_eqb expected T_VOID then CStatic
           else if tkind_eqb actual T_VARIANT then CVariant
           else CInvalid
       end.

Definition pick_type_cast (E : cenv) (expected : tkind) (actual : tdesc) : cast_kind :=
  match actual with
  | DConcrete ty => pick_concrete_type_cast E expected ty
  | DConstInteger => if tkind_eqb expected T_INT || tkind_eqb expected T_UINT then CImplicit
                     else if tkind_eqb expected T_DOUBLE then CStatic
                     else if tkind_eqb expected T_VOID then CStatic else CInvalid
  | DConstString => if tkind_eqb expected T_STRING then CImplicit else if tkind_eqb expected T_VOID then CStatic else CInvalid
  | DNullPointer => match expected with TPointer _ => CImplicit | _ => if tkind_eqb expected T_VOID then CStatic else CInvalid end
  | DEmptyList => match expected with TList _ => CImplicit | _ => if tkind_eqb expected T_VOID then CStatic else CInvalid end
  end.

Definition is_assignable (E : cenv) (expected : tkind) (actual : tdesc) : bool :=
  match pick_type_cast E expected actual with CNoop | CImplicit => true | _ => false end.

Definition tkind_is_pointer (t : tkind) : bool := match t with TPointer _ => true | _ => false end.
Definition tdesc_is_pointer (t : tdesc) : bool :=
  match t with DNullPointer => true | DConcrete k => tkind_is_pointer k | _ => false end.

(* TypeKind::into_class: the class whose properties / methods a value of that type exposes *)
Definition class_of_type (t : tkind) : option nat :=
  match t with
  | TJust (NClass c) | TPointer (NClass c) => Some c
  | TJust (NPrim PQString) | TPointer (NPrim PQString) => Some STRING_CLASS
  | TList _ => Some LIST_CLASS
  | _ => None
  end.
